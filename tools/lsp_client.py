"""Minimal LSP client for `veryl-ls` over stdio (Content-Length framing, JSON-RPC 2.0).
Python 3 standard library only.  Used by checks/c07.py.

What the client relies on (read from /repo/crates/languageserver/src/{backend,server}.rs):
  * text sync is FULL: didChange carries the whole new text (`content_changes[0].text`);
  * didSave / didClose have no handler (tower-lsp default: ignored);
  * workspace/willRenameFiles, workspace/didRenameFiles, workspace/willDeleteFiles are handled;
  * every didOpen inside a project (and a didRenameFiles arriving while no scan is pending) queues
    one background scan; a scan announces itself with window/workDoneProgress/create (a REQUEST the
    client must answer, the server thread blocks on it), `$/progress` Begin, Report*, End; after
    the End of the last queued scan `background_done` flips to true and the server re-runs
    did_change for the most recent didOpen/didChange;
  * all notifications are handled by ONE server thread in arrival order, and requests such as
    workspace/symbol are answered by that same thread, so a request is a barrier: when its
    response arrives every earlier notification has been processed.
"""
import json
import os
import subprocess
import threading
import time
from urllib.parse import quote, unquote


def path_to_uri(p):
    return "file://" + quote(os.path.abspath(p))


def uri_to_path(u):
    assert u.startswith("file://"), u
    return unquote(u[len("file://"):])


class LspError(Exception):
    pass


class LspServer:
    """One veryl-ls process.  `root` is the project directory; `home` receives HOME/XDG_CACHE_HOME."""

    def __init__(self, binary, root, home, stderr_path=None, env=None, progress=True):
        self.binary, self.root, self.home = binary, root, home
        self.progress = progress
        e = dict(env or os.environ)
        e["HOME"] = home
        e["XDG_CACHE_HOME"] = home
        e["NO_COLOR"] = "1"
        e["RUST_BACKTRACE"] = "1"       # panic sites are classified by the function names of the backtrace
        e.pop("RUST_LOG", None)
        os.makedirs(home, exist_ok=True)
        self.stderr_path = stderr_path or os.path.join(home, f"veryl-ls-{id(self):x}.stderr")
        self._stderr = open(self.stderr_path, "wb")
        self.p = subprocess.Popen([binary], cwd=root, env=e, stdin=subprocess.PIPE, stdout=subprocess.PIPE,
                                  stderr=self._stderr)
        self.cv = threading.Condition()
        self.responses = {}            # id -> message
        self.diags = {}                # uri -> list of (version, [diagnostic])   (every publish, in order)
        self.begins = 0
        self.ends = 0
        self.reports = []              # messages of WorkDoneProgress Report (the file name just scanned)
        self.logs = []                 # (type, message)
        self.eof = False
        self.next_id = 1
        self.expected_scans = 0        # scans the client knows it has caused
        self.versions = {}             # uri -> last version sent
        self.sent = []                 # transcript of what was sent (method, short params)
        self.capabilities = None
        self.t = threading.Thread(target=self._reader, daemon=True)
        self.t.start()

    # ---- wire --------------------------------------------------------------------------------
    def _send(self, msg):
        body = json.dumps(msg, separators=(",", ":")).encode()
        try:
            self.p.stdin.write(b"Content-Length: %d\r\n\r\n" % len(body) + body)
            self.p.stdin.flush()
        except (BrokenPipeError, OSError) as ex:
            raise LspError(f"server stdin closed: {ex}")

    def _read_msg(self):
        n = None
        while True:
            line = self.p.stdout.readline()
            if not line:
                return None
            line = line.strip()
            if not line:
                break
            k, _, v = line.partition(b":")
            if k.lower() == b"content-length":
                n = int(v.strip())
        if n is None:
            return None
        data = b""
        while len(data) < n:
            chunk = self.p.stdout.read(n - len(data))
            if not chunk:
                return None
            data += chunk
        return json.loads(data.decode("utf-8"))

    def _reader(self):
        try:
            while True:
                m = self._read_msg()
                if m is None:
                    break
                self._dispatch(m)
        except Exception as ex:  # malformed frame: treat as end of stream
            self.logs.append((0, f"client reader error: {ex}"))
        with self.cv:
            self.eof = True
            self.cv.notify_all()

    def _dispatch(self, m):
        if "method" in m and "id" in m:            # server -> client request
            # window/workDoneProgress/create (and anything else): answer `null`
            self._send({"jsonrpc": "2.0", "id": m["id"], "result": None})
            return
        with self.cv:
            if "method" in m:
                meth, prm = m["method"], m.get("params") or {}
                if meth == "textDocument/publishDiagnostics":
                    self.diags.setdefault(prm["uri"], []).append((prm.get("version"), prm.get("diagnostics", [])))
                elif meth == "$/progress":
                    kind = (prm.get("value") or {}).get("kind")
                    if kind == "begin":
                        self.begins += 1
                    elif kind == "end":
                        self.ends += 1
                    elif kind == "report":
                        self.reports.append((prm.get("value") or {}).get("message"))
                elif meth == "window/logMessage":
                    self.logs.append((prm.get("type"), prm.get("message", "")))
            elif "id" in m:
                self.responses[m["id"]] = m
            self.cv.notify_all()

    def request(self, method, params, timeout=60):
        with self.cv:
            i = self.next_id
            self.next_id += 1
        self._send({"jsonrpc": "2.0", "id": i, "method": method, "params": params})
        end = time.time() + timeout
        with self.cv:
            while i not in self.responses:
                if self.eof:
                    raise LspError(f"server exited while waiting for {method}")
                left = end - time.time()
                if left <= 0:
                    raise LspError(f"timeout waiting for response to {method}")
                self.cv.wait(left)
            return self.responses.pop(i)

    def notify(self, method, params):
        self._send({"jsonrpc": "2.0", "method": method, "params": params})

    # ---- protocol ----------------------------------------------------------------------------
    def initialize(self):
        r = self.request("initialize", {
            "processId": os.getpid(), "rootUri": path_to_uri(self.root),
            "capabilities": {"window": {"workDoneProgress": self.progress},
                             "workspace": {"fileOperations": {"willRename": True, "didRename": True, "willDelete": True}},
                             "textDocument": {"publishDiagnostics": {"relatedInformation": True, "versionSupport": True}}},
            "workspaceFolders": [{"uri": path_to_uri(self.root), "name": "prj"}]})
        self.capabilities = (r.get("result") or {}).get("capabilities", {})
        self.notify("initialized", {})
        return self.capabilities

    def sync_kind(self):
        k = (self.capabilities or {}).get("textDocumentSync")
        return k.get("change") if isinstance(k, dict) else k

    def _ver(self, uri):
        v = self.versions.get(uri, 0) + 1
        self.versions[uri] = v
        return v

    def did_open(self, path, text):
        uri = path_to_uri(path)
        self.expected_scans += 1
        self.sent.append(("didOpen", os.path.relpath(path, self.root)))
        self.notify("textDocument/didOpen", {"textDocument": {"uri": uri, "languageId": "veryl", "version": self._ver(uri),
                                                               "text": text}})

    def did_change(self, path, text):
        uri = path_to_uri(path)
        self.sent.append(("didChange", os.path.relpath(path, self.root)))
        self.notify("textDocument/didChange", {"textDocument": {"uri": uri, "version": self._ver(uri)},
                                                "contentChanges": [{"text": text}]})

    def did_save(self, path):
        self.sent.append(("didSave", os.path.relpath(path, self.root)))
        self.notify("textDocument/didSave", {"textDocument": {"uri": path_to_uri(path)}})

    def did_close(self, path):
        self.sent.append(("didClose", os.path.relpath(path, self.root)))
        self.notify("textDocument/didClose", {"textDocument": {"uri": path_to_uri(path)}})

    def will_rename(self, old, new):
        self.sent.append(("willRenameFiles", os.path.relpath(old, self.root), os.path.relpath(new, self.root)))
        return self.request("workspace/willRenameFiles", {"files": [{"oldUri": path_to_uri(old), "newUri": path_to_uri(new)}]})

    def did_rename(self, old, new, quiescent=True):
        """The server starts a scan only if none is pending (`background_done`)."""
        if quiescent:
            self.expected_scans += 1
        self.sent.append(("didRenameFiles", os.path.relpath(old, self.root), os.path.relpath(new, self.root)))
        self.notify("workspace/didRenameFiles", {"files": [{"oldUri": path_to_uri(old), "newUri": path_to_uri(new)}]})

    def will_delete(self, path):
        self.sent.append(("willDeleteFiles", os.path.relpath(path, self.root)))
        return self.request("workspace/willDeleteFiles", {"files": [{"uri": path_to_uri(path)}]})

    def wait_report(self, name, start, timeout=30):
        """Wait until a scan has reported file `name` (basename) at index >= start of `reports`."""
        end = time.time() + timeout
        with self.cv:
            while name not in self.reports[start:]:
                left = end - time.time()
                if left <= 0 or self.eof:
                    return False
                self.cv.wait(min(left, 0.2))
        return True

    def barrier(self, timeout=60):
        """A request answered by the server thread: returns once every earlier message was handled."""
        return self.request("workspace/symbol", {"query": "\u0001no-such-symbol\u0001"}, timeout=timeout)

    def quiesce(self, timeout=120):
        """Wait until every scan this client caused has reported WorkDoneProgress End, then barrier.
        Returns "ok", "timeout" (scan never finished), or "dead" (process gone)."""
        end = time.time() + timeout
        try:
            self.barrier(timeout=timeout)
            with self.cv:
                while self.ends < self.expected_scans:
                    if self.eof:
                        return "dead"
                    left = end - time.time()
                    if left <= 0:
                        return "timeout"
                    self.cv.wait(min(left, 0.5))
                    if self.ends < self.expected_scans and "panicked at" in self.stderr_text():
                        return "panic"             # the server thread died: no End will ever come
            self.barrier(timeout=max(1.0, end - time.time()))
        except LspError as ex:
            return "dead" if self.eof or self.p.poll() is not None else f"timeout({ex})"
        return "ok"

    # ---- observations ------------------------------------------------------------------------
    def last_diags(self, path):
        h = self.diags.get(path_to_uri(path))
        return h[-1][1] if h else None

    def n_publishes(self, path):
        return len(self.diags.get(path_to_uri(path), []))

    def stderr_text(self):
        try:
            self._stderr.flush()
            with open(self.stderr_path, "rb") as fh:
                return fh.read().decode("utf-8", "replace")
        except OSError:
            return ""

    def panicked(self):
        s = self.stderr_text()
        if "panicked at" in s:                  # let the backtrace finish (it names the functions we classify by)
            for _ in range(20):
                time.sleep(0.1)
                s2 = self.stderr_text()
                if s2 == s and "stack backtrace" in s and s.rstrip().endswith(("verbose backtrace.", "}")) or len(s2) == len(s) and _ > 8:
                    break
                s = s2
        if "panicked at" in s or "stack overflow" in s:
            i = max(0, s.find("panicked at") - 40)
            return s[i:i + 3000]
        for t, m in self.logs:
            if t == 1:                      # MessageType::ERROR: the Backend logs channel errors after the thread died
                return f"logMessage ERROR: {m}"
        return None

    def close(self):
        try:
            if self.p.poll() is None:
                try:
                    self.request("shutdown", None, timeout=5)
                    self.notify("exit", None)
                except LspError:
                    pass
                try:
                    self.p.wait(timeout=3)
                except subprocess.TimeoutExpired:
                    self.p.kill()
                    self.p.wait()
        finally:
            for f in (self.p.stdin, self.p.stdout, self._stderr):
                try:
                    f.close()
                except Exception:
                    pass


def canon_diags(diags, root):
    """Canonical, order-independent form of one publishDiagnostics payload."""
    res = []
    for d in diags or []:
        r = d.get("range", {})
        s, e = r.get("start", {}), r.get("end", {})
        rel = []
        for ri in d.get("relatedInformation") or []:
            loc = ri.get("location", {})
            rr = loc.get("range", {})
            rel.append((os.path.relpath(uri_to_path(loc.get("uri", "file:///")), root),
                        rr.get("start", {}).get("line"), rr.get("start", {}).get("character")))
        code = d.get("code")
        res.append(((s.get("line"), s.get("character"), e.get("line"), e.get("character")),
                    d.get("severity"), str(code) if code is not None else "",
                    (d.get("message") or "").replace(root, "<ROOT>"), tuple(sorted(rel))))
    return sorted(res)


def start_server(binary, root, home, **kw):
    s = LspServer(binary, root, home, **kw)
    s.initialize()
    return s


def scratch_project(base, tag, files, toml_text):
    """Write a project under `base`/`tag`/prj (sources + Veryl.toml) and return (root, home).
    `base` must live under /verif/.cache/scratch/ (nothing under /tmp)."""
    import shutil
    d = os.path.join(base, tag)
    shutil.rmtree(d, ignore_errors=True)
    root, home = os.path.join(d, "prj"), os.path.join(d, "home")
    os.makedirs(root)
    os.makedirs(home)
    with open(os.path.join(root, "Veryl.toml"), "w") as fh:
        fh.write(toml_text)
    for rel, text in files.items():
        p = os.path.join(root, rel)
        os.makedirs(os.path.dirname(p), exist_ok=True)
        with open(p, "w") as fh:
            fh.write(text)
    return root, home
