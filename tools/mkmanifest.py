#!/usr/bin/env python3
"""Writes /verif/MANIFEST.json from the table below (kept valid against /root/.vp/MANIFEST.schema.json)."""
import json
import os

ALL = [f"C{i:02d}" for i in range(1, 37)]

# id -> (category, technique, text, note, design_ref)
CLAIMED = {
 "C29": ("proof", "Lean 4 refinement proof of a hand-written store model + differential correspondence (hx store vs vmodel store) + abstract-map oracle",
         "Theorems over M-Store (all operation sequences) checked by the Lean kernel; the model is tied to crates/cache by replaying random operation sequences through the real Store and the model and by regenerating SCHEMA_VERSION/BLOB_MAGIC from source.",
         "Trusted: Lean kernel, BLAKE3 as injective naming, toml round-trip, atomic_write success, harness + check scripts.",
         "DESIGN.md §4 C29"),
 "C04": ("proof", "Lean 4 proof over a model of Incremental::open/save with an opaque analyzer (miss-set superset, incremental = clean for every edit history, diagnostics replay/dedup) + correspondence (model predicts the restore count of every warm CLI run) + fresh-cache oracle on generated edit histories",
         "Theorems (all project states, all histories) about the cache protocol are kernel-checked; the analyzer is opaque in the model, so its recorded dependency relation is validated by the CLI differential (warm vs fresh-cache run after every step), not verified.",
         "Trusted: Lean kernel; hypotheses DepSound/NoDeletedDep about the analyzer; BLAKE3, toml, file mtimes; tools/proj.py generator and diagnostics canonicaliser.",
         "DESIGN.md §4 C04"),
 "C12": ("proof", "Lean 4 proof about a model of split_comment_token / end_line / end_column over code-point lists + correspondence (hx tokens vs vmodel tokens) + independent sequential-scan oracle on every token of generated sources",
         "Position theorems hold for every comment run and every token text (no length bound); the lexer's own positions (parol/scnr2) are trusted and validated per token by the oracle.",
         "Trusted: Lean kernel; parol/scnr2 token positions; regex crate = hand-written scanner (tested against the real regex).",
         "DESIGN.md §4 C12"),
 "C23": ("proof", "Lean 4 proof about a model of the migrator's token re-emission (push_token, walker filter) + correspondence (model predicts the migrated text) + oracle (output parses; token/comment streams equal minus the removed annotations)",
         "Content/position theorems for every token list; old parser and old walk order are trusted; three recorded findings (annotation comments dropped, string escapes, `mixin` keyword) are keyed by verified signature.",
         "Trusted: Lean kernel; the previous-grammar parser; tools/gen.py extraction of Migrator::migratable.",
         "DESIGN.md §4 C23"),
 "C28": ("proof", "Lean 4 proof about a character-for-character model of the Wadler renderer (termination, content in order, break-only text, anchor positions, anchor order) + correspondence (hx pretty vs vmodel pretty on random Docs and on the real formatter/emitter Docs captured by the Doc tap hook) + property oracle on the real output",
         "All Doc trees × RenderOpts by structural/measure induction; false full statements (anchor after removed trailing pads, fits_flat with pending indent) kept as proved negations next to the partial theorems that hold.",
         "Trusted: Lean kernel; Rust str::split/trim/matches semantics; integer overflow of counters not modelled; harness oracle.",
         "DESIGN.md §4 C28"),
 "C06": ("proof", "Lean 4 proof about a model of the fragment id codec (IdWindow/IdRebase, sentinel, dictionaries) and of `canon` (renumbering ids by first occurrence) + correspondence (hx fragment codec requests vs vmodel fragment) + oracle: fresh analysis vs capture→restore at shifted ids, compared on canonicalised table dumps, later diagnostics and emitted SV",
         "Codec bijection/refusal/sentinel/dictionary theorems and canon-invariance hold for all ids, windows and interning states; which fields carry ids is serde-derive and is validated by the dumps, not verified.",
         "Trusted: Lean kernel; postcard; BiMap semantics; the harness's dump canonicaliser (tied to the Lean `canon` on every run).",
         "DESIGN.md §4 C06"),
 "C10": ("proof", "Lean 4 proof of termination and depth bound of the LL(k) stack machine for every grammar carrying a nullable/rank certificate; certificate for the 1179-production table regenerated from veryl_parser.rs and checked by `decide +kernel` on every run + correspondence (real production trace vs Lean deterministic machine; table dump vs Gen) + runtime search (malformed inputs, nesting towers, both stack sizes, child processes)",
         "Termination/depth theorems are unbounded in input length and choices; lexer, AST construction/Drop and native stack use are runtime behaviour covered only by the runs.",
         "Trusted: Lean kernel; tools/gen_grammar.py; parol_runtime 5.0 loop as read from the registry source; scnr2.",
         "DESIGN.md §4 C10"),
 "C14": ("proof", "Lean 4 proof that the detector's atomic-range/SSA abstraction has a cycle iff the bit-level dependency graph has one (flat modules), soundness through instances, negated exactness through instances with partial theorem + correspondence (hx combloop vs vmodel combloop) + independent bit-level reference oracle",
         "All widths/variables/statements/nesting for the modelled language (assign, always_comb with if/else and reassignment, one instance level); functions, arrays, structs, arithmetic bit transfer are exercised only as opaque/not modelled.",
         "Trusted: Lean kernel; harness reference implementation (cross-checked against the Lean reference).",
         "DESIGN.md §4 C14"),
 "C15": ("proof", "Lean 4 proof about the AssignTable mask algebra vs a path-enumeration reference (multiple assignment, uncovered branch, unassigned) with negated full statements and partial theorems + correspondence (hx assign vs vmodel assign) + Lean/Rust reference oracle",
         "Exactness theorems for every design of the modelled statement language; six recorded deviations of the analyzer keyed by verified signature.",
         "Trusted: Lean kernel; the converter's lowering of for/switch/else-if (validated by the differential).",
         "DESIGN.md §4 C15"),
 "C16": ("proof", "Lean 4 proof about the clock-domain lattice (compatible/merge), expression propagation and assignment/connection checks; explicit≡inferred relabelling theorem; negated statements with witnesses + correspondence (hx cdc vs vmodel cdc) + declared-crossing oracle",
         "All expression shapes/depths and statement nestings of the modelled language; domain inference order and block-local variables are recorded findings.",
         "Trusted: Lean kernel; where a declaration's domain comes from and the converter's visiting order are taken from the implementation.",
         "DESIGN.md §4 C16"),
 "C24": ("proof", "Lean 4 proof that symbol registration is permutation-invariant for key-disjoint files and that canon-invariant outputs do not depend on the ids an order induces + correspondence (hx order reg vs vmodel order) + oracle: all/random permutations of pass-1 order and two processes give identical SV, maps and diagnostics",
         "Theorem for every file list permutation; pass 2/emitter reading symbols only through (namespace,name) lookups is validated by the permutation runs.",
         "Trusted: Lean kernel; DefineContext exclusivity abstracted; HashMap-order effects observed by running two processes.",
         "DESIGN.md §4 C24"),
 "C25": ("proof", "Lean 4 proof about the path mapping (injectivity per source dir/target kind) and the filelist sort (listed once, membership iff) with negated statements (bundle/multi-source collision, completeness, multi-component order) + correspondence (hx paths, model sortFilelist reproduces the CLI filelist from the real type dag) + oracle on generated projects built by the CLI",
         "Theorems for all path sets/graphs; five recorded findings keyed by verified signature.",
         "Trusted: Lean kernel; python project generator (known reference graph).",
         "DESIGN.md §4 C25"),
 "C27": ("proof", "Lean 4 proof of the per-file decision logic of fmt/build check vs write modes (fmt_check_iff; build ⇐ direction and exact partial characterisation; negated full iff with witnesses) + correspondence (model vs CLI on generated project states) + oracle: `--check` exit status vs files the write mode changes on a copy",
         "fmt: full iff; build: full iff is false (maps, filelist, std), recorded as findings.",
         "Trusted: Lean kernel; CLI observed only through exit status and file hashes.",
         "DESIGN.md §4 C27"),
 "C31": ("proof", "Lean 4 proof about version resolution, lock generation (distinct names for every order), update (modified iff uuid sets differ, idempotent after new), save/load round-trip; negated order-invariance and second-update statements with witnesses + correspondence (hx resolve on path deps and local git repos vs vmodel resolve, model run with the HashMap order the implementation used) + oracle",
         "All dependency graphs/release histories in the model (matching is an arbitrary predicate); semver, uuid v5, toml trusted.",
         "Trusted: Lean kernel; git CLI on local repositories only (no network).",
         "DESIGN.md §4 C31"),
 "C32": ("proof", "Lean 4 proof of range_in_bounds for every width/signedness/bounds and any sampler honouring its contract, FNV-1a seed derivation with constants regenerated from source, stream reproducibility, schedule invariance of the report multiset + correspondence (hx random vs vmodel random with a replica Pcg64) + oracle",
         "Scheduling theorem is over an abstract worker pool under the hypothesis that a report is a function of (seed, test); the CLI-level run under different CPU counts is not yet part of the check.",
         "Trusted: Lean kernel; rand/rand_pcg sampler contract; tools/gen.py (FNV constants).",
         "DESIGN.md §4 C32"),
 "C35": ("proof", "Lean 4 proof of word marshalling round-trips at every width (value↔words, mask words, little-endian linear memory), pre-edge input staging and output visibility over the modelled step order; negated native≡wasm statement (null mask pointer) + correspondence (hx words/comp with a native echo component on all engine configs) + oracle",
         "The wasm transport cannot be run here (no wasm32 target): the native/wasm divergence is proved on the model and found by reading, not replayed.",
         "Trusted: Lean kernel; CompTiming is an abstraction tied to the simulator only by the comp domain.",
         "DESIGN.md §4 C35"),
 "C36": ("proof", "Lean 4 proof of the svLogicVecVal encoding (Annex H table per bit, padding, both representations) and round-trips for every width, VCD bit order + correspondence (hx svlv/cosim vs vmodel svlv, real libveryl_cosim via dlopen) + oracle; dumps: every VCD value vs Simulator::get_var on generated designs under all engine configurations",
         "Encoding theorems unbounded in width; waveform half is validated (parsed VCD vs simulator state), the vcd/fst writers are trusted.",
         "Trusted: Lean kernel; num-bigint digit functions; vcd crate.",
         "DESIGN.md §4 C36"),
 "C17": ("proof", "Lean 4 proofs, one family per operator (U64 arm = BigUint arm = IEEE 1800 reference, no width bound), of a line-by-line checked-arithmetic model of Op::eval_value_* and Value::{expand,trunc,select,concat,assign}; negation witnesses + partial theorems for the recorded IEEE deviations + correspondence (hx value vs vmodel value; exhaustive ≤ 3/4-bit 4-state, boundary-biased random) + oracle (vmodel valueref, cross-checked against value.rs's own unit-test vectors)",
         "110 theorems; every operator the constant folder implements is covered end to end; nine recorded deviations (Eq/Ne/LogicAnd with X, Pow corners, out-of-range select, wide assign) keyed by verified signature with replayed witnesses.",
         "Trusted: Lean kernel; num-bigint = Nat/Int arithmetic; my transcription of IEEE 1800-2017 §11.4 (Ref), cross-checked against 550 unit-test vectors of value.rs.",
         "DESIGN.md §4 C17"),
 "C05": ("proof", "Lean 4 proofs over a step-list model of a build's filesystem writes (crash = prefix; damage = arbitrary bytes/deletion): atomically written files are whole in every prefix, damaged manifest/blob is the original or a miss (decoder hypothesis explicit), negated recovery statements with concrete histories, recovery proved for the repaired staleness policy + correspondence (strace event word of real runs = model step list) + fault enumeration (SIGKILL at every write/rename/openat of the project dir via strace inject; truncation/bit-flip/garbage/delete of every .build file) with clean-build oracle",
         "Crash-prefix and damage theorems for all plans/byte strings; six recorded findings (in-place outputs, map ignored by dst_is_stale, unverified blob payload, dropped diagnostics blob) keyed by verified signature; `veryl test` crash points are not enumerated.",
         "Trusted: Lean kernel; strace injection semantics; toml/BLAKE3; analyzer and fragment codec opaque (C04 hypotheses).",
         "DESIGN.md §4 C05"),
 "C08": ("proof", "Lean 4 proof about an exact model of the aligner state machine (merge laws, padding = max − width, stability of groups/paddings under line moves that keep gap classes) and the reduction `same Doc ⇒ idempotent`; negated position-independence on the real recorded trace of the witness + correspondence (Lean aligner vs real Aligner on random call sequences and on the real formatter's recorded calls; Lean render of the real Docs) + oracle format(format s) = format s over testcases × token-gap mutants × option sets",
         "Engines (aligner, renderer) proved; the 4 800-line formatter walker is validated through its real Docs and aligner calls. Non-idempotence of the unchanged tree (aligner groups cut by source-line gaps, incl. a period-2 oscillation) is recorded by three verified signatures.",
         "Trusted: Lean kernel; the shim crate that records aligner calls (tied per case: byte-identical output, pads = additions).",
         "DESIGN.md §4 C08"),
 "C09": ("proof", "Lean 4 corollaries of the renderer theorems for formatter Docs (content preserved, only trailing whitespace trimmed, IfBreak texts are only `,` under a decidable side condition evaluated on every real Doc) + oracle: token/comment streams of original vs formatted, re-parse, emitted SV of both equal modulo layout",
         "Renderer part proved for all Docs; walker validated on testcases × mutants × options.",
         "Trusted: Lean kernel; TokenCollector; mini SV lexer of the harness.",
         "DESIGN.md §4 C09"),
 "C13": ("proof", "Lean 4 proof: anchors sorted, anchors true (partial: non-empty text, no truncation), 1-based invariant, SourceMap::add shift without underflow + correspondence (Lean anchors of the real emitter Docs vs decoded .sv.map entries) + oracle on both sides of every entry under layout option variants",
         "Renderer/sourcemap-add part proved; emitter walker validated; blank-anchor finding shared with C28.",
         "Trusted: Lean kernel; `sourcemap` crate encoder/decoder.",
         "DESIGN.md §4 C13"),
 "C26": ("proof", "Lean 4 proof: non-whitespace stream independent of widths/indent/newline for emitter Docs (side condition checked on every real Doc), newline_style replaces exactly line terminators, strip_comments removes exactly comment leaves, `inside` expansion equivalence (partial) + oracle: SV token streams equal under all option combinations",
         "Renderer-level invariance proved; `inside` expansion proved for in-range bounds with a negated corner; emitter walker validated.",
         "Trusted: Lean kernel; mini SV lexer; token-stream equality stands in for behavioural equality.",
         "DESIGN.md §4 C26"),
 "C19": ("proof", "Lean 4 proofs of the rewrite rules the converter relies on (Kogge–Stone/Sklansky = ripple carry at every width, tree re-association over any permutation, constant propagation over a line-by-line model of worklist::simplify for all 22 cell kinds with tables regenerated from source, fusion tables, mux rewrites, counter rebuild) + translation validation per netlist: the REAL netlist is serialised and evaluated by the Lean netlist semantics (and an independent Rust evaluator) against the 2-state interpreter on random stimuli, for 4 libraries and extreme RamConfig thresholds",
         "The converter itself is validated per netlist, not verified; the rules are proved. Eight recorded defect classes of the synthesizer (blocking semantics in always_ff, '1 reset value, context width/signedness of operands, >>> fill, wide ternary condition, constant folding) keyed by verified signature (shrunk expression still fails and its rewritten twin agrees).",
         "Trusted: Lean kernel; netlist meaning (settle/clockEdge) is my definition, cross-checked with an independent evaluator; tools/gen.py cell/fuse tables; 2-state interpreter as RTL reference.",
         "DESIGN.md §4 C19"),
 "C20": ("proof", "Lean 4 proofs: decidable well-formedness (one driver per used net, in-range ids, arity from the regenerated cell table, acyclic by rank certificate) means what it says; the `while changed` timing sweep as coded terminates and computes longest path depth / maximal arrival (declarative PathTo/IsLongest spec); area report = exact sums; negated `reported depth = longest path` with witness and partial theorem + correspondence (wf, compute_area, compute_timing of every real netlist vs model, exact naturals in 1e-9 units) + independent wf oracle",
         "All netlists/libraries in the model; f64 sums compared with relative tolerance 1e-9; one recorded finding (reported depth is the depth at the max-arrival endpoint).",
         "Trusted: Lean kernel; tools/gen.py (cell kinds, library numbers); log2-based SRAM access delay passed per block.",
         "DESIGN.md §4 C20"),
 "C33": ("proof", "Lean 4 proofs: any swap schedule between two ≈-agreeing, ≈-congruent step functions yields a ≈-equal run (trace induction); the same at the code's dispatch granularity (settle_comb / event statements / comb_dirty) for every gate except the first-settle gap, which is characterised exactly and negated on a concrete machine; constant cone evaluated once ≡ every settle + oracle: deterministic hand-over at every dispatch attempt k (hook verif_swap::set_ready_at) in child processes vs synchronous C, JIT and interpreter runs",
         "Schedules unbounded; the Hyp obligations about a design's two engines are checked per design (k=0 vs never vs references), not proved of the C emitter; one recorded finding (first-settle gap, k = 1).",
         "Trusted: Lean kernel; hook H1 (8782ed3); cc; the hand model of settle_comb's dispatch order.",
         "DESIGN.md §4 C33"),
 "C34": ("proof", "Lean 4 proofs: cache hit = miss for every test sequence under one analyzer IR (negated across IRs), relocation of a base-relative confined chunk commutes with shifting memory (negated with an aliased operand), recurring-set computation is order independent and matches its spec, first-seer fallback order dependent (negation) + oracle: every test alone vs in several orders through one ProtoModuleCache / DUT reuse with and without the recurring set, and CLI `veryl test` with VERYL_DUT_REUSE=1 vs 0",
         "All sequences/hierarchies in the model; walker transcription by hand; traces compared per test on generated suites sharing submodules with different parameters and layouts.",
         "Trusted: Lean kernel; one-body-per-component hierarchy model; VERYL_COMB_LAYOUT=0 for offset predictions.",
         "DESIGN.md §4 C34"),
 "C21": ("proof", "Lean 4 proofs: NPN canonicalisation spec for every 4-input table by a generic fold-minimum lemma over the 768 transforms (permutation table regenerated from npn4.rs; group closure; class invariance), pattern transformation and library-entry spec, soundness of mk_and / cut replacement / the whole rewrite pass / lower_cell for all cell kinds / tech-map templates + correspondence (hxaig npn exhaustive over all 65536 tables, library dump re-evaluated in Lean, real rewrite reproduced node for node) + oracle (independent union-find class minima; sink functions before/after rewrite+techmap by exhaustive/random vectors)",
         "20 full-strength theorems; the feature did not compile on the pinned tree (repaired, 3bc2a0b); two recorded findings: the AIG round trip deletes logic on FF control pins and on RAM pins.",
         "Trusted: Lean kernel; tools/gen.py (tables, lower_cell translator); hash-cons/net_edge functional; pattern library is a model input dumped from the running process.",
         "DESIGN.md §4 C21"),
 "C07": ("proof", "Lean 4 proof over a table-state model of the language server (drop_file removes by file tag; every non-leaky table is a function of the final buffers for every notification history) with the table list and drop set REGENERATED from the analyzer/parser sources (`tables_classified` by decide: a new thread_local table or a table removed from drop_file breaks it); negated statement for leaky tables with witnesses + oracle: real veryl-ls driven over stdio through generated notification histories vs a fresh server on the final buffers",
         "28 of 44 global tables are proved state-free of history under their recorded class; 16 leaky tables: 4 observable (recorded findings with replayed histories), 12 argued unobservable; per-table classes are assumptions with reason strings.",
         "Trusted: Lean kernel; tools/gen.py table extraction; tools/lsp_client.py; the class assigned to each table.",
         "DESIGN.md §4 C07"),
 "C30": ("proof", "Lean 4 proofs over an interleaving semantics of filesystem steps (lock-bracketed commands serialise; atomically replaced files are only ever read absent/complete; try_open never blocks; dependency checkout safe) with negated statements and schedules for the std-expansion and resolve races + correspondence by trace inclusion (strace of real veryl/veryl-ls runs abstracted to model events and accepted by vmodel fs; negative controls) + concurrent-run oracle vs serial twin and clean build",
         "All interleavings of the modelled step programs; flock/rename atomicity and whole-file reads are trusted OS behaviour; two recorded races keyed by verified signature.",
         "Trusted: Lean kernel; strace and the path classifier in tools/strace_fs.py; OS flock/rename semantics.",
         "DESIGN.md §4 C30"),
}

HOLD = set()      # built but waiting for a green run on the current tree (seed-robustness)

PENDING_REASON = "not claimed yet: check under construction (see DESIGN.md §6 order of construction)"


def main():
    checks = []
    for pid in ALL:
        if pid not in CLAIMED or pid in HOLD:
            continue
        cat, tech, text, note, ref = CLAIMED[pid]
        checks.append({
            "property_id": pid,
            "quick_cmd": f"./check {pid} --tier quick",
            "thorough_cmd": f"./check {pid} --tier thorough",
            "evidence_file": f"/verif/evidence/{pid}.json",
            "replay_cmd_template": f"./check {pid} --replay {{path}}",
            "engine": "lean4+hx",
            "level_claimed": {"category": cat, "text": text, "design_ref": ref},
            "level_note": note,
            "technique": tech,
        })
    m = {
        "version": 1,
        "setup_cmd": "./setup.sh",
        "hooks": {
            "guard": "--cfg veryl_verif",
            "enable": "RUSTFLAGS='--cfg veryl_verif' (set in /verif/harness/.cargo/config.toml and by tools/vlib.py for the CLI build)",
            "baseline_off_cmd": "cd /repo && cargo test --workspace --no-fail-fast --offline",
            "source_commits": ["d4e706f", "8782ed3"],
            "add_only": True,
        },
        "engines": [
            {"name": "lean4+hx", "path": "/verif/lean, /verif/harness, /verif/tools",
             "serves_properties": sorted(set(CLAIMED) - HOLD),
             "kind_free_text": "Lean 4 models + theorems (lake project VerylModel, driver vmodel), Rust differential harness hx with path deps on /repo/crates, python check driver"},
        ],
        "checks": checks,
        "not_applicable": [{"property_id": p, "reason": PENDING_REASON} for p in ALL if p not in CLAIMED or p in HOLD],
        "notes": "See DESIGN.md. Every check rebuilds the harness/CLI from /repo's working tree, regenerates lean/VerylModel/Gen/*, rebuilds and audits the Lean theorems, then runs the correspondence and oracle comparison.",
    }
    with open("/verif/MANIFEST.json", "w") as fh:
        json.dump(m, fh, indent=1)
        fh.write("\n")


if __name__ == "__main__":
    main()
