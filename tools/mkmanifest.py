#!/usr/bin/env python3
"""Writes /verif/MANIFEST.json from the table below (kept valid against /root/.vp/MANIFEST.schema.json)."""
import json
import os

ALL = [f"C{i:02d}" for i in range(1, 37)]

# id -> (category, technique, text, note, design_ref)
CLAIMED = {
 "C29": ("proof", "Lean 4 refinement proof of a hand-written store model + differential correspondence (hx store vs vmodel store) + abstract-map oracle",
         "Theorems over M-Store (all operation sequences) checked by the Lean kernel; the model is tied to crates/cache by replaying random operation sequences through the real Store and the model and by regenerating SCHEMA_VERSION/BLOB_MAGIC from source.",
         "Trusted: Lean kernel, BLAKE3 as injective naming, toml round-trip, atomic_write success, harness + check scripts.",
         "DESIGN.md §4 C29"),
}

PENDING_REASON = "not claimed yet: check under construction (see DESIGN.md §6 order of construction)"


def main():
    checks = []
    for pid in ALL:
        if pid not in CLAIMED:
            continue
        cat, tech, text, note, ref = CLAIMED[pid]
        checks.append({
            "property_id": pid,
            "quick_cmd": f"./check {pid} --tier quick",
            "thorough_cmd": f"./check {pid} --tier thorough",
            "evidence_file": f"/verif/evidence/{pid}.json",
            "replay_cmd_template": f"./check {pid} --replay {{path}}",
            "engine": "lean4+hx",
            "level_claimed": {"category": cat, "text": text, "design_ref": ref},
            "level_note": note,
            "technique": tech,
        })
    m = {
        "version": 1,
        "setup_cmd": "./setup.sh",
        "hooks": {
            "guard": "--cfg veryl_verif",
            "enable": "RUSTFLAGS='--cfg veryl_verif' (set in /verif/harness/.cargo/config.toml and by tools/vlib.py for the CLI build)",
            "baseline_off_cmd": "cd /repo && cargo test --workspace --no-fail-fast --offline",
            "source_commits": [],
            "add_only": True,
        },
        "engines": [
            {"name": "lean4+hx", "path": "/verif/lean, /verif/harness, /verif/tools",
             "serves_properties": sorted(CLAIMED),
             "kind_free_text": "Lean 4 models + theorems (lake project VerylModel, driver vmodel), Rust differential harness hx with path deps on /repo/crates, python check driver"},
        ],
        "checks": checks,
        "not_applicable": [{"property_id": p, "reason": PENDING_REASON} for p in ALL if p not in CLAIMED],
        "notes": "See DESIGN.md. Every check rebuilds the harness/CLI from /repo's working tree, regenerates lean/VerylModel/Gen/*, rebuilds and audits the Lean theorems, then runs the correspondence and oracle comparison.",
    }
    with open("/verif/MANIFEST.json", "w") as fh:
        json.dump(m, fh, indent=1)
        fh.write("\n")


if __name__ == "__main__":
    main()
