#!/usr/bin/env python3
"""Writes /verif/MANIFEST.json from the table below (kept valid against /root/.vp/MANIFEST.schema.json)."""
import json
import os

ALL = [f"C{i:02d}" for i in range(1, 37)]

# id -> (category, technique, text, note, design_ref)
CLAIMED = {
 "C29": ("proof", "Lean 4 refinement proof of a hand-written store model + differential correspondence (hx store vs vmodel store) + abstract-map oracle",
         "Theorems over M-Store (all operation sequences) checked by the Lean kernel; the model is tied to crates/cache by replaying random operation sequences through the real Store and the model and by regenerating SCHEMA_VERSION/BLOB_MAGIC from source.",
         "Trusted: Lean kernel, BLAKE3 as injective naming, toml round-trip, atomic_write success, harness + check scripts.",
         "DESIGN.md §4 C29"),
 "C04": ("proof", "Lean 4 proof over a model of Incremental::open/save with an opaque analyzer (miss-set superset, incremental = clean for every edit history, diagnostics replay/dedup) + correspondence (model predicts the restore count of every warm CLI run) + fresh-cache oracle on generated edit histories",
         "Theorems (all project states, all histories) about the cache protocol are kernel-checked; the analyzer is opaque in the model, so its recorded dependency relation is validated by the CLI differential (warm vs fresh-cache run after every step), not verified.",
         "Trusted: Lean kernel; hypotheses DepSound/NoDeletedDep about the analyzer; BLAKE3, toml, file mtimes; tools/proj.py generator and diagnostics canonicaliser.",
         "DESIGN.md §4 C04"),
 "C12": ("proof", "Lean 4 proof about a model of split_comment_token / end_line / end_column over code-point lists + correspondence (hx tokens vs vmodel tokens) + independent sequential-scan oracle on every token of generated sources",
         "Position theorems hold for every comment run and every token text (no length bound); the lexer's own positions (parol/scnr2) are trusted and validated per token by the oracle.",
         "Trusted: Lean kernel; parol/scnr2 token positions; regex crate = hand-written scanner (tested against the real regex).",
         "DESIGN.md §4 C12"),
 "C23": ("proof", "Lean 4 proof about a model of the migrator's token re-emission (push_token, walker filter) + correspondence (model predicts the migrated text) + oracle (output parses; token/comment streams equal minus the removed annotations)",
         "Content/position theorems for every token list; old parser and old walk order are trusted; three recorded findings (annotation comments dropped, string escapes, `mixin` keyword) are keyed by verified signature.",
         "Trusted: Lean kernel; the previous-grammar parser; tools/gen.py extraction of Migrator::migratable.",
         "DESIGN.md §4 C23"),
 "C28": ("proof", "Lean 4 proof about a character-for-character model of the Wadler renderer (termination, content in order, break-only text, anchor positions, anchor order) + correspondence (hx pretty vs vmodel pretty on random Docs and on the real formatter/emitter Docs captured by the Doc tap hook) + property oracle on the real output",
         "All Doc trees × RenderOpts by structural/measure induction; false full statements (anchor after removed trailing pads, fits_flat with pending indent) kept as proved negations next to the partial theorems that hold.",
         "Trusted: Lean kernel; Rust str::split/trim/matches semantics; integer overflow of counters not modelled; harness oracle.",
         "DESIGN.md §4 C28"),
}

HOLD = {"C23"}      # built, waiting for a green run on the current tree

PENDING_REASON = "not claimed yet: check under construction (see DESIGN.md §6 order of construction)"


def main():
    checks = []
    for pid in ALL:
        if pid not in CLAIMED or pid in HOLD:
            continue
        cat, tech, text, note, ref = CLAIMED[pid]
        checks.append({
            "property_id": pid,
            "quick_cmd": f"./check {pid} --tier quick",
            "thorough_cmd": f"./check {pid} --tier thorough",
            "evidence_file": f"/verif/evidence/{pid}.json",
            "replay_cmd_template": f"./check {pid} --replay {{path}}",
            "engine": "lean4+hx",
            "level_claimed": {"category": cat, "text": text, "design_ref": ref},
            "level_note": note,
            "technique": tech,
        })
    m = {
        "version": 1,
        "setup_cmd": "./setup.sh",
        "hooks": {
            "guard": "--cfg veryl_verif",
            "enable": "RUSTFLAGS='--cfg veryl_verif' (set in /verif/harness/.cargo/config.toml and by tools/vlib.py for the CLI build)",
            "baseline_off_cmd": "cd /repo && cargo test --workspace --no-fail-fast --offline",
            "source_commits": ["d4e706f", "8782ed3"],
            "add_only": True,
        },
        "engines": [
            {"name": "lean4+hx", "path": "/verif/lean, /verif/harness, /verif/tools",
             "serves_properties": sorted(set(CLAIMED) - HOLD),
             "kind_free_text": "Lean 4 models + theorems (lake project VerylModel, driver vmodel), Rust differential harness hx with path deps on /repo/crates, python check driver"},
        ],
        "checks": checks,
        "not_applicable": [{"property_id": p, "reason": PENDING_REASON} for p in ALL if p not in CLAIMED or p in HOLD],
        "notes": "See DESIGN.md. Every check rebuilds the harness/CLI from /repo's working tree, regenerates lean/VerylModel/Gen/*, rebuilds and audits the Lean theorems, then runs the correspondence and oracle comparison.",
    }
    with open("/verif/MANIFEST.json", "w") as fh:
        json.dump(m, fh, indent=1)
        fh.write("\n")


if __name__ == "__main__":
    main()
