"""Translator for C10: /repo/crates/parser/src/generated/veryl_parser.rs  ->  lean/VerylModel/Gen/Grammar.lean
(+ /verif/.cache/grammar.json for the harness generator and the check).

Extracted: PRODUCTIONS (lhs, right-hand side put back into SOURCE order -- the table stores it reversed --,
is_push_production), the number of terminals / non-terminals, the start symbol, MAX_K, the value passed to
`set_max_parsing_depth` (cross-checked against MAX_PARSING_DEPTH of build.rs), the lookahead automata (JSON only).
Computed certificates: the nullable set S (least fixed point) and a rank on non-terminals (longest path in
the left-corner graph through nullable prefixes).  If the grammar is left-recursive the rank is whatever the
bounded relaxation reached: the file is still emitted and it is theorem `cert_ok` that fails, not this script."""
import json
import os
import re
import sys

from vlib import REPO, LEAN, CACHE, write_if_changed

PARSER_RS = "crates/parser/src/generated/veryl_parser.rs"
BUILD_RS = "crates/parser/build.rs"
JSON_OUT = f"{CACHE}/grammar.json"


def _section(src, start_pat, what):
    m = re.search(start_pat, src)
    if not m:
        raise RuntimeError(f"gen_grammar: cannot find {what}")
    end = src.index("\n];", m.end())
    return m, src[m.end():end]


def extract(src=None, build_src=None):
    if src is None:
        with open(f"{REPO}/{PARSER_RS}") as fh:
            src = fh.read()
    if build_src is None:
        with open(f"{REPO}/{BUILD_RS}") as fh:
            build_src = fh.read()
    m, body = _section(src, r"pub const TERMINAL_NAMES: &\[&str; (\d+)\] = &\[", "TERMINAL_NAMES")
    n_term = int(m.group(1))
    terminals = re.findall(r'/\*\s*\d+\s*\*/\s*"((?:[^"\\]|\\.)*)"', body)
    m, body = _section(src, r"pub const NON_TERMINALS: &\[&str; (\d+)\] = &\[", "NON_TERMINALS")
    n_nt = int(m.group(1))
    nts = re.findall(r'/\*\s*\d+\s*\*/\s*"((?:[^"\\]|\\.)*)"', body)
    if len(terminals) != n_term or len(nts) != n_nt:
        raise RuntimeError(f"gen_grammar: name tables inconsistent ({len(terminals)}/{n_term}, {len(nts)}/{n_nt})")

    m, body = _section(src, r"pub const PRODUCTIONS: &\[Production; (\d+)\] = &\[", "PRODUCTIONS")
    n_prod = int(m.group(1))
    prods = []
    for pm in re.finditer(r"Production\s*\{\s*lhs:\s*(\d+),\s*production:\s*&\[(.*?)\],\s*is_push_production:\s*(true|false),?\s*\}",
                          body, flags=re.S):
        syms = re.findall(r"ParseType::([NT])\((\d+)\)", pm.group(2))
        if len(syms) != len([x for x in pm.group(2).split("ParseType::") if x.strip()]):
            raise RuntimeError("gen_grammar: unknown ParseType in a production")
        rhs = [(k.lower(), int(v)) for k, v in syms]
        rhs.reverse()                                   # table stores the RHS reversed
        prods.append({"lhs": int(pm.group(1)), "rhs": rhs, "push": pm.group(3) == "true"})
    if len(prods) != n_prod:
        raise RuntimeError(f"gen_grammar: parsed {len(prods)} productions, header says {n_prod}")

    m, body = _section(src, r"pub const LOOKAHEAD_AUTOMATA: &\[LookaheadDFA; (\d+)\] = &\[", "LOOKAHEAD_AUTOMATA")
    dfas = []
    for dm in re.finditer(r"LookaheadDFA\s*\{\s*prod0:\s*(-?\d+),\s*transitions:\s*&\[(.*?)\],\s*k:\s*(\d+),?\s*\}", body, flags=re.S):
        tr = [[int(x) for x in t] for t in re.findall(r"Trans\((\d+),\s*(\d+),\s*(\d+),\s*(-?\d+)\)", dm.group(2))]
        dfas.append({"prod0": int(dm.group(1)), "k": int(dm.group(3)), "trans": tr})
    if len(dfas) != int(m.group(1)) or len(dfas) != n_nt:
        raise RuntimeError(f"gen_grammar: parsed {len(dfas)} automata for {n_nt} non-terminals")

    cap = int(re.search(r"set_max_parsing_depth\((\d+)\)", src).group(1))
    bm = re.search(r"const MAX_PARSING_DEPTH: usize = (\d+);", build_src)
    cap_build = int(bm.group(1)) if bm else None
    start = int(re.search(r"LLKParser::new\(\s*(\d+),", src).group(1))
    max_k = int(re.search(r"const MAX_K: usize = (\d+);", src).group(1))
    max_errors = 100
    try:
        import glob
        with open(f"{REPO}/Cargo.lock") as fh:
            ver = re.search(r'name = "parol_runtime"\nversion = "([^"]+)"', fh.read()).group(1)
        cand = glob.glob(os.path.expanduser(f"~/.cargo/registry/src/*/parol_runtime-{ver}/src/parser/parser_types.rs"))
        with open(cand[0]) as fh:
            max_errors = int(re.search(r"error_entries\.len\(\) > (\d+)", fh.read()).group(1))
    except Exception:
        pass
    samples = scanner_samples(src, terminals)
    return {"samples": {str(k): v for k, v in samples.items()}, "max_errors": max_errors, "terminals": terminals, "nonterminals": nts, "prods": prods, "dfas": dfas, "cap": cap,
            "cap_build_rs": cap_build, "start": start, "max_k": max_k}


MANUAL_SAMPLES = {
    "CommentsTerm": ["// c\n", "/* c */", "/* a\n b */ // d\n"],
    "StringLiteralTerm": ['"s"', '""', '"a\\n\\"b"'],
    "ExponentTerm": ["1.5e3", "0.1E-2"],
    "FixedPointTerm": ["1.5", "10_0.2_5"],
    "BasedTerm": ["8'hff", "'b1", "4'sd3", "16'hxz_0"],
    "AllBitTerm": ["'0", "'1", "'x", "3'z"],
    "BaseLessTerm": ["0", "1", "42", "1_000"],
    "DollarIdentifierTerm": ["$clog2", "$sv"],
    "IdentifierTerm": ["a", "b", "x1", "_y", "r#if", "A$b"],
    "AnyTerm": ["x", "y = 1;", "é"],
}


def scanner_samples(src, terminals):
    """terminal id -> sample texts (from the `scanner!` token regexes; hand-written for the non-literal ones)."""
    m = re.search(r"scanner! \{(.*?)\n\}\n", src, flags=re.S)
    seen = {}
    if m:
        for rx, idn in re.findall(r'token r"(.*?)" => (\d+);', m.group(1)):
            seen.setdefault(int(idn), rx)
    out = {}
    for i, name in enumerate(terminals):
        if name in MANUAL_SAMPLES:
            out[i] = MANUAL_SAMPLES[name]
            continue
        rx = seen.get(i)
        if rx is None or i < 5 or name == "Error":
            continue
        alts = re.split(r"(?<!\\)\|", rx)
        lits = []
        for a in alts:
            if re.search(r"(?<!\\)[\[\]()*+?.]", a):
                continue
            lits.append(re.sub(r"\\(.)", r"\1", a))
        if lits:
            out[i] = lits
    return out


def certificates(g):
    """(nullable list of bools, rank list, left_recursive?)."""
    n = len(g["nonterminals"])
    prods = g["prods"]
    null = [False] * n
    changed = True
    while changed:
        changed = False
        for p in prods:
            if not null[p["lhs"]] and all(k == "n" and null[i] for k, i in p["rhs"]):
                null[p["lhs"]] = True
                changed = True
    # left-corner edges  A -> B  for  A: X1..Xj B ...  with X1..Xj nullable non-terminals
    edges = [set() for _ in range(n)]
    for p in prods:
        for k, i in p["rhs"]:
            if k == "t":
                break
            edges[p["lhs"]].add(i)
            if not null[i]:
                break
    # rank = longest path; Bellman-Ford style relaxation bounded by n rounds (cycle => gives up, rank invalid)
    rank = [0] * n
    left_rec = False
    for rnd in range(n + 1):
        changed = False
        for a in range(n):
            for b in edges[a]:
                if rank[a] < rank[b] + 1:
                    rank[a] = rank[b] + 1
                    changed = True
        if not changed:
            break
    else:
        left_rec = True
    if left_rec:
        rank = [min(r, n) for r in rank]
    return null, rank, left_rec


def _tree(lo, hi, val):
    """Balanced search tree over keys lo..hi-1 as a Lean term."""
    if lo >= hi:
        return ".leaf"
    mid = (lo + hi) // 2
    return f"(.node {_tree(lo, mid, val)} {mid} {val(mid)} {_tree(mid + 1, hi, val)})"


def _sym(k, i):
    return f".{k} {i}"


def emit_lean(g, null, rank):
    n = len(g["nonterminals"])
    lines = ["-- GENERATED by tools/gen_grammar.py from /repo/" + PARSER_RS + " (and build.rs) — do not edit.",
             "import VerylModel.Core.LL",
             "namespace VerylModel.Gen.Grammar",
             "open VerylModel.LL",
             "",
             f"def numTerminals : Nat := {len(g['terminals'])}",
             f"def numNonTerminals : Nat := {n}",
             f"def numProductions : Nat := {len(g['prods'])}",
             f"def startSymbol : Nat := {g['start']}",
             f"def maxK : Nat := {g['max_k']}",
             "/-- Longest right-hand side (checked by `cert_ok`, used in the termination weight). -/",
             f"def maxRhsLen : Nat := {max(len(p['rhs']) for p in g['prods'])}",
             "/-- The argument of `llk_parser.set_max_parsing_depth(..)` in the generated parser. -/",
             f"def maxParsingDepth : Nat := {g['cap']}",
             "/-- `MAX_PARSING_DEPTH` of crates/parser/build.rs (0 if absent). -/",
             f"def maxParsingDepthBuildRs : Nat := {g['cap_build_rs'] or 0}",
             "",
             "/-- PRODUCTIONS, right-hand sides in source order (the Rust table stores them reversed). -/",
             "def prods : List Prod := ["]
    rows = []
    for p in g["prods"]:
        rhs = ", ".join(_sym(k, i) for k, i in p["rhs"])
        rows.append(f"  ⟨{p['lhs']}, [{rhs}], {'true' if p['push'] else 'false'}⟩")
    lines.append(",\n".join(rows) + "]")
    lines += ["",
              "/-- Certificate, as a balanced search tree: non-terminal ↦ (nullable, rank). -/",
              "def certTree : NatTree (Bool × Nat) :=",
              "  " + _tree(0, n, lambda i: f"({'true' if null[i] else 'false'}, {rank[i]})"),
              "",
              "def nullable (i : Nat) : Bool := (certTree.find (false, 0) i).1",
              "def rank (i : Nat) : Nat := (certTree.find (false, 0) i).2",
              "",
              "def prodsArr : Array Prod := prods.toArray",
              "/-- The LL machine over this table. -/",
              "def machine (cap : Option Nat) (maxErrs : Nat) : Machine := ⟨fun p => prodsArr[p]?, cap, maxErrs⟩",
              "/-- `add_error` of parol_runtime gives up when `error_entries.len()` exceeds this. -/",
              f"def maxErrors : Nat := {g['max_errors']}",
              "/-- As configured by the generated `parse_into`. -/",
              "def configured : Machine := machine (some maxParsingDepth) maxErrors",
              "",
              "end VerylModel.Gen.Grammar", ""]
    return "\n".join(lines)


def gen_grammar():
    g = extract()
    null, rank, left_rec = certificates(g)
    body = emit_lean(g, null, rank)
    write_if_changed(f"{LEAN}/VerylModel/Gen/Grammar.lean", body)
    out = dict(g)
    out["nullable"] = [i for i, b in enumerate(null) if b]
    out["rank"] = rank
    out["left_recursive"] = left_rec
    os.makedirs(CACHE, exist_ok=True)
    write_if_changed(JSON_OUT, json.dumps(out))
    return {"productions": len(g["prods"]), "push_productions": sum(1 for p in g["prods"] if p["push"]),
            "terminals": len(g["terminals"]), "nonterminals": len(g["nonterminals"]),
            "nullable": sum(null), "max_rank": max(rank), "left_recursive": left_rec,
            "max_rhs": max(len(p["rhs"]) for p in g["prods"]),
            "set_max_parsing_depth": g["cap"], "MAX_PARSING_DEPTH(build.rs)": g["cap_build_rs"],
            "start": g["start"], "max_k": g["max_k"], "max_errors(parol_runtime)": g["max_errors"],
            "dfa_transitions": sum(len(d["trans"]) for d in g["dfas"])}


if __name__ == "__main__":
    print(gen_grammar())
