#!/bin/bash
# Isolated copy of /verif + a worktree of /repo under /tmp/mv, so seeded changes can be run against
# the checks without touching /repo (other work builds against /repo concurrently).
#   mutenv.sh setup            (re)create /tmp/mv from the committed/working /verif and /repo HEAD
#   mutenv.sh run <patch.diff> <Cnn> [Cnn…]   apply, run the checks (quick), revert
set -u
MV=/tmp/mv
case "$1" in
setup)
  rm -rf $MV/verif; mkdir -p $MV
  if [ ! -d $MV/repo ]; then git -C /repo worktree add --detach $MV/repo HEAD -q; else git -C $MV/repo checkout -q --detach $(git -C /repo rev-parse HEAD); fi
  rsync -a --exclude .git --exclude '.cache/run' --exclude '.cache/scratch' --exclude '.cache/replay' --exclude '.cache/sweep*' /verif/ $MV/verif/
  grep -rlI -e '/verif' -e '/repo' $MV/verif --exclude-dir=.lake --exclude-dir=target --exclude-dir=target-cli --exclude-dir=.cache 2>/dev/null | \
     xargs sed -i -e "s#/verif#$MV/verif#g" -e "s#/repo#$MV/repo#g"
  echo "setup done: $MV"
  ;;
run)
  patch=$2; shift 2
  cd $MV/repo || exit 2
  git checkout -q -- . ; git clean -fdq
  git apply "$patch" || { echo "patch does not apply"; exit 2; }
  for c in "$@"; do
    ( cd $MV/verif && ./check "$c" --tier quick 2>&1 | grep -E "^VIOLATION|obligations=" | cut -c1-200 )
  done
  git checkout -q -- . ; git clean -fdq
  ;;
esac
