#!/usr/bin/env python3
"""Prints the per-property as-built table of DESIGN.md §8.5 from Props/*.lean, known_findings.json and evidence/."""
import glob, json, os, re
kf = json.load(open('/verif/known_findings.json'))['findings']
print("| id | theorems (Props) | recorded findings known / fixed | last quick run: evaluations (distinct) | wall s |")
print("|---|---|---|---|---|")
for i in range(1, 37):
    pid = f"C{i:02d}"
    f = f"/verif/lean/VerylModel/Props/{pid}.lean"
    n = 0
    if os.path.exists(f):
        s = open(f).read(); s = re.sub(r"/-.*?-/", "", s, flags=re.S); s = re.sub(r"--.*", "", s)
        n = len(re.findall(r"^\s*theorem\s", s, flags=re.M))
    k = sum(1 for x in kf if x['property'] == pid and x['kind'] == 'known')
    fx = sum(1 for x in kf if x['property'] == pid and x['kind'] == 'fixed')
    ev = {}
    try:
        ev = json.load(open(f"/verif/evidence/{pid}.json"))
    except Exception:
        pass
    c = ev.get('coverage', {})
    print(f"| {pid} | {n} | {k} / {fx} | {c.get('evaluations','-')} ({c.get('distinct_nontrivial','-')}) | {ev.get('wall_s','-')} |")
