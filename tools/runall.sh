#!/bin/bash
# usage: runall.sh C01 C02 ... ; prints the summary / VIOLATION / KNOWN-FINDING lines of each check
cd /verif
for c in "$@"; do
  start=$(date +%s)
  ./check "$c" --tier "${VERIF_TIER:-quick}" > .cache/run_$c.log 2>&1; rc=$?
  echo "=== $c rc=$rc $(( $(date +%s) - start ))s"
  grep -E "^VIOLATION|^KNOWN-FINDING|obligations=" .cache/run_$c.log | cut -c1-220
done
