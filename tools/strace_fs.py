"""C30 trace inclusion: run a real veryl process under strace, abstract its syscall trace to the
events of the M-FS model (lean/VerylModel/Core/FS.lean, `TEv`) and let `vmodel fs` decide whether
the word is a word of the modelled process program.

    trace_cmd(cmd, cwd, env, out)            run `cmd` under strace -f, syscalls into `out`
    abstract(out, root, cache, prj=1)        -> (events, info)   events = list of driver tokens
    check_words(vmodel, [(role, prj, events), ...])  -> list of (ok, index, token, replies)

Only paths below the project root `root` and the user cache `cache` (= $XDG_CACHE_HOME/veryl)
become events; everything else (shared libraries, /proc, the binary itself, stdout) is dropped."""
import os
import re
import subprocess

STRACE_ARGS = ["strace", "-f", "-y", "-ttt", "-T", "-s", "0", "-e",
               "trace=%file,flock,write,pwrite64,writev,rename,renameat,renameat2,unlink,unlinkat,"
               "openat,open,creat,close,mkdir,mkdirat,rmdir"]

LINE = re.compile(r"^(\d+)\s+(?:(\d+\.\d+)\s+)?(.*)$")
CALL = re.compile(r"^(\w+)\((.*)\)\s+=\s+(-?\d+|\?)(?:<([^>]*)>)?\s*(.*)$")
UNFIN = re.compile(r"^(\w+)\((.*) <unfinished \.\.\.>$")
RESUMED = re.compile(r"^<\.\.\. (\w+) resumed>(.*)$")
FDPATH = re.compile(r"^(-?\d+|AT_FDCWD)<([^>]*)>")
DUR = re.compile(r"<(\d+\.\d+)>\s*$")
STR = re.compile(r'"((?:[^"\\]|\\.)*)"')


def trace_cmd(cmd, cwd, env, out, timeout=600, inject=None, stdin=None, stdout=None):
    """Run cmd under strace (blocking).  Returns (rc, combined output text)."""
    args = STRACE_ARGS[:]
    if inject:
        args += ["-e", inject]
    args += ["-o", out] + list(cmd)
    try:
        p = subprocess.run(args, cwd=cwd, env=env, stdin=stdin, stdout=subprocess.PIPE if stdout is None else stdout,
                           stderr=subprocess.STDOUT, timeout=timeout)
        return p.returncode, (p.stdout or b"").decode("utf-8", "replace")
    except subprocess.TimeoutExpired as ex:
        return -999, "TIMEOUT " + (ex.stdout or b"").decode("utf-8", "replace")


def popen_traced(cmd, cwd, env, out, inject=None, extra=(), **kw):
    """extra: more strace options, e.g. ["-P", path] to restrict tracing *and* injection to
    syscalls touching `path`."""
    args = STRACE_ARGS[:] + list(extra)
    if inject:
        args += ["-e", inject]
    args += ["-o", out] + list(cmd)
    return subprocess.Popen(args, cwd=cwd, env=env, **kw)


def syscalls(path):
    """Yield (pid, time, name, argstring, ret, retpath, tail) with unfinished/resumed lines merged,
    in completion order.  time = completion time: strace -ttt prints the entry time (for a resumed
    call: the time of resumption) and -T the duration, `<0.000123>` at the end of the line."""
    pending = {}
    with open(path, errors="replace") as fh:
        for raw in fh:
            m = LINE.match(raw.rstrip("\n"))
            if not m:
                continue
            pid, ts, rest = m.group(1), float(m.group(2) or 0.0), m.group(3)
            if rest.startswith("+++") or rest.startswith("---"):
                if rest.startswith("+++ exited") or rest.startswith("+++ killed"):
                    yield pid, (ts, ts), "exit", "", "0", None, rest
                continue
            u = UNFIN.match(rest)
            if u:
                pending[pid] = (u.group(1), u.group(2), ts)
                continue
            r = RESUMED.match(rest)
            t_entry = ts
            if r and pid in pending:
                name, head, t_entry = pending.pop(pid)
                rest = f"{name}({head}{r.group(2)}"
            c = CALL.match(rest)
            if not c:
                continue
            tail = c.group(5)
            d = DUR.search(tail)
            t_done = ts
            if d and r is None:
                t_done = ts + float(d.group(1))
            yield pid, (t_entry, t_done), c.group(1), c.group(2), c.group(3), c.group(4), tail


class Abstractor:
    def __init__(self, root, cache, prj=1, other_roots=()):
        self.root = os.path.realpath(root)
        self.cache = os.path.realpath(cache)
        self.prj = prj
        self.others = [(os.path.realpath(r), j) for r, j in other_roots]
        self.ids = {}          # (cls, prj, path) -> idx
        self.temps = {}        # path -> temp id
        self.fdlock = {}       # (pid-group, fd) -> lock token     (flock'ed descriptors)
        self.held = {}         # lock token -> fd key
        self.truncfd = set()   # paths opened with O_TRUNC
        self.events = []
        self.lines = []        # syscall text per event (for diagnostics)
        self.times = []        # completion time per event
        self.entry = []        # entry time per event
        self.now = 0.0
        self.now_entry = 0.0
        self.std_root = None
        self.unclassified = {}

    # ---- classification ---------------------------------------------------------------------
    def idx(self, cls, prj, path, fixed=None):
        if fixed is not None:
            return fixed
        key = (cls, prj)
        tab = self.ids.setdefault(key, {})
        if path not in tab:
            tab[path] = len(tab) + 1
        return tab[path]

    def classify(self, path):
        """-> ('path', cls, prj, idx) | ('lock', token) | ('temp', dircls, prj) | None"""
        if not path.startswith("/"):
            return None
        path = os.path.normpath(path)
        for root, prj in [(self.root, self.prj)] + self.others:
            if path == root:
                return ("path", "toml", prj, 99)
            if path.startswith(root + "/"):
                return self.classify_project(path, root, prj)
        c = self.cache
        if path == c or path == os.path.dirname(c):
            return ("path", "depsDir", 0, 90)
        if path.startswith(c + "/"):
            rel = path[len(c) + 1:].split("/")
            if rel[0] == "std":
                if len(rel) == 1:
                    return ("path", "stdDir", 0, 1)
                sroot = c + "/std/" + rel[1]
                if len(rel) == 2:
                    self.std_root = sroot
                    return ("path", "stdDir", 0, 0)
                if len(rel) == 3 and rel[2] == "lock":
                    return ("lock", "std")
                if path.endswith(".veryl"):
                    return ("path", "stdFile", 0, self.idx("stdFile", 0, path))
                return ("path", "stdDir", 0, 1 + self.idx("stdDir", 0, path))
            if rel[0] in ("dependencies", "resolve"):
                dep = rel[0] == "dependencies"
                if len(rel) == 1:
                    return ("path", "depsDir", 0, 1 if dep else 2)
                if len(rel) == 2 and rel[1] == "lock":
                    return ("lock", "deps" if dep else "resolve")
                if len(rel) == 2:
                    return ("path", "depDir" if dep else "resDir", 0, self.idx("depDir" if dep else "resDir", 0, path))
                if ".build" in rel[2:]:
                    # Metadata::load of a dependency's Veryl.toml creates `.build` next to it
                    return ("path", "dotBuild", 0, self.idx("dotBuild", 0, path))
                return ("path", "depFile" if dep else "resFile", 0, self.idx("depFile" if dep else "resFile", 0, path))
            return ("path", "other", 0, self.idx("other", 0, path))
        return None

    def classify_project(self, path, root, prj):
        rel = path[len(root) + 1:]
        parts = rel.split("/")
        base = parts[-1]
        if base.startswith(".tmp"):
            d = self.classify(os.path.dirname(path))
            dcls = d[1] if d and d[0] == "path" else "other"
            if dcls == "toml":
                dcls = "toml"
            return ("temp", dcls, prj)
        if rel in ("Veryl.toml", "Veryl.pub"):
            return ("path", "toml", prj, 0 if rel == "Veryl.toml" else 1)
        if rel == "Veryl.lock":
            return ("path", "lockfile", prj, 0)
        if parts[0] == ".build":
            if len(parts) == 1:
                return ("path", "dotBuild", prj, 0)
            if rel == ".build/lock":
                return ("lock", f"build.{prj}")
            if rel == ".build/info.toml":
                return ("path", "info", prj, 0)
            for d, lockname, dcls, mcls, fcls in (("cache", "cache", "cacheDir", "manifest", "frag"),
                                                  ("cache-ls", "cacheLs", "lsCacheDir", "lsManifest", "lsFrag")):
                if parts[1] == d:
                    if len(parts) == 3 and parts[2] == "lock":
                        return ("lock", f"{lockname}.{prj}")
                    if len(parts) == 3 and parts[2] == "manifest.toml":
                        return ("path", mcls, prj, 0)
                    if base.endswith(".frag"):
                        return ("path", fcls, prj, self.idx(fcls, prj, path))
                    return ("path", dcls, prj, self.idx(dcls, prj, path))
            return ("path", "other", prj, self.idx("other", prj, path))
        if base.endswith(".veryl"):
            return ("path", "src", prj, self.idx("src", prj, path))
        if base.endswith((".sv", ".sv.map", ".f")) or parts[0] in ("dependencies", "target"):
            return ("path", "out", prj, self.idx("out", prj, path))
        if "." not in base:        # a directory of the project (sources/outputs live side by side)
            return ("path", "out", prj, self.idx("out", prj, path))
        return ("path", "other", prj, self.idx("other", prj, path))

    # ---- events -----------------------------------------------------------------------------
    def emit(self, tok, text):
        self.events.append(tok)
        self.lines.append(text[:300])
        self.times.append(self.now)
        self.entry.append(self.now_entry)

    @staticmethod
    def ptok(kind, c):
        return f"{kind}:{c[1]}:{c[2]}:{c[3]}"

    def resolve(self, dirfd_path, name):
        if name.startswith("/"):
            return name
        if dirfd_path:
            return os.path.join(dirfd_path, name)
        return name

    def feed(self, pid, ts, name, args, ret, retpath, tail):
        self.now_entry, self.now = ts
        text = f"{name}({args}) = {ret} {tail}"
        ok = ret not in ("-1", "?")
        if name == "exit":
            return
        if name in ("openat", "open", "creat"):
            m = FDPATH.match(args)
            dpath = m.group(2) if m else None
            s = STR.search(args)
            if not s:
                return
            path = self.resolve(dpath, s.group(1))
            flags = args[s.end():]
            c = self.classify(path)
            if c is None:
                return
            if c[0] == "lock":
                return                       # the descriptor is remembered when it is flock'ed
            if c[0] == "path" and c[1] in ("depFile", "resFile", "depDir", "resDir"):
                if "O_DIRECTORY" in flags:
                    return
                if any(f in flags for f in ("O_WRONLY", "O_RDWR", "O_CREAT", "O_TRUNC")):
                    if ok:
                        self.emit(self.ptok("tr", c), text)
                elif ok:
                    self.emit(self.ptok("rd", c), text)
                elif "ENOENT" in tail:
                    self.emit(self.ptok("ex", c) + ":0", text)
                return
            if c[0] == "temp":
                if ok and "O_EXCL" in flags and "O_CREAT" in flags:
                    t = len(self.temps) + 1
                    self.temps[os.path.normpath(path)] = t
                    self.emit(f"tc:{t}:{c[1]}:{c[2]}", text)
                elif ok:
                    self.emit(f"tr:other:{c[2]}:0", text)      # a temp name opened without O_EXCL: not modelled
                return
            if "O_DIRECTORY" in flags:
                return
            if "O_TRUNC" in flags or name == "creat" or ("O_WRONLY" in flags or "O_RDWR" in flags):
                if ok:
                    self.truncfd.add(os.path.normpath(path))
                    self.emit(self.ptok("tr", c), text)
                return
            if ok:
                self.emit(self.ptok("rd", c), text)
            elif "ENOENT" in tail:
                self.emit(self.ptok("ex", c) + ":0", text)
            return
        if name in ("stat", "lstat", "statx", "newfstatat", "access", "faccessat", "faccessat2", "readlink",
                    "readlinkat"):
            m = FDPATH.match(args)
            dpath = m.group(2) if m else None
            s = STR.search(args)
            if not s or s.group(1) == "":
                return
            c = self.classify(self.resolve(dpath, s.group(1)))
            if c is None or c[0] != "path":
                return
            if ok or "EINVAL" in tail:
                self.emit(self.ptok("ex", c) + ":1", text)
            elif "ENOENT" in tail:
                self.emit(self.ptok("ex", c) + ":0", text)
            return
        if name in ("mkdir", "mkdirat"):
            m = FDPATH.match(args)
            dpath = m.group(2) if m else None
            s = STR.search(args)
            if not s:
                return
            c = self.classify(self.resolve(dpath, s.group(1)))
            if c is None or c[0] != "path":
                return
            if ok or "EEXIST" in tail:
                self.emit(self.ptok("mk", c), text)
            return
        if name in ("write", "pwrite64", "writev"):
            m = FDPATH.match(args)
            if not m:
                return
            path = os.path.normpath(m.group(2))
            if path in self.temps:
                self.emit(f"tw:{self.temps[path]}", text)
                return
            c = self.classify(path)
            if c is None:
                return
            if c[0] == "path" and c[1] in ("depFile", "resFile"):
                self.emit(self.ptok("tr", c), text)
            elif c[0] == "path":
                self.emit(self.ptok("wr", c), text)
            elif c[0] == "temp":
                self.emit("tw:0", text)
            return
        if name in ("rename", "renameat", "renameat2"):
            strs = STR.findall(args)
            fds = re.findall(r"(?:AT_FDCWD|\d+)<([^>]*)>", args)
            if len(strs) < 2:
                return
            old = self.resolve(fds[0] if fds else None, strs[0])
            new = self.resolve(fds[1] if len(fds) > 1 else (fds[0] if fds else None), strs[1])
            c = self.classify(new)
            if c is None and self.classify(old) is None:
                return
            if c and c[0] == "path" and c[1] in ("depFile", "resFile", "depDir", "resDir"):
                if ok:
                    self.emit(self.ptok("tr", c), text)
                return
            t = self.temps.get(os.path.normpath(old), 0)
            if c is None or c[0] != "path":
                c = ("path", "other", self.prj, 0)
            if ok:
                self.emit(f"rn:{t}:{c[1]}:{c[2]}:{c[3]}", text)
            return
        if name in ("unlink", "unlinkat", "rmdir"):
            m = FDPATH.match(args)
            dpath = m.group(2) if m else None
            s = STR.search(args)
            if not s:
                return
            c = self.classify(self.resolve(dpath, s.group(1)))
            if c is None:
                return
            if c[0] == "temp":
                return
            if c[0] == "path" and ok:
                self.emit(self.ptok("un", c), text)
            return
        if name == "flock":
            m = FDPATH.match(args)
            if not m:
                return
            c = self.classify(m.group(2))
            if c is None or c[0] != "lock":
                return
            fd = m.group(1)
            if "LOCK_UN" in args:
                if ok and self.held.get(c[1]) == fd:
                    del self.held[c[1]]
                    self.emit(f"ul:{c[1]}", text)
            elif "LOCK_NB" in args:
                if ok:
                    self.held[c[1]] = fd
                self.emit(f"tl:{c[1]}:{1 if ok else 0}", text)
            elif "LOCK_EX" in args and ok:
                self.held[c[1]] = fd
                self.emit(f"lk:{c[1]}", text)
            return
        if name == "close":
            m = FDPATH.match(args)
            if not m:
                return
            c = self.classify(m.group(2))
            if c and c[0] == "lock" and self.held.get(c[1]) == m.group(1):
                del self.held[c[1]]
                self.emit(f"ul:{c[1]}", text)
            return

    def finish(self):
        """Process exit releases whatever is still locked."""
        for tok in list(self.held):
            self.emit(f"ul:{tok}", "(process exit)")
        self.held.clear()


def abstract(trace_file, root, cache, prj=1, other_roots=()):
    a = Abstractor(root, cache, prj, other_roots)
    n = 0
    for call in syscalls(trace_file):
        n += 1
        a.feed(*call)
    a.finish()
    kinds = {}
    for e in a.events:
        k = ":".join(e.split(":")[:2]) if e[:2] in ("mk", "tr", "wr", "rd", "un", "ex") else e.split(":")[0] + (
            ":" + e.split(":")[1].split(".")[0] if e[:2] in ("lk", "ul", "tl") else "")
        kinds[k] = kinds.get(k, 0) + 1
    return a.events, {"syscalls": n, "events": len(a.events), "kinds": kinds, "lines": a.lines, "times": a.times, "entry": a.entry}


def check_words(vmodel, words):
    """words: list of (role, prj, events).  One vmodel process for all.  Returns per word
    {"ok": bool, "index": first bad index or None, "event": token, "n": len}."""
    req = []
    for role, prj, events in words:
        req.append(f"begin {role} {prj}")
        req.extend(events)
        req.append("end")
    p = subprocess.run([vmodel, "fs"], input="\n".join(req) + "\n", stdout=subprocess.PIPE, stderr=subprocess.PIPE, text=True)
    replies = p.stdout.split("\n")
    res = []
    k = 0
    for role, prj, events in words:
        n = len(events) + 2
        rs = replies[k:k + n]
        k += n
        r = {"ok": True, "index": None, "event": None, "n": len(events), "reply": None}
        if len(rs) < n or rs[0] != "ok":
            r.update(ok=False, index=-1, event="(driver)", reply=(rs[:1] or ["(none)"])[0])
        else:
            for i, x in enumerate(rs[1:-1]):
                if x != "ok":
                    r.update(ok=False, index=i, event=events[i], reply=x)
                    break
            else:
                if rs[-1] != "ok":
                    r.update(ok=False, index=len(events), event="(end)", reply=rs[-1])
        res.append(r)
    return res


if __name__ == "__main__":
    import sys
    import json
    tf, root, cache, role = sys.argv[1:5]
    ev, info = abstract(tf, root, cache)
    info.pop("lines")
    info.pop("times")
    info.pop("entry")
    print(json.dumps(info, indent=1))
    vm = os.environ.get("VMODEL", "/verif/lean/.lake/build/bin/vmodel")
    r = check_words(vm, [(role, 1, ev)])[0]
    print(r)
    if not r["ok"] and r["index"] is not None and r["index"] >= 0:
        lo = max(0, r["index"] - 8)
        for i in range(lo, min(len(ev), r["index"] + 2)):
            print(i, ev[i])
