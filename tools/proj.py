"""Generated Veryl projects, edit histories and CLI runs (used by the CLI-level checks
C04/C05/C24/C30).  Everything lives under /verif/.cache/scratch/<tag>; nothing under /tmp."""
import hashlib
import os
import re
import shutil
import subprocess
import random

from vlib import CACHE, VERYL, ENV

SCRATCH = f"{CACHE}/scratch"
ANSI = re.compile(r"\x1b\[[0-9;]*m")


def scratch_dir(tag):
    d = f"{SCRATCH}/{tag}-{os.getpid()}"
    shutil.rmtree(d, ignore_errors=True)
    os.makedirs(d, exist_ok=True)
    return d


def veryl_env(cache_home):
    e = dict(ENV)
    e["XDG_CACHE_HOME"] = cache_home
    e["HOME"] = cache_home
    e["NO_COLOR"] = "1"
    e.pop("RUST_LOG", None)
    return e


def run_veryl(root, args, cache_home, timeout=300, veryl=VERYL, extra_env=None, prefix=None):
    e = veryl_env(cache_home)
    if extra_env:
        e.update(extra_env)
    cmd = (prefix or []) + [veryl] + list(args)
    try:
        p = subprocess.run(cmd, cwd=root, env=e, stdout=subprocess.PIPE, stderr=subprocess.STDOUT, timeout=timeout)
        return p.returncode, ANSI.sub("", p.stdout.decode("utf-8", "replace"))
    except subprocess.TimeoutExpired as ex:
        return -999, "TIMEOUT " + ANSI.sub("", (ex.stdout or b"").decode("utf-8", "replace"))


def diagnostics(out, root):
    """Canonical multiset of diagnostics in a CLI transcript: (severity, code, message, file:line:col)."""
    res = []
    lines = out.split("\n")
    i = 0
    while i < len(lines):
        m = re.match(r"^(Error|Warning|Advice):\s+(\w+)\s*(\(https?:[^)]*\))?\s*$", lines[i].strip())
        if m:
            sev, code = m.group(1), m.group(2)
            msg, loc = "", ""
            j = i + 1
            while j < len(lines) and j < i + 40:
                t = lines[j].strip()
                mm = re.match(r"^[×⚠☞]\s*(.*)$", t)
                if mm and not msg:
                    msg = mm.group(1)
                ml = re.match(r"^╭─\[(.*)\]$", t)
                if ml and not loc:
                    loc = ml.group(1).replace(root, "<ROOT>")
                if re.match(r"^(Error|Warning|Advice):\s+\w+", t) or t.startswith("╰────"):
                    if t.startswith("╰────"):
                        j += 1
                    break
                j += 1
            res.append((sev, code, msg.replace(root, "<ROOT>"), loc))
            i = j
            continue
        i += 1
    return sorted(res)


def panicked(out):
    return ("panicked at" in out) or ("RUST_BACKTRACE" in out) or ("stack overflow" in out)


def snapshot(root, exts=(".sv", ".map", ".f")):
    """relpath -> sha256 of every output file (not sources, not .build)."""
    snap = {}
    for dp, dn, fn in os.walk(root):
        if ".build" in dp.split(os.sep):
            continue
        for f in fn:
            if f.endswith(exts):
                p = os.path.join(dp, f)
                with open(p, "rb") as fh:
                    data = fh.read()
                data = data.replace(root.encode(), b"<ROOT>")
                snap[os.path.relpath(p, root)] = hashlib.sha256(data).hexdigest()[:16]
    return snap


def restored_count(out):
    m = re.search(r"Restored (\d+)/(\d+) files from cache", out)
    return (int(m.group(1)), int(m.group(2))) if m else None


# ---------------------------------------------------------------------------------------------
# Project family: packages, interface, leaf/mid/top modules with cross-file references.
# ---------------------------------------------------------------------------------------------

def toml(opts):
    build = {"incremental": "true", "exclude_std": "true", "sources": '["src"]'}
    build.update(opts.get("build", {}))
    s = '[project]\nname = "prj"\nversion = "0.1.0"\n\n[build]\n'
    for k, v in build.items():
        s += f"{k} = {v}\n"
    if "format" in opts:
        s += "\n[format]\n" + "".join(f"{k} = {v}\n" for k, v in opts["format"].items())
    return s


def base_files(w=8, leafname="Leaf", extra=""):
    return {
        "src/pkg_a.veryl": f"package PkgA {{\n    const W: u32 = {w};\n    const Z: u32 = 1;\n}}\n",
        "src/pkg_b.veryl": "package PkgB {\n    import PkgA::*;\n    const V: u32 = W + 1;\n}\n",
        "src/if_a.veryl": "interface IfA {\n    var d: logic<PkgA::W>;\n    modport mp {\n        d: input,\n    }\n}\n",
        "src/leaf.veryl": (f"module {leafname} #(\n    param N: u32 = 1,\n) (\n    i: input  logic<N>,\n    o: output logic<N>,\n) {{\n"
                           "    assign o = ~i;\n}\n"),
        "src/mid.veryl": ("module Mid (\n    i: input  logic<PkgA::W>,\n    o: output logic<PkgA::W>,\n) {\n"
                          f"    inst u: {leafname} #( N: PkgA::W ) ( i, o );\n{extra}}}\n"),
        "src/top.veryl": ("module Top (\n    clk: input  clock,\n    rst: input  reset,\n    i  : input  logic<PkgA::W>,\n    o  : output logic<PkgA::W>,\n) {\n"
                          "    var r: logic<PkgA::W>;\n    var m: logic<PkgA::W>;\n    inst u: Mid ( i, o: m );\n"
                          "    always_ff {\n        if_reset {\n            r = 0;\n        } else {\n            r = m;\n        }\n    }\n"
                          "    assign o = r;\n}\n"),
        "src/alone.veryl": "module Alone (\n    a: input  logic<PkgB::V>,\n    b: output logic<PkgB::V>,\n) {\n    assign b = a + 1;\n}\n",
    }


# An edit is (name, function(files: dict, opts: dict, rng) -> None) mutating the desired state.

def e_const(files, opts, rng):
    w = rng.choice([1, 4, 8, 16, 33])
    files["src/pkg_a.veryl"] = re.sub(r"const W: u32 = \d+", f"const W: u32 = {w}", files.get("src/pkg_a.veryl", base_files()["src/pkg_a.veryl"]))


def e_ws(files, opts, rng):
    k = rng.choice(sorted(files))
    files[k] = files[k] + "\n// touched\n"


def e_warn_add(files, opts, rng):
    k = rng.choice([f for f in sorted(files) if re.search(r"^module", files[f], re.M)] or sorted(files))
    if "unused_v" not in files[k]:
        files[k] = re.sub(r"\)\s*\{\n", ") {\n    var unused_v: logic;\n", files[k], count=1)


def e_warn_del(files, opts, rng):
    for k in sorted(files):
        files[k] = files[k].replace("    var unused_v: logic;\n", "")


def e_err_add(files, opts, rng):
    k = rng.choice([f for f in sorted(files) if re.search(r"^module", files[f], re.M)] or sorted(files))
    if "undefined_zz" not in files[k]:
        files[k] = re.sub(r"\n\}\s*$", "\n    var e_v: logic;\n    assign e_v = undefined_zz;\n}\n", files[k], count=1)


def e_err_del(files, opts, rng):
    for k in sorted(files):
        files[k] = files[k].replace("    var e_v: logic;\n    assign e_v = undefined_zz;\n", "")


def e_rename_leaf(files, opts, rng):
    if "src/leaf.veryl" in files:
        cur = re.search(r"module (\w+)", files["src/leaf.veryl"]).group(1)
        new = "Leaf2" if cur == "Leaf" else "Leaf"
        files["src/leaf.veryl"] = files["src/leaf.veryl"].replace(f"module {cur}", f"module {new}")


def e_fix_mid(files, opts, rng):
    if "src/leaf.veryl" in files and "src/mid.veryl" in files:
        cur = re.search(r"module (\w+)", files["src/leaf.veryl"]).group(1)
        files["src/mid.veryl"] = re.sub(r"inst u: \w+", f"inst u: {cur}", files["src/mid.veryl"])


def e_delete(files, opts, rng):
    k = rng.choice(["src/leaf.veryl", "src/alone.veryl", "src/pkg_b.veryl", "src/if_a.veryl"])
    files.pop(k, None)


def e_restore(files, opts, rng):
    b = base_files()
    for k in b:
        if k not in files:
            files[k] = b[k]
            return


def e_add(files, opts, rng):
    n = rng.randrange(3)
    files[f"src/extra{n}.veryl"] = (f"module Extra{n} (\n    a: input  logic<PkgA::W>,\n    b: output logic<PkgA::W>,\n) {{\n"
                                    f"    assign b = a ^ {n};\n}}\n")


def e_move(files, opts, rng):
    """rename a file (same content, new path)"""
    if "src/alone.veryl" in files:
        files["src/sub/alone2.veryl"] = files.pop("src/alone.veryl")
    elif "src/sub/alone2.veryl" in files:
        files["src/alone.veryl"] = files.pop("src/sub/alone2.veryl")


def e_toml(files, opts, rng):
    b = opts.setdefault("build", {})
    k = rng.choice(sorted(TOML_CHOICES))
    cur = b.get(k, TOML_DEFAULTS[k])
    b[k] = rng.choice([v for v in TOML_CHOICES[k] if v != cur])     # always a real change


TOML_DEFAULTS = {"reset_type": '"async_low"', "clock_type": '"posedge"', "omit_project_prefix": "false",
                 "strip_comments": "false"}
TOML_CHOICES = {"reset_type": ['"async_low"', '"sync_high"', '"async_high"', '"sync_low"'],
                "clock_type": ['"posedge"', '"negedge"'], "omit_project_prefix": ["true", "false"],
                "strip_comments": ["true", "false"]}


def effective_build(opts):
    """The [build] section as the tool sees it (defaults filled): two option dicts with the same
    effective section have the same cache key."""
    e = dict(TOML_DEFAULTS)
    e.update(opts.get("build", {}))
    return tuple(sorted(e.items()))


def e_port_width(files, opts, rng):
    """change Leaf's port so that Mid (unchanged text) gets a different diagnostic set"""
    if "src/leaf.veryl" in files:
        s = files["src/leaf.veryl"]
        if "logic<N>,\n    o" in s and rng.random() < 0.5:
            files["src/leaf.veryl"] = s.replace("i: input  logic<N>", "i: input  logic<N + 1>")
        else:
            files["src/leaf.veryl"] = s.replace("i: input  logic<N + 1>", "i: input  logic<N>")


def e_leaf_port_rename(files, opts, rng):
    if "src/leaf.veryl" in files:
        s = files["src/leaf.veryl"]
        if "    o: output" in s:
            files["src/leaf.veryl"] = s.replace("    o: output", "    q: output").replace("assign o =", "assign q =")
        else:
            files["src/leaf.veryl"] = s.replace("    q: output", "    o: output").replace("assign q =", "assign o =")


def e_pkg_remove_const(files, opts, rng):
    if "src/pkg_a.veryl" in files:
        s = files["src/pkg_a.veryl"]
        if "const Z" in s:
            files["src/pkg_a.veryl"] = s.replace("    const Z: u32 = 1;\n", "")
        else:
            files["src/pkg_a.veryl"] = s.replace("}\n", "    const Z: u32 = 1;\n}\n", 1)


def e_use_z(files, opts, rng):
    if "src/alone.veryl" in files and "PkgA::Z" not in files["src/alone.veryl"]:
        files["src/alone.veryl"] = files["src/alone.veryl"].replace("a + 1", "a + PkgA::Z")


def e_leaf_default(files, opts, rng):
    """Leaf gets / toggles a port with a default value: every instantiating file's OUTPUT changes
    (`.en(0)` vs `.en(1)`) although its own text does not."""
    if "src/leaf.veryl" in files:
        s = files["src/leaf.veryl"]
        if "en: input  logic = 0" in s:
            files["src/leaf.veryl"] = s.replace("en: input  logic = 0", "en: input  logic = 1")
        elif "en: input  logic = 1" in s:
            files["src/leaf.veryl"] = s.replace("en: input  logic = 1", "en: input  logic = 0")
        else:
            files["src/leaf.veryl"] = re.sub(r"(    [oq]: output logic<N>,\n)", r"\1    en: input  logic = 0,\n", s, count=1)


def e_new_dependency(files, opts, rng):
    """alone.veryl starts instantiating Leaf in a LATER build (a dependency that did not exist when
    Leaf's cache entry was first written)."""
    k = "src/alone.veryl" if "src/alone.veryl" in files else ("src/sub/alone2.veryl" if "src/sub/alone2.veryl" in files else None)
    if k and "src/leaf.veryl" in files and "inst ul:" not in files[k]:
        leaf = re.search(r"module (\w+)", files["src/leaf.veryl"]).group(1)
        outp = "q" if "    q: output" in files["src/leaf.veryl"] else "o"
        files[k] = re.sub(r"\n\}\s*$", f"\n    var lo_d: logic;\n    inst ul: {leaf} ( i: a[0], {outp}: lo_d );\n}}\n",
                          files[k], count=1)


EDITS = [("leaf_default", e_leaf_default), ("new_dep", e_new_dependency), ("const", e_const), ("ws", e_ws), ("warn+", e_warn_add), ("warn-", e_warn_del), ("err+", e_err_add),
         ("err-", e_err_del), ("rename_leaf", e_rename_leaf), ("fix_mid", e_fix_mid), ("delete", e_delete),
         ("restore", e_restore), ("add", e_add), ("move", e_move), ("toml", e_toml), ("port_width", e_port_width),
         ("leaf_port_rename", e_leaf_port_rename), ("pkg_rm_const", e_pkg_remove_const), ("use_z", e_use_z)]


def sync_tree(root, files, opts):
    """Make the source tree equal the desired state (write changed, delete removed); outputs untouched."""
    want = dict(files)
    want["Veryl.toml"] = toml(opts)
    for dp, dn, fn in os.walk(root):
        if ".build" in dp.split(os.sep):
            continue
        for f in fn:
            p = os.path.join(dp, f)
            rel = os.path.relpath(p, root)
            if (rel.endswith(".veryl") or rel == "Veryl.toml") and rel not in want:
                os.remove(p)
    for rel, content in want.items():
        p = os.path.join(root, rel)
        os.makedirs(os.path.dirname(p), exist_ok=True)
        try:
            with open(p) as fh:
                if fh.read() == content:
                    continue
        except FileNotFoundError:
            pass
        with open(p, "w") as fh:
            fh.write(content)


def orphan_outputs(root, files):
    """outputs whose source no longer exists (a clean tree would not have them)"""
    res = []
    for dp, dn, fn in os.walk(os.path.join(root, "src")):
        for f in fn:
            if f.endswith(".sv") or f.endswith(".sv.map"):
                base = f[:-3] if f.endswith(".sv") else f[:-7]
                rel = os.path.relpath(os.path.join(dp, base + ".veryl"), root)
                if rel not in files:
                    res.append(os.path.relpath(os.path.join(dp, f), root))
    return res
