#!/bin/bash
# usage: try_mutant.sh <patch.diff> <Cnn> [more checks...]  — apply to /repo, run the checks, always revert.
patch=$1; shift
cd /repo || exit 2
if [ -n "$(git status --porcelain)" ]; then echo "/repo not clean"; exit 2; fi
git apply "$patch" || { echo "patch does not apply"; exit 2; }
trap 'git -C /repo checkout -- . ; git -C /repo clean -fdq' EXIT
for c in "$@"; do
  ( cd /verif && ./check "$c" --tier quick 2>&1 | grep -E "VIOLATION|KNOWN-FINDING|obligations=" | cut -c1-300 )
  echo "== $c rc=$?"
done
