#!/bin/bash
# usage: confirm_mutant.sh <outdir with patch.diff + demo.rs> <crate> <demo-dest-relative-to-crate e.g. tests/c29_demo.rs> <test-target e.g. "--test c29_demo">
# Confirms in a scratch worktree: existing crate tests pass with the patch; demo fails with it, passes without.
d=$1; crate=$2; dest=$3; shift 3
wt=/tmp/confirm_$$
git -C /repo worktree add --detach $wt HEAD -q || exit 2
trap "git -C /repo worktree remove --force $wt" EXIT
export CARGO_NET_OFFLINE=true
cd $wt
cdir=$(cargo metadata --offline --no-deps --format-version 1 2>/dev/null | python3 -c "import json,sys; m=json.load(sys.stdin); print([p for p in m['packages'] if p['name']=='$crate'][0]['manifest_path'].rsplit('/',1)[0])")
mkdir -p $(dirname $cdir/$dest); cp $d/demo.rs $cdir/$dest
echo "== demo WITHOUT patch"; cargo test -p $crate --offline -j 6 --target-dir $wt/target "$@" 2>&1 | grep -E "^test result|^error" | head -5
git apply $d/patch.diff || exit 2
echo "== demo WITH patch"; cargo test -p $crate --offline -j 6 --target-dir $wt/target "$@" 2>&1 | grep -E "^test result|^error" | head -5
rm $cdir/$dest
echo "== existing tests WITH patch"; cargo test -p $crate --offline -j 6 --target-dir $wt/target 2>&1 | grep -E "^test result|^error|warning: unused" | head -8
