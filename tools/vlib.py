"""Shared machinery of /verif/check: Lean build + axiom audit, harness build, line-protocol
differential, shrinking, known findings, evidence files.  Python 3 standard library only."""
import hashlib
import json
import os
import re
import shutil
import subprocess
import sys
import time

ROOT = "/verif"
REPO = "/repo"
LEAN = f"{ROOT}/lean"
HARNESS = f"{ROOT}/harness"
CACHE = f"{ROOT}/.cache"
VMODEL = f"{LEAN}/.lake/build/bin/vmodel"
HX = f"{CACHE}/target/debug/hx"
CLI_TARGET = f"{CACHE}/target-cli"
VERYL = os.environ.get("VERIF_VERYL", f"{CLI_TARGET}/debug/veryl")
VERYL_LS = f"{CLI_TARGET}/debug/veryl-ls"
ALLOWED_AXIOMS = {"propext", "Classical.choice", "Quot.sound"}
FORBIDDEN = re.compile(r"\b(sorry|admit|native_decide|bv_decide|implemented_by)\b|^\s*axiom\s|\bunsafe\s|maxHeartbeats\s+0\b")

ENV = dict(os.environ)
ENV["CARGO_NET_OFFLINE"] = "true"
ENV.setdefault("RUST_BACKTRACE", "0")


def sh(cmd, cwd=None, env=None, timeout=None, stdin=None, check=False):
    """Run a command, return (rc, stdout+stderr)."""
    p = subprocess.run(cmd, cwd=cwd, env=env or ENV, timeout=timeout, input=stdin,
                       stdout=subprocess.PIPE, stderr=subprocess.STDOUT, text=True, shell=isinstance(cmd, str))
    if check and p.returncode != 0:
        raise RuntimeError(f"command failed ({p.returncode}): {cmd}\n{p.stdout[-4000:]}")
    return p.returncode, p.stdout


class Ctx:
    """State of one check run: counters, findings, violations, evidence."""

    def __init__(self, prop, tier, seed, level="proof"):
        self.prop = prop
        self.tier = tier
        self.seed = seed
        self.level = level
        self.t0 = time.time()
        self.cov = {"obligations": 0, "discharged": 0, "checker_cmd": "", "trusted_base": [],
                    "evaluations": 0, "distinct_nontrivial": 0, "rule": "", "samples": [],
                    "traces_validated_against_impl": 0, "theorems": [], "failures": {
                        "proof-broken": 0, "model!=impl": 0, "impl!=oracle": 0, "model!=oracle": 0}}
        self.assumptions = []
        self.violations = []      # (replay_path, text, no_input)
        self.known_hits = []
        self.notes = []
        self.run_dir = f"{CACHE}/run/{prop}"
        shutil.rmtree(self.run_dir, ignore_errors=True)
        os.makedirs(self.run_dir, exist_ok=True)
        os.makedirs(f"{CACHE}/replay", exist_ok=True)
        self.findings = load_findings(prop)
        self._replay_n = 0
        self._distinct = set()

    # ---- bookkeeping -------------------------------------------------------------------------
    def log(self, msg):
        print(f"[{self.prop}] {msg}", flush=True)

    def distinct(self, key):
        self._distinct.add(hashlib.blake2b(repr(key).encode(), digest_size=8).digest())
        self.cov["distinct_nontrivial"] = len(self._distinct)

    def sample(self, x, limit=6):
        if len(self.cov["samples"]) < limit:
            self.cov["samples"].append(x)

    def replay_path(self, ext="txt"):
        self._replay_n += 1
        return f"{CACHE}/replay/{self.prop}-{self._replay_n}.{ext}"

    def violation(self, text, replay_body, no_input=False, key=None, kind="impl!=oracle"):
        """Report a violation unless `key` is a listed known finding."""
        self.cov["failures"][kind] = self.cov["failures"].get(kind, 0) + 1
        if key is not None:
            for f in self.findings:
                if f.get("kind") == "known" and f.get("key") == key:
                    if key not in [k for k, _ in self.known_hits]:
                        self.known_hits.append((key, f.get("what", "")))
                    return False
        path = self.replay_path("json" if isinstance(replay_body, (dict, list)) else "txt")
        with open(path, "w") as fh:
            if isinstance(replay_body, (dict, list)):
                json.dump(replay_body, fh, indent=1)
            else:
                fh.write(replay_body)
        self.violations.append((path, text, no_input))
        return True

    # ---- finishing ---------------------------------------------------------------------------
    def finish(self):
        for key, what in self.known_hits:
            print(f"KNOWN-FINDING: property={self.prop} {key} :: {what}", flush=True)
        for path, text, no_input in self.violations:
            self.log(text)
        for path, text, no_input in self.violations:
            tail = " no-failing-input-found" if no_input else ""
            print(f"VIOLATION property={self.prop} replay={path}{tail}", flush=True)
        cov = self.cov
        if not cov["samples"]:
            cov["samples"] = ["(none recorded)"]
        cov["known_findings_hit"] = [k for k, _ in self.known_hits]
        ev = {"property_id": self.prop, "tier": self.tier, "seed": self.seed, "level": self.level,
              "coverage": cov, "assumptions": self.assumptions + self.notes,
              "wall_s": round(time.time() - self.t0, 2), "violations": len(self.violations)}
        os.makedirs(f"{ROOT}/evidence", exist_ok=True)
        with open(f"{ROOT}/evidence/{self.prop}.json", "w") as fh:
            json.dump(ev, fh, indent=1)
            fh.write("\n")
        self.log(f"obligations={cov['obligations']} discharged={cov['discharged']} evaluations={cov['evaluations']} "
                 f"distinct={cov['distinct_nontrivial']} violations={len(self.violations)} "
                 f"known={len(self.known_hits)} wall={ev['wall_s']}s")
        return 1 if self.violations else 0


def load_findings(prop):
    p = f"{ROOT}/known_findings.json"
    if not os.path.exists(p):
        return []
    with open(p) as fh:
        data = json.load(fh)
    return [f for f in data.get("findings", []) if f.get("property") == prop]


# ---------------------------------------------------------------------------------------------
# Lean side
# ---------------------------------------------------------------------------------------------

def write_if_changed(path, text):
    os.makedirs(os.path.dirname(path), exist_ok=True)
    try:
        with open(path) as fh:
            if fh.read() == text:
                return False
    except FileNotFoundError:
        pass
    with open(path, "w") as fh:
        fh.write(text)
    return True


def lean_files_of(module):
    """Transitive project-local imports of a module (file paths)."""
    seen, todo = [], [module]
    while todo:
        m = todo.pop()
        path = f"{LEAN}/{m.replace('.', '/')}.lean"
        if path in seen or not os.path.exists(path):
            continue
        seen.append(path)
        with open(path) as fh:
            for line in fh:
                mm = re.match(r"\s*import\s+(VerylModel[\w.]*)", line)
                if mm:
                    todo.append(mm.group(1))
    return seen


def strip_comments(src):
    src = re.sub(r"/-.*?-/", "", src, flags=re.S)
    return re.sub(r"--.*", "", src)


def lean_check(ctx, prop_module, theorems_expected=None, build_driver=True):
    """`lake build` the property module (+ driver), audit sources and axioms.
    Records obligations/discharged; on failure reports a proof-broken violation."""
    targets = [prop_module] + (["vmodel"] if build_driver else [])
    rc, out = sh(["lake", "build"] + targets, cwd=LEAN)
    ctx.cov["checker_cmd"] = (f"cd {LEAN} && lake build {' '.join(targets)} && lake env lean <audit: #print axioms of "
                              f"every theorem of {prop_module}> (Lean 4 kernel)")
    files = lean_files_of(prop_module)
    prop_file = f"{LEAN}/{prop_module.replace('.', '/')}.lean"
    with open(prop_file) as fh:
        src = strip_comments(fh.read())
    names = re.findall(r"^\s*(?:protected\s+)?theorem\s+([\w.']+)", src, flags=re.M)
    ns = re.search(r"^namespace\s+([\w.]+)", src, flags=re.M)
    full = [(f"{ns.group(1)}.{n}" if ns else n) for n in names]
    ctx.cov["obligations"] = len(full)
    ctx.cov["theorems"] = names
    if theorems_expected:
        missing = [t for t in theorems_expected if t not in names]
        if missing:
            ctx.violation(f"property theorems missing from {prop_module}: {missing}",
                          {"kind": "proof-broken", "missing_theorems": missing}, no_input=True, kind="proof-broken")
    if rc != 0:
        broken = sorted(set(re.findall(r"error: ([^\n]*)", out)))[:10]
        ctx.cov["discharged"] = 0
        ctx.lean_ok = False
        ctx.lean_log = out[-6000:]
        ctx.log("lake build FAILED:\n" + out[-3000:])
        return False
    # source audit
    bad = []
    for f in files:
        with open(f) as fh:
            body = strip_comments(fh.read())
        for i, line in enumerate(body.splitlines(), 1):
            if FORBIDDEN.search(line):
                bad.append(f"{os.path.relpath(f, LEAN)}:{i}: {line.strip()[:80]}")
    # axiom audit
    audit = f"{CACHE}/audit/{ctx.prop}.lean"
    write_if_changed(audit, f"import {prop_module}\n" + "".join(f"#print axioms {n}\n" for n in full))
    rc2, out2 = sh(["lake", "env", "lean", audit], cwd=LEAN)
    ok = 0
    axioms_used = set()
    flat = re.sub(r"\s+", " ", out2)
    for n in full:
        m = re.search(r"'" + re.escape(n) + r"' (does not depend on any axioms|depends on axioms: \[([^\]]*)\])", flat)
        if not m:
            bad.append(f"no axiom report for {n}")
            continue
        ax = set(a.strip() for a in (m.group(2) or "").split(",") if a.strip())
        axioms_used |= ax
        if ax <= ALLOWED_AXIOMS:
            ok += 1
        else:
            bad.append(f"{n} depends on {sorted(ax - ALLOWED_AXIOMS)}")
    ctx.cov["discharged"] = ok
    ctx.cov["axioms_used"] = sorted(axioms_used)
    ctx.cov["lean_files"] = [os.path.relpath(f, LEAN) for f in files]
    ctx.lean_ok = (rc2 == 0 and not bad and ok == len(full))
    if not ctx.lean_ok:
        ctx.lean_log = "\n".join(bad) + "\n" + out2[-3000:]
        ctx.log("audit FAILED: " + ctx.lean_log)
    if ctx.tier == "thorough" and ctx.lean_ok:
        rc3, out3 = sh(["lake", "env", "leanchecker", prop_module], cwd=LEAN)
        ctx.cov["leanchecker"] = "ok" if rc3 == 0 else out3[-500:]
        if rc3 != 0:
            ctx.lean_ok = False
            ctx.lean_log = out3[-3000:]
    return ctx.lean_ok


def proof_broken(ctx, what):
    """A proof obligation no longer checks and no failing input was found."""
    ctx.violation(f"proof obligation broken: {what}",
                  {"kind": "proof-broken", "what": what, "log": getattr(ctx, "lean_log", "")},
                  no_input=True, kind="proof-broken")


# ---------------------------------------------------------------------------------------------
# Rust side
# ---------------------------------------------------------------------------------------------

def harness_build(ctx, features=None):
    """Rebuild the harness against /repo's working tree (incremental)."""
    lock_src, lock_dst = f"{REPO}/Cargo.lock", f"{HARNESS}/Cargo.lock"
    if not os.path.exists(lock_dst):
        shutil.copy(lock_src, lock_dst)
    cmd = ["cargo", "build", "--offline", "--quiet"]
    t = time.time()
    rc, out = sh(cmd, cwd=HARNESS)
    ctx.cov["harness_build_s"] = round(time.time() - t, 1)
    if rc != 0:
        ctx.log("harness build FAILED:\n" + out[-4000:])
        ctx.violation("the differential harness no longer builds against /repo (correspondence cannot be run)",
                      {"kind": "correspondence-broken", "what": "cargo build of /verif/harness failed", "log": out[-6000:]},
                      no_input=True, kind="model!=impl")
        return False
    return True


def cli_build(ctx, ls=False):
    """Build the `veryl` (and `veryl-ls`) binaries from /repo's working tree."""
    if os.environ.get("VERIF_VERYL"):      # development only: use a given binary
        return True
    pk = ["-p", "veryl"] + (["-p", "veryl-ls"] if ls else [])
    env = dict(ENV)
    env["RUSTFLAGS"] = "--cfg veryl_verif"
    t = time.time()
    # every CLI start hashes its own 200 MB executable (cache key): build only blake3 optimised
    rc, out = sh(["cargo", "build", "--offline", "--quiet", "--manifest-path", f"{REPO}/Cargo.toml",
                  "--config", "profile.dev.package.blake3.opt-level=3",
                  "--target-dir", CLI_TARGET] + pk, env=env)
    ctx.cov["cli_build_s"] = round(time.time() - t, 1)
    if rc != 0:
        ctx.log("CLI build FAILED:\n" + out[-4000:])
        ctx.violation("the veryl CLI no longer builds", {"kind": "build-failed", "log": out[-6000:]},
                      no_input=True, kind="model!=impl")
        return False
    return True


def run_hx(ctx, domain, args, out_dir=None, timeout=3600, env=None):
    out_dir = out_dir or f"{ctx.run_dir}/{domain}"
    os.makedirs(out_dir, exist_ok=True)
    cmd = [HX, domain, "--out", out_dir] + [str(a) for a in args]
    e = dict(ENV)
    if env:
        e.update(env)
    rc, out = sh(cmd, timeout=timeout, env=e)
    if rc != 0:
        ctx.log(f"hx {domain} exited {rc}:\n{out[-3000:]}")
    return rc, out, out_dir


def run_model(domain, out_dir, ops="ops.txt", dst="model.txt"):
    p = None
    for attempt in range(40):
        # the driver binary is replaced by `lake build`; another check running concurrently may be
        # relinking it right now (missing file / text file busy / killed): wait and retry
        try:
            with open(f"{out_dir}/{ops}") as fh:
                p = subprocess.run([VMODEL, domain], stdin=fh, stdout=subprocess.PIPE, stderr=subprocess.PIPE, text=True)
            if p.returncode >= 0:
                break
        except (FileNotFoundError, OSError):
            pass
        time.sleep(3)
    if p is None:
        raise RuntimeError(f"vmodel binary unavailable: {VMODEL}")
    with open(f"{out_dir}/{dst}", "w") as fh:
        fh.write(p.stdout)
    return p.returncode, p.stderr


def read_lines(path):
    try:
        with open(path) as fh:
            return fh.read().split("\n")[:-1]
    except FileNotFoundError:
        return None


def load_stats(out_dir):
    try:
        with open(f"{out_dir}/stats.json") as fh:
            return json.load(fh)
    except Exception:
        return {}


def diff3(out_dir):
    """Compare impl/model/oracle reply streams.  Returns (n, mism) where mism is a list of
    dicts {i, op, impl, model, oracle, kind}."""
    ops = read_lines(f"{out_dir}/ops.txt") or []
    imp = read_lines(f"{out_dir}/impl.txt") or []
    mod = read_lines(f"{out_dir}/model.txt")
    ora = read_lines(f"{out_dir}/oracle.txt")
    mism = []
    n = len(ops)
    if len(imp) != n:
        mism.append({"i": min(len(imp), n), "op": "(stream length)", "impl": str(len(imp)), "model": str(n), "oracle": None,
                     "kind": "model!=impl"})
        return n, mism
    if mod is not None and len(mod) != n:
        mism.append({"i": min(len(mod), n), "op": ops[min(len(mod), n - 1)] if n else "", "impl": "(model stream ended)",
                     "model": str(len(mod)), "oracle": None, "kind": "model!=impl"})
        return n, mism
    for i in range(n):
        o = ora[i] if ora is not None and i < len(ora) else None
        m = mod[i] if mod is not None else None
        if o is not None and o != "?" and imp[i] != o:
            mism.append({"i": i, "op": ops[i], "impl": imp[i], "model": m, "oracle": o, "kind": "impl!=oracle"})
        elif m is not None and m != "?" and imp[i] != m:
            mism.append({"i": i, "op": ops[i], "impl": imp[i], "model": m, "oracle": o, "kind": "model!=impl"})
        elif m is not None and o is not None and o != "?" and m != "?" and m != o:
            mism.append({"i": i, "op": ops[i], "impl": imp[i], "model": m, "oracle": o, "kind": "model!=oracle"})
    return n, mism


def enclosing_sequence(ops, i, marker="reset"):
    """The operation sequence (after the last `reset` at or before i) up to and including i."""
    j = i
    while j > 0 and ops[j] != marker:
        j -= 1
    start = j + 1 if ops[j] == marker else j
    return ops[start:i + 1]


def ddmin(seq, fails):
    """Delta debugging: a 1-minimal subsequence of `seq` for which `fails` holds (seq itself fails)."""
    n = 2
    seq = list(seq)
    while len(seq) >= 2:
        chunk = max(1, len(seq) // n)
        reduced = False
        for start in range(0, len(seq), chunk):
            cand = seq[:start] + seq[start + chunk:]
            if cand and fails(cand):
                seq = cand
                n = max(n - 1, 2)
                reduced = True
                break
        if not reduced:
            if chunk == 1:
                break
            n = min(n * 2, len(seq))
    return seq


def seq_fails(ctx, domain, ops, tag="shrink", extra_args=()):
    """Replay one op sequence through impl + model; True if any reply differs (impl vs oracle or model)."""
    d = f"{ctx.run_dir}/{tag}"
    os.makedirs(d, exist_ok=True)
    with open(f"{d}/replay.txt", "w") as fh:
        fh.write("\n".join(ops) + "\n")
    rc, out, _ = run_hx(ctx, domain, ["--replay", f"{d}/replay.txt"] + list(extra_args), out_dir=d)
    if rc != 0:
        return True, [{"i": 0, "op": "(harness crashed)", "impl": out[-300:], "model": None, "oracle": None, "kind": "impl!=oracle"}]
    run_model(domain, d)
    n, mism = diff3(d)
    return bool(mism), mism


def sequence_differential(ctx, domain, args, label=None, key_of=None, max_report=3):
    """Generic correspondence + oracle run for an op-sequence domain (reset-delimited)."""
    rc, out, d = run_hx(ctx, domain, args)
    if rc != 0:
        ctx.violation(f"harness domain {domain} crashed (rc={rc})", {"kind": "harness-crash", "log": out[-4000:]},
                      no_input=True, kind="model!=impl")
        return
    mrc, err = run_model(domain, d)
    if mrc != 0:
        ctx.log(f"vmodel {domain} rc={mrc}: {err[-500:]}")
    n, mism = diff3(d)
    stats = load_stats(d)
    ctx.cov["evaluations"] += n
    ctx.cov["traces_validated_against_impl"] += int(stats.get("sequences", 0))
    for k, v in stats.items():
        if k != "samples":
            ctx.cov.setdefault("distribution", {})[f"{domain}.{k}"] = v
    for s in stats.get("samples", []):
        ctx.sample(s)
    ops = read_lines(f"{d}/ops.txt") or []
    imp = read_lines(f"{d}/impl.txt") or []
    cur = []
    for o, r in zip(ops, imp):
        if o == "reset":
            if cur:
                ctx.distinct(tuple(cur))
            cur = []
        else:
            cur.append((o, r))
    if cur:
        ctx.distinct(tuple(cur))
    reported = 0
    seen_starts = set()
    for m in mism:
        seq = enclosing_sequence(ops, m["i"]) if m["i"] < len(ops) else []
        start = m["i"] - len(seq)
        if start in seen_starts:
            continue
        seen_starts.add(start)
        if reported >= max_report:
            break
        reported += 1
        small = seq
        # the whole sequence continues after the first mismatch: look for a property failure
        # (impl != oracle) in the FULL sequence first and shrink with respect to that
        j = m["i"]
        while j + 1 < len(ops) and ops[j + 1] != "reset":
            j += 1
        full = enclosing_sequence(ops, j) if m["i"] < len(ops) else seq
        want_oracle = any(x["kind"] == "impl!=oracle" for x in seq_fails(ctx, domain, full)[1]) if full else False
        if want_oracle:
            seq = full
            small = full

        def pred(c):
            f, mm_ = seq_fails(ctx, domain, c)
            return any(x["kind"] == "impl!=oracle" for x in mm_) if want_oracle else f
        if seq:
            try:
                small = ddmin(seq, pred)
            except Exception as e:  # shrinking is best effort
                ctx.log(f"shrink failed: {e}")
        fails, mm = seq_fails(ctx, domain, small) if small else (True, [m])
        mm = sorted(mm or [m], key=lambda x: 0 if x["kind"] == "impl!=oracle" else 1)
        first = mm[0]
        kind = first["kind"]
        key = key_of(small, first) if key_of else None
        body = {"kind": kind, "domain": domain, "ops": small, "first_difference": first,
                "replay": f"{HX} {domain} --replay <file with the ops, one per line> ; {VMODEL} {domain} < ops.txt",
                "seed": ctx.seed}
        if kind == "impl!=oracle":
            ctx.violation(f"{domain}: implementation differs from the property oracle at `{first['op']}`: "
                          f"impl={first['impl']} oracle={first['oracle']}", body, key=key, kind=kind)
        else:
            body["correspondence"] = f"vmodel {domain} vs hx {domain}"
            ctx.violation(f"{domain}: model/implementation correspondence broken at `{first['op']}`: "
                          f"impl={first['impl']} model={first['model']}", body, no_input=True, key=key, kind=kind)


def tier_n(ctx, quick, thorough):
    return thorough if ctx.tier == "thorough" else quick
