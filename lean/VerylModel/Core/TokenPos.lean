/-
M-TokenPos (C12): where tokens and comments say they are.

Source text is a list of Unicode scalar values coded as `Nat` (`Text`), so that closed instances
evaluate in the kernel.  Rust `str` indices/lengths are BYTE offsets of the UTF-8 encoding: the byte
length of a text is `utf8Len`, the byte offset of a position is `utf8Len` of the text before it.
Line/column are 1-based; a column counts CHARACTERS (scnr2 advances `column + 1` per `char`, and
`Token::end_column` says "Columns count CHARACTERS (parol)"); only `'\n'` (10) starts a new line.

Modelled line by line from /repo/crates/parser/src/veryl_token.rs:
  `COMMENT_REGEX`        -> `scanComments` (hand-written scanner; regex crate trusted + differentially
                            tested against the real regex by `hx tokens`, request `scan`)
  `split_comment_token`  -> `splitCommentToken` (`splitCommentTokenOld` = before the repair)
  `Token::end_line/end_column` -> `endLine` / `endColumn`
Sizes are `Nat` (the Rust code casts to `u32`; sources of 4 GiB and more are outside the model).
Import-free: linked into `vmodel`.
-/
namespace VerylModel.TokenPos

abbrev Text := List Nat

/-- `char::len_utf8`. -/
def utf8Size (c : Nat) : Nat :=
  if c < 0x80 then 1 else if c < 0x800 then 2 else if c < 0x10000 then 3 else 4

/-- Sum of per-character weights; `w = utf8Size` gives `str::len()`, `w = 1` gives `chars().count()`. -/
def lenW (w : Nat → Nat) : Text → Nat
  | [] => 0
  | c :: cs => w c + lenW w cs

/-- `str::len()`: length in bytes. -/
def utf8Len (t : Text) : Nat := lenW utf8Size t

/-- `s.matches('\n').count()`. -/
def countNl : Text → Nat
  | [] => 0
  | c :: cs => (if c = 10 then 1 else 0) + countNl cs

/-- `s.rfind('\n')`: byte index of the last line feed. -/
def rfindNl : Text → Option Nat
  | [] => none
  | c :: cs =>
    match rfindNl cs with
    | some i => some (utf8Size c + i)
    | none => if c = 10 then some 0 else none

/-- `s.split('\n').next_back()`: the text after the last line feed (everything if there is none). -/
def lastSeg : Text → Text
  | [] => []
  | c :: cs => if countNl cs = 0 then (if c = 10 then cs else c :: cs) else lastSeg cs

/-! ### Reference positions (the specification side) -/

/-- Position after one more character, with a per-character column weight. -/
def advanceW (w : Nat → Nat) (lc : Nat × Nat) (c : Nat) : Nat × Nat :=
  if c = 10 then (lc.1 + 1, 1) else (lc.1, lc.2 + w c)

def advanceWAll (w : Nat → Nat) (lc : Nat × Nat) : Text → Nat × Nat
  | [] => lc
  | c :: cs => advanceWAll w (advanceW w lc c) cs

/-- Character columns (the reference). -/
def advanceAll (lc : Nat × Nat) (t : Text) : Nat × Nat := advanceWAll (fun _ => 1) lc t

def lineColFrom : Text → Nat → Nat × Nat → Nat × Nat
  | [], _, lc => lc
  | c :: cs, pos, lc =>
    if pos = 0 then lc else lineColFrom cs (pos - utf8Size c) (advanceW (fun _ => 1) lc c)

/-- (line, column) of the character that starts at byte offset `pos` of `src`: 1-based, columns in
characters.  (An offset inside a character is rounded up to the next boundary; `occursAt` below is
strict about boundaries.) -/
def lineCol (src : Text) (pos : Nat) : Nat × Nat := lineColFrom src pos (1, 1)

def isPrefix : Text → Text → Bool
  | [], _ => true
  | _ :: _, [] => false
  | a :: as, b :: bs => a == b && isPrefix as bs

/-- `text` stands in `src` at byte offset `pos` (which must be a character boundary). -/
def occursAt : Text → Nat → Text → Bool
  | [], pos, text => pos == 0 && isPrefix text []
  | c :: cs, pos, text =>
    if pos = 0 then isPrefix text (c :: cs)
    else decide (utf8Size c ≤ pos) && occursAt cs (pos - utf8Size c) text

/-! ### `COMMENT_REGEX`

`((?://.*(?:\r\n|\r|\n|$))|(?:/\*(?:[^*]|\*+[^*/])*\*+/))`, `regex` crate semantics (leftmost-first,
`.` = any scalar value but `\n`, `$` = end of text only), iterated by `captures_iter`
(non-overlapping, the next search starts at the end of the previous match). -/

/-- After `//`: `.*` is greedy and stops only in front of `\n` or at the end of the text, where
`\n` resp. `$` matches (a `\r` in front of the `\n` has been eaten by `.*`).
Returns (matched, rest). -/
def takeLine : Text → Text × Text
  | [] => ([], [])
  | c :: cs => if c = 10 then ([c], cs) else ((c :: (takeLine cs).1), (takeLine cs).2)

/-- After `/*`: up to and including the first `*/` (the `*` of the opener cannot be reused, `/*/`
is not a comment).  `none` if there is no closer. -/
def takeBlock : Text → Option (Text × Text)
  | [] => none
  | [_] => none
  | c :: d :: cs =>
    if c = 42 ∧ d = 47 then some ([c, d], cs)
    else match takeBlock (d :: cs) with
      | some r => some (c :: r.1, r.2)
      | none => none

/-- A match of `COMMENT_REGEX` anchored at the head of the text: (matched, rest). -/
def matchAt : Text → Option (Text × Text)
  | c :: d :: cs =>
    if c = 47 ∧ d = 47 then some (c :: d :: (takeLine cs).1, (takeLine cs).2)
    else if c = 47 ∧ d = 42 then
      match takeBlock cs with
      | some r => some (c :: d :: r.1, r.2)
      | none => none
    else none
  | _ => none

/-- Put an unmatched character in front of the next match's gap (dropped if no match follows). -/
def consGap (c : Nat) : List (Text × Text) → List (Text × Text)
  | [] => []
  | (g, m) :: rest => (c :: g, m) :: rest

/-- All matches, each with the unmatched text (`gap`) between the end of the previous match and
its start.  `fuel` bounds the number of steps (each consumes at least one character). -/
def scanFuel : Nat → Text → List (Text × Text)
  | 0, _ => []
  | _ + 1, [] => []
  | f + 1, c :: cs =>
    match matchAt (c :: cs) with
    | some r => ([], r.1) :: scanFuel f r.2
    | none => consGap c (scanFuel f cs)

def scanComments (text : Text) : List (Text × Text) := scanFuel (text.length + 1) text

/-! ### `split_comment_token` -/

/-- A comment token as produced by `split_comment_token`.  `off` is a ghost field: `cap.start()`,
the byte offset of the match inside the run (the Rust token does not store it; its `text` is
`&text[off..off+length]`). -/
structure Tok where
  text : Text
  line : Nat
  col : Nat
  len : Nat
  pos : Nat
  off : Nat
  deriving DecidableEq, Repr

/-- The loop of `split_comment_token`.  State `(lc, pos)` = Rust `(line, column)`, `prev_pos`;
`prevCom` = the previous match, so that `&text[prev_pos..pos]` is `prevCom ++ gap` and
`cap.start()` is `prev_pos + prev_text.len()`.  `step` = the update of `(line, column)` from
`prev_text`; `mkPos start length` = the `pos:` field of the new token. -/
def splitLoop (step : Nat × Nat → Text → Nat × Nat) (mkPos : Nat → Nat → Nat)
    (lc : Nat × Nat) (prevPos : Nat) (prevCom : Text) : List (Text × Text) → List Tok
  | [] => []
  | (gap, com) :: rest =>
    let prevText := prevCom ++ gap
    let pos := prevPos + utf8Len prevText
    let length := utf8Len com
    let lc' := step lc prevText
    { text := com, line := lc'.1, col := lc'.2, len := length, pos := mkPos pos length, off := pos }
      :: splitLoop step mkPos lc' pos com rest

/-- As coded:
```
let n_lines = prev_text.matches('\n').count() as u32;
line += n_lines;
// Columns count characters, like every other token's column.
column = if n_lines == 0 { column + prev_text.chars().count() as u32 }
         else { prev_text[prev_text.rfind('\n').unwrap() + 1..].chars().count() as u32 + 1 };
```
(`prev_text[rfind('\n') + 1..]` is `lastSeg prev_text`; `unwrap` cannot fail in that branch.) -/
def stepCoded (lc : Nat × Nat) (prevText : Text) : Nat × Nat :=
  let nLines := countNl prevText
  (lc.1 + nLines,
   if nLines = 0 then lc.2 + prevText.length
   else (lastSeg prevText).length + 1)

/-- As coded: `pos: token.pos + pos as u32` — the run's own offset plus the offset inside the run. -/
def mkPosCoded (basePos pos _length : Nat) : Nat := basePos + pos

/-- `split_comment_token(token)` for a run with text `text` reported by the lexer at
`(line, column)` and byte offset `basePos`. -/
def splitCommentToken (text : Text) (line col basePos : Nat) : List Tok :=
  splitLoop stepCoded (mkPosCoded basePos) (line, col) 0 [] (scanComments text)

/-! ### `Token::end_line` / `Token::end_column` -/

def endLine (text : Text) (line : Nat) : Nat := line + countNl text

/-- `if text.matches('\n').count() > 0 { text.split('\n').next_back().map(|x| x.chars().count()) }
    else { self.column + text.chars().count() - 1 }` (`u32` subtraction: `Nat` truncation here;
the theorem assumes `1 ≤ column`). -/
def endColumn (text : Text) (col : Nat) : Nat :=
  if countNl text > 0 then (lastSeg text).length else col + text.length - 1

/-! ### `split_comment_token` before the repair (kept to document the two defects; see Props/C12 `old_*`)

```
column = if n_lines == 0 { column + prev_text.len() as u32 }
         else { (prev_text.len() - prev_text.rfind('\n').unwrap_or(0)) as u32 };
...
pos: pos as u32 + length,
```
Columns advanced by BYTES, and `pos` was the offset inside the run plus the length. -/

def stepOld (lc : Nat × Nat) (prevText : Text) : Nat × Nat :=
  let nLines := countNl prevText
  (lc.1 + nLines,
   if nLines = 0 then lc.2 + utf8Len prevText
   else utf8Len prevText - (rfindNl prevText).getD 0)

def splitCommentTokenOld (text : Text) (line col : Nat) : List Tok :=
  splitLoop stepOld (fun pos length => pos + length) (line, col) 0 [] (scanComments text)

end VerylModel.TokenPos
