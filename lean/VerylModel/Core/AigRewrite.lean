/-
C21 — executable model of `/repo/crates/synthesizer/src/aig/rewrite.rs` (the whole pass):
`merge_cuts`, `enumerate_cuts`, `try_library_rewrite`, `rewrite`, `compact`.

Mirrors the Rust statement by statement. Representation choices:
* `new_edge: Vec<Option<AigEdge>>` is filled front to back (nodes are visited in index order and only
  earlier entries are read), so it is a growing `List Nat`; an `expect` that would fail in Rust shows up
  as the default edge `const0` — excluded by topological order (`Aig.wf`), which the driver checks.
* the pattern library (a process-wide table built at run time) is a parameter `lib : Nat → Option Pattern`.
* `Vec::sort_by` is a stable sort, as is `List.mergeSort`; for a total preorder the result of a stable
  sort is unique. `Vec::dedup_by(|a, b| a.leaves == b.leaves)` removes an element whose leaves equal
  those of the last retained element.
* `HashSet`/`HashMap` are used by the Rust for membership / lookup only (no iteration), so they do not
  influence the result.
-/
import VerylModel.Core.Aig

namespace VerylModel.Core.AigRewrite
open VerylModel.Gen.Npn VerylModel.Core.Npn VerylModel.Core.Aig

/-- `Cut`. -/
structure Cut where
  leaves : List Nat
  coneSize : Nat
deriving DecidableEq, Repr

/-- The `while` loop of `merge_cuts`: sorted-merge union, `None` once a fifth leaf would be pushed. -/
def mergeLoop : List Nat → List Nat → List Nat → Option (List Nat)
  | [], [], out => some out
  | a :: as, [], out => if out.length ≥ maxCutLeaves then none else mergeLoop as [] (out ++ [a])
  | [], b :: bs, out => if out.length ≥ maxCutLeaves then none else mergeLoop [] bs (out ++ [b])
  | a :: as, b :: bs, out =>
    if out.length ≥ maxCutLeaves then none
    else if a < b then mergeLoop as (b :: bs) (out ++ [a])
    else if a > b then mergeLoop (a :: as) bs (out ++ [b])
    else mergeLoop as bs (out ++ [a])
termination_by l1 l2 _ => l1.length + l2.length

/-- `merge_cuts`. -/
def mergeCuts (a b : Cut) : Option Cut :=
  (mergeLoop a.leaves b.leaves []).map fun l => ⟨l, a.coneSize + b.coneSize + 1⟩

/-- `Vec<u32>::cmp` (lexicographic; a proper prefix is smaller). -/
def lexCmp : List Nat → List Nat → Ordering
  | [], [] => .eq
  | [], _ :: _ => .lt
  | _ :: _, [] => .gt
  | a :: as, b :: bs => if a < b then .lt else if a > b then .gt else lexCmp as bs

/-- First `sort_by`: `a.leaves.cmp(&b.leaves).then(a.cone_size.cmp(&b.cone_size))`, as "a ≤ b". -/
def leLeaves (a b : Cut) : Bool :=
  match lexCmp a.leaves b.leaves with
  | .lt => true
  | .gt => false
  | .eq => a.coneSize ≤ b.coneSize

/-- Second `sort_by`: `a.leaves.len().cmp(..).then(a.cone_size.cmp(..))`, as "a ≤ b". -/
def leSize (a b : Cut) : Bool :=
  if a.leaves.length < b.leaves.length then true
  else if a.leaves.length > b.leaves.length then false
  else a.coneSize ≤ b.coneSize

/-- `own.dedup_by(|a, b| a.leaves == b.leaves)`. -/
def dedupLeaves (l : List Cut) : List Cut :=
  l.foldl (fun out c =>
    match out.getLast? with
    | some p => if c.leaves == p.leaves then out else out ++ [c]
    | none => [c]) []

/-- The cuts of one AND node from the cuts of its fan-ins (body of the `And` arm of `enumerate_cuts`). -/
def andCuts (i : Nat) (ca cb : List Cut) : List Cut :=
  let own := ca.flatMap fun x => cb.filterMap fun y => mergeCuts x y
  let own := own ++ [⟨[i], 0⟩]
  let own := own.mergeSort leLeaves
  let own := dedupLeaves own
  let own := own.mergeSort leSize
  own.take cutsPerNode

/-- `enumerate_cuts`. -/
def enumerateCuts (nodes : List Node) : List (List Cut) :=
  nodes.foldl (fun cuts n =>
    let i := cuts.length
    match n with
    | .and f0 f1 => cuts ++ [andCuts i (cuts.getD (eNode f0) []) (cuts.getD (eNode f1) [])]
    | _ => cuts ++ [[⟨[i], 0⟩]]) []

/-- Loop body of `try_library_rewrite` for one cut; state = (new graph, `best`). -/
def tryCut (lib : Nat → Option Pattern) (old : List Node) (root : Nat) (newEdge : List Nat)
    (st : Aig × Option (Nat × Nat)) (cut : Cut) : Aig × Option (Nat × Nat) :=
  if cut.leaves.length < 2 || cut.leaves.length > 4 then st
  else
    match cutTt old root cut.leaves with
    | none => st
    | some tt =>
      let ct := npnCanonical tt
      match lib ct.1 with
      | none => st
      | some pat =>
        let patSize := pat.size
        if patSize ≥ cut.coneSize then st
        else
          let leafEdges := cut.leaves.map fun leaf => newEdge.getD leaf const0
          let r := replaceCut st.1 pat leafEdges ct.2
          match st.2 with
          | some (bs, e) => if bs ≤ patSize then (r.1, some (bs, e)) else (r.1, some (patSize, r.2))
          | none => (r.1, some (patSize, r.2))

/-- `try_library_rewrite`. -/
def tryLibraryRewrite (lib : Nat → Option Pattern) (g : Aig) (old : List Node) (root : Nat)
    (cuts : List Cut) (newEdge : List Nat) : Aig × Option Nat :=
  let st := cuts.foldl (tryCut lib old root newEdge) (g, none)
  (st.1, st.2.map fun p => p.2)

/-- Body of the main loop of `rewrite` for node `idx = newEdge.length`. -/
def rewriteStep (lib : Nat → Option Pattern) (old : List Node) (cuts : List (List Cut))
    (st : Aig × List Nat) (node : Node) : Aig × List Nat :=
  let idx := st.2.length
  match node with
  | .const => (st.1, st.2 ++ [const0])
  | .input origin =>
    let r := addInput st.1 origin
    (r.1, st.2 ++ [r.2])
  | .and f0 f1 =>
    let r := tryLibraryRewrite lib st.1 old idx (cuts.getD idx []) st.2
    match r.2 with
    | some e => (r.1, st.2 ++ [e])
    | none =>
      let e0 := eNegateIf (st.2.getD (eNode f0) const0) (eNeg f0)
      let e1 := eNegateIf (st.2.getD (eNode f1) const0) (eNeg f1)
      let m := mkAnd r.1 e0 e1
      (m.1, st.2 ++ [m.2])

/-- `rewrite` up to (excluding) the final `compact`. -/
def rewriteNoCompact (lib : Nat → Option Pattern) (old : Aig) : Aig :=
  let cuts := enumerateCuts old.nodes
  let st := old.nodes.foldl (rewriteStep lib old.nodes cuts) (Aig.new, [])
  { st.1 with sinks := old.sinks.map fun s => (s.1, eNegateIf (st.2.getD (eNode s.2) const0) (eNeg s.2)) }

/-- Reachability from the sinks (`live`), as a Boolean per node: nodes are scanned from the last to the
first, a node is live if a sink or a live later AND refers to it (same set as the DFS of the Rust). -/
def liveNodes (g : Aig) : List Bool :=
  let n := g.nodes.length
  let init := (List.range n).map fun i => g.sinks.any fun s => eNode s.2 == i
  (List.range n).reverse.foldl (fun live i =>
    if live.getD i false then
      match g.nodes.getD i Node.const with
      | .and a b => (live.set (eNode a) true).set (eNode b) true
      | _ => live
    else live) init

/-- Loop body of `compact`; `newEdge` has one entry per old node (dead ones keep `const0`, never read). -/
def compactStep (live : List Bool) (st : Aig × List Nat) (node : Node) : Aig × List Nat :=
  let idx := st.2.length
  if !(live.getD idx false) then (st.1, st.2 ++ [const0])
  else
    match node with
    | .const => (st.1, st.2 ++ [const0])
    | .input origin =>
      let r := addInput st.1 origin
      (r.1, st.2 ++ [r.2])
    | .and f0 f1 =>
      let e0 := eNegateIf (st.2.getD (eNode f0) const0) (eNeg f0)
      let e1 := eNegateIf (st.2.getD (eNode f1) const0) (eNeg f1)
      let m := mkAnd st.1 e0 e1
      (m.1, st.2 ++ [m.2])

/-- `compact`. -/
def compact (g : Aig) : Aig :=
  let live := liveNodes g
  let st := g.nodes.foldl (compactStep live) (Aig.new, [])
  { st.1 with sinks := g.sinks.map fun s => (s.1, eNegateIf (st.2.getD (eNode s.2) const0) (eNeg s.2)) }

/-- `rewrite`. -/
def rewrite (lib : Nat → Option Pattern) (old : Aig) : Aig := compact (rewriteNoCompact lib old)

end VerylModel.Core.AigRewrite
