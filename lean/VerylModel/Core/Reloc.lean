/-!
# M-Reloc — converted-module caches and relocation (C34)

Import-free, executable.

* `buildCached` mirrors `build_ir_cached` (`crates/simulator/src/ir.rs`): a cache keyed by the top
  module's NAME; a hit returns the stored `ProtoModule`, a miss converts and stores.
* chunks and relocation mirror `backend/inst.rs` (`relocate_entry`, `reloc_stmt`,
  `CompiledBlock.{ff,comb}_delta_bytes`): a converted child is a list of instructions whose
  operands are offsets relative to the instance's (ff, comb) base; reusing it elsewhere means
  running the same instructions with another base.  `absRd` is what input-port ALIASING produces:
  an operand that is a slot of the parent (an absolute address baked into the chunk).
* `aliasDecision` mirrors `port_alias_enabled`; `computeRecurring` mirrors
  `compute_recurring_set_inner`; `markSeen` mirrors `mark_seen_and_is_recurring`.
-/
namespace VerylModel.Reloc

/-! ## The name-keyed cache -/

/-- `ProtoModuleCache`: name ↦ converted module. -/
def cacheGet {V : Type} (c : List (Nat × V)) (k : Nat) : Option V :=
  match c with
  | [] => none
  | (k', v) :: rest => if k' = k then some v else cacheGet rest k

/-- `build_ir_cached`: `build` is `Conv::conv` of the component named `k` in the analyzer IR at
    hand (`none` = `TopModuleNotFound`, not cached). -/
def buildCached {V : Type} (build : Nat → Option V) (c : List (Nat × V)) (k : Nat) :
    Option V × List (Nat × V) :=
  match cacheGet c k with
  | some v => (some v, c)
  | none =>
    match build k with
    | some v => (some v, (k, v) :: c)
    | none => (none, c)

/-- A sequence of tests through one cache; each test may come with its own analyzer IR
    (`build ir`).  Returns what every test got. -/
def runCached {I V : Type} (build : I → Nat → Option V) :
    List (I × Nat) → List (Nat × V) → List (Option V)
  | [], _ => []
  | (ir, k) :: rest, c =>
    let r := buildCached (build ir) c k
    r.1 :: runCached build rest r.2

/-! ## Memory, chunks, relocation -/

/-- (is_ff, base-relative offset) — `VarOffset::{Ff,Comb}`. -/
structure Loc where
  ff : Bool
  off : Nat
  deriving Repr, DecidableEq

/-- (ff base, comb base) of an instance; also used for region sizes and deltas. -/
structure Base where
  ff : Nat
  comb : Nat
  deriving Repr, DecidableEq

def Base.of (b : Base) (sp : Bool) : Nat := if sp then b.ff else b.comb

def Base.add (b d : Base) : Base := { ff := b.ff + d.ff, comb := b.comb + d.comb }

/-- Memory: space (ff / comb) → address → byte. -/
def Mem := Bool → Nat → Nat

inductive Ins where
  | mov (dst src : Loc)
  | addc (dst src : Loc) (c : Nat)
  | add2 (dst s1 s2 : Loc)
  | absRd (dst : Loc) (sp : Bool) (addr : Nat)   -- aliased port: absolute parent slot
  deriving Repr, DecidableEq

def rd (b : Base) (m : Mem) (l : Loc) : Nat := m l.ff (b.of l.ff + l.off)

def wr (b : Base) (m : Mem) (l : Loc) (v : Nat) : Mem :=
  fun sp a => if sp = l.ff ∧ a = b.of l.ff + l.off then v else m sp a

def stepIns (b : Base) (m : Mem) : Ins → Mem
  | .mov d s => wr b m d (rd b m s)
  | .addc d s c => wr b m d ((rd b m s + c) % 256)
  | .add2 d s1 s2 => wr b m d ((rd b m s1 + rd b m s2) % 256)
  | .absRd d sp a => wr b m d (m sp a)

def runChunk (b : Base) : List Ins → Mem → Mem
  | [], m => m
  | i :: is, m => runChunk b is (stepIns b m i)

def Loc.inside (sz : Base) (l : Loc) : Bool := decide (l.off < sz.of l.ff)

/-- Every operand is base-relative and inside the instance's own region. -/
def Ins.confined (sz : Base) : Ins → Bool
  | .mov d s => d.inside sz && s.inside sz
  | .addc d s _ => d.inside sz && s.inside sz
  | .add2 d s1 s2 => d.inside sz && s1.inside sz && s2.inside sz
  | .absRd _ _ _ => false

def confined (sz : Base) (is : List Ins) : Bool := is.all (Ins.confined sz)

/-- No aliased operand (writes and reads may still leave the region). -/
def Ins.relative : Ins → Bool
  | .absRd _ _ _ => false
  | _ => true

/-- Move the whole memory up by `d`. -/
def shift (d : Base) (m : Mem) : Mem :=
  fun sp a => if a < d.of sp then 0 else m sp (a - d.of sp)

/-- The regions of size `sz` at `b1` in `m1` and at `b2` in `m2` hold the same bytes. -/
def SameRegion (sz b1 b2 : Base) (m1 m2 : Mem) : Prop :=
  ∀ sp off, off < sz.of sp → m2 sp (b2.of sp + off) = m1 sp (b1.of sp + off)

/-! ### What the harness compares: a variable table shifted by one (ff, comb) delta -/

/-- (is_ff, offset, native bytes) -/
abbrev VarEnt := Bool × Int × Nat

/-- `relocate_entry` on the variable metadata: `ff_delta = ff_start - ref_ff_start`, the same for
    comb; the anchors are the offsets of the first ff / comb entry of the second instance. -/
def relocTable (a : List VarEnt) (ffB combB : Int) : List VarEnt :=
  let ffA := (a.find? (fun e => e.1)).map (fun e => e.2.1)
  let combA := (a.find? (fun e => !e.1)).map (fun e => e.2.1)
  let dff := ffB - ffA.getD 0
  let dcomb := combB - combA.getD 0
  a.map (fun e => (e.1, e.2.1 + (if e.1 then dff else dcomb), e.2.2))

/-! ## Alias decision -/

/-- The instantiation hierarchy below a module: every instance's component (`Arc` pointer = `id`)
    with the instances inside it. -/
inductive Comp where
  | node (id : Nat) (kids : List Comp)
  deriving Repr

/-- `mark_seen_and_is_recurring`: the first test top to convert a component owns it; it "recurs"
    for every other top. -/
def markSeen (seen : List (Nat × Nat)) (comp top : Nat) : Bool × List (Nat × Nat) :=
  match cacheGet seen comp with
  | some t => (decide (t ≠ top), seen)
  | none => (false, (comp, top) :: seen)

/-- `port_alias_enabled` (reuse on, no override): `pre` = the precomputed recurring set if any. -/
def aliasDecision (pre : Option (List Nat)) (seen : List (Nat × Nat)) (comp top : Nat)
    (bytes minBytes : Nat) (inReuseDut : Bool) : Bool × List (Nat × Nat) :=
  let r := match pre with
    | some s => (s.contains comp, seen)
    | none => markSeen seen comp top
  let isDutBoundary := r.1 && !inReuseDut && decide (minBytes ≤ bytes)
  (!isDutBoundary, r.2)

mutual
/-- `mark_subtree`: `if recurring.insert(key) { mark_subtree(child) }` over the instances. -/
def markSub : List Comp → List Nat → List Nat
  | [], r => r
  | c :: cs, r => markSub cs (markOne c r)
def markOne : Comp → List Nat → List Nat
  | .node id kids, r => if r.contains id then r else markSub kids (id :: r)
end

mutual
/-- `walk(m, top, owner, recurring)` over the instances of `m`. -/
def walkKids (top : Nat) : List Comp → List (Nat × Nat) × List Nat → List (Nat × Nat) × List Nat
  | [], s => s
  | c :: cs, s => walkKids top cs (walkOne top c s)
def walkOne (top : Nat) : Comp → List (Nat × Nat) × List Nat → List (Nat × Nat) × List Nat
  | .node id kids, (owner, rec) =>
    if rec.contains id then (owner, rec)
    else match cacheGet owner id with
      | some o => if o ≠ top then (owner, markSub kids (id :: rec)) else (owner, rec)
      | none => walkKids top kids ((id, top) :: owner, rec)
end

/-- `compute_recurring_set_inner`: tops = (name, instances of the top module). -/
def computeRecurring : List (Nat × List Comp) → List (Nat × Nat) × List Nat → List Nat
  | [], s => s.2
  | (top, kids) :: rest, s => computeRecurring rest (walkKids top kids s)

end VerylModel.Reloc
