import VerylModel.Gen.DropTables
/-
M-LsState: model of the global analyzer state a long-lived `veryl-ls` keeps between notifications
(C07).

Code modelled: `Server::serve` dispatch, `Server::on_change` (drop_file → parse → pass1 → post-pass1
→ pass2 → post-pass2), `Server::on_remove`, `Server::background_analyze` (one file),
`Analyzer::drop_file`, and the *shape* of every `thread_local!` table of crates/analyzer and
crates/parser: a table is a list of entries tagged `(file, generation)`; the generation is the
value of the monotone id counters (`SYMBOL_ID`, `TOKEN_ID`, `TEXT_ID`, `DEFINITION_ID`) at the
analysis that wrote the entry.

How a table reacts to a re-analysis of file `f` is its *class*:
* `dropped`     – `drop_file` removes the entries tagged `f`, the new analysis appends its own;
* `recomputed`  – the table is a function of the current buffers whenever a diagnostic pass reads it
                  (queues drained by every post-pass, constants, memo tables of pure functions);
* `freshKeyed`  – nothing is removed, but entries are keyed by ids of the generation that wrote them
                  and a lookup only ever uses ids of the *live* generation of a file;
* `leaky`       – nothing is removed and lookups are by position / name, so entries of earlier
                  generations stay visible.

What the analysis of content `c` of file `f` writes into table `t` is an arbitrary function
`ana t f c` (a parameter): the theorems hold for every analyzer.

Not modelled (trusted / tested by checks/c07.py on the real server): the content of the entries,
cross-file mutation of symbols by the post-passes, `document_map`/`parser_map`/`metadata_map` of
the server (not `thread_local!` tables), the order in which a background scan visits files.
Imports only the generated table list.
-/
namespace VerylModel.LsState
open VerylModel.Gen.DropTables

inductive Cls where
  | dropped | recomputed | freshKeyed | leaky
deriving DecidableEq, Repr

structure Entry where
  file : Nat
  gen : Nat
  payload : Nat
deriving DecidableEq, Repr

/-- `ana t f c`: payloads that analysing content `c` of file `f` writes into table `t`. -/
abbrev Ana := Nat → Nat → Nat → List Nat

structure Cfg where
  cls : Nat → Cls
  ana : Ana

structure State where
  /-- last generation issued (the id counters) -/
  gen : Nat
  /-- file ↦ (content last analysed, generation of that analysis); `none`: never seen / removed -/
  cur : Nat → Option (Nat × Nat)
  /-- files ever analysed (what a scan enumerates) -/
  known : List Nat
  /-- table ↦ entries -/
  tbl : Nat → List Entry

def init : State := { gen := 0, cur := fun _ => none, known := [], tbl := fun _ => [] }

def mk (f g : Nat) (ps : List Nat) : List Entry := ps.map (fun p => { file := f, gen := g, payload := p })

/-- A table that is recomputed from the buffers: one block per known file. -/
def block (cfg : Cfg) (t : Nat) (cur : Nat → Option (Nat × Nat)) (x : Nat) : List Entry :=
  match cur x with
  | some (c, g) => mk x g (cfg.ana t x c)
  | none => []

def rebuild (cfg : Cfg) (t : Nat) (cur : Nat → Option (Nat × Nat)) (known : List Nat) : List Entry :=
  known.flatMap (block cfg t cur)

/-- `Analyzer::drop_file(f)` on one table. -/
def dropTable (c : Cls) (f : Nat) (T : List Entry) : List Entry :=
  match c with
  | .dropped => T.filter (fun e => e.file != f)
  | _ => T

/-- `on_change` / `background_analyze` of file `f` with content `c`: drop, then analyse under a
    fresh generation. -/
def analyse (cfg : Cfg) (s : State) (f c : Nat) : State :=
  let g := s.gen + 1
  { gen := g
    cur := fun x => if x = f then some (c, g) else s.cur x
    known := if f ∈ s.known then s.known else f :: s.known
    tbl := fun t => dropTable (cfg.cls t) f (s.tbl t) ++ mk f g (cfg.ana t f c) }

/-- `on_remove` (willRenameFiles old uri / willDeleteFiles): `drop_file` only. -/
def remove (cfg : Cfg) (s : State) (f : Nat) : State :=
  { s with
    cur := fun x => if x = f then none else s.cur x
    tbl := fun t => dropTable (cfg.cls t) f (s.tbl t) }

/-- Notifications. `rename f g c`: the old uri is dropped, the scan (or the editor's didOpen)
    analyses the new uri with content `c`. `rescan f`: a background scan re-reads `f` unchanged. -/
inductive Note where
  | opn (f c : Nat)
  | change (f c : Nat)
  | save (f : Nat)
  | close (f : Nat)
  | rename (f g c : Nat)
  | delete (f : Nat)
  | rescan (f : Nat)
deriving DecidableEq, Repr

def step (cfg : Cfg) (s : State) : Note → State
  | .opn f c => analyse cfg s f c
  | .change f c => analyse cfg s f c
  | .save _ => s            -- backend.rs has no did_save handler
  | .close _ => s           -- backend.rs has no did_close handler
  | .rename f g c => analyse cfg (remove cfg s f) g c
  | .delete f => remove cfg s f
  | .rescan f => match s.cur f with
      | some (c, _) => analyse cfg s f c
      | none => s

def run (cfg : Cfg) (s : State) (h : List Note) : State := h.foldl (step cfg) s

/-! ### Specification side: the buffers a history leaves behind (no tables involved) -/

abbrev Bufs := Nat → Option Nat

def bufStep (b : Bufs) : Note → Bufs
  | .opn f c => fun x => if x = f then some c else b x
  | .change f c => fun x => if x = f then some c else b x
  | .save _ => b
  | .close _ => b
  | .rename f g c => fun x => if x = g then some c else if x = f then none else b x
  | .delete f => fun x => if x = f then none else b x
  | .rescan _ => b

def bufsOf (b : Bufs) (h : List Note) : Bufs := h.foldl bufStep b

def noBufs : Bufs := fun _ => none

/-- What a table shows for file `f` if it is a function of the buffers. -/
def expected (cfg : Cfg) (b : Bufs) (t f : Nat) : List Nat :=
  match b f with
  | some c => cfg.ana t f c
  | none => []

/-- Entries filed under `f`, in insertion order. -/
def view (f : Nat) (T : List Entry) : List Nat := (T.filter (fun e => e.file == f)).map (·.payload)

/-- What a diagnostic pass can see of table `t` about file `f`. -/
def obs (cfg : Cfg) (s : State) (t f : Nat) : List Nat :=
  match cfg.cls t with
  | .recomputed => view f (rebuild cfg t s.cur s.known)
  | .freshKeyed => match s.cur f with
      | some (_, g) => ((s.tbl t).filter (fun e => e.file == f && e.gen == g)).map (·.payload)
      | none => []
  | .dropped => view f (s.tbl t)
  | .leaky => view f (s.tbl t)

/-- A freshly started server fed the buffers `fs` (file, content), in that order. -/
def freshHist (fs : List (Nat × Nat)) : List Note := fs.map (fun fc => Note.opn fc.1 fc.2)

/-! ### Classification of the real tables (hand-written, keyed by the generated identifiers)

Reasons are strings for the evidence; the class is what the theorems use. -/

def classification : List (Nat × Cls) := [
  (T.analyzer_attribute_PAT, .recomputed),
  (T.analyzer_attribute_table_ATTRIBUTE_TABLE, .dropped),
  (T.analyzer_comb_loop_detect_procedure_FUNCTION_BARRIER_EVALUATIONS, .leaky),
  (T.analyzer_comb_loop_detect_procedure_FUNCTION_EVALUATIONS, .leaky),
  (T.analyzer_comb_loop_detect_procedure_FUNCTION_RESULT_REGION_PROBES, .leaky),
  (T.analyzer_comb_loop_detect_procedure_FUNCTION_RESULT_VERSIONS, .leaky),
  (T.analyzer_comb_loop_detect_procedure_MODULE_CONTEXT_ENTRIES, .leaky),
  (T.analyzer_component_manifest_table_TABLE, .recomputed),
  (T.analyzer_connect_operation_table_CONNECT_OPERATION_TABLE, .freshKeyed),
  (T.analyzer_definition_table_DEFINITION_ID, .freshKeyed),
  (T.analyzer_definition_table_DEFINITION_TABLE, .dropped),
  (T.analyzer_fragment_codec_DECODE, .recomputed),
  (T.analyzer_fragment_codec_ENCODE, .recomputed),
  (T.analyzer_generic_inference_table_INFERRED, .freshKeyed),
  (T.analyzer_generic_inference_table_PENDING, .recomputed),
  (T.analyzer_ir_comb_to_ff_hoist_GLOBAL_APPLIED, .leaky),
  (T.analyzer_ir_comb_to_ff_hoist_GLOBAL_LIMIT, .leaky),
  (T.analyzer_ir_comb_to_ff_hoist_GLOBAL_SEEN, .leaky),
  (T.analyzer_ir_comb_to_ff_hoist_GLOBAL_SKIP, .leaky),
  (T.analyzer_ir_comb_to_ff_hoist_LIMIT_READ, .leaky),
  (T.analyzer_literal_table_LITERAL_TABLE, .freshKeyed),
  (T.analyzer_msb_table_MSB_TABLE, .freshKeyed),
  (T.analyzer_reference_table_REFERENCE_TABLE, .leaky),
  (T.analyzer_resolved_type_table_RESOLVED_TYPE_TABLE, .freshKeyed),
  (T.analyzer_scope_SCOPE_ARENA, .leaky),
  (T.analyzer_stopwatch_STOPWATCH_TABLE, .leaky),
  (T.analyzer_symbol_SYMBOL_ID, .freshKeyed),
  (T.analyzer_symbol_table_GENERIC_INSTANCE_INDEX, .leaky),
  (T.analyzer_symbol_table_NS_GENERIC_MAP_CACHE, .dropped),
  (T.analyzer_symbol_table_SYMBOL_CACHE, .dropped),
  (T.analyzer_symbol_table_SYMBOL_ERR_CACHE, .dropped),
  (T.analyzer_symbol_table_SYMBOL_TABLE, .dropped),
  (T.analyzer_type_dag_TYPE_DAG, .leaky),
  (T.analyzer_unsafe_PAT, .recomputed),
  (T.analyzer_unsafe_table_UNSAFE_TABLE, .dropped),
  (T.parser_doc_comment_table_DOC_COMMENT_TABLE, .leaky),
  (T.parser_fragment_codec_DECODE, .recomputed),
  (T.parser_fragment_codec_ENCODE, .recomputed),
  (T.parser_resource_table_CANONICAL_CACHE, .recomputed),
  (T.parser_resource_table_PATHBUF_TABLE, .recomputed),
  (T.parser_resource_table_STRING_TABLE, .recomputed),
  (T.parser_resource_table_TOKEN_ID, .freshKeyed),
  (T.parser_text_table_TEXT_ID, .freshKeyed),
  (T.parser_text_table_TEXT_TABLE, .dropped)]

def clsOf (t : Nat) : Option Cls := (classification.find? (fun e => e.1 == t)).map (·.2)

/-- The class the theorems use for the real server; an unclassified table counts as leaky. -/
def realCls (t : Nat) : Cls := (clsOf t).getD .leaky

/-- How each `leaky` table is accounted for. -/
inductive LeakStatus where
  /-- stale entries reach a diagnostic: witness in the model, replayed on the real server -/
  | observable
  /-- stale entries survive but no diagnostic reads them (argument in `reasons`) -/
  | unobservable
deriving DecidableEq, Repr

def leakStatus : List (Nat × LeakStatus) := [
  (T.analyzer_comb_loop_detect_procedure_FUNCTION_BARRIER_EVALUATIONS, .unobservable),
  (T.analyzer_comb_loop_detect_procedure_FUNCTION_EVALUATIONS, .unobservable),
  (T.analyzer_comb_loop_detect_procedure_FUNCTION_RESULT_REGION_PROBES, .unobservable),
  (T.analyzer_comb_loop_detect_procedure_FUNCTION_RESULT_VERSIONS, .unobservable),
  (T.analyzer_comb_loop_detect_procedure_MODULE_CONTEXT_ENTRIES, .unobservable),
  (T.analyzer_ir_comb_to_ff_hoist_GLOBAL_APPLIED, .unobservable),
  (T.analyzer_ir_comb_to_ff_hoist_GLOBAL_LIMIT, .unobservable),
  (T.analyzer_ir_comb_to_ff_hoist_GLOBAL_SEEN, .unobservable),
  (T.analyzer_ir_comb_to_ff_hoist_GLOBAL_SKIP, .unobservable),
  (T.analyzer_ir_comb_to_ff_hoist_LIMIT_READ, .unobservable),
  (T.analyzer_reference_table_REFERENCE_TABLE, .observable),
  (T.analyzer_scope_SCOPE_ARENA, .observable),
  (T.analyzer_stopwatch_STOPWATCH_TABLE, .unobservable),
  (T.analyzer_symbol_table_GENERIC_INSTANCE_INDEX, .observable),
  (T.analyzer_type_dag_TYPE_DAG, .unobservable),
  (T.parser_doc_comment_table_DOC_COMMENT_TABLE, .observable)]

/-- Reason strings (evidence / messages only; never inspected by a proof). -/
def reasons : List (Nat × String) := [
  (T.analyzer_attribute_PAT, "constant Pattern built once by Pattern::new(); no analysis writes to it"),
  (T.analyzer_attribute_table_ATTRIBUTE_TABLE, "attribute_table::drop(path) in drop_file (RangeTable::drop by PathId)"),
  (T.analyzer_comb_loop_detect_procedure_FUNCTION_BARRIER_EVALUATIONS, "#[cfg(test)] statistics counter; not compiled into veryl-ls"),
  (T.analyzer_comb_loop_detect_procedure_FUNCTION_EVALUATIONS, "#[cfg(test)] statistics counter; not compiled into veryl-ls"),
  (T.analyzer_comb_loop_detect_procedure_FUNCTION_RESULT_REGION_PROBES, "#[cfg(test)] statistics counter; not compiled into veryl-ls"),
  (T.analyzer_comb_loop_detect_procedure_FUNCTION_RESULT_VERSIONS, "#[cfg(test)] statistics counter; not compiled into veryl-ls"),
  (T.analyzer_comb_loop_detect_procedure_MODULE_CONTEXT_ENTRIES, "#[cfg(test)] statistics counter; not compiled into veryl-ls"),
  (T.analyzer_component_manifest_table_TABLE, "re-filled from Metadata by every Analyzer::new (each on_change); keyed by component name (overwrite); a function of Veryl.toml/sidecars, not of buffers"),
  (T.analyzer_connect_operation_table_CONNECT_OPERATION_TABLE, "keyed by TokenId of the `<>` token; TokenIds are fresh per parse"),
  (T.analyzer_definition_table_DEFINITION_ID, "monotone DefinitionId allocator; only makes later keys fresh"),
  (T.analyzer_definition_table_DEFINITION_TABLE, "definition_table::drop(path, prj) in drop_file"),
  (T.analyzer_fragment_codec_DECODE, "Option session: Some only inside fragment restore, reset to None at its end"),
  (T.analyzer_fragment_codec_ENCODE, "Option session: Some only inside fragment capture, reset to None at its end"),
  (T.analyzer_generic_inference_table_INFERRED, "keyed by the call-site TokenId (fresh per parse)"),
  (T.analyzer_generic_inference_table_PENDING, "queue drained by every analyze_post_pass1 (drain_pending); empty whenever diagnostics are produced; entries of a file dropped before the drain are still applied but only write INFERRED rows keyed by that file's dead TokenIds"),
  (T.analyzer_ir_comb_to_ff_hoist_GLOBAL_APPLIED, "bisect counter; read only when VERYL_COMB_HOIST_LIMIT/_SKIP is set in the environment (the check's servers run without it)"),
  (T.analyzer_ir_comb_to_ff_hoist_GLOBAL_LIMIT, "value of VERYL_COMB_HOIST_LIMIT read once; None in the check's environment"),
  (T.analyzer_ir_comb_to_ff_hoist_GLOBAL_SEEN, "bisect counter; read only when VERYL_COMB_HOIST_LIMIT/_SKIP is set"),
  (T.analyzer_ir_comb_to_ff_hoist_GLOBAL_SKIP, "value of VERYL_COMB_HOIST_SKIP read once; 0 in the check's environment"),
  (T.analyzer_ir_comb_to_ff_hoist_LIMIT_READ, "once-flag for reading the two environment variables"),
  (T.analyzer_literal_table_LITERAL_TABLE, "keyed by the literal's TokenId (fresh per parse)"),
  (T.analyzer_msb_table_MSB_TABLE, "keyed by the `msb` TokenId (fresh per parse)"),
  (T.analyzer_reference_table_REFERENCE_TABLE, "candidate queue taken by every reference_table::apply (post-pass1) but NOT purged by drop_file: candidates queued by a background pass1 of a file that is opened (hence dropped) before the scan's post-pass are applied with dangling token ids; check_complex_identifier does scope::token_scope(id).unwrap() and the server thread panics (witness pending_queue_leak; reproduced on veryl-ls, release builds included)"),
  (T.analyzer_resolved_type_table_RESOLVED_TYPE_TABLE, "keyed by the declaration identifier TokenId (fresh per parse)"),
  (T.analyzer_scope_SCOPE_ARENA, "drop_tokens/drop_symbols clear token_scopes, locals, owner and import bindings OF DROPPED SYMBOLS; `wildcards`, `mixins`, import bindings of a removed `import` statement and scope kinds are never removed: a deleted `import P::*;` keeps resolving (witness wildcard_leak; reproduced on veryl-ls)"),
  (T.analyzer_stopwatch_STOPWATCH_TABLE, "timing statistics; never read by an analysis pass"),
  (T.analyzer_symbol_SYMBOL_ID, "monotone SymbolId allocator; only makes later keys fresh"),
  (T.analyzer_symbol_table_GENERIC_INSTANCE_INDEX, "key (enclosing scope, base SymbolId, args) survives the drop of the INSTANCE symbol (instance lives in the instantiating file, base in another): re-analysis re-inserts the key with a new id and trips debug_assert_eq (panic of the server thread in debug builds, silent overwrite in release) (witness generic_index_leak; reproduced on veryl-ls)"),
  (T.analyzer_symbol_table_NS_GENERIC_MAP_CACHE, "clear_resolve_caches() at the top of symbol_table::drop"),
  (T.analyzer_symbol_table_SYMBOL_CACHE, "clear_resolve_caches() at the top of symbol_table::drop"),
  (T.analyzer_symbol_table_SYMBOL_ERR_CACHE, "clear_resolve_caches() at the top of symbol_table::drop"),
  (T.analyzer_symbol_table_SYMBOL_TABLE, "symbol_table::drop(path, prj): symbols by token.source (+project), their reference lists, reference tokens of the file, sv_shadows, name/namespace indices; pending import/bind/msb/connect lists are drained by every post-pass1. ASSUMED: post-pass mutations of other files' symbols are re-derived (tested by checks/c07.py)"),
  (T.analyzer_type_dag_TYPE_DAG, "(pending `candidates` share the hazard of REFERENCE_TABLE — get_rc(parent).unwrap() — but reference_table::apply runs first and panics first.) nodes keyed by SymbolId (fresh per analysis) are never removed, but every edge joins a node of the analysis that inserts it to a then-live node, so a cycle closed by a new edge contains only nodes of the current analysis: stale nodes cannot cause cyclic_type_dependency; toposort/connected_components/dependent_files are not read by the diagnostic passes"),
  (T.analyzer_unsafe_PAT, "constant Pattern built once by Pattern::new(); no analysis writes to it"),
  (T.analyzer_unsafe_table_UNSAFE_TABLE, "unsafe_table::drop(path) in drop_file"),
  (T.parser_doc_comment_table_DOC_COMMENT_TABLE, "keyed by (PathId, line), insert-only, cleared only by Analyzer::clear (never called by veryl-ls): a deleted `///` line is still attached to the declaration below it and still checked by check_wavedrom (witness doc_comment_leak; reproduced on veryl-ls)"),
  (T.parser_fragment_codec_DECODE, "Option session: Some only inside fragment restore"),
  (T.parser_fragment_codec_ENCODE, "Option session: Some only inside fragment capture"),
  (T.parser_resource_table_CANONICAL_CACHE, "memo of the pure function StrId ↦ StrId of the text without `r#`; entries never become wrong"),
  (T.parser_resource_table_PATHBUF_TABLE, "append-only interning of paths; equal path ⇒ equal PathId for the life of the process (this is what makes drop-by-PathId sound)"),
  (T.parser_resource_table_STRING_TABLE, "append-only interning of strings; ids do not appear in diagnostics"),
  (T.parser_resource_table_TOKEN_ID, "monotone TokenId allocator; only makes later keys fresh"),
  (T.parser_text_table_TEXT_ID, "monotone TextId allocator; only makes later keys fresh"),
  (T.parser_text_table_TEXT_TABLE, "text_table::drop(path) in drop_file")]

/-! ### Faithful miniatures of the three observable leaks -/

namespace Leaks

/-- `DocCommentTable`: `HashMap<(PathId, line), StrId>`; `insert` overwrites, nothing removes. -/
abbrev DocTable := List ((Nat × Nat) × Nat)

def docInsert (T : DocTable) (path line text : Nat) : DocTable :=
  ((path, line), text) :: T.filter (fun e => e.1 != (path, line))

def docGet (T : DocTable) (path line : Nat) : Option Nat :=
  (T.find? (fun e => e.1 == (path, line))).map (·.2)

/-- Parsing a buffer = inserting its `///` lines (`split_comment_token`); a buffer is its list of
    (line, text) doc comments. `drop_file` does not touch the table. -/
def docParse (T : DocTable) (path : Nat) (buf : List (Nat × Nat)) : DocTable :=
  buf.foldl (fun T lt => docInsert T path lt.1 lt.2) T

/-- `Scope.wildcards : SVec<WildcardImport>`: `apply_import` pushes, nothing removes. A buffer is
    the list of packages it wildcard-imports into its (interned, hence persistent) scope. -/
def wildcardsAfter (hist : List (List Nat)) : List Nat := hist.foldl (fun w buf => w ++ buf) []

/-- Does name resolution in the scope see package `p` through a wildcard? -/
def seesPackage (w : List Nat) (p : Nat) : Bool := w.contains p

/-- `GENERIC_INSTANCE_INDEX`: `index_generic_instance` = `debug_assert_eq!(prev, instance)` then
    `insert`. `none` = the assertion fails (debug build: the server thread panics). -/
abbrev GenIndex := List (Nat × Nat)

def genIndexInsert (I : GenIndex) (key inst : Nat) : Option GenIndex :=
  match I.find? (fun e => e.1 == key) with
  | some (_, prev) => if prev = inst then some I else none
  | none => some ((key, inst) :: I)

/-- Re-analysing the instantiating file: `symbol_table::drop` removes the instance *symbol* (the
    index is not touched), the new analysis allocates a fresh SymbolId for the same key. -/
def genIndexHistory (I : GenIndex) (key : Nat) : List Nat → Option GenIndex
  | [] => some I
  | inst :: rest => match genIndexInsert I key inst with
      | some I' => genIndexHistory I' key rest
      | none => none

/-- `ReferenceTable.candidates` against `ScopeArena.token_scopes`: pass1 of a file queues candidates
    (token ids) and records the tokens' scopes; `drop_file` removes the token scopes of the file but
    not its queued candidates; `apply` looks every queued token up with `.unwrap()`. -/
structure PQ where
  queue : List (Nat × Nat)     -- (file, token) candidates not yet applied
  scopes : List (Nat × Nat)    -- (file, token) entries of token_scopes
deriving DecidableEq, Repr

def pqPass1 (s : PQ) (f : Nat) (toks : List Nat) : PQ :=
  { queue := s.queue ++ toks.map (fun t => (f, t)), scopes := s.scopes ++ toks.map (fun t => (f, t)) }

def pqDrop (s : PQ) (f : Nat) : PQ := { s with scopes := s.scopes.filter (fun e => e.1 != f) }

/-- `reference_table::apply`: `none` = `scope::token_scope(id).unwrap()` panics. -/
def pqApply (s : PQ) : Option PQ :=
  if s.queue.all (fun q => s.scopes.contains q) then some { s with queue := [] } else none

end Leaks

end VerylModel.LsState
