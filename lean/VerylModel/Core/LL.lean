/-
M-LL: the table-driven LL(k) push-down machine of `parol_runtime::parser::parser_types::LLKParser`
(`parse_into` / `push_production`), over an arbitrary production table.

Rust ↔ model
* `parser_stack.stack : Vec<ParseType>` (top = last)     ↔ `Config.stack : List Item` (top = head)
* `ParseType::{T(t), N(n), E(p)}`                        ↔ `Item.{t, n, e}` (`e p` = end-of-production marker)
* `Production {lhs, production (REVERSED), is_push_production}` ↔ `Prod {lhs, rhs (source order), push}`;
  pushing the reversed slice element by element onto a Vec leaves the first source symbol on top,
  i.e. `rhs.map toItem ++ e p :: stack`.
* token stream (non-skip token types; past the end the buffer is padded with EOI = 0)
                                                         ↔ `Config.input : List Nat`, `la inp i = inp.getD i 0`
* `production_depth`, `max_parsing_depth : Option<usize>` ↔ `Config.depth`, `Machine.cap`
* `error_entries.len()` (`add_error` fails once it exceeds 100) ↔ `Config.errs`, `Machine.maxErrs`
* error recovery edits the token buffer (insert / replace / delete)  ↔ rule `Step.recover`: the remaining
  input is replaced by an ARBITRARY token list (over-approximation), the error count goes up by one.

Import-free (core Lean only).
-/
namespace VerylModel.LL

/-- Grammar symbol: terminal id or non-terminal id. -/
inductive Sym where
  | t (i : Nat)
  | n (i : Nat)
  deriving DecidableEq, Repr, Inhabited

structure Prod where
  lhs : Nat
  /-- right-hand side in source order -/
  rhs : List Sym
  /-- `is_push_production` (list-flattening production: not counted in the depth) -/
  push : Bool
  deriving DecidableEq, Repr, Inhabited

/-- Parse-stack entry (`ParseType`). -/
inductive Item where
  | t (i : Nat)
  | n (i : Nat)
  | e (p : Nat)
  deriving DecidableEq, Repr, Inhabited

def Sym.toItem : Sym → Item
  | .t i => .t i
  | .n i => .n i

structure Config where
  stack : List Item
  input : List Nat
  depth : Nat
  errs : Nat
  deriving DecidableEq, Repr, Inhabited

structure Machine where
  /-- `productions[p]` (`none` = index out of bounds) -/
  prod? : Nat → Option Prod
  /-- `max_parsing_depth` -/
  cap : Option Nat
  /-- `add_error` refuses the entry that makes `error_entries.len()` exceed this (100 in parol 5.0) -/
  maxErrs : Nat

/-- `lookahead_token_type(i)`: the buffer is padded with EOI (= 0) past the end of the input. -/
def la (inp : List Nat) (i : Nat) : Nat := inp.getD i 0

/-- `if let Some(max) = max_parsing_depth && depth > max { return Err(MaxParsingDepthExceeded) }` -/
def withinCap : Option Nat → Nat → Bool
  | none, _ => true
  | some c, d => decide (d ≤ c)

/-- Depth after `push_production` of `P`. -/
def pushDepth (P : Prod) (d : Nat) : Nat := if P.push then d else d + 1

/-- Depth after the `E(p)` marker of `P` is popped (`usize` subtraction: caller must know `0 < d`). -/
def popDepth (P : Prod) (d : Nat) : Nat := if P.push then d else d - 1

/-- One move of the driver loop, production choice left open (any production of the non-terminal on
top may be chosen, as if by an arbitrary lookahead automaton), recovery over-approximated. -/
inductive Step (m : Machine) : Config → Config → Prop
  /-- `ParseType::T(t)` on top and `lookahead(0).token_type == t`: consume. -/
  | consume {a : Nat} {s : List Item} {inp : List Nat} {d e : Nat} :
      la inp 0 = a → Step m ⟨.t a :: s, inp, d, e⟩ ⟨s, inp.tail, d, e⟩
  /-- `ParseType::N(n)` on top: pop it, `push_production(p)` for some production `p` of `n`;
  continues only if the depth check passes. -/
  | expand {A : Nat} {s : List Item} {inp : List Nat} {d e p : Nat} {P : Prod} :
      m.prod? p = some P → P.lhs = A → withinCap m.cap (pushDepth P d) = true →
      Step m ⟨.n A :: s, inp, d, e⟩ ⟨P.rhs.map Sym.toItem ++ .e p :: s, inp, pushDepth P d, e⟩
  /-- `ParseType::E(p)` on top: pop it, decrement the depth unless `p` is a push production. -/
  | endProd {s : List Item} {inp : List Nat} {d e p : Nat} {P : Prod} :
      m.prod? p = some P → (P.push = false → 0 < d) →
      Step m ⟨.e p :: s, inp, d, e⟩ ⟨s, inp, popDepth P d, e⟩
  /-- token mismatch / prediction error: `add_error` succeeded (fewer than `maxErrs` entries so
  far); the recovery rewrites the token buffer. -/
  | recover {s : List Item} {inp inp' : List Nat} {d e : Nat} :
      e < m.maxErrs → Step m ⟨s, inp, d, e⟩ ⟨s, inp', d, e + 1⟩

/-- Reflexive-transitive closure of `Step`. -/
inductive Reach (m : Machine) : Config → Config → Prop
  | refl {c : Config} : Reach m c c
  | tail {c c' c'' : Config} : Reach m c c' → Step m c' c'' → Reach m c c''

/-- Before the first `push_production`: the start symbol is to be predicted. -/
def init (start : Nat) (inp : List Nat) : Config := ⟨[.n start], inp, 0, 0⟩

/-! ### Certificates (checked on the generated table by `decide +kernel`) -/

structure Cert where
  /-- claimed nullable set `S` -/
  null : Nat → Bool
  rank : Nat → Nat

/-- A symbol that may leave the top of the stack without shrinking the remaining input: a
non-terminal of `S`, or the terminal EOI (= 0), which matches the padding after the last token. -/
def Sym.transparent (c : Cert) : Sym → Bool
  | .t a => a == 0
  | .n A => c.null A

/-- `S` is closed under the production. -/
def closedOk (c : Cert) (P : Prod) : Bool := !(P.rhs.all (Sym.transparent c)) || c.null P.lhs

/-- Every non-terminal in the transparent prefix of the right-hand side (and the first
non-transparent symbol after it, if that is a non-terminal) has a smaller rank than `l`. -/
def prefixOk (c : Cert) (l : Nat) : List Sym → Bool
  | [] => true
  | .t a :: rest => if a == 0 then prefixOk c l rest else true
  | .n i :: rest => Nat.blt (c.rank i) (c.rank l) && (if c.null i then prefixOk c l rest else true)

def prodOk (c : Cert) (maxRhs : Nat) (P : Prod) : Bool :=
  closedOk c P && prefixOk c P.lhs P.rhs && Nat.ble P.rhs.length maxRhs

def certOk (c : Cert) (maxRhs : Nat) (prods : List Prod) : Bool := prods.all (prodOk c maxRhs)

/-- Balanced search tree with `Nat` keys: O(log n) look-ups that the kernel evaluates quickly. -/
inductive NatTree (α : Type) where
  | leaf
  | node (l : NatTree α) (k : Nat) (v : α) (r : NatTree α)

def NatTree.find {α : Type} (d : α) : NatTree α → Nat → α
  | .leaf, _ => d
  | .node l k v r, i =>
    match Nat.blt i k with
    | true => l.find d i
    | false => match Nat.blt k i with
      | true => r.find d i
      | false => v

/-! ### The deterministic driver (what the Rust loop does, lookahead automata included) -/

/-- `Trans(from, terminal, to, production)`; `prod < 0` = `INVALID_PROD`. -/
structure Trans where
  src : Nat
  term : Nat
  dst : Nat
  prod : Int
  deriving Repr, Inhabited

structure Dfa where
  prod0 : Int
  trans : List Trans
  k : Nat
  deriving Repr, Inhabited

/-- The inner `for` over the (sorted) transitions in `LookaheadDFA::eval`: skip entries of other
from-states until the first matching one, stop at the first other from-state after that, stop when the
terminal is greater than the lookahead, take the transition when equal. -/
def scanTrans (state tok : Nat) : List Trans → Bool → Option Trans
  | [], _ => none
  | tr :: rest, anyFound =>
    if tr.src ≠ state then (if anyFound then none else scanTrans state tok rest false)
    else if tr.term = tok then some tr
    else if tr.term > tok then none
    else scanTrans state tok rest true

/-- The outer `for i in 0..k` of `LookaheadDFA::eval`, state = (state, prod_num, last_prod_num).
When no transition matches, the Rust loop does NOT stop: it reads the next lookahead token in the
same state. -/
def dfaLoop (d : Dfa) (inp : List Nat) : Nat → Nat → Nat → Int → Int → Int × Int
  | 0, _, _, prodNum, lastProd => (prodNum, lastProd)
  | fuel + 1, i, state, prodNum, lastProd =>
    match scanTrans state (la inp i) d.trans false with
    | none => dfaLoop d inp fuel (i + 1) state prodNum lastProd
    | some tr =>
      dfaLoop d inp fuel (i + 1) tr.dst tr.prod (if tr.prod > -1 then tr.prod else lastProd)

/-- `LookaheadDFA::eval`: `none` = `PredictionError` (or the `k` mismatch `DataError`). -/
def dfaEval (maxK : Nat) (d : Dfa) (inp : List Nat) : Option Nat :=
  if d.k > maxK then none else
  let (prodNum, lastProd) := dfaLoop d inp d.k 0 0 d.prod0 (-1)
  if prodNum > -1 then some prodNum.toNat
  -- `last_accepting_state` is `Some` iff `prod0` is valid or some taken transition was accepting
  else if lastProd > -1 then some lastProd.toNat
  -- `prod0` valid but a non-accepting transition was taken and nothing accepted afterwards:
  -- `last_prod_num` is still INVALID_PROD; debug Rust fails the `debug_assert`, release Rust
  -- indexes `productions[-1 as usize]`: a panic either way (`stepDet` answers `indexPanic`).
  else if d.prod0 > -1 then some 18446744073709551615
  else none

inductive Halt where
  /-- `input_accepted()`: stack is `[]` or `[T(0)]` -/
  | accepted
  /-- first token mismatch (recovery is not modelled by the deterministic variant) -/
  | mismatch (expected found : Nat)
  /-- first prediction error at non-terminal `A` -/
  | predictFail (A : Nat)
  /-- `Err(MaxParsingDepthExceeded { depth })` -/
  | depthExceeded (depth : Nat)
  /-- `productions[p]` out of bounds (Rust would panic) -/
  | indexPanic
  /-- `production_depth -= 1` at 0 (debug Rust would panic) -/
  | underflowPanic
  deriving DecidableEq, Repr, Inhabited

inductive Outcome where
  | next (c : Config)
  | halt (h : Halt)
  deriving Repr, Inhabited

/-- One iteration of `'WHILE: while !self.input_accepted()` with lookahead-driven prediction
(`predict A inp` = `lookahead_automata[A].eval(stream)`), up to the first syntax error. -/
def stepDet (m : Machine) (predict : Nat → List Nat → Option Nat) (c : Config) : Outcome :=
  match c.stack with
  | [] => .halt .accepted
  | .t a :: s =>
    -- `input_accepted()`: the stack is `[T(0)]`
    if a = 0 ∧ s.isEmpty = true then .halt .accepted
    else if la c.input 0 = a then .next ⟨s, c.input.tail, c.depth, c.errs⟩
    else .halt (.mismatch a (la c.input 0))
  | .n A :: s =>
    match predict A c.input with
    | none => .halt (.predictFail A)
    | some p =>
      match m.prod? p with
      | none => .halt .indexPanic
      | some P =>
        if withinCap m.cap (pushDepth P c.depth) then
          .next ⟨P.rhs.map Sym.toItem ++ .e p :: s, c.input, pushDepth P c.depth, c.errs⟩
        else .halt (.depthExceeded (pushDepth P c.depth))
  | .e p :: s =>
    match m.prod? p with
    | none => .halt .indexPanic
    | some P =>
      if P.push = false ∧ c.depth = 0 then .halt .underflowPanic
      else .next ⟨s, c.input, popDepth P c.depth, c.errs⟩

/-- Statistics of a deterministic run (for the correspondence with the real parser's trace). -/
structure Stats where
  /-- number of `push_production` calls that passed the depth check -/
  pushes : Nat := 0
  /-- tokens consumed -/
  consumed : Nat := 0
  maxDepth : Nat := 0
  /-- rolling hash of the production numbers pushed, in order -/
  hash : Nat := 0
  steps : Nat := 0
  deriving Repr, Inhabited

def hashStep (h p : Nat) : Nat := (h * 1000003 + p + 1) % 4294967296

def Stats.update (st : Stats) (c c' : Config) : Stats :=
  match c.stack with
  | .t _ :: _ => { st with consumed := st.consumed + 1, steps := st.steps + 1 }
  | .n _ :: _ =>
    -- right-hand sides contain no markers: the first marker of the new stack is the pushed `E(p)`
    let p := match c'.stack.find? (fun | .e _ => true | _ => false) with
      | some (.e p) => p
      | _ => 0
    { st with pushes := st.pushes + 1, hash := hashStep st.hash p, steps := st.steps + 1,
              maxDepth := if c'.depth > st.maxDepth then c'.depth else st.maxDepth }
  | _ => { st with steps := st.steps + 1 }

/-- Iterate `stepDet` (at most `fuel` times); `none` = fuel exhausted. -/
def runDet (m : Machine) (predict : Nat → List Nat → Option Nat) : Nat → Config → Stats → Option (Halt × Config × Stats)
  | 0, _, _ => none
  | fuel + 1, c, st =>
    match stepDet m predict c with
    | .halt h => some (h, c, st)
    | .next c' => runDet m predict fuel c' (st.update c c')

end VerylModel.LL
