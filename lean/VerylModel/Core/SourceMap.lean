/-
M-SourceMap: `SourceMap::add` of crates/sourcemap/src/sourcemap.rs — the 1-based → 0-based shift applied
to every anchor the renderer recorded (`Emitter::emit`: `map.add(a.dst_line, a.dst_column, a.src_line,
a.src_column, &a.text)`), and the `(name, dst, src)` entries handed to the `sourcemap` crate's builder.
`u32 - 1` on 0 panics in the dev profile (and wraps in release): `none`.
No imports: linked into the `vmodel` driver.
-/
namespace VerylModel.SourceMap

/-- One entry as given to `SourceMapBuilder::add` (0-based). -/
structure Entry where
  dstLine : Nat
  dstCol : Nat
  srcLine : Nat
  srcCol : Nat
deriving Repr, DecidableEq, Inhabited

/-- `SourceMap::add(dst_line, dst_column, src_line, src_column, name)`. -/
def add (dstLine dstCol srcLine srcCol : Nat) : Option Entry :=
  if dstLine = 0 ∨ dstCol = 0 ∨ srcLine = 0 ∨ srcCol = 0 then none
  else some { dstLine := dstLine - 1, dstCol := dstCol - 1, srcLine := srcLine - 1, srcCol := srcCol - 1 }

end VerylModel.SourceMap
