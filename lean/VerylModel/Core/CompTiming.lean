/-
M-CompTiming: the per-edge order of `Simulator::step_legacy` / `step_event_inner` /
`step_with_derived_clocks` for user-defined components
(`crates/simulator/src/simulator.rs`, `crates/simulator/src/component/runtime.rs`):

    [settle comb if dirty]                        do_settle_comb
    stage_components(event)                       every listening component: stage_inputs  (reads DUT storage)
    eval_event_stmts(event)                       RTL event statements -> write log        (reads DUT storage, writes nothing)
    commit_event_log()                            ff_commit_from_log
    fire_components(event)                        every listening component, in order: fire (hook) ; apply_outputs

DUT storage is a map variable-id -> value.  A component reads its inputs only through the host
staging buffers (`SimCtx::read*` -> `svc_input_words`) and writes only host output buffers
(`svc_write_output` / direct pointers); `apply_outputs` copies dirty buffers to the variables the
ports are connected to.  Import-free.
-/
namespace VerylModel.CompTiming

/-- DUT variable storage (FF and comb values alike). -/
def Store := Nat → Nat

def update (s : Store) (v x : Nat) : Store := fun u => if u = v then x else s u

/-- `ff_commit_from_log`: apply the write log (variable, value) in order. -/
def applyWrites (s : Store) : List (Nat × Nat) → Store
  | [] => s
  | (v, x) :: rest => applyWrites (update s v x) rest

/-- One `RuntimeComponent` as seen on one event. `κ` is the component's private state. -/
structure Comp (κ : Type) where
  /-- `listens_to(event)` for the event of this step. -/
  listens : Bool
  /-- `inputs`: host input port ↦ its source expression over DUT storage (`InputSource`). -/
  inputs : Nat → Option (Store → Nat)
  /-- `outputs`: DUT variable ↦ the host output port connected to it (`OutputBinding`). -/
  drives : Nat → Option Nat
  /-- host input staging buffers. -/
  staged : Nat → Nat
  state : κ
  /-- `on_clock` / `on_reset`: sees the staged inputs only; returns the new private state and
  the output ports it wrote (dirty ports ↦ value). -/
  hook : κ → (Nat → Nat) → κ × (Nat → Option Nat)

/-- `stage_inputs`: evaluate every input connection on the current storage. -/
def stagedOf {κ : Type} (c : Comp κ) (s : Store) : Nat → Nat :=
  fun idx => match c.inputs idx with
    | some src => src s
    | none => c.staged idx

/-- `stage_components`: `for c in components { if c.listens_to(event) { c.stage_inputs() } }`. -/
def stageAll {κ : Type} (s : Store) (cs : List (Comp κ)) : List (Comp κ) :=
  cs.map (fun c => if c.listens then { c with staged := stagedOf c s } else c)

/-- `apply_outputs`: dirty output buffers are copied into the connected variables. -/
def applyOutputs {κ : Type} (s : Store) (c : Comp κ) (outs : Nat → Option Nat) : Store :=
  fun v => match c.drives v with
    | some idx => (match outs idx with | some x => x | none => s v)
    | none => s v

/-- `fire_components`: `for c in components { if listens { c.fire(); c.apply_outputs(vars) } }`. -/
def fireAll {κ : Type} : Store → List (Comp κ) → Store × List (Comp κ)
  | s, [] => (s, [])
  | s, c :: cs =>
    if c.listens then
      let r := c.hook c.state c.staged
      let rest := fireAll (applyOutputs s c r.2) cs
      (rest.1, { c with state := r.1 } :: rest.2)
    else
      let rest := fireAll s cs
      (rest.1, c :: rest.2)

/-- `step_event_inner` on the settled pre-edge storage `s`; `rtl` is `eval_event_stmts`
(the write log as a function of the storage it reads). -/
def stepEvent {κ : Type} (rtl : Store → List (Nat × Nat)) (s : Store) (cs : List (Comp κ)) :
    Store × List (Comp κ) :=
  let cs1 := stageAll s cs
  let log := rtl s
  let s1 := applyWrites s log
  fireAll s1 cs1

/-- `step_legacy`: settle, then the event. -/
def step {κ : Type} (settle : Store → Store) (rtl : Store → List (Nat × Nat)) (s : Store)
    (cs : List (Comp κ)) : Store × List (Comp κ) :=
  stepEvent rtl (settle s) cs

end VerylModel.CompTiming
