import VerylModel.Core.Graph
/-
M-Paths: executable model of the path assignment and of the filelist order.

* `Metadata::paths` (crates/metadata/src/metadata.rs): source file ↦ (`dst`, `map`) for the three
  `build.target` kinds and the three `build.sourcemap_target` kinds;
  `Lockfile::paths` (dependencies) and `veryl_std::paths` (`$std`).
* `CmdBuild::sort_filelist` (crates/veryl/src/cmd_build.rs): files owning a candidate symbol, first
  in the order of the first Module/Interface/Package symbol of `type_dag::toposort()`, the rest
  sorted by source path.

Paths are lists of components of an arbitrary type `α` relative to the project directory
(`out_base`, without `--out-dir`); a source file is `dirs/stem.veryl` below one of the configured
source directories; an output is `dirs/stem.sv` or `dirs/stem.sv.map`.

Modelled, not verified: `walkdir` lists each `.veryl` file of a source directory once;
`Path::with_extension`/`set_extension` replace exactly the last extension; `--out-dir`, explicit
file arguments and `examples/` are not modelled. The symbol graph, `toposort` and
`connected_components` are inputs (petgraph/daggy trusted to return a topological order).
-/
namespace VerylModel.Paths

inductive Ext where
  | sv | svMap
deriving DecidableEq, Repr, Inhabited

/-- An output path below the project directory. -/
structure Out (α : Type) where
  dirs : List α
  stem : α
  ext : Ext
deriving DecidableEq, Repr

/-- `build.target`. -/
inductive Target (α : Type) where
  | source
  | directory (path : List α)
  | bundle (file : List α)
deriving Repr

/-- `build.sourcemap_target`. -/
inductive MapTarget (α : Type) where
  | target
  | directory (path : List α)
  | none
deriving Repr

/-- A source file: which source directory, the directories below it, the file stem. -/
structure Src (α : Type) where
  base : List α
  dirs : List α
  stem : α
deriving DecidableEq, Repr

variable {α : Type}

/-- `dst` of `Metadata::paths`; `tgt` is the component `"target"` used by the bundle arm. -/
def dstOf (tgt : α) (t : Target α) (s : Src α) : Out α :=
  match t with
  | .source => ⟨s.base ++ s.dirs, s.stem, .sv⟩
  | .directory p => ⟨p ++ s.dirs, s.stem, .sv⟩
  | .bundle _ => ⟨[tgt], s.stem, .sv⟩

/-- `map` of `Metadata::paths`. -/
def mapOf (tgt : α) (t : Target α) (m : MapTarget α) (s : Src α) : Out α :=
  match m with
  | .directory mp =>
    match t with
    | .directory _ => ⟨mp ++ s.dirs, s.stem, .svMap⟩
    | _ => let d := dstOf tgt t s; ⟨mp ++ d.dirs, d.stem, .svMap⟩
  | _ => let d := dstOf tgt t s; ⟨d.dirs, d.stem, .svMap⟩

/-- `Lockfile::paths` / `veryl_std::paths`: `dependencies/<lock name>/rel` (`std` for `$std`). -/
def depDst (deps : α) (name : α) (dirs : List α) (stem : α) : Out α := ⟨deps :: name :: dirs, stem, .sv⟩
def depMap (deps : α) (name : α) (dirs : List α) (stem : α) : Out α := ⟨deps :: name :: dirs, stem, .svMap⟩

/-! ### filelist order -/

/-- A type-dag symbol: its node id, the file that declares it (`none`: builtin/external token) and
    whether it is a `Module`, `Interface` or `Package`. -/
structure Sym where
  id : Nat
  file : Option Nat
  comp : Bool
deriving DecidableEq, Repr, Inhabited

/-- `used_paths`: the files (keys of `table`, i.e. `PathSet.src`) that own a candidate symbol, each once. -/
def usedFiles (paths : List Nat) : List Sym → List Nat
  | [] => []
  | s :: ss =>
    let rest := usedFiles paths ss
    match s.file with
    | some f => if paths.contains f && !rest.contains f then f :: rest else rest
    | none => rest

/-- The loop over `type_dag::toposort()`: `if let Some(x) = used_paths.remove(&path) { ret.push(x) }`. -/
def topoFiles : List Sym → List Nat → List Nat
  | [], _ => []
  | s :: ss, used =>
    match s.comp, s.file with
    | true, some f => if used.contains f then f :: topoFiles ss (used.filter (· ≠ f)) else topoFiles ss used
    | _, _ => topoFiles ss used

/-- Insertion sort of file ids (`remaining.sort_by(|a, b| a.src.cmp(&b.src))`; ids are assigned in
    source-path order). -/
def insertSorted (x : Nat) : List Nat → List Nat
  | [] => [x]
  | y :: ys => if x ≤ y then x :: y :: ys else y :: insertSorted x ys

def sortNat : List Nat → List Nat
  | [] => []
  | x :: xs => insertSorted x (sortNat xs)

/-- `CmdBuild::sort_filelist`. -/
def sortFilelist (paths : List Nat) (cands topo : List Sym) : List Nat :=
  let used := usedFiles paths cands
  let first := topoFiles topo used
  first ++ sortNat (used.filter (fun f => !first.contains f))

end VerylModel.Paths
