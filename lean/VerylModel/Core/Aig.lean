/-
C21 — model of the And-Inverter Graph of `/repo/crates/synthesizer/src/aig/{graph,rewrite,convert,techmap}.rs`
(cargo feature `aig`).

* `Node`, edges (`AigEdge` = `node << 1 | negated`, a `Nat` here), `Aig` (node list + sinks)
* `addInput`, `mkAnd`, `mkOr`, `mkXor`, `mkMux`  = `AigModule::{add_input, mk_and, mk_or, mk_xor, mk_mux}`.
  The `hash_cons` map of the Rust always holds exactly the AND nodes pushed so far, keyed by their
  fan-in pair; the model looks the pair up in the node list (`findAnd`). Likewise `net_edge`
  restricted to `add_input` is "the input node with that origin" (`findInput`).
* `nodeVal` / `evalNodes` / `edgeVal` — Boolean function of every node under an input valuation;
  `evalNodesW` — the same on machine words (one bit per test vector), used by the driver.
* `cutTtVals` / `cutTt` = `compute_cut_tt` + `eval_tt` (the memoised recursion over fan-ins is a
  forward pass here: nodes are in topological order, an invariant of `AigModule`)
* `varEdges`, `instantiatePattern`, `resolvePatEdge` = the replacement step of `try_library_rewrite`
* `cellEval` / `cellEvalW` — semantics of the 22 `CellKind`s (doc comments of `ir.rs`)
* `lowerCell` = `lower_cell` of `aigify`
* `matchXorPair`, `matchMuxPair`, `pickXorPolarity`, `pickOrPolarity`, `tryMatch` = the template
  matcher of `techmap.rs` (`inner_of`'s result is an argument)
* `evalCellsW` — evaluation of a netlist given in single-assignment order (harness serialisation).

`u32` overflow of `node << 1` is not modelled (graphs have far fewer than 2^31 nodes).
Import-free apart from the generated constants and `Core/Npn`.
-/
import VerylModel.Core.Npn

namespace VerylModel.Core.Aig
open VerylModel.Gen.Npn VerylModel.Core.Npn

/-! ### Edges and nodes -/

/-- `AigEdge::node`. -/
def eNode (e : Nat) : Nat := e >>> 1
/-- `AigEdge::is_negated`. -/
def eNeg (e : Nat) : Bool := e &&& 1 == 1
/-- `AigEdge::new`. -/
def eNew (node : Nat) (neg : Bool) : Nat := (node <<< 1) ||| neg.toNat
/-- `AigEdge::negate`. -/
def eNegate (e : Nat) : Nat := e ^^^ 1
/-- `AigEdge::negate_if`. -/
def eNegateIf (e : Nat) (c : Bool) : Nat := e ^^^ c.toNat

def const0 : Nat := 0
def const1 : Nat := 1

/-- `AigNode`. -/
inductive Node where
  | const
  | input (origin : Nat)
  | and (f0 f1 : Nat)
deriving DecidableEq, Repr

/-- `AigModule` (`hash_cons` and `net_edge` are functions of `nodes`, see the header). -/
structure Aig where
  nodes : List Node
  sinks : List (Nat × Nat)      -- (target, edge)
deriving Repr

/-- `AigModule::new()`: node 0 is the constant. -/
def Aig.new : Aig := ⟨[Node.const], []⟩

def isInput (origin : Nat) : Node → Bool
  | .input o => o == origin
  | _ => false

def isAnd (a b : Nat) : Node → Bool
  | .and f0 f1 => f0 == a && f1 == b
  | _ => false

/-- `add_input`. -/
def addInput (g : Aig) (origin : Nat) : Aig × Nat :=
  match g.nodes.findIdx? (isInput origin) with
  | some idx => (g, eNew idx false)
  | none => ({ g with nodes := g.nodes ++ [Node.input origin] }, eNew g.nodes.length false)

/-- `mk_and`. -/
def mkAnd (g : Aig) (a b : Nat) : Aig × Nat :=
  if a == const0 || b == const0 then (g, const0)
  else if a == const1 then (g, b)
  else if b == const1 then (g, a)
  else if a == b then (g, a)
  else if a == eNegate b then (g, const0)
  else
    let a' := if a > b then b else a
    let b' := if a > b then a else b
    match g.nodes.findIdx? (isAnd a' b') with
    | some idx => (g, eNew idx false)
    | none => ({ g with nodes := g.nodes ++ [Node.and a' b'] }, eNew g.nodes.length false)

/-- `mk_or`. -/
def mkOr (g : Aig) (a b : Nat) : Aig × Nat :=
  let r := mkAnd g (eNegate a) (eNegate b)
  (r.1, eNegate r.2)

/-- `mk_xor`. -/
def mkXor (g : Aig) (a b : Nat) : Aig × Nat :=
  let r1 := mkAnd g a (eNegate b)
  let r2 := mkAnd r1.1 (eNegate a) b
  mkOr r2.1 r1.2 r2.2

/-- `mk_mux(s, d0, d1)`. -/
def mkMux (g : Aig) (s d0 d1 : Nat) : Aig × Nat :=
  let t := mkAnd g s d1
  let e := mkAnd t.1 (eNegate s) d0
  mkOr e.1 t.2 e.2

/-! ### Boolean functions of the nodes -/

def edgeVal (vals : List Bool) (e : Nat) : Bool := vals.getD (eNode e) false ^^ eNeg e

def nodeVal (env : Nat → Bool) (vals : List Bool) : Node → Bool
  | .const => false
  | .input o => env o
  | .and a b => edgeVal vals a && edgeVal vals b

/-- Value of every node, in node order (`vals[i]` = function of node `i` under `env`). -/
def evalNodes (env : Nat → Bool) (nodes : List Node) : List Bool :=
  nodes.foldl (fun vals n => vals ++ [nodeVal env vals n]) []

/-- Fan-ins refer to earlier nodes (topological order). -/
def wfFrom : Nat → List Node → Bool
  | _, [] => true
  | i, .and a b :: rest => decide (eNode a < i) && decide (eNode b < i) && wfFrom (i + 1) rest
  | i, _ :: rest => wfFrom (i + 1) rest

def Aig.wf (g : Aig) : Bool := g.nodes.head? == some Node.const && wfFrom 0 g.nodes

/-! ### The same on words: bit `j` of every value belongs to test vector `j`; `mask` = all vectors -/

def edgeW (mask : Nat) (vals : List Nat) (e : Nat) : Nat :=
  vals.getD (eNode e) 0 ^^^ (if eNeg e then mask else 0)

def nodeW (mask : Nat) (envW : Nat → Nat) (vals : List Nat) : Node → Nat
  | .const => 0
  | .input o => envW o &&& mask
  | .and a b => edgeW mask vals a &&& edgeW mask vals b

def evalNodesW (mask : Nat) (envW : Nat → Nat) (nodes : List Node) : List Nat :=
  nodes.foldl (fun vals n => vals ++ [nodeW mask envW vals n]) []

/-! ### Cut truth table (`compute_cut_tt`, `eval_tt`) -/

/-- Truth table of node `idx` given the tables of the earlier nodes: a leaf gets `VAR_TT[position]`,
constants and stray inputs 0, an AND the conjunction of its (possibly complemented) fan-ins. -/
def cutTtNode (leaves : List Nat) (tts : List Nat) (idx : Nat) (n : Node) : Nat :=
  match leaves.idxOf? idx with
  | some pos => varTt.getD pos 0
  | none =>
    match n with
    | .const => 0
    | .input _ => 0
    | .and a b =>
      let ra := tts.getD (eNode a) 0
      let ta := if eNeg a then not16 ra else ra
      let rb := tts.getD (eNode b) 0
      let tb := if eNeg b then not16 rb else rb
      ta &&& tb

def cutTtVals (leaves : List Nat) (nodes : List Node) : List Nat :=
  nodes.foldl (fun tts n => tts ++ [cutTtNode leaves tts tts.length n]) []

/-- `compute_cut_tt(aig, root, cut)`. -/
def cutTt (nodes : List Node) (root : Nat) (leaves : List Nat) : Option Nat :=
  if leaves.length > 4 then none
  else if leaves.length == 1 && leaves.getD 0 0 == root then none
  else some ((cutTtVals leaves (nodes.take (root + 1))).getD root 0)

/-- Every path from node `idx` towards the inputs meets a leaf (or ends in the constant). -/
def coveredNode (leaves : List Nat) (cov : List Bool) (idx : Nat) (n : Node) : Bool :=
  leaves.contains idx ||
    match n with
    | .const => true
    | .input _ => false
    | .and a b => cov.getD (eNode a) false && cov.getD (eNode b) false

def coveredVals (leaves : List Nat) (nodes : List Node) : List Bool :=
  nodes.foldl (fun cov n => cov ++ [coveredNode leaves cov cov.length n]) []

/-! ### Replacement step of `try_library_rewrite` -/

/-- `leaf_edges` padded to four by repeating the first one. -/
def padLeafEdges (leafEdges : List Nat) : List Nat :=
  (List.range 4).map fun i => if i < leafEdges.length then leafEdges.getD i const0 else leafEdges.getD 0 const0

/-- `var_edges[i] = leaf_edges[t.perm[i]].negate_if((t.in_neg >> i) & 1 != 0)`. -/
def varEdges (leafEdges : List Nat) (t : Transform) : List Nat :=
  let le := padLeafEdges leafEdges
  (List.range 4).map fun i =>
    let leafPos := t.perm.getD i 0
    eNegateIf (le.getD leafPos const0) (((t.inNeg >>> i) &&& 1) != 0)

/-- `resolve_pat_edge`. -/
def resolvePatEdge (nodeEdges : List Nat) (pe : PatEdge) : Nat :=
  eNegateIf (nodeEdges.getD pe.node const0) pe.neg

/-- Loop body of `instantiate_pattern`. -/
def instStep (st : Aig × List Nat) (ab : PatEdge × PatEdge) : Aig × List Nat :=
  let ea := resolvePatEdge st.2 ab.1
  let eb := resolvePatEdge st.2 ab.2
  let r := mkAnd st.1 ea eb
  (r.1, st.2 ++ [r.2])

/-- `instantiate_pattern`. -/
def instantiatePattern (g : Aig) (pat : Pattern) (ve : List Nat) : Aig × Nat :=
  let st := pat.ands.foldl instStep (g, ve)
  (st.1, resolvePatEdge st.2 pat.output)

/-- The edge `try_library_rewrite` returns for one cut:
`instantiate_pattern(new_aig, pat, &var_edges).negate_if(t.out_neg)`. -/
def replaceCut (g : Aig) (pat : Pattern) (leafEdges : List Nat) (t : Transform) : Aig × Nat :=
  let r := instantiatePattern g pat (varEdges leafEdges t)
  (r.1, eNegateIf r.2 t.outNeg)

/-! ### Cell semantics -/

/-- Boolean function of a `CellKind` (doc comments of `ir.rs`; `Mux2` = `[sel, d0, d1]`). -/
def cellEval (kind : Nat) (x : List Bool) : Bool :=
  let i := fun k => x.getD k false
  if kind == kBuf then i 0
  else if kind == kNot then !i 0
  else if kind == kAnd2 then i 0 && i 1
  else if kind == kOr2 then i 0 || i 1
  else if kind == kNand2 then !(i 0 && i 1)
  else if kind == kNor2 then !(i 0 || i 1)
  else if kind == kXor2 then i 0 ^^ i 1
  else if kind == kXnor2 then !(i 0 ^^ i 1)
  else if kind == kAnd3 then i 0 && i 1 && i 2
  else if kind == kOr3 then i 0 || i 1 || i 2
  else if kind == kNand3 then !(i 0 && i 1 && i 2)
  else if kind == kNor3 then !(i 0 || i 1 || i 2)
  else if kind == kAo21 then (i 0 && i 1) || i 2
  else if kind == kAoi21 then !((i 0 && i 1) || i 2)
  else if kind == kOa21 then (i 0 || i 1) && i 2
  else if kind == kOai21 then !((i 0 || i 1) && i 2)
  else if kind == kAo31 then (i 0 && i 1 && i 2) || i 3
  else if kind == kAoi31 then !((i 0 && i 1 && i 2) || i 3)
  else if kind == kAo22 then (i 0 && i 1) || (i 2 && i 3)
  else if kind == kAoi22 then !((i 0 && i 1) || (i 2 && i 3))
  else if kind == kOai22 then !((i 0 || i 1) && (i 2 || i 3))
  else if kind == kMux2 then (if i 0 then i 2 else i 1)
  else false

/-- The same on words. -/
def cellEvalW (mask : Nat) (kind : Nat) (x : List Nat) : Nat :=
  let i := fun k => x.getD k 0
  let n := fun (v : Nat) => v ^^^ mask
  if kind == kBuf then i 0
  else if kind == kNot then n (i 0)
  else if kind == kAnd2 then i 0 &&& i 1
  else if kind == kOr2 then i 0 ||| i 1
  else if kind == kNand2 then n (i 0 &&& i 1)
  else if kind == kNor2 then n (i 0 ||| i 1)
  else if kind == kXor2 then i 0 ^^^ i 1
  else if kind == kXnor2 then n (i 0 ^^^ i 1)
  else if kind == kAnd3 then i 0 &&& i 1 &&& i 2
  else if kind == kOr3 then i 0 ||| i 1 ||| i 2
  else if kind == kNand3 then n (i 0 &&& i 1 &&& i 2)
  else if kind == kNor3 then n (i 0 ||| i 1 ||| i 2)
  else if kind == kAo21 then (i 0 &&& i 1) ||| i 2
  else if kind == kAoi21 then n ((i 0 &&& i 1) ||| i 2)
  else if kind == kOa21 then (i 0 ||| i 1) &&& i 2
  else if kind == kOai21 then n ((i 0 ||| i 1) &&& i 2)
  else if kind == kAo31 then (i 0 &&& i 1 &&& i 2) ||| i 3
  else if kind == kAoi31 then n ((i 0 &&& i 1 &&& i 2) ||| i 3)
  else if kind == kAo22 then (i 0 &&& i 1) ||| (i 2 &&& i 3)
  else if kind == kAoi22 then n ((i 0 &&& i 1) ||| (i 2 &&& i 3))
  else if kind == kOai22 then n ((i 0 ||| i 1) &&& (i 2 ||| i 3))
  else if kind == kMux2 then (i 0 &&& i 2) ||| (n (i 0) &&& i 1)
  else 0

/-- Arity of the modelled kinds (compared with the generated `cellArity`). -/
def cellArityModel : List Nat :=
  [1, 1, 2, 2, 2, 2, 2, 2, 3, 3, 3, 3, 3, 3, 3, 3, 4, 4, 4, 4, 4, 3]

/-- A netlist in single-assignment order: value `i` of the running list is net `i`; the first
`inputs.length` nets are given (constants and primary inputs), every cell appends its output. -/
def evalCellsW (mask : Nat) (inputs : List Nat) (cells : List (Nat × List Nat)) : List Nat :=
  cells.foldl (fun vals c => vals ++ [cellEvalW mask c.1 (c.2.map fun n => vals.getD n 0) &&& mask]) inputs

def evalCells (inputs : List Bool) (cells : List (Nat × List Nat)) : List Bool :=
  cells.foldl (fun vals c => vals ++ [cellEval c.1 (c.2.map fun n => vals.getD n false)]) inputs

/-! ### `lower_cell` of `aigify` -/

/-- Replay the `aig.mk_*` calls of one arm of `lower_cell` (the generated tree in left-to-right
post-order) on the input edges `x`. -/
def lowerExpr (g : Aig) (x : List Nat) : LExpr → Aig × Nat
  | .inp i => (g, x.getD i const0)
  | .not a =>
    let r := lowerExpr g x a
    (r.1, eNegate r.2)
  | .and a b =>
    let ra := lowerExpr g x a
    let rb := lowerExpr ra.1 x b
    mkAnd rb.1 ra.2 rb.2
  | .or a b =>
    let ra := lowerExpr g x a
    let rb := lowerExpr ra.1 x b
    mkOr rb.1 ra.2 rb.2
  | .xor a b =>
    let ra := lowerExpr g x a
    let rb := lowerExpr ra.1 x b
    mkXor rb.1 ra.2 rb.2
  | .mux s d0 d1 =>
    let rs := lowerExpr g x s
    let r0 := lowerExpr rs.1 x d0
    let r1 := lowerExpr r0.1 x d1
    mkMux r1.1 rs.2 r0.2 r1.2

/-- Boolean function of such a tree. -/
def evalExpr (x : List Bool) : LExpr → Bool
  | .inp i => x.getD i false
  | .not a => !evalExpr x a
  | .and a b => evalExpr x a && evalExpr x b
  | .or a b => evalExpr x a || evalExpr x b
  | .xor a b => evalExpr x a ^^ evalExpr x b
  | .mux s d0 d1 => if evalExpr x s then evalExpr x d1 else evalExpr x d0

/-- `lower_cell` with the inputs already lowered to edges. `none` = a kind the Rust does not know. -/
def lowerCell (g : Aig) (kind : Nat) (x : List Nat) : Option (Aig × Nat) :=
  (lowerTable[kind]?).map (lowerExpr g x)

/-! ### Template matcher of `techmap.rs` -/

/-- `InnerAnd`. -/
structure InnerAnd where
  node : Nat
  f0 : Nat
  f1 : Nat
  edgeNegated : Bool
deriving DecidableEq, Repr

/-- `CompoundMatch`. -/
structure CompoundMatch where
  kind : Nat
  inputs : List Nat
  innerAnds : List Nat
  outputIsNegated : Bool
deriving DecidableEq, Repr

/-- The test inside the `for` loop of `match_xor_pair`. -/
def xorCombo (p0 p1 q0 q1 : Nat) : Option (Nat × Nat × Bool) :=
  if eNode p0 == eNode q0 && eNeg p0 != eNeg q0 && eNode p1 == eNode q1 && eNeg p1 != eNeg q1
      && eNode p0 != eNode p1 then
    let topIsXor := eNeg p0 == eNeg p1
    let x := if !eNeg p0 then p0 else q0
    let y := if !eNeg p1 then p1 else q1
    some (x, y, topIsXor)
  else none

/-- `match_xor_pair` (the four combinations in source order, first hit wins). -/
def matchXorPair (a0 a1 b0 b1 : Nat) : Option (Nat × Nat × Bool) :=
  (xorCombo a0 a1 b0 b1).orElse fun _ => (xorCombo a0 a1 b1 b0).orElse fun _ =>
    (xorCombo a1 a0 b0 b1).orElse fun _ => xorCombo a1 a0 b1 b0

/-- The test inside the loops of `match_mux_pair`: `(sa, da)` from the first AND, `(sb, db)` from the second. -/
def muxCombo (sa da sb db : Nat) : Option (Nat × Nat × Nat) :=
  if eNode sa == eNode sb && eNeg sa != eNeg sb then
    let s := if !eNeg sa then sa else sb
    let d1 := if !eNeg sa then da else db
    let d0 := if !eNeg sa then db else da
    if eNode d0 != eNode d1 || eNeg d0 != eNeg d1 then some (s, d0, d1) else none
  else none

/-- `match_mux_pair` → `(S, D0, D1)`. -/
def matchMuxPair (a0 a1 b0 b1 : Nat) : Option (Nat × Nat × Nat) :=
  (muxCombo a0 a1 b0 b1).orElse fun _ => (muxCombo a0 a1 b1 b0).orElse fun _ =>
    (muxCombo a1 a0 b0 b1).orElse fun _ => muxCombo a1 a0 b1 b0

/-- `pick_xor_polarity` (`pos`, `neg` = `pos_refs[root]`, `neg_refs[root]`). -/
def pickXorPolarity (x y ia ib : Nat) (topIsXor : Bool) (pos neg : Nat) : CompoundMatch :=
  let positiveIsXor := topIsXor
  let wantPositive := decide (pos ≥ neg)
  let emitXor := wantPositive == positiveIsXor
  let kind := if emitXor then kXor2 else kXnor2
  let outputIsNegated := emitXor != topIsXor
  ⟨kind, [x, y], [ia, ib], outputIsNegated⟩

/-- `pick_or_polarity`. -/
def pickOrPolarity (f0 f1 : Nat) (pos neg : Nat) : CompoundMatch :=
  let a := eNegate f0
  let b := eNegate f1
  if neg ≥ pos then ⟨kOr2, [a, b], [], true⟩ else ⟨kNor2, [a, b], [], false⟩

/-- `try_match`; `in0`/`in1` = `inner_of(fanin0)`, `inner_of(fanin1)`. -/
def tryMatch (fanin0 fanin1 : Nat) (in0 in1 : Option InnerAnd) (pos neg : Nat) : Option CompoundMatch :=
  match in0, in1 with
  | some a, some b =>
    if a.edgeNegated && b.edgeNegated then
      match matchXorPair a.f0 a.f1 b.f0 b.f1 with
      | some (x, y, topIsXor) => some (pickXorPolarity x y a.node b.node topIsXor pos neg)
      | none =>
        match matchMuxPair a.f0 a.f1 b.f0 b.f1 with
        | some (s, d0, d1) => some ⟨kMux2, [s, d0, d1], [a.node, b.node], true⟩
        | none => some ⟨kAoi22, [a.f0, a.f1, b.f0, b.f1], [a.node, b.node], false⟩
    else
      -- the 3-input `match (in0, in1)` yields `None` for `(Some, Some)`
      if eNeg fanin0 && eNeg fanin1 then some (pickOrPolarity fanin0 fanin1 pos neg) else none
  | some inner, none =>
    match inner.edgeNegated, eNeg fanin1 with
    | false, false => some ⟨kAnd3, [inner.f0, inner.f1, fanin1], [inner.node], false⟩
    | true, false => some ⟨kOa21, [eNegate inner.f0, eNegate inner.f1, fanin1], [inner.node], false⟩
    | true, true => some ⟨kAoi21, [inner.f0, inner.f1, eNegate fanin1], [inner.node], false⟩
    | false, true => none
  | none, some inner =>
    match inner.edgeNegated, eNeg fanin0 with
    | false, false => some ⟨kAnd3, [inner.f0, inner.f1, fanin0], [inner.node], false⟩
    | true, false => some ⟨kOa21, [eNegate inner.f0, eNegate inner.f1, fanin0], [inner.node], false⟩
    | true, true => some ⟨kAoi21, [inner.f0, inner.f1, eNegate fanin0], [inner.node], false⟩
    | false, true => none
  | none, none =>
    if eNeg fanin0 && eNeg fanin1 then some (pickOrPolarity fanin0 fanin1 pos neg) else none

end VerylModel.Core.Aig
