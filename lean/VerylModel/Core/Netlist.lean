import VerylModel.Gen.Cells
import VerylModel.Gen.CellLibs
/-
M-Net: executable model of the synthesizer's gate netlist (`crates/synthesizer/src/ir.rs`) and of
its reports (`crates/synthesizer/src/analysis.rs`).

Modelled line by line
* `GateModule` / `Cell` / `FfCell` / `ResetSpec` / `RamBlock` / `RamReadPort` / `RamWritePort` /
  `GatePort` / `NetDriver` (names dropped: `StrId`s, origins and clock domains are display only).
* `compute_area`: per-kind buckets (`HashMap` ⇒ association list), `comb_total`, `seq_total`,
  `ram_bits`, `mem_total`, `by_kind` sorted by symbol.
* `compute_timing_top_n` for `n = 1`: the `while changed` sweep over the cells and then over the
  asynchronous RAM read ports (`arrival`, `depth`; update when `new_arr > arrival[out] ||
  new_depth > depth[out]`, BOTH entries overwritten), the endpoint list (FF D pins, output/inout
  port bits, RAM write-port pins), worst-first order (arrival descending, net id ascending) and
  the reported `(critical_path_delay, critical_path_depth)`.
  Delays are exact naturals in units of 1/`Gen.cellScale` ns; the `1e-12` guard of the update test
  is below that unit, so it is the strict comparison here. `predecessor` / `critical_path` (path
  display) are not modelled. `sort_by + retain(dedup by net) + take(1)` is modelled as the
  arg-max fold `pickEndpoint` (same first element: the order is total on (arrival, net) and two
  endpoints on the same net carry the same arrival and depth).
  Rust would panic on an out-of-range net id (`arrival[i]`); `aget`/`aset` totalise (0 / no-op)
  and every theorem assumes `WF` (which contains in-range).
* The meaning of a netlist (there is no gate-level evaluator in the crate outside its tests):
  `settle` (cells and asynchronous RAM reads, swept to a fix-point), `clockEdge` (flip-flops:
  reset value when the reset pin is at its active level, else D; RAM write ports in port order with
  optional bit mask; registered RAM reads), `cycle`, `run`.
No imports beyond the generated cell table: linked into `vmodel`.
-/
namespace VerylModel.Netlist
open VerylModel.Gen

/-! ## Structure (ir.rs) -/

structure Cell where
  kind : CellKind
  inputs : List Nat
  output : Nat
deriving Repr, Inhabited

inductive Edge where
  | posedge
  | negedge
deriving DecidableEq, Repr, Inhabited

structure ResetSpec where
  net : Nat
  activeHigh : Bool
  sync : Bool
deriving Repr, Inhabited

structure Ff where
  clock : Nat
  edge : Edge
  reset : Option ResetSpec
  d : Nat
  q : Nat
  resetValue : Bool
deriving Repr, Inhabited

structure WritePort where
  addr : List Nat
  data : List Nat
  enable : Nat
  mask : Option (List Nat)
deriving Repr, Inhabited

structure ReadPort where
  addr : List Nat
  data : List Nat
  sync : Bool
deriving Repr, Inhabited

structure Ram where
  depth : Nat
  width : Nat
  clock : Nat
  edge : Edge
  reads : List ReadPort
  writes : List WritePort
deriving Repr, Inhabited

inductive Dir where
  | input
  | output
  | inout
deriving DecidableEq, Repr, Inhabited

structure Port where
  dir : Dir
  nets : List Nat
deriving Repr, Inhabited

/-- `NetDriver`. -/
inductive Driver where
  | const (b : Bool)
  | portInput
  | cell (i : Nat)
  | ffQ (i : Nat)
  | ramRead (ram port bit : Nat)
  | undriven
deriving DecidableEq, Repr, Inhabited

/-- `GateModule`; `drivers[n]` is `nets[n].driver`, `drivers.size = nets.len()`. -/
structure Module where
  drivers : Array Driver
  ports : List Port
  cells : List Cell
  ffs : List Ff
  rams : List Ram
deriving Repr, Inhabited

def Module.nNets (m : Module) : Nat := m.drivers.size

/-- `RamBlock::bits`. -/
def Ram.bits (r : Ram) : Nat := r.depth * r.width

/-! ## Array access (total) -/

def aget (a : Array Nat) (i : Nat) : Nat := a.getD i 0
def aset (a : Array Nat) (i v : Nat) : Array Nat := a.setIfInBounds i v
def bget (a : Array Bool) (i : Nat) : Bool := a.getD i false
def bset (a : Array Bool) (i : Nat) (v : Bool) : Array Bool := a.setIfInBounds i v

/-! ## Combinational nodes: cells, then asynchronous RAM read ports (the sweep order of
`compute_timing_top_n`) -/

/-- What one step of the timing sweep needs: fan-in nets, driven nets, delay and depth increment. -/
structure TNode where
  inputs : List Nat
  outputs : List Nat
  delay : Nat
  dinc : Nat
deriving Repr, Inhabited

/-- Timing data: cell delays per kind, RAM access delay per RAM block (`sram.access_delay(depth)`,
    supplied per block because `log2` of a non-power-of-two depth is not rational). -/
structure TParams where
  delay : CellKind → Nat
  access : Nat → Nat

/-- `usize::from(!matches!(cell.kind, CellKind::Buf))`. -/
def cellDinc (k : CellKind) : Nat := if k = .buf then 0 else 1

def cellNode (p : TParams) (c : Cell) : TNode :=
  { inputs := c.inputs, outputs := [c.output], delay := p.delay c.kind, dinc := cellDinc c.kind }

/-- Asynchronous read ports of RAM `ri` (`if rp.sync { continue; }`). -/
def ramNodes (p : TParams) (ri : Nat) (r : Ram) : List TNode :=
  (r.reads.filter (fun rp => !rp.sync)).map
    (fun rp => { inputs := rp.addr, outputs := rp.data, delay := p.access ri, dinc := 1 })

def ramsNodes (p : TParams) : Nat → List Ram → List TNode
  | _, [] => []
  | ri, r :: rest => ramNodes p ri r ++ ramsNodes p (ri + 1) rest

def timingNodes (p : TParams) (m : Module) : List TNode :=
  m.cells.map (cellNode p) ++ ramsNodes p 0 m.rams

/-! ## compute_timing: the `while changed` sweep -/

structure TState where
  arrival : Array Nat
  depth : Array Nat
deriving Repr, Inhabited, DecidableEq

/-- `max_in_*` of the inner `for &inp in &cell.inputs` loop (values are never negative, so the
    `arg_net.is_none()` first-input case coincides with the maximum from 0). -/
def maxIn (a : Array Nat) (ins : List Nat) : Nat :=
  ins.foldl (fun acc i => max acc (aget a i)) 0

/-- `if new_arr > arrival[o] + 1e-12 || new_depth > depth[o] { arrival[o] = new_arr;
    depth[o] = new_depth; changed = true; }`. -/
def writeOut (newArr newDep : Nat) (sc : TState × Bool) (o : Nat) : TState × Bool :=
  if newArr > aget sc.1.arrival o || newDep > aget sc.1.depth o then
    ({ arrival := aset sc.1.arrival o newArr, depth := aset sc.1.depth o newDep }, true)
  else sc

/-- One cell (or one asynchronous read port) of the sweep. -/
def nodeStep (sc : TState × Bool) (nd : TNode) : TState × Bool :=
  let newArr := maxIn sc.1.arrival nd.inputs + nd.delay
  let newDep := maxIn sc.1.depth nd.inputs + nd.dinc
  nd.outputs.foldl (writeOut newArr newDep) sc

/-- One iteration of the `while changed` body. -/
def pass (nodes : List TNode) (st : TState) : TState × Bool :=
  nodes.foldl nodeStep (st, false)

/-- `while changed { … }` with fuel; `none` = fuel exhausted (the Rust loop would still run). -/
def iterate (nodes : List TNode) : Nat → TState → Option TState
  | 0, _ => none
  | fuel + 1, st =>
    let r := pass nodes st
    if r.2 then iterate nodes fuel r.1 else some r.1

def initT (n : Nat) : TState := { arrival := Array.replicate n 0, depth := Array.replicate n 0 }

/-- Fuel that always suffices on a well-formed netlist (`Props.C20.timing_fixpoint`). -/
def timingFuel (nodes : List TNode) : Nat := nodes.length + 2

def sweep (p : TParams) (m : Module) : Option TState :=
  iterate (timingNodes p m) (timingFuel (timingNodes p m)) (initT m.nNets)

/-! ### endpoints and the report -/

def WritePort.pins (wp : WritePort) : List Nat :=
  wp.addr ++ wp.data ++ [wp.enable] ++ (match wp.mask with | some ms => ms | none => [])

/-- Endpoint nets in the order `compute_timing_top_n` collects them: FF D pins, output/inout port
    bits, RAM write-port pins (addr, data, enable, mask). -/
def endpoints (m : Module) : List Nat :=
  m.ffs.map (·.d)
  ++ (m.ports.filter (fun p => p.dir != .input)).flatMap (·.nets)
  ++ m.rams.flatMap (fun r => r.writes.flatMap WritePort.pins)

/-- `b.0.partial_cmp(&a.0).then_with(|| a.3.cmp(&b.3))`: is endpoint `e` strictly before `best`? -/
def better (arr : Array Nat) (e best : Nat) : Bool :=
  aget arr e > aget arr best || (aget arr e == aget arr best && e < best)

/-- First element of the worst-first order. -/
def pickEndpoint (arr : Array Nat) : List Nat → Option Nat
  | [] => none
  | e :: rest =>
    match pickEndpoint arr rest with
    | none => some e
    | some b => if better arr b e then some b else some e

structure TimingReport where
  delay : Nat
  depth : Nat
  endNet : Option Nat
deriving Repr, Inhabited, DecidableEq

/-- `compute_timing` (`TimingReport::default()` when there is no endpoint). -/
def report (p : TParams) (m : Module) : Option TimingReport :=
  match sweep p m with
  | none => none
  | some st =>
    match pickEndpoint st.arrival (endpoints m) with
    | none => some { delay := 0, depth := 0, endNet := none }
    | some e => some { delay := aget st.arrival e, depth := aget st.depth e, endNet := some e }

/-! ## compute_area -/

/-- `buckets.entry(kind).or_insert((0, 0.0))`; `entry.0 += 1; entry.1 += info.area`. -/
def bump (k : CellKind) (a : Nat) : List (CellKind × Nat × Nat) → List (CellKind × Nat × Nat)
  | [] => [(k, 1, a)]
  | (k', c, s) :: rest => if k' = k then (k', c + 1, s + a) :: rest else (k', c, s) :: bump k a rest

def insertRow (r : CellKind × Nat × Nat) : List (CellKind × Nat × Nat) → List (CellKind × Nat × Nat)
  | [] => [r]
  | x :: rest => if r.1.symbolRank ≤ x.1.symbolRank then r :: x :: rest else x :: insertRow r rest

/-- `by_kind.sort_by_key(|x| x.0.symbol())` (keys are distinct, so any sort gives this list). -/
def sortRows (l : List (CellKind × Nat × Nat)) : List (CellKind × Nat × Nat) :=
  l.foldr insertRow []

structure AreaReport where
  total : Nat
  combinational : Nat
  sequential : Nat
  memory : Nat
  byKind : List (CellKind × Nat × Nat)
  ffCount : Nat
  ramBits : Nat
deriving Repr, Inhabited

/-- The `for cell in &module.cells` loop: (buckets, comb_total). -/
def areaLoop (lib : CellLib) (cells : List Cell) : List (CellKind × Nat × Nat) × Nat :=
  cells.foldl (fun acc c => (bump c.kind (lib.area c.kind) acc.1, acc.2 + lib.area c.kind)) ([], 0)

def area (lib : CellLib) (m : Module) : AreaReport :=
  let r := areaLoop lib m.cells
  let seq := m.ffs.length * lib.ffArea
  let bits := (m.rams.map Ram.bits).sum
  let mem := bits * lib.bitArea
  { total := r.2 + seq + mem, combinational := r.2, sequential := seq, memory := mem,
    byKind := sortRows r.1, ffCount := m.ffs.length, ramBits := bits }

/-! ## Well-formedness (decidable) -/

/-- Mark every net of `l` in `seen`; `none` if one is out of range or already marked. -/
def markAll (seen : Array Bool) : List Nat → Option (Array Bool)
  | [] => some seen
  | n :: ns =>
    if n < seen.size then
      if bget seen n then none else markAll (bset seen n true) ns
    else none

/-- Every driving pin, once: the two constant nets, cell outputs, FF Q pins, RAM read data pins,
    input/inout port bits. -/
def driverNets (m : Module) : List Nat :=
  [0, 1] ++ m.cells.map (·.output) ++ m.ffs.map (·.q)
  ++ m.rams.flatMap (fun r => r.reads.flatMap (·.data))
  ++ (m.ports.filter (fun p => p.dir != .output)).flatMap (·.nets)

def ReadPort.ins (rp : ReadPort) : List Nat := rp.addr

/-- Every reading pin: cell inputs, FF D/clock/reset pins, RAM clock, write-port pins and read
    addresses, output/inout port bits. -/
def usedNets (m : Module) : List Nat :=
  m.cells.flatMap (·.inputs)
  ++ m.ffs.flatMap (fun f => [f.d, f.clock] ++ (match f.reset with | some r => [r.net] | none => []))
  ++ m.rams.flatMap (fun r => [r.clock] ++ r.writes.flatMap WritePort.pins ++ r.reads.flatMap (·.addr))
  ++ (m.ports.filter (fun p => p.dir != .input)).flatMap (·.nets)

/-- Shape of the RAM blocks: address pins present, data/mask widths equal the word width. -/
def ramShapeOk (r : Ram) : Bool :=
  r.reads.all (fun rp => rp.addr.length > 0 && rp.data.length == r.width)
  && r.writes.all (fun wp => wp.data.length == r.width
      && (match wp.mask with | some ms => ms.length == r.width | none => true))

/-- Does `drivers[n]` name exactly the pin that drives `n`? -/
def driverEntryOk (m : Module) (n : Nat) (d : Driver) : Bool :=
  match d with
  | .const b => (n == 0 && b == false) || (n == 1 && b == true)
  | .portInput => m.ports.any (fun p => p.dir != .output && p.nets.contains n)
  | .cell i => match m.cells[i]? with | some c => c.output == n | none => false
  | .ffQ i => match m.ffs[i]? with | some f => f.q == n | none => false
  | .ramRead r p b =>
    match m.rams[r]? with
    | some ram => match ram.reads[p]? with
      | some rp => rp.data[b]? == some n
      | none => false
    | none => false
  | .undriven => true

def tableOk (m : Module) : Bool :=
  (List.range m.nNets).all (fun n => driverEntryOk m n (m.drivers.getD n .undriven))

/-- Unit-delay timing data: the level of a net is the number of nodes on its longest path. -/
def levelNode (nd : TNode) : TNode := { nd with delay := 0, dinc := 1 }

def unitParams : TParams := { delay := fun _ => 0, access := fun _ => 0 }

/-- Levels by the same sweep; `none` if it does not settle (a combinational cycle). -/
def levels (m : Module) : Option (Array Nat) :=
  let nodes := (timingNodes unitParams m).map levelNode
  match iterate nodes (timingFuel nodes) (initT m.nNets) with
  | some st => some st.depth
  | none => none

/-- The certificate test: every fan-in level is below every fan-out level, levels are bounded by
    the number of nodes. -/
def rankedBy (lv : Array Nat) (nodes : List TNode) : Bool :=
  nodes.all (fun nd =>
    nd.outputs.all (fun o => aget lv o ≤ nodes.length && nd.inputs.all (fun i => aget lv i < aget lv o)))

def acyclicCheck (m : Module) : Bool :=
  match levels m with
  | some lv => rankedBy lv (timingNodes unitParams m)
  | none => false

def arityOk (m : Module) : Bool := m.cells.all (fun c => c.inputs.length == c.kind.arity)

def inRangeOk (m : Module) : Bool := (usedNets m).all (fun n => n < m.nNets)

/-- One driver per net (no net is driven twice, every driving pin is in range) and every used net
    is driven. -/
def driversOk (m : Module) : Bool :=
  match markAll (Array.replicate m.nNets false) (driverNets m) with
  | some seen => (usedNets m).all (fun n => bget seen n)
  | none => false

/-- The decidable well-formedness test of C20. -/
def wf (m : Module) : Bool :=
  2 ≤ m.nNets && inRangeOk m && arityOk m && driversOk m && m.rams.all ramShapeOk
  && tableOk m && acyclicCheck m

/-! ## Meaning of a netlist -/

/-- Inputs of a cell as the function `eval_cell` indexes. -/
def inputFn (env : Array Bool) (ins : List Nat) : Nat → Bool :=
  fun i => match ins[i]? with | some n => bget env n | none => false

/-- Little-endian value of a pin list. -/
def pinsVal (env : Array Bool) : List Nat → Nat
  | [] => 0
  | n :: rest => (if bget env n then 1 else 0) + 2 * pinsVal env rest

structure State where
  /-- Q of every flip-flop, by index. -/
  ffs : Array Bool
  /-- Words of every RAM block (`depth` words each, bit `b` of a word = data pin `b`). -/
  mems : Array (Array Nat)
  /-- Registered read data of every RAM read port (used by `sync` ports only). -/
  rdregs : Array (Array Nat)
deriving Repr, Inhabited

def initState (m : Module) : State :=
  { ffs := Array.replicate m.ffs.length false,
    mems := (m.rams.map (fun r => Array.replicate r.depth 0)).toArray,
    rdregs := (m.rams.map (fun r => Array.replicate r.reads.length 0)).toArray }

def memWord (st : State) (ri addr : Nat) : Nat := aget (st.mems.getD ri #[]) addr

/-- Combinational nodes for evaluation: what drives `outputs` from `inputs`. -/
inductive CNode where
  | cell (c : Cell)
  | read (ri : Nat) (rp : ReadPort)
deriving Repr, Inhabited

def ramsCNodes : Nat → List Ram → List CNode
  | _, [] => []
  | ri, r :: rest => ((r.reads.filter (fun rp => !rp.sync)).map (CNode.read ri)) ++ ramsCNodes (ri + 1) rest

def combNodes (m : Module) : List CNode := m.cells.map CNode.cell ++ ramsCNodes 0 m.rams

def setBits (word : Nat) : Nat → List Nat → Array Bool × Bool → Array Bool × Bool
  | _, [], acc => acc
  | b, n :: rest, acc =>
    let v := word.testBit b
    setBits word (b + 1) rest (if bget acc.1 n == v then acc else (bset acc.1 n v, true))

/-- Evaluate one node on the current assignment; the flag records a change. -/
def cnodeStep (st : State) (ec : Array Bool × Bool) : CNode → Array Bool × Bool
  | .cell c =>
    let v := c.kind.eval (inputFn ec.1 c.inputs)
    if bget ec.1 c.output == v then ec else (bset ec.1 c.output v, true)
  | .read ri rp =>
    -- an address at or beyond `depth` reads 0 (the RTL array has no such element)
    setBits (memWord st ri (pinsVal ec.1 rp.addr)) 0 rp.data ec

def cpass (st : State) (nodes : List CNode) (env : Array Bool) : Array Bool × Bool :=
  nodes.foldl (cnodeStep st) (env, false)

def citerate (st : State) (nodes : List CNode) : Nat → Array Bool → Option (Array Bool)
  | 0, _ => none
  | fuel + 1, env =>
    let r := cpass st nodes env
    if r.2 then citerate st nodes fuel r.1 else some r.1

def setPins (env : Array Bool) : List (Nat × Bool) → Array Bool
  | [] => env
  | (n, v) :: rest => setPins (bset env n v) rest

def ffPins (st : State) : Nat → List Ff → List (Nat × Bool)
  | _, [] => []
  | i, f :: rest => (f.q, bget st.ffs i) :: ffPins st (i + 1) rest

def wordPins (word : Nat) : Nat → List Nat → List (Nat × Bool)
  | _, [] => []
  | b, n :: rest => (n, word.testBit b) :: wordPins word (b + 1) rest

def readPins (regs : Array Nat) : Nat → List ReadPort → List (Nat × Bool)
  | _, [] => []
  | p, rp :: rest => (if rp.sync then wordPins (aget regs p) 0 rp.data else []) ++ readPins regs (p + 1) rest

def ramPins (st : State) : Nat → List Ram → List (Nat × Bool)
  | _, [] => []
  | ri, r :: rest => readPins (st.rdregs.getD ri #[]) 0 r.reads ++ ramPins st (ri + 1) rest

/-- Assignment before the combinational sweep: constants, primary inputs, state outputs. -/
def seedEnv (m : Module) (st : State) (inputs : List (Nat × Bool)) : Array Bool :=
  setPins (setPins (setPins (bset (Array.replicate m.nNets false) 1 true) inputs) (ffPins st 0 m.ffs))
    (ramPins st 0 m.rams)

/-- `evalComb`: the cells (and asynchronous RAM reads) swept to a fix-point; fuel = number of
    nodes + 2 (enough on a well-formed netlist). -/
def settle (m : Module) (st : State) (inputs : List (Nat × Bool)) : Option (Array Bool) :=
  citerate st (combNodes m) ((combNodes m).length + 2) (seedEnv m st inputs)

def resetActive (env : Array Bool) (f : Ff) : Bool :=
  match f.reset with
  | some r => bget env r.net == r.activeHigh
  | none => false

def resetAsync (f : Ff) : Bool :=
  match f.reset with
  | some r => !r.sync
  | none => false

/-- Flip-flop `i` across an active edge of clock net `clk`. -/
def ffNext (env : Array Bool) (clk : Nat) (old : Bool) (f : Ff) : Bool :=
  let clocked := f.clock == clk
  if resetActive env f && (resetAsync f || clocked) then f.resetValue
  else if clocked then bget env f.d else old

def ffsNext (env : Array Bool) (clk : Nat) (st : State) : Nat → List Ff → List Bool
  | _, [] => []
  | i, f :: rest => ffNext env clk (bget st.ffs i) f :: ffsNext env clk st (i + 1) rest

/-- One write port: `if enable { mem[addr] = (old & !mask) | (data & mask) }`, nothing if the
    address is beyond `depth`. -/
def writePort (env : Array Bool) (width : Nat) (mem : Array Nat) (wp : WritePort) : Array Nat :=
  if bget env wp.enable then
    let a := pinsVal env wp.addr
    let data := pinsVal env wp.data
    let full := 2 ^ width - 1
    let mask := match wp.mask with | some ms => pinsVal env ms | none => full
    if a < mem.size then aset mem a ((aget mem a &&& (full ^^^ mask)) ||| (data &&& mask)) else mem
  else mem

def ramNext (env : Array Bool) (clk : Nat) (r : Ram) (mem : Array Nat) : Array Nat :=
  if r.clock == clk then r.writes.foldl (writePort env r.width) mem else mem

def regsNext (env : Array Bool) (clk : Nat) (r : Ram) (mem regs : Array Nat) : Array Nat :=
  if r.clock == clk then
    ((List.range r.reads.length).map (fun p =>
      match r.reads[p]? with
      | some rp => if rp.sync then aget mem (pinsVal env rp.addr) else aget regs p
      | none => 0)).toArray
  else regs

/-- State after an active edge of `clk`, from the settled assignment `env`. -/
def clockEdge (m : Module) (clk : Nat) (env : Array Bool) (st : State) : State :=
  { ffs := (ffsNext env clk st 0 m.ffs).toArray,
    mems := ((List.range m.rams.length).map (fun ri =>
      match m.rams[ri]? with
      | some r => ramNext env clk r (st.mems.getD ri #[])
      | none => #[])).toArray,
    rdregs := ((List.range m.rams.length).map (fun ri =>
      match m.rams[ri]? with
      | some r => regsNext env clk r (st.mems.getD ri #[]) (st.rdregs.getD ri #[])
      | none => #[])).toArray }

/-- Value of every output (and inout) port, little-endian, in port order. -/
def outputs (m : Module) (env : Array Bool) : List Nat :=
  (m.ports.filter (fun p => p.dir != .input)).map (fun p => pinsVal env p.nets)

/-- One simulator step: inputs applied, optional active edge of `clk`, outputs read after it. -/
def cycle (m : Module) (clk : Option Nat) (st : State) (inputs : List (Nat × Bool)) :
    Option (State × List Nat) :=
  match clk with
  | none =>
    match settle m st inputs with
    | some env => some (st, outputs m env)
    | none => none
  | some c =>
    match settle m st inputs with
    | none => none
    | some env =>
      let st' := clockEdge m c env st
      match settle m st' inputs with
      | some env' => some (st', outputs m env')
      | none => none

/-- `Netlist.run`: outputs per cycle (`none` for the cycles after a failed settle). -/
def run (m : Module) (clk : Option Nat) : State → List (List (Nat × Bool)) → List (Option (List Nat))
  | _, [] => []
  | st, inp :: rest =>
    match cycle m clk st inp with
    | some (st', outs) => some outs :: run m clk st' rest
    | none => none :: run m clk st rest

end VerylModel.Netlist
