/-!
# M-FS — a small model of the filesystem protocol of concurrently running veryl processes (C30)

* A filesystem is `Path → Option Content` (a directory is an entry with empty content) plus a lock
  table (`flock` on `<dir>/lock` files).  Content is a list of chunks: a plain `fs::write` /
  `OpenOptions::truncate(true)` + `write_all` is `openTrunc` followed by one `writeChunk` per chunk,
  so other processes can observe the truncated and every partially written state.
  `renameTmp p c` is `veryl_path::atomic_write` (`NamedTempFile::new_in(dir)` + `write_all` +
  `persist`): the temp file has a fresh `O_EXCL` name nobody else opens (`gc` only looks at `*.frag`),
  so creation+write+rename is one atomic installation of complete content.
* `read p` records the whole content at one instant.  For files that are only ever replaced by
  `rename` this is exact (an open descriptor keeps the old inode).  For files written in place a
  real reader can see even more intermediate states, which only strengthens the negative theorems;
  positive theorems about such files are proved under mutual exclusion only.
* A process is a finite program tree (`Prog`); `step1` is the deterministic effect of the next
  atomic step of one process on the shared filesystem (`none` = finished or blocked: a blocking
  `lock` on a held lock is not enabled).  `Step`/`Reach` interleave any number of processes.
* `Mon`/`accept` at the end: the acceptor used by `vmodel fs` to check that the event word
  abstracted from an `strace` of a real process is a word of the modelled process programs.

Import-free (linked into `vmodel`).
-/
namespace VerylModel.FS

/-! ## Paths, locks -/

/-- What a path is, as far as the protocol is concerned. -/
inductive Cls where
  | src        -- project sources (`*.veryl`), never written by veryl build/check
  | toml       -- Veryl.toml / Veryl.pub
  | lockfile   -- Veryl.lock (atomic_write)
  | dotBuild   -- the `.build` directory
  | info       -- `.build/info.toml` (plain `fs::write`)
  | out        -- outputs: `*.sv`, `*.sv.map`, filelist (write_file_if_changed: in place)
  | cacheDir   -- `.build/cache[/fragments[/xx]]`
  | manifest   -- `.build/cache/manifest.toml`
  | frag       -- `.build/cache/fragments/xx/<hash>.frag`
  | lsCacheDir -- `.build/cache-ls[/fragments[/xx]]`
  | lsManifest -- `.build/cache-ls/manifest.toml`
  | lsFrag     -- `.build/cache-ls/fragments/xx/<hash>.frag`
  | stdDir     -- `<user cache>/std/<hash>` (and its sub-directories)
  | stdFile    -- `<user cache>/std/<hash>/**/*.veryl`
  | depsDir    -- `<user cache>/dependencies`, `<user cache>/resolve`
  | depDir     -- `<user cache>/dependencies/<uuid>` (a checkout)
  | depFile    -- files below a checkout
  | resDir     -- `<user cache>/resolve/<hash>` (checkout of the dependency's default branch)
  | resFile    -- files below it (`Veryl.pub`, sources)
  | other
  deriving DecidableEq, Repr

/-- `prj` distinguishes projects (0 for user-level paths), `idx` files of one class. -/
structure Path where
  cls : Cls
  prj : Nat
  idx : Nat
  deriving DecidableEq, Repr

inductive LockId where
  | build (prj : Nat)     -- `<project>/.build/lock`
  | cache (prj : Nat)     -- `<project>/.build/cache/lock`
  | cacheLs (prj : Nat)   -- `<project>/.build/cache-ls/lock`
  | std                   -- `<user cache>/std/<hash>/lock`
  | deps                  -- `<user cache>/dependencies/lock`
  | resolve               -- `<user cache>/resolve/lock`
  deriving DecidableEq, Repr

abbrev Chunk := Nat
abbrev Content := List Chunk
abbrev Pid := Nat

structure FS where
  files : Path → Option Content
  locks : LockId → Option Pid

/-- Point update of a function. -/
def upd {α β : Type} [DecidableEq α] (f : α → β) (k : α) (v : β) : α → β :=
  fun x => if x = k then v else f x

@[simp] theorem upd_same {α β : Type} [DecidableEq α] (f : α → β) (k : α) (v : β) : upd f k v k = v := by
  simp [upd]

theorem upd_other {α β : Type} [DecidableEq α] (f : α → β) (k : α) (v : β) (x : α) (h : x ≠ k) :
    upd f k v x = f x := by
  simp [upd, h]

def FS.empty : FS := { files := fun _ => none, locks := fun _ => none }

def FS.setFile (fs : FS) (p : Path) (v : Option Content) : FS := { fs with files := upd fs.files p v }
def FS.setLock (fs : FS) (l : LockId) (v : Option Pid) : FS := { fs with locks := upd fs.locks l v }

/-- `create_dir_all`: creates the entry if it is missing. -/
def FS.mkdir (fs : FS) (p : Path) : FS :=
  match fs.files p with
  | none => fs.setFile p (some [])
  | some _ => fs

/-- one `write` to a descriptor of `p` opened earlier (lost if the name was unlinked meanwhile). -/
def FS.append (fs : FS) (p : Path) (c : Chunk) : FS :=
  match fs.files p with
  | some old => fs.setFile p (some (old ++ [c]))
  | none => fs

/-- `flock(LOCK_UN)` / close of the lock descriptor: releases only one's own lock. -/
def FS.release (fs : FS) (me : Pid) (l : LockId) : FS :=
  if fs.locks l = some me then fs.setLock l none else fs

/-! ## Programs -/

/-- A process program: a finite tree of atomic steps. -/
inductive Prog where
  | done : Prog
  | mkdirAll (p : Path) (k : Prog) : Prog
  | lock (l : LockId) (k : Prog) : Prog               -- blocking `flock(LOCK_EX)`
  | tryLock (l : LockId) (ok fail : Prog) : Prog      -- `flock(LOCK_EX|LOCK_NB)`
  | unlock (l : LockId) (k : Prog) : Prog
  | openTrunc (p : Path) (k : Prog) : Prog
  | writeChunk (p : Path) (c : Chunk) (k : Prog) : Prog
  | renameTmp (p : Path) (c : Content) (k : Prog) : Prog
  | read (p : Path) (k : Prog) : Prog
  | unlink (p : Path) (k : Prog) : Prog
  | ifExists (p : Path) (thn els : Prog) : Prog
  deriving DecidableEq, Repr

/-- What a step did (the label of a transition; also the alphabet of model traces). -/
inductive Ev where
  | mkdir (p : Path)
  | lock (l : LockId)
  | tryLock (l : LockId) (ok : Bool)
  | unlock (l : LockId)
  | trunc (p : Path)
  | write (p : Path) (c : Chunk)
  | rename (p : Path) (c : Content)
  | read (p : Path) (v : Option Content)
  | unlink (p : Path)
  | exist (p : Path) (b : Bool)
  deriving DecidableEq, Repr

/-- A process: the rest of its program and what its `read`s have seen so far. -/
structure Proc where
  prog : Prog
  obs : List (Path × Option Content)
  deriving DecidableEq

def Proc.start (p : Prog) : Proc := ⟨p, []⟩
def Proc.idle : Proc := ⟨.done, []⟩

/-- The next atomic step of process `me`.  `none`: finished, or blocked on a held lock. -/
def step1 (me : Pid) (fs : FS) (pr : Proc) : Option (Ev × FS × Proc) :=
  match pr.prog with
  | .done => none
  | .mkdirAll p k =>
    some (.mkdir p, fs.mkdir p, ⟨k, pr.obs⟩)
  | .lock l k =>
    match fs.locks l with
    | none => some (.lock l, fs.setLock l (some me), ⟨k, pr.obs⟩)
    | some _ => none
  | .tryLock l ok fail =>
    match fs.locks l with
    | none => some (.tryLock l true, fs.setLock l (some me), ⟨ok, pr.obs⟩)
    | some _ => some (.tryLock l false, fs, ⟨fail, pr.obs⟩)
  | .unlock l k =>
    some (.unlock l, fs.release me l, ⟨k, pr.obs⟩)
  | .openTrunc p k => some (.trunc p, fs.setFile p (some []), ⟨k, pr.obs⟩)
  | .writeChunk p c k =>
    some (.write p c, fs.append p c, ⟨k, pr.obs⟩)
  | .renameTmp p c k => some (.rename p c, fs.setFile p (some c), ⟨k, pr.obs⟩)
  | .read p k => some (.read p (fs.files p), fs, ⟨k, pr.obs ++ [(p, fs.files p)]⟩)
  | .unlink p k => some (.unlink p, fs.setFile p none, ⟨k, pr.obs⟩)
  | .ifExists p t e =>
    some (.exist p (fs.files p).isSome, fs, ⟨if (fs.files p).isSome then t else e, pr.obs⟩)

/-! ## Interleaving semantics -/

/-- A system: the shared filesystem and one `Proc` per process id (unused ids are `Proc.idle`). -/
structure Sys where
  fs : FS
  procs : Pid → Proc

/-- One atomic step of one process. -/
inductive Step : Sys → Pid → Ev → Sys → Prop where
  | mk {s : Sys} {i : Pid} {e : Ev} {fs' : FS} {p' : Proc} :
      step1 i s.fs (s.procs i) = some (e, fs', p') → Step s i e ⟨fs', upd s.procs i p'⟩

/-- Reachability under arbitrary interleaving. -/
inductive Reach : Sys → Sys → Prop where
  | refl (s : Sys) : Reach s s
  | tail {a b c : Sys} {i : Pid} {e : Ev} : Reach a b → Step b i e c → Reach a c

/-- Process `i` can take a step in `s`. -/
def Enabled (s : Sys) (i : Pid) : Prop := (step1 i s.fs (s.procs i)).isSome

def Sys.allDone (s : Sys) : Prop := ∀ i, (s.procs i).prog = .done

/-- Executable scheduler: run the processes in the given order of pids, one step each. -/
def exec (s : Sys) : List Pid → Option Sys
  | [] => some s
  | i :: is =>
    match step1 i s.fs (s.procs i) with
    | some (_, fs', p') => exec ⟨fs', upd s.procs i p'⟩ is
    | none => none

/-- Solo execution of one process (deterministic). -/
inductive SoloStar (me : Pid) : FS × Proc → FS × Proc → Prop where
  | refl (x : FS × Proc) : SoloStar me x x
  | head {x z : FS × Proc} {e : Ev} {fs' : FS} {p' : Proc} :
      step1 me x.1 x.2 = some (e, fs', p') → SoloStar me (fs', p') z → SoloStar me x z

/-- Run one process alone until it finishes or blocks (fuel = an upper bound on its length). -/
def runSolo (me : Pid) : Nat → FS × Proc → FS × Proc
  | 0, x => x
  | n + 1, x =>
    match step1 me x.1 x.2 with
    | some (_, fs', p') => runSolo me n (fs', p')
    | none => x

/-! ## Program combinators and the process programs of veryl, as coded -/

def writeChunks (p : Path) : Content → Prog → Prog
  | [], k => k
  | c :: cs, k => .writeChunk p c (writeChunks p cs k)

/-- `fs::write(path, data)` / `write_file_if_changed`'s write: truncate, then the chunks. -/
def plainWrite (p : Path) (c : Content) (k : Prog) : Prog := .openTrunc p (writeChunks p c k)

def writeFiles : List (Path × Content) → Prog → Prog
  | [], k => k
  | (p, c) :: fs, k => plainWrite p c (writeFiles fs k)

def renameFiles : List (Path × Content) → Prog → Prog
  | [], k => k
  | (p, c) :: fs, k => .renameTmp p c (renameFiles fs k)

def readAll : List Path → Prog → Prog
  | [], k => k
  | p :: ps, k => .read p (readAll ps k)

def unlinkAll : List Path → Prog → Prog
  | [], k => k
  | p :: ps, k => .unlink p (unlinkAll ps k)

/-- `lock l; body; unlock l` — shape of `veryl <command>` after `Metadata::load`
    (`crates/veryl/src/main.rs`: `lock_dir(.build)` … `unlock_dir`). `body` gets the continuation. -/
def bracket (l : LockId) (body : Prog → Prog) : Prog := .lock l (body (.unlock l .done))

/-- `Store::open` + reads + `put`s + `save` (`crates/cache/src/lib.rs`), blocking variant:
    `create_dir_all(root/fragments)`, `flock(root/lock)`, read manifest, read blobs (`load`),
    `write_blob` = `atomic_write` per new blob, `save` = `atomic_write(manifest)` then `gc` unlinks.
    The lock is released when the `Store` is dropped. -/
def storeSession (l : LockId) (dir manifest : Path) (loads : List Path)
    (newBlobs : List (Path × Content)) (newManifest : Content) (gc : List Path) (k : Prog) : Prog :=
  .mkdirAll dir (.lock l (.read manifest (readAll loads
    (renameFiles newBlobs (.renameTmp manifest newManifest (unlinkAll gc (.unlock l k)))))))

/-- `Store::try_open` (language server, `crates/languageserver/src/incremental.rs`): same but
    `try_lock`; on failure (`None`) the server just parses the files itself. -/
def storeTrySession (l : LockId) (dir manifest : Path) (loads : List Path)
    (newBlobs : List (Path × Content)) (newManifest : Content) (gc : List Path) (srcs : List Path)
    (k : Prog) : Prog :=
  .mkdirAll dir (.tryLock l
    (.read manifest (readAll loads (readAll srcs
      (renameFiles newBlobs (.renameTmp manifest newManifest (unlinkAll gc (.unlock l k)))))))
    (readAll srcs k))

/-- `veryl_std::expand` **as coded** (`crates/std/src/lib.rs`): existence test of the directory
    first, outside any lock; then `create_dir_all`, `lock_dir`, plain `fs::write` of every file,
    `unlock_dir`.  A process that finds the directory skips everything, lock included. -/
def stdExpand (sd : Path) (files : List (Path × Content)) (k : Prog) : Prog :=
  .ifExists sd k (.mkdirAll sd (.lock .std (writeFiles files (.unlock .std k))))

/-- expand, then read the library sources (`veryl_std::paths` + parsing). -/
def stdUser (sd : Path) (files : List (Path × Content)) : Prog :=
  stdExpand sd files (readAll (files.map Prod.fst) .done)

/-- Dependency checkout as coded (`Lockfile::get_metadata`, `crates/metadata/src/lockfile.rs`):
    `create_dir_all(dependencies)`, `lock_dir("dependencies")` **before** the existence test;
    absent ⇒ clone (directory, then files in place); present but without `Veryl.toml` ⇒ re-clone;
    `unlock_dir`; then `Metadata::load(toml)`. -/
def cloneBody (tf : Path) (cs : Content) : Prog :=
  .openTrunc tf (writeChunks tf cs (.unlock .deps (.read tf .done)))

def depCheckout (dd dp tf : Path) (cs : Content) : Prog :=
  .mkdirAll dd (.lock .deps
    (.ifExists dp
      (.ifExists tf (.unlock .deps (.read tf .done)) (cloneBody tf cs))
      (.mkdirAll dp (cloneBody tf cs))))

/-- Version resolution as coded (`Lockfile::resolve_version_from_latest`): `lock_dir("resolve")`,
    clone-or-open, `fetch`, `checkout(None)` — which **rewrites every worktree file in place** even
    when nothing changed (observed with strace) — `unlock_dir`, and only then `Veryl.pub` is read. -/
def resolveLatest (rd path pub : Path) (cs : Content) : Prog :=
  .mkdirAll rd (.lock .resolve (.mkdirAll path (plainWrite pub cs (.unlock .resolve (.read pub .done)))))

/-- `veryl build` **as coded**: `Metadata::load` reads `Veryl.toml`, creates `.build`, and reads
    `.build/info.toml` *before* `lock_dir(.build)`; everything else is inside the lock. -/
def cliCommand (prj : Nat) (toml dotBuild info : Path) (body : Prog → Prog) : Prog :=
  .read toml (.mkdirAll dotBuild (.ifExists info
    (.read info (bracket (.build prj) body))
    (bracket (.build prj) body)))

/-! ## Static properties of programs -/

/-- The locks on which the program can block (`lock`, not `tryLock`). -/
def Prog.blockingLocks : Prog → List LockId
  | .done => []
  | .mkdirAll _ k => k.blockingLocks
  | .lock l k => l :: k.blockingLocks
  | .tryLock _ ok fail => ok.blockingLocks ++ fail.blockingLocks
  | .unlock _ k => k.blockingLocks
  | .openTrunc _ k => k.blockingLocks
  | .writeChunk _ _ k => k.blockingLocks
  | .renameTmp _ _ k => k.blockingLocks
  | .read _ k => k.blockingLocks
  | .unlink _ k => k.blockingLocks
  | .ifExists _ t e => t.blockingLocks ++ e.blockingLocks

/-- Every mutation of a path in `S` is an atomic installation of content allowed by `V`, or an
    unlink (the discipline of `atomic_write` + `gc`). -/
def Prog.AtomicOn (S : Path → Prop) (V : Path → Content → Prop) : Prog → Prop
  | .done => True
  | .mkdirAll p k => ¬ S p ∧ k.AtomicOn S V
  | .lock _ k => k.AtomicOn S V
  | .tryLock _ ok fail => ok.AtomicOn S V ∧ fail.AtomicOn S V
  | .unlock _ k => k.AtomicOn S V
  | .openTrunc p k => ¬ S p ∧ k.AtomicOn S V
  | .writeChunk p _ k => ¬ S p ∧ k.AtomicOn S V
  | .renameTmp p c k => (S p → V p c) ∧ k.AtomicOn S V
  | .read _ k => k.AtomicOn S V
  | .unlink _ k => k.AtomicOn S V
  | .ifExists _ t e => t.AtomicOn S V ∧ e.AtomicOn S V

/-- `Bracket l p`: on every path through `p` lock `l` (already held) is released exactly once, as
    the very last step, and is not otherwise touched. -/
inductive Bracket (l : LockId) : Prog → Prop where
  | last : Bracket l (.unlock l .done)
  | mkdirAll {p k} : Bracket l k → Bracket l (.mkdirAll p k)
  | lock {l' k} : l' ≠ l → Bracket l k → Bracket l (.lock l' k)
  | tryLock {l' a b} : l' ≠ l → Bracket l a → Bracket l b → Bracket l (.tryLock l' a b)
  | unlock {l' k} : l' ≠ l → Bracket l k → Bracket l (.unlock l' k)
  | openTrunc {p k} : Bracket l k → Bracket l (.openTrunc p k)
  | writeChunk {p c k} : Bracket l k → Bracket l (.writeChunk p c k)
  | renameTmp {p c k} : Bracket l k → Bracket l (.renameTmp p c k)
  | read {p k} : Bracket l k → Bracket l (.read p k)
  | unlink {p k} : Bracket l k → Bracket l (.unlink p k)
  | ifExists {p a b} : Bracket l a → Bracket l b → Bracket l (.ifExists p a b)

/-- Decidable version of `Bracket` (for concrete programs). -/
def Prog.bracketB (l : LockId) : Prog → Bool
  | .done => false
  | .mkdirAll _ k => k.bracketB l
  | .lock l' k => l' != l && k.bracketB l
  | .tryLock l' a b => l' != l && a.bracketB l && b.bracketB l
  | .unlock l' k => if l' = l then k == .done else k.bracketB l
  | .openTrunc _ k => k.bracketB l
  | .writeChunk _ _ k => k.bracketB l
  | .renameTmp _ _ k => k.bracketB l
  | .read _ k => k.bracketB l
  | .unlink _ k => k.bracketB l
  | .ifExists _ a b => a.bracketB l && b.bracketB l

/-! ## Trace events of real processes and the acceptor (`vmodel fs`)

`strace` shows more detail than `Ev`: a temp file is created (`O_EXCL`), written, then renamed.
`TEv` is that alphabet; `Ev.toTrace` maps model events into it (values read/written dropped). -/

inductive TEv where
  | mkdir (p : Path)
  | lock (l : LockId)
  | tryLock (l : LockId) (ok : Bool)
  | unlock (l : LockId)
  | trunc (p : Path)             -- open(O_TRUNC|O_CREAT) of an existing name (in-place write)
  | write (p : Path)             -- write to a descriptor opened by `trunc p`
  | tmpCreate (t : Nat) (dir : Cls) (prj : Nat)   -- open(O_CREAT|O_EXCL) of a fresh `.tmpXXXX` in a directory of that class
  | tmpWrite (t : Nat)
  | rename (t : Nat) (p : Path)  -- rename(temp t, p)
  | read (p : Path)              -- open(O_RDONLY) that succeeded
  | unlink (p : Path)
  | exist (p : Path) (b : Bool)  -- stat/access/failed open
  deriving DecidableEq, Repr

inductive Role where
  | cli (prj : Nat)   -- `veryl build` / `veryl check` in project `prj`
  | ls (prj : Nat)    -- `veryl-ls` serving project `prj`
  deriving DecidableEq, Repr

/-- Where `expand` is in its protocol. -/
inductive StdPhase where
  | unknown     -- no existence test of the std directory yet
  | present     -- test said "exists": must not lock or write std
  | absent      -- test said "missing": mkdir, then lock
  | made        -- directory created, lock not yet taken
  | writing     -- lock held, files written in place
  | written     -- unlocked again
  deriving DecidableEq, Repr

structure Mon where
  role : Role
  held : List LockId := []
  temps : List (Nat × Cls × Nat × Bool) := []   -- live temp files: id, directory class, project, written?
  openW : List Path := []                        -- files opened with O_TRUNC so far (may be written)
  std : StdPhase := .unknown
  lsOpen : Option Bool := none                   -- LS: result of try_lock on cache-ls
  depTested : List Nat := []                     -- checkouts whose existence test has been made
  deriving Repr

def Role.prj : Role → Nat
  | .cli j => j
  | .ls j => j

def Role.isLs : Role → Bool
  | .cli _ => false
  | .ls _ => true

/-- the directory class in which a file of class `c` lives (for temp files of `atomic_write`). -/
def Cls.tmpDirOf : Cls → Cls
  | .manifest => .cacheDir
  | .frag => .cacheDir
  | .lsManifest => .lsCacheDir
  | .lsFrag => .lsCacheDir
  | .lockfile => .toml      -- project root
  | c => c

/-- Files that must only ever be replaced atomically. -/
def Cls.atomicOnly : Cls → Bool
  | .manifest | .frag | .lsManifest | .lsFrag | .lockfile => true
  | _ => false

/-- Lock that must be held while a path of this class is modified (`none`: no lock in the code). -/
def guardOf (r : Role) (p : Path) : Option LockId :=
  match p.cls with
  | .out | .info | .lockfile => if r.isLs then none else some (.build p.prj)
  | .cacheDir => none
  | .manifest | .frag => some (.cache p.prj)
  | .lsCacheDir => none
  | .lsManifest | .lsFrag => some (.cacheLs p.prj)
  | .stdFile => some .std
  | .depDir | .depFile => some .deps
  | .resDir | .resFile => some .resolve
  | _ => none

/-- May this role modify paths of this class at all? -/
def mayModify (r : Role) (p : Path) : Bool :=
  match p.cls with
  | .src | .toml | .other => false
  | .dotBuild => true      -- `Metadata::load` creates `.build` next to every Veryl.toml it loads (dependencies too)
  | .lockfile => p.prj == r.prj
  | .out | .info | .cacheDir | .manifest | .frag => !r.isLs && p.prj == r.prj
  | .lsCacheDir | .lsManifest | .lsFrag => r.isLs && p.prj == r.prj
  | .stdDir | .stdFile | .depsDir | .depDir | .depFile | .resDir | .resFile => true

def holds (m : Mon) (l : LockId) : Bool := m.held.contains l

def guardOk (m : Mon) (p : Path) : Bool :=
  match guardOf m.role p with
  | none => true
  | some l => holds m l

/-- Inside `lock_dir(.build)` … `unlock_dir` (CLI only): every modification of the project. -/
def inBuild (m : Mon) (p : Path) : Bool :=
  match m.role with
  | .cli j => p.prj != j || holds m (.build j) || p.cls == .dotBuild
  | .ls _ => true

/-- One event against the monitor; `none` = the event does not fit the modelled programs. -/
def Mon.step (m : Mon) : TEv → Option Mon
  | .mkdir p =>
    if !mayModify m.role p || !inBuild m p then none
    else if p.cls == .stdDir then
      match m.std with
      | .absent => some { m with std := .made }
      | .made => some m
      | .writing => some m                 -- sub-directories, under the lock
      | _ => none
    else if p.cls == .depDir || p.cls == .depFile then (if holds m .deps then some m else none)
    else if p.cls == .resDir || p.cls == .resFile then (if holds m .resolve then some m else none)
    else some m
  | .lock l =>
    if holds m l then none
    else match m.role, l with
      | .ls _, .build _ => none            -- the server never takes a build's locks
      | .ls _, .cache _ => none
      | .ls _, .cacheLs _ => none          -- … and only *tries* its own
      | .cli j, .build j' => if j = j' && m.held.isEmpty then some { m with held := l :: m.held } else none
      | .cli j, .cache j' => if j = j' && holds m (.build j) then some { m with held := l :: m.held } else none
      | .cli _, .cacheLs _ => none
      | _, .std => if m.std == .made then some { m with held := l :: m.held, std := .writing } else none
      | _, .deps => some { m with held := l :: m.held }
      | _, .resolve => some { m with held := l :: m.held }
  | .tryLock l ok =>
    match m.role, l with
    | .ls j, .cacheLs j' =>
      if j = j' && !holds m l && m.lsOpen.isNone then
        some { m with held := (if ok then l :: m.held else m.held), lsOpen := some ok }
      else none
    | _, _ => none
  | .unlock l =>
    if !holds m l then none
    else if l == .std then
      (if m.std == .writing then some { m with held := m.held.erase l, std := .written } else none)
    else match m.role, l with
      | .cli j, .build j' =>
        if j = j' && m.held == [l] && m.temps.isEmpty then some { m with held := [] } else none
      | _, _ => some { m with held := m.held.erase l }
  | .trunc p =>
    if !mayModify m.role p || !inBuild m p || p.cls.atomicOnly || !guardOk m p then none
    else if p.cls == .stdFile && m.std != .writing then none
    else some { m with openW := if m.openW.contains p then m.openW else p :: m.openW }
  | .write p =>
    if !m.openW.contains p || !guardOk m p || !inBuild m p then none
    else if p.cls == .stdFile && m.std != .writing then none
    else some m
  | .tmpCreate t dir prj =>
    if (m.temps.any (·.1 == t)) then none
    else if !inBuild m ⟨dir, prj, 0⟩ then none
    else some { m with temps := (t, dir, prj, false) :: m.temps }
  | .tmpWrite t =>
    if m.temps.any (·.1 == t) then
      some { m with temps := m.temps.map (fun x => if x.1 == t then (x.1, x.2.1, x.2.2.1, true) else x) }
    else none
  | .rename t p =>
    match m.temps.find? (·.1 == t) with
    | some (_, dir, prj, written) =>
      if written && p.cls.atomicOnly && mayModify m.role p && inBuild m p && guardOk m p
          && dir == p.cls.tmpDirOf && prj == p.prj then
        some { m with temps := m.temps.filter (·.1 != t) }
      else none
    | none => none
  | .read p =>
    -- reading the manifest / blobs happens inside the store's lock; std files only once the
    -- process is past `expand`; dependency files after the checkout (outside the lock).
    if (p.cls == .manifest || p.cls == .frag || p.cls == .lsManifest || p.cls == .lsFrag) && !guardOk m p then none
    else if p.cls == .stdFile && !(m.std == .present || m.std == .written) then none
    else if (p.cls == .out) && !inBuild m p then none
    else some m
  | .unlink p =>
    if !mayModify m.role p || !inBuild m p || !guardOk m p then none
    else if p.cls == .frag || p.cls == .lsFrag || p.cls == .out || p.cls == .depFile || p.cls == .depDir
        || p.cls == .resFile || p.cls == .resDir then some m
    else none
  | .exist p b =>
    if p.cls == .stdDir && p.idx == 0 then
      -- the test `!std_dir.exists()` of `expand`: made with no lock on std held
      match m.std with
      | .unknown => if holds m .std then none else some { m with std := if b then .present else .absent }
      | _ => some m
    else if p.cls == .depDir then
      -- the test `path.exists()` that decides "clone or reuse": made with the lock held
      (if m.depTested.contains p.idx then some m
       else if holds m .deps then some { m with depTested := p.idx :: m.depTested } else none)
    else some m

/-- End of the process: nothing held, no temp file left behind. -/
def Mon.final (m : Mon) : Bool := m.held.isEmpty && m.temps.isEmpty && (m.std != .absent && m.std != .made && m.std != .writing)

/-- `none` = the whole word fits; `some i` = index of the first event that does not
    (`w.length` if only the end condition fails). -/
def acceptFrom (m : Mon) (i : Nat) : List TEv → Option Nat
  | [] => if m.final then none else some i
  | e :: es =>
    match m.step e with
    | some m' => acceptFrom m' (i + 1) es
    | none => some i

def accept (r : Role) (w : List TEv) : Option Nat := acceptFrom { role := r } 0 w

/-! ### From model programs to trace words -/

/-- All root-to-leaf paths of a program as trace words (both outcomes of every test; temp ids are
    numbered along the path). -/
def Prog.words : Prog → Nat → List (List TEv)
  | .done, _ => [[]]
  | .mkdirAll p k, n => (k.words n).map (TEv.mkdir p :: ·)
  | .lock l k, n => (k.words n).map (TEv.lock l :: ·)
  | .tryLock l a b, n => (a.words n).map (TEv.tryLock l true :: ·) ++ (b.words n).map (TEv.tryLock l false :: ·)
  | .unlock l k, n => (k.words n).map (TEv.unlock l :: ·)
  | .openTrunc p k, n => (k.words n).map (TEv.trunc p :: ·)
  | .writeChunk p _ k, n => (k.words n).map (TEv.write p :: ·)
  | .renameTmp p _ k, n =>
    (k.words (n + 1)).map (fun w => TEv.tmpCreate n p.cls.tmpDirOf p.prj :: TEv.tmpWrite n :: TEv.rename n p :: w)
  | .read p k, n => (k.words n).map (TEv.read p :: ·)
  | .unlink p k, n => (k.words n).map (TEv.unlink p :: ·)
  | .ifExists p a b, n => (a.words n).map (TEv.exist p true :: ·) ++ (b.words n).map (TEv.exist p false :: ·)

/-! ### Instances of the process programs (two sources, one output each, a two-file library) used
to tie the acceptor to the programs: every word of these must be accepted (`vmodel fs`: `model …`,
and `Props/C30.lean`). -/

def mSd : Path := ⟨.stdDir, 0, 0⟩
def mLib : List (Path × Content) := [(⟨.stdFile, 0, 1⟩, [1, 2]), (⟨.stdFile, 0, 2⟩, [3])]

/-- `veryl build` of project 1 with the standard library enabled and an incremental store. -/
def modelCli : Prog :=
  cliCommand 1 ⟨.toml, 1, 0⟩ ⟨.dotBuild, 1, 0⟩ ⟨.info, 1, 0⟩ (fun k =>
    .mkdirAll ⟨.out, 1, 100⟩
    (stdExpand mSd mLib (readAll (mLib.map Prod.fst)
    (.renameTmp ⟨.lockfile, 1, 0⟩ [9]
    (.read ⟨.src, 1, 1⟩ (.read ⟨.src, 1, 2⟩
    (storeSession (.cache 1) ⟨.cacheDir, 1, 0⟩ ⟨.manifest, 1, 0⟩ [⟨.frag, 1, 1⟩]
      [(⟨.frag, 1, 2⟩, [4, 5])] [6] [⟨.frag, 1, 1⟩]
    (.read ⟨.out, 1, 1⟩ (plainWrite ⟨.out, 1, 1⟩ [7, 8]
    (plainWrite ⟨.info, 1, 0⟩ [10] k))))))))))

/-- a build of project 1 whose only work is resolving and checking out one dependency -/
def modelDep : Prog :=
  bracket (.build 1) (fun k =>
    .mkdirAll ⟨.depsDir, 0, 2⟩ (.lock .resolve (.mkdirAll ⟨.resDir, 0, 1⟩ (plainWrite ⟨.resFile, 0, 1⟩ [1, 2]
    (.unlock .resolve (.read ⟨.resFile, 0, 1⟩
    (.mkdirAll ⟨.depsDir, 0, 1⟩ (.lock .deps
      (.ifExists ⟨.depDir, 0, 1⟩
        (.ifExists ⟨.depFile, 0, 1⟩ (.unlock .deps (.read ⟨.depFile, 0, 1⟩ k))
          (plainWrite ⟨.depFile, 0, 1⟩ [3, 4] (.unlock .deps (.read ⟨.depFile, 0, 1⟩ k))))
        (.mkdirAll ⟨.depDir, 0, 1⟩
          (plainWrite ⟨.depFile, 0, 1⟩ [3, 4] (.unlock .deps (.read ⟨.depFile, 0, 1⟩ k)))))))))))))

/-- `veryl-ls` on project 1: `Metadata::load` (no `.build/lock`), `paths()` (std expansion as
    coded), then the `try_open` session on `.build/cache-ls`. -/
def modelLs : Prog :=
  .read ⟨.toml, 1, 0⟩ (.mkdirAll ⟨.dotBuild, 1, 0⟩
    (stdExpand mSd mLib
    (storeTrySession (.cacheLs 1) ⟨.lsCacheDir, 1, 0⟩ ⟨.lsManifest, 1, 0⟩ [⟨.lsFrag, 1, 1⟩]
      [(⟨.lsFrag, 1, 2⟩, [4, 5])] [6] [⟨.lsFrag, 1, 1⟩]
      ([⟨.src, 1, 1⟩, ⟨.src, 1, 2⟩] ++ mLib.map Prod.fst) .done)))

end VerylModel.FS
