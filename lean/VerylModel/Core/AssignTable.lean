/-
M-AssignTable: the assignment-mask algebra of the analyzer (`ir/assign_table.rs`) and the walk of
`ir/statement.rs` / `ir/declaration.rs` / `ir/module.rs` that drives it, as coded.

Everything the Rust code does with an `AssignTable` is done **per variable** (every loop is over
the keys of a `HashMap<VarId, _>`, every test looks at one key), so the model follows one variable
`v` at a time: where the code holds a table, the model holds that table's entry for `v`, an absent
entry being the all-zero entry (`merge_by_or_from` inserts an absent entry unchanged and every
overlap test against zero masks is false; `check_uncoverd` substitutes zero masks itself).
Arrays are not modelled (one element per variable; the code treats elements independently).
Masks are `Nat` bit sets (`BigUint` in the code).

* `Entry`            `AssignTableEntry { mask, definite_mask, dynamic_mask, maybe, process_write }`
* `Entry.add`        `AssignTableEntry::new` / `::add`  (via `AssignTable::insert_assign`)
* `Entry.mergeByOr`  `AssignTableEntry::merge_by_or`
* `conflict`         the test inside `AssignTable::merge_by_or_from`
* `Ref`, `checkRefered`   `ReferencedEntry`, `AssignTable::check_refered`
* `uncovered2`       `AssignTable::check_uncoverd`   (if / else)
* `uncoveredN`       `AssignTable::check_uncoverd_n_way`   (case)
* `evalStmt` …       `Statement::eval_assign`, `IfStatement::eval_assign`, `CaseStatement::eval_assign`,
                     `AssignStatement::eval_assign`, `AssignDestination::eval_assign`
* `procEval`         `CombDeclaration` / `FfDeclaration` / `InstDeclaration::eval_assign`
* `moduleEval`       `Module::eval_assign` (per-declaration merge with `process_level = true`,
                     then the unassigned-bit rule)

`for` loops with constant bounds are unrolled by the converter before this stage (a loop is the
sequence of its iterations' statements); `switch` is lowered to an if / else-if chain; `else if` is
an `if` in the else block.

Import-free.
-/
namespace VerylModel.AssignTable

structure Entry where
  mask : Nat := 0
  definite : Nat := 0
  dynamic : Nat := 0
  maybe : Bool := false
  processWrite : Bool := false
  deriving DecidableEq, Repr, Inhabited

def Entry.zero : Entry := {}

/-- `AssignTableEntry::add` (and `::new`, which is `add` on the zero entry). The `fail` result of
`add` is discarded by `AssignDestination::eval_assign` (`let _ = …`). -/
def Entry.add (e : Entry) (mask : Nat) (maybe dynamic : Bool) : Entry :=
  { mask := e.mask ||| mask,
    definite := if maybe then e.definite else e.definite ||| mask,
    dynamic := if dynamic then e.dynamic ||| mask else e.dynamic,
    maybe := e.maybe || maybe,
    processWrite := e.processWrite }

/-- `AssignTableEntry::merge_by_or`. -/
def Entry.mergeByOr (a b : Entry) : Entry :=
  { mask := a.mask ||| b.mask,
    definite := a.definite ||| b.definite,
    dynamic := a.dynamic ||| b.dynamic,
    maybe := a.maybe || b.maybe,
    processWrite := a.processWrite || b.processWrite }

/-- `merge_by_or_from(.., process_level = true)`: a declaration that wrote the variable through a
dynamic or definite write is a driving process. -/
def Entry.markProcess (val : Entry) : Entry :=
  if val.dynamic ≠ 0 || val.definite ≠ 0 then { val with processWrite := true } else val

/-- The multiple-assignment test of `merge_by_or_from` between the accumulated entry `x` and the
incoming declaration's entry `val`. -/
def conflict (x val : Entry) : Bool :=
  let multiProcess := val.processWrite && x.processWrite
  let dynamicOverlap := (x.dynamic &&& val.mask ≠ 0) || (val.dynamic &&& x.mask ≠ 0)
  let definiteOverlap := x.definite &&& val.definite ≠ 0
  (multiProcess && dynamicOverlap) || definiteOverlap

/-- `ReferencedEntry` of one variable: bits read so far / bits assigned so far. -/
structure Ref where
  maskRef : Nat := 0
  maskAssign : Nat := 0
  deriving DecidableEq, Repr, Inhabited

/-- `AssignTable::check_refered`. -/
def checkRefered (r : Ref) (mask : Nat) : Bool :=
  (r.maskRef &&& mask ≠ 0) && (r.maskRef &&& mask &&& r.maskAssign == 0)

/-- `check_uncoverd` for one variable: true-side mask, false-side mask, union of the base tables. -/
def uncovered2 (src tgt base : Nat) : Bool :=
  (src ||| base) ^^^ (tgt ||| base) ≠ 0

/-- `check_uncoverd_n_way` for one variable: one raw mask per branch (default included). -/
def uncoveredN (branches : List Nat) (base : Nat) : Bool :=
  if branches.length < 2 then false else
  let combined := branches.map (· ||| base)
  let union := combined.foldl (· ||| ·) 0
  combined.any (· ≠ union)

/-! ### Statements -/

/-- A write `dst[..] = …`: destination variable, mask (for a dynamic select: the region its
constant prefix pins down, else the whole variable), `dyn` = the index/select is not constant. -/
structure Write where
  dst : Nat
  mask : Nat
  dyn : Bool
  deriving DecidableEq, Repr, Inhabited

mutual
inductive Stmt where
  /-- `dst = rhs;` — `reads`: the (variable, mask) factors of `rhs` with constant selects
  (`Factor::eval_assign`; factors with a dynamic select are not recorded by the code). -/
  | assign (reads : List (Nat × Nat)) (w : Write)
  /-- `if c {thn} else {els}`; `condReads`: factors of `c` — **not** recorded by
  `IfStatement::eval_assign`, carried for the reference semantics only. -/
  | ifs (condReads : List (Nat × Nat)) (thn els : Block)
  /-- `case t { arms… default: dflt }`; `exh`: the arms are exhaustive, the default path cannot be
  taken (reference semantics only — the code always adds the default branch). -/
  | case (condReads : List (Nat × Nat)) (arms : Blocks) (dflt : Block) (exh : Bool)
inductive Block where
  | nil
  | cons (s : Stmt) (b : Block)
inductive Blocks where
  | nil
  | cons (b : Block) (r : Blocks)
end

instance : Inhabited Block := ⟨Block.nil⟩
instance : Inhabited Stmt := ⟨Stmt.ifs [] Block.nil Block.nil⟩

/-- State threaded through one declaration for variable `v`. -/
structure St where
  /-- entry of `v` in the table currently written to -/
  e : Entry := {}
  /-- `refernced[v]`: swapped from table to table in program order, so effectively one accumulator
  per declaration -/
  r : Ref := {}
  /-- `accumulated_reads[v]` (merged by `|` on every table merge) -/
  acc : Nat := 0
  /-- an `uncovered_branch` diagnostic for `v` was emitted -/
  unc : Bool := false
  /-- an `unassign_variable` diagnostic (read before assignment) for `v` was emitted -/
  rba : Bool := false
  deriving DecidableEq, Repr, Inhabited

def readMask (v : Nat) (reads : List (Nat × Nat)) : Nat :=
  reads.foldl (fun m (x, k) => if x = v then m ||| k else m) 0

/-- Static facts about the variable / context: `comb` = `AssignContext::Comb`; `always` =
the variable is declared inside an always block (`AssignTableEntry::is_always`). -/
structure Cx where
  comb : Bool
  always : Bool
  deriving DecidableEq, Repr, Inhabited

def foldOr (l : List Nat) : Nat := l.foldl (· ||| ·) 0

mutual
/-- `Statement::eval_assign` for variable `v`; `base` = union of the masks of `v` in the enclosing
base tables. -/
def evalStmt (cx : Cx) (v : Nat) (base : Nat) (st : St) : Stmt → St
  | Stmt.assign reads w =>
    -- `self.expr.eval_assign`: insert_reference for every factor
    let rm := readMask v reads
    let st1 := { st with r := { st.r with maskRef := st.r.maskRef ||| rm }, acc := st.acc ||| rm }
    -- `dst.eval_assign`
    if w.dst = v then
      let rba := cx.comb && checkRefered st1.r w.mask
      let maybe := w.dyn
      { st1 with
        e := st1.e.add w.mask maybe w.dyn,
        r := { st1.r with maskAssign := st1.r.maskAssign ||| w.mask },
        rba := st1.rba || rba }
    else st1
  | Stmt.ifs _ thn els =>
    -- base_tables.push(assign_table) (skipped when empty: same masks)
    let base' := base ||| st.e.mask
    let stT := evalBlock cx v base' { st with e := {} } thn
    let stF := evalBlock cx v base' { stT with e := {} } els
    let unc := cx.comb && !cx.always && uncovered2 stT.e.mask stF.e.mask base'
    { stF with e := st.e.mergeByOr (stT.e.mergeByOr stF.e), unc := stF.unc || unc }
  | Stmt.case _ arms dflt _ =>
    let base' := base ||| st.e.mask
    let (stA, es) := evalArms cx v base' st arms
    let stD := evalBlock cx v base' { stA with e := {} } dflt
    let branches := es ++ [stD.e]
    let unc := cx.comb && !cx.always && uncoveredN (branches.map (·.mask)) base'
    { stD with e := st.e.mergeByOr (branches.foldr Entry.mergeByOr {}), unc := stD.unc || unc }
def evalBlock (cx : Cx) (v : Nat) (base : Nat) (st : St) : Block → St
  | Block.nil => st
  | Block.cons s b => evalBlock cx v base (evalStmt cx v base st s) b
/-- One fresh table per arm; `refernced` and the diagnostics are threaded through the arms. -/
def evalArms (cx : Cx) (v : Nat) (base : Nat) (st : St) : Blocks → St × List Entry
  | Blocks.nil => (st, [])
  | Blocks.cons b r =>
    let stB := evalBlock cx v base { st with e := {} } b
    let (stR, es) := evalArms cx v base stB r
    (stR, stB.e :: es)
end

/-! ### Declarations and the module -/

inductive Proc where
  /-- `always_comb { … }`, and `assign x = e;` (a comb declaration with one statement) -/
  | comb (body : Block)
  /-- `always_ff { … }` (no `if_reset`): `AssignContext::Ff` — no uncovered / read-before checks -/
  | ff (body : Block)
  /-- `inst u: M (…)`: the variables connected to output ports, with constant selects;
  `inputReads`: variables read by input-port expressions (not recorded by the code) -/
  | inst (outs : List (Nat × Nat)) (inputReads : List (Nat × Nat))
  deriving Inhabited

/-- Result of one declaration for `v`. -/
def procEval (always : Bool) (v : Nat) : Proc → St
  | Proc.comb body => evalBlock { comb := true, always := always } v 0 {} body
  | Proc.ff body => evalBlock { comb := false, always := always } v 0 {} body
  | Proc.inst outs _ =>
    outs.foldl (fun st (d, m) => if d = v then { st with e := st.e.add m false false } else st) {}

inductive VarKind where
  | input | output | variable
  deriving DecidableEq, Repr, Inhabited

structure VarInfo where
  width : Nat
  kind : VarKind
  /-- declared inside an always block -/
  always : Bool := false
  deriving DecidableEq, Repr, Inhabited

/-- Module-level accumulator for `v`. -/
structure MSt where
  x : Entry := {}
  acc : Nat := 0
  multi : Bool := false
  unc : Bool := false
  rba : Bool := false
  deriving DecidableEq, Repr, Inhabited

/-- `Module::eval_assign`, first loop: one fresh table per declaration, merged with
`check_conflict = true`, `process_level = true`. -/
def moduleStep (always : Bool) (v : Nat) (m : MSt) (p : Proc) : MSt :=
  let st := procEval always v p
  let val := st.e.markProcess
  { x := m.x.mergeByOr val,
    acc := m.acc ||| st.acc,
    multi := m.multi || conflict m.x val,
    unc := m.unc || st.unc,
    rba := m.rba || st.rba }

def moduleFold (always : Bool) (v : Nat) (procs : List Proc) : MSt :=
  procs.foldl (moduleStep always v) {}

def fullMask (width : Nat) : Nat := 2 ^ width - 1

/-- `Module::eval_assign`, last loop: the unassigned-bit rule for an assignable variable. -/
def unassignedRule (info : VarInfo) (assigned reads : Nat) : Bool :=
  if info.kind = VarKind.input then false else
  let full := fullMask info.width
  if assigned = full then false else          -- `variable.unassigned()` lists it only if ≠ full
  let unassignedBits := full ^^^ (full &&& assigned)
  let anyAssigned := assigned ≠ 0
  let anyReadUnassigned := reads &&& unassignedBits ≠ 0
  if anyAssigned && !anyReadUnassigned && info.kind ≠ VarKind.output && unassignedBits ≠ 0 then false
  else if unassignedBits = 0 then false
  else true

/-- The four per-variable verdicts. -/
structure Verdict where
  multi : Bool        -- multiple_assignment
  uncovered : Bool    -- uncovered_branch
  unassigned : Bool   -- unassign_variable at the declaration (module-level rule)
  readBefore : Bool   -- unassign_variable at an assignment (check_refered)
  deriving DecidableEq, Repr, Inhabited

def verdict (info : VarInfo) (v : Nat) (procs : List Proc) : Verdict :=
  let m := moduleFold info.always v procs
  { multi := m.multi, uncovered := m.unc,
    unassigned := unassignedRule info m.x.mask m.acc, readBefore := m.rba }

/-! ### Reference semantics: what is written where, path by path -/

mutual
/-- All writes to `v` occurring anywhere in the statement (any path), as (mask, dyn). -/
def writesStmt (v : Nat) : Stmt → List (Nat × Bool)
  | Stmt.assign _ w => if w.dst = v then [(w.mask, w.dyn)] else []
  | Stmt.ifs _ thn els => writesBlock v thn ++ writesBlock v els
  | Stmt.case _ arms dflt _ => writesBlocks v arms ++ writesBlock v dflt
def writesBlock (v : Nat) : Block → List (Nat × Bool)
  | Block.nil => []
  | Block.cons s b => writesStmt v s ++ writesBlock v b
def writesBlocks (v : Nat) : Blocks → List (Nat × Bool)
  | Blocks.nil => []
  | Blocks.cons b r => writesBlock v b ++ writesBlocks v r
end

/-- Bits of `v` some statement may write. -/
def mayMask (ws : List (Nat × Bool)) : Nat := foldOr (ws.map (·.1))
/-- Bits of `v` written at constant positions. -/
def defMask (ws : List (Nat × Bool)) : Nat := foldOr ((ws.filter (fun w => !w.2)).map (·.1))
/-- Regions of `v` written at non-constant positions. -/
def dynMask (ws : List (Nat × Bool)) : Nat := foldOr ((ws.filter (·.2)).map (·.1))

def procWrites (v : Nat) : Proc → List (Nat × Bool)
  | Proc.comb body => writesBlock v body
  | Proc.ff body => writesBlock v body
  | Proc.inst outs _ => (outs.filter (·.1 = v)).map (fun o => (o.2, false))

/-- Two processes conflict on `v`: a bit both write at constant positions, or a dynamic write of
one overlapping anything the other writes. -/
def procConflict (a b : List (Nat × Bool)) : Bool :=
  (defMask a &&& defMask b ≠ 0) || (dynMask a &&& mayMask b ≠ 0) || (dynMask b &&& mayMask a ≠ 0)

/-- Reference verdict for multiple assignment: some pair of distinct processes conflicts. -/
def refMulti (v : Nat) : List Proc → Bool
  | [] => false
  | p :: ps => ps.any (fun q => procConflict (procWrites v p) (procWrites v q)) || refMulti v ps

mutual
/-- Execution paths through a statement: the mask of `v` written on each path. A `case` whose arms
are exhaustive has no default path. -/
def pathsStmt (v : Nat) : Stmt → List Nat
  | Stmt.assign _ w => [if w.dst = v then w.mask else 0]
  | Stmt.ifs _ thn els => pathsBlock v thn ++ pathsBlock v els
  | Stmt.case _ arms dflt exh => pathsBlocks v arms ++ (if exh then [] else pathsBlock v dflt)
def pathsBlock (v : Nat) : Block → List Nat
  | Block.nil => [0]
  | Block.cons s b => (pathsStmt v s).flatMap (fun m => (pathsBlock v b).map (fun n => m ||| n))
def pathsBlocks (v : Nat) : Blocks → List Nat
  | Blocks.nil => []
  | Blocks.cons b r => pathsBlock v b ++ pathsBlocks v r
end

/-- Reference verdict for an uncovered branch: two paths write different bit sets of `v`. -/
def refUncovered (v : Nat) (body : Block) : Bool :=
  let ps := pathsBlock v body
  ps.any (fun p => ps.any (fun q => p ≠ q))

mutual
/-- Every read of `v` in the statement, conditions included. -/
def readsStmt (v : Nat) : Stmt → Nat
  | Stmt.assign reads _ => readMask v reads
  | Stmt.ifs c thn els => readMask v c ||| readsBlock v thn ||| readsBlock v els
  | Stmt.case c arms dflt _ => readMask v c ||| readsBlocks v arms ||| readsBlock v dflt
def readsBlock (v : Nat) : Block → Nat
  | Block.nil => 0
  | Block.cons s b => readsStmt v s ||| readsBlock v b
def readsBlocks (v : Nat) : Blocks → Nat
  | Blocks.nil => 0
  | Blocks.cons b r => readsBlock v b ||| readsBlocks v r
end

def procReads (v : Nat) : Proc → Nat
  | Proc.comb body => readsBlock v body
  | Proc.ff body => readsBlock v body
  | Proc.inst _ ins => readMask v ins

/-- Reference verdict for "unassigned": some bit (inside the width) that some logic reads — an
output's bits are read by the parent — is assigned by no process. -/
def refUnassigned (info : VarInfo) (v : Nat) (procs : List Proc) : Bool :=
  if info.kind = VarKind.input then false else
  let assigned := foldOr (procs.map (fun p => mayMask (procWrites v p)))
  let reads := foldOr (procs.map (procReads v)) ||| (if info.kind = VarKind.output then fullMask info.width else 0)
  reads &&& fullMask info.width &&& (fullMask info.width ^^^ (fullMask info.width &&& assigned)) ≠ 0

mutual
/-- The reads of `v` the code records (`Factor::eval_assign` is reached from assignments only:
`IfStatement` / `CaseStatement::eval_assign` do not visit their condition, `InstDeclaration::
eval_assign` does not visit input-port expressions). -/
def recReadsStmt (v : Nat) : Stmt → Nat
  | Stmt.assign reads _ => readMask v reads
  | Stmt.ifs _ thn els => recReadsBlock v thn ||| recReadsBlock v els
  | Stmt.case _ arms dflt _ => recReadsBlocks v arms ||| recReadsBlock v dflt
def recReadsBlock (v : Nat) : Block → Nat
  | Block.nil => 0
  | Block.cons s b => recReadsStmt v s ||| recReadsBlock v b
def recReadsBlocks (v : Nat) : Blocks → Nat
  | Blocks.nil => 0
  | Blocks.cons b r => recReadsBlock v b ||| recReadsBlocks v r
end

def procRecReads (v : Nat) : Proc → Nat
  | Proc.comb body => recReadsBlock v body
  | Proc.ff body => recReadsBlock v body
  | Proc.inst _ _ => 0

/-- Bits every declaration together may assign / bits of recorded reads. -/
def assignedBy (v : Nat) (procs : List Proc) : Nat := foldOr (procs.map (fun p => mayMask (procWrites v p)))
def recordedReads (v : Nat) (procs : List Proc) : Nat := foldOr (procs.map (procRecReads v))

mutual
/-- "No later write": inside every block, a branching statement that writes `v` is followed by no
further write to `v` (and no `case` is declared exhaustive). For such blocks the uncovered-branch
check is exact (`uncovered_exact_partial`). -/
def nlwStmt (v : Nat) : Stmt → Bool
  | Stmt.assign _ _ => true
  | Stmt.ifs _ thn els => nlwBlock v thn && nlwBlock v els
  | Stmt.case _ arms dflt exh => !exh && nlwBlocks v arms && nlwBlock v dflt
def nlwBlock (v : Nat) : Block → Bool
  | Block.nil => true
  | Block.cons s b =>
    nlwStmt v s && nlwBlock v b &&
      (match s with
       | Stmt.assign _ _ => true
       | _ => (writesStmt v s).isEmpty || (writesBlock v b).isEmpty)
def nlwBlocks (v : Nat) : Blocks → Bool
  | Blocks.nil => true
  | Blocks.cons b r => nlwBlock v b && nlwBlocks v r
end

/-- `a` without the bits of `b`. -/
def andNot (a b : Nat) : Nat := a ^^^ (a &&& b)

/-- Reference for "read before assigned" on a straight-line block (`none` if the block branches):
`ru` = bits of `v` read so far while still unassigned, `asg` = bits assigned so far; a write
reports iff it assigns, for the first time, a bit that was read before. -/
def rbaRef (v : Nat) : Nat → Nat → Block → Option Bool
  | _, _, Block.nil => some false
  | ru, asg, Block.cons (Stmt.assign reads w) b =>
    let ru' := ru ||| andNot (readMask v reads) asg
    if w.dst = v then
      (rbaRef v ru' (asg ||| w.mask) b).map (fun r => decide (ru' &&& andNot w.mask asg ≠ 0) || r)
    else rbaRef v ru' asg b
  | _, _, Block.cons _ _ => none

end VerylModel.AssignTable
