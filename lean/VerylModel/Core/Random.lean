/-
M-Random: `crates/simulator/src/random_table.rs` (`derive_seed`, `mask`, `sign_extend`, `get`,
`get_range`) and `instance_seed` of `crates/simulator/src/component/runtime.rs`, as coded.
The PCG generator and `rand`'s uniform range sampler are parameters (`sampleU`, `sampleI`);
their only contract is `lo ≤ hi → lo ≤ sample lo hi ≤ hi`.  Import-free.
-/
namespace VerylModel.Random

def two63 : Nat := 9223372036854775808
def two64 : Nat := 18446744073709551616

/-- `x.to_le_bytes()` of a `u64`. -/
def leBytes8 (x : Nat) : List Nat :=
  (List.range 8).map (fun i => (x >>> (8 * i)) % 256)

/-- The closure `eat`: `for b in bytes { h ^= *b as u64; h = h.wrapping_mul(prime); }`. -/
def eat (prime : Nat) (h : Nat) (bytes : List Nat) : Nat :=
  bytes.foldl (fun h b => ((h ^^^ b) * prime) % two64) h

/-- `derive_seed(base, key)`: `h = offset; eat(base.to_le_bytes()); eat(name.as_bytes()); h`. -/
def deriveSeed (offset prime : Nat) (base : Nat) (name : List Nat) : Nat :=
  eat prime (eat prime offset (leBytes8 base)) name

/-- `instance_seed(base, test_name, instance)`: the same scheme with two strings. -/
def instanceSeed (offset prime : Nat) (base : Nat) (test inst : List Nat) : Nat :=
  eat prime (eat prime (eat prime offset (leBytes8 base)) test) inst

/-- `fn mask(width: u32) -> u64 { if width >= 64 { u64::MAX } else { (1u64 << width) - 1 } }`. -/
def mask (width : Nat) : Nat :=
  if width ≥ 64 then two64 - 1 else (1 <<< width) - 1

/-- `x as i64` of a `u64`. -/
def asI64 (x : Nat) : Int :=
  if x < two63 then (x : Int) else (x : Int) - (two64 : Int)

/-- `x as u64` of an `i64`. -/
def asU64 (x : Int) : Nat :=
  (x % (two64 : Int)).toNat

/-- `fn sign_extend(raw: u64, width: u32) -> i64`:
`if width == 0 || width >= 64 { return raw as i64 }; let shift = 64 - width; ((raw << shift) as i64) >> shift`
(`<<` on `u64` drops the bits shifted out; `>>` on `i64` is arithmetic = floor division). -/
def signExtend (raw width : Nat) : Int :=
  if width = 0 ∨ width ≥ 64 then asI64 raw
  else
    let shift := 64 - width
    asI64 ((raw <<< shift) % two64) / ((2 ^ shift : Nat) : Int)

/-- `let (lo, hi) = if a <= b { (a, b) } else { (b, a) }`. -/
def order {α : Type} (le : α → α → Bool) (a b : α) : α × α :=
  if le a b then (a, b) else (b, a)

/-- `get(key, width, signed)`: `raw = rng.random_range(0..=mask(width))`; payload of `Value::new(raw, width, signed)`. -/
def get (sampleU : Nat → Nat → Nat) (width : Nat) : Nat :=
  sampleU 0 (mask width)

/-- `get_range(key, min, max, width, signed)`: the raw payload handed to `Value::new`. -/
def getRange (sampleU : Nat → Nat → Nat) (sampleI : Int → Int → Int)
    (min max width : Nat) (signed : Bool) : Nat :=
  let m := mask width
  if signed then
    let a := signExtend (min &&& m) width
    let b := signExtend (max &&& m) width
    let lh := order (fun x y => decide (x ≤ y)) a b
    let sample := sampleI lh.1 lh.2
    asU64 sample &&& m
  else
    let a := min &&& m
    let b := max &&& m
    let lh := order (fun x y => decide (x ≤ y)) a b
    sampleU lh.1 lh.2

/-- The bounds the sampler is called with (reported by the driver so that the harness's replica
of the generator can be checked to have been asked the same question). -/
def rangeBounds (min max width : Nat) (signed : Bool) : Int × Int :=
  let m := mask width
  if signed then
    order (fun x y => decide (x ≤ y)) (signExtend (min &&& m) width) (signExtend (max &&& m) width)
  else
    let lh := order (fun x y => decide (x ≤ y)) (min &&& m) (max &&& m)
    ((lh.1 : Int), (lh.2 : Int))

/-- The integer a `width`-bit payload denotes under the element type's signedness. -/
def interp (raw width : Nat) (signed : Bool) : Int :=
  let r := raw % 2 ^ width
  if signed ∧ width > 0 ∧ r ≥ 2 ^ (width - 1) then (r : Int) - ((2 ^ width : Nat) : Int) else (r : Int)

/-! ### the per-thread table (`RandomTable`, `reset`, `with_rng`) -/

/-- `RandomTable { base_seed, rngs: HashMap<StrId, (Pcg64, u64)> }`; `γ` is the generator state.
Handles are identified by their name (the `StrId` of the declaring variable). -/
structure Table (γ : Type) where
  base : Nat
  rngs : List (List Nat × γ)

/-- `reset(base_seed)`: record the base seed, clear all generators. -/
def Table.reset {γ : Type} (base : Nat) : Table γ := { base := base, rngs := [] }

/-- The generator of `name`: the stored one, or (`or_insert_with`) a fresh one seeded by
`derive_seed(base, name)`; `mk` is `Pcg64::seed_from_u64`. -/
def Table.rngOf {γ : Type} (offset prime : Nat) (mk : Nat → γ) (t : Table γ) (name : List Nat) : γ :=
  match t.rngs.lookup name with
  | some g => g
  | none => mk (deriveSeed offset prime t.base name)

/-- `with_rng(key, f)`: run `f` on the handle's generator and store the advanced state. -/
def Table.withRng {γ α : Type} (offset prime : Nat) (mk : Nat → γ) (t : Table γ) (name : List Nat)
    (f : γ → γ × α) : Table γ × α :=
  let r := f (t.rngOf offset prime mk name)
  ({ t with rngs := (name, r.1) :: t.rngs.filter (fun p => p.1 != name) }, r.2)

/-- A run: draws `(handle name, request)` in program order; `draw` is one sampler call on a
generator state.  Returns the values drawn, in order, tagged with their handle. -/
def Table.run {γ ρ α : Type} (offset prime : Nat) (mk : Nat → γ) (draw : ρ → γ → γ × α) :
    Table γ → List (List Nat × ρ) → List (List Nat × α)
  | _, [] => []
  | t, (name, req) :: rest =>
    let r := t.withRng offset prime mk name (draw req)
    (name, r.2) :: Table.run offset prime mk draw r.1 rest

/-- The same draws on one standalone generator. -/
def drawAll {γ ρ α : Type} (draw : ρ → γ → γ × α) : γ → List ρ → List α
  | _, [] => []
  | g, req :: rest => let r := draw req g; r.2 :: drawAll draw r.1 rest

end VerylModel.Random
