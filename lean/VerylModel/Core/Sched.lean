/-
M-Sched: the worker pool of `crates/veryl/src/cmd_test.rs` (native tests): a shared queue
(`Mutex<IntoIter<PendingTest>>`) in dispatch order, `num_threads` workers, each looping
`next()` → run → push the report to its own tally; the tallies are concatenated in spawn order.
Which worker obtains the k-th element is decided by the OS scheduler: parameter `choice`.
Each worker owns thread-local state `σ` (random table, output buffer, `ProtoModuleCache`).
Import-free.
-/
namespace VerylModel.Sched

/-- One worker: its thread-local state and the reports it has tallied so far. -/
structure Worker (σ ρ : Type) where
  state : σ
  tally : List ρ

/-- Worker `w` dequeues test `t`, runs it on its thread-local state and tallies the report. -/
def stepPool {σ τ ρ : Type} (run : σ → τ → σ × ρ) : List (Worker σ ρ) → Nat → τ → List (Worker σ ρ)
  | [], _, _ => []
  | wk :: rest, 0, t =>
    let sr := run wk.state t
    { state := sr.1, tally := wk.tally ++ [sr.2] } :: rest
  | wk :: rest, w + 1, t => wk :: stepPool run rest w t

/-- The whole run: the k-th dequeue goes to worker `choice k % workers`. -/
def runPool {σ τ ρ : Type} (run : σ → τ → σ × ρ) (choice : Nat → Nat) :
    List (Worker σ ρ) → Nat → List τ → List (Worker σ ρ)
  | ws, _, [] => ws
  | ws, k, t :: ts => runPool run choice (stepPool run ws (choice k % ws.length) t) (k + 1) ts

/-- `handles.into_iter().map(|h| h.join())`: tallies concatenated in spawn order. -/
def collect {σ ρ : Type} : List (Worker σ ρ) → List ρ
  | [] => []
  | wk :: rest => wk.tally ++ collect rest

/-- `num_threads` fresh workers. -/
def spawn {σ ρ : Type} (init : σ) (n : Nat) : List (Worker σ ρ) :=
  List.replicate n { state := init, tally := [] }

end VerylModel.Sched
