import VerylModel.Core.Svlv
/-
M-Words: values crossing the host/component boundary.
  simulator side  `crates/simulator/src/component/runtime.rs`: `value_to_words_into`,
                  `value_to_mask_xz_into`, `words_to_value_masked`, `apply_outputs` (scalar arm), `width_mask`
  host ports      `crates/simulator/src/component/host.rs`: `words_for`, `set_input_masked`, `svc_write_output`,
                  `host_read_input` / `host_write_output` (native adapters)
  wasm transport  `crates/simulator/src/component/wasm.rs`: `words_to_bytes`, `bytes_to_words`, the
                  `read_input` / `write_output` import handlers (linear memory = a byte list)
  component side  `crates/component/src/value.rs`: `words_for`, `mask_top_word`, `Value::from_bits`,
                  `to_port_words`, `to_port_mask_xz`; `ctx.rs`: `SimCtx::read` / `write` / `read_u64` / `write_u64`
Imports only the `Val` structure of M-Svlv (same `Value` enum). Core Lean only.
-/
namespace VerylModel.Words
open VerylModel.Svlv

def two64 : Nat := 18446744073709551616

/-- `fn words_for(width: u32) -> usize { (width as usize).div_ceil(64).max(1) }` (host.rs, value.rs, runtime.rs). -/
def wordsFor (width : Nat) : Nat := max ((width + 63) / 64) 1

/-- `Vec::resize(n, 0)`: truncate or zero-extend. -/
def resize (ws : List Nat) (n : Nat) : List Nat :=
  ws.take n ++ List.replicate (n - ws.length) 0

/-- `BigUint::iter_u64_digits`: little-endian base-2^64 digits, none for zero. -/
def u64Digits (n : Nat) : List Nat :=
  if _h : n = 0 then [] else (n % two64) :: u64Digits (n / two64)
termination_by n
decreasing_by exact Nat.div_lt_self (Nat.pos_of_ne_zero (by assumption)) (by decide)

/-- `value_to_words_into(value, nwords, out)`. -/
def valueToWords (v : Val) (nwords : Nat) : List Nat :=
  match v.repr with
  | .u64 => resize [v.payload] nwords
  | .big => resize (u64Digits v.payload) nwords

/-- `value_to_mask_xz_into(value, nwords, out)`. -/
def valueToMaskWords (v : Val) (nwords : Nat) : List Nat :=
  match v.repr with
  | .u64 => resize [v.mask] nwords
  | .big => resize (u64Digits v.mask) nwords

/-- `BigUint::from_bytes_le(ws.flat_map(to_le_bytes))`: positional value of the word list. -/
def wordsValue : List Nat → Nat
  | [] => 0
  | w :: ws => w + two64 * wordsValue ws

/-- `words_to_value_masked(words, mask_xz, width)`. -/
def wordsToValueMasked (words mask : List Nat) (width : Nat) : Val :=
  if width ≤ 64 then ⟨.u64, words.headD 0, mask.headD 0, width⟩
  else ⟨.big, wordsValue words, wordsValue mask, width⟩

/-- `if let Some(last) = words.last_mut() { *last = f(*last) }`. -/
def modifyLast (f : Nat → Nat) : List Nat → List Nat
  | [] => []
  | [w] => [f w]
  | w :: w' :: ws => w :: modifyLast f (w' :: ws)

/-- `fn mask_top_word(words: &mut [u64], width: u32)` (component value.rs):
`if width == 0 { last = 0; return }; let rem = width % 64; if rem != 0 { last &= u64::MAX >> (64 - rem) }`. -/
def maskTopWord (ws : List Nat) (width : Nat) : List Nat :=
  if width = 0 then modifyLast (fun _ => 0) ws
  else
    let rem := width % 64
    if rem ≠ 0 then modifyLast (fun last => last &&& ((two64 - 1) >>> (64 - rem))) ws
    else ws

/-- `Value::from_bits(words, mask_xz, width)` → `(words, mask_xz)` of the component's `Value::Bits`. -/
def fromBits (words mask : List Nat) (width : Nat) : List Nat × List Nat :=
  let n := wordsFor width
  (maskTopWord (resize words n) width, maskTopWord (resize mask n) width)

/-- `to_port_words(width)` / `to_port_mask_xz(width)`. -/
def toPortWords (ws : List Nat) (width : Nat) : List Nat :=
  maskTopWord (resize ws (wordsFor width)) width

/-- A host port: staging buffers of `words_for(width)` words each. -/
structure Port where
  width : Nat
  words : List Nat
  mask : List Nat
  dirty : Bool
deriving DecidableEq

def newPort (width : Nat) : Port :=
  ⟨width, List.replicate (wordsFor width) 0, List.replicate (wordsFor width) 0, false⟩

/-- `set_input_masked(idx, words, mask_xz)`: `copy_from_slice(&words[..n])` panics on a short slice. -/
def setInputMasked (p : Port) (words mask : List Nat) : Option Port :=
  let n := p.words.length
  if words.length < n ∨ mask.length < n then none
  else some { p with words := words.take n, mask := mask.take n }

/-- `set_input(idx, words)`: two-state staging, mask cleared. -/
def setInput (p : Port) (words : List Nat) : Option Port :=
  let n := p.words.length
  if words.length < n then none
  else some { p with words := words.take n, mask := List.replicate p.mask.length 0 }

/-- `svc_write_output(idx, words, mask_xz)`: `copy_from_slice` needs equal lengths. -/
def svcWriteOutput (p : Port) (words : List Nat) (mask : Option (List Nat)) : Option Port :=
  if words.length ≠ p.words.length then none else
  match mask with
  | some m => if m.length ≠ p.mask.length then none else some { p with words := words, mask := m, dirty := true }
  | none => some { p with words := words, mask := List.replicate p.mask.length 0, dirty := true }

/-- `fn width_mask(width: usize) -> u64` (runtime.rs). -/
def widthMask (width : Nat) : Nat :=
  if width ≥ 64 then two64 - 1 else (1 <<< width) - 1

/-- `apply_outputs`: what lands in the DUT variable (payload, mask_xz) of `width` bits.  Scalar arm:
`src_words[0] & mask`; wide arm: the port buffer is copied byte for byte. -/
def applyOutput (p : Port) (use4state : Bool) : Nat × Nat :=
  if p.width ≤ 64 then
    (p.words.headD 0 &&& widthMask p.width, if use4state then p.mask.headD 0 &&& widthMask p.width else 0)
  else
    (wordsValue p.words, if use4state then wordsValue p.mask else 0)

/-- `stage_inputs`, `InputSource::Expr` arm: value → words → `set_input[_masked]`. -/
def stageInput (p : Port) (v : Val) (use4state : Bool) : Option Port :=
  let n := wordsFor p.width
  if use4state then setInputMasked p (valueToWords v n) (valueToMaskWords v n)
  else setInput p (valueToWords v n)

/-! ### the scalar / word accessors of `SimCtx` (`crates/component/src/ctx.rs`), native direct-pointer path -/

/-- `SimCtx::read_u64(port)`: `*port.words_ptr` — the first staged word, X/Z dropped. -/
def readU64 (p : Port) : Nat := p.words.headD 0

/-- `SimCtx::read_words(port, out)`: `copy_nonoverlapping(port.words_ptr, out, words_for(width))`. -/
def readWords (p : Port) : List Nat := p.words.take (wordsFor p.width)

/-- `SimCtx::write_u64(port, value)`:
`word = if width >= 64 { value } else { value & (u64::MAX >> (64 - width)) }` (the shift panics in a
debug build when `width == 0`); `*words_ptr = word; *mask_ptr = 0; *dirty_ptr = 1` — only the first
word and the first mask word are touched. -/
def writeU64 (p : Port) (value : Nat) : Option Port :=
  if p.width = 0 then none else
  let word := if p.width ≥ 64 then value else value &&& ((two64 - 1) >>> (64 - p.width))
  match p.words, p.mask with
  | _ :: ws, _ :: ms => some { p with words := word :: ws, mask := 0 :: ms, dirty := true }
  | _, _ => none

/-- The buffer `write_words` leaves in the port: the first `n = words_for(width)` words with
`words[n-1] &= top_mask`, where `top_bits = width - 64*(n-1)` and
`top_mask = if top_bits >= 64 { u64::MAX } else { (1 << top_bits) - 1 }`. -/
def writeWordsBuf (ws : List Nat) (width : Nat) : List Nat :=
  let n := wordsFor width
  let topBits := width - 64 * (n - 1)
  let topMask := if topBits ≥ 64 then two64 - 1 else (1 <<< topBits) - 1
  modifyLast (fun last => last &&& topMask) (ws.take n)

/-- `SimCtx::write_words(port, words)` (needs `words.len() >= n`): buffer as above,
`write_bytes(mask_ptr, 0, n)`, dirty. -/
def writeWords (p : Port) (ws : List Nat) : Option Port :=
  let n := wordsFor p.width
  if ws.length < n ∨ p.words.length ≠ n ∨ p.mask.length ≠ n then none
  else some { p with words := writeWordsBuf ws p.width, mask := List.replicate n 0, dirty := true }

/-! ### wasm transport: little-endian bytes through linear memory -/

/-- `u64::to_le_bytes`. -/
def leBytes8 (x : Nat) : List Nat := (List.range 8).map (fun i => (x >>> (8 * i)) % 256)

/-- `fn words_to_bytes(words: &[u64]) -> Vec<u8>`. -/
def wordsToBytes (ws : List Nat) : List Nat := ws.flatMap leBytes8

/-- `u64::from_le_bytes` of a chunk zero-padded to 8 bytes. -/
def leWord : List Nat → Nat
  | [] => 0
  | b :: bs => b + 256 * leWord bs

/-- `fn bytes_to_words(bytes: &[u8]) -> Vec<u64>`: `bytes.chunks(8).map(from_le_bytes(padded))`. -/
def bytesToWords (bytes : List Nat) : List Nat :=
  if _h : bytes = [] then [] else leWord (bytes.take 8) :: bytesToWords (bytes.drop 8)
termination_by bytes.length
decreasing_by
  cases bytes with
  | nil => contradiction
  | cons b bs => simp only [List.length_drop, List.length_cons]; omega

/-- `Memory::write(ptr, bytes)`; `none` = out of bounds (a trap). -/
def memWrite (mem : List Nat) (ptr : Nat) (bytes : List Nat) : Option (List Nat) :=
  if ptr + bytes.length ≤ mem.length then some (mem.take ptr ++ bytes ++ mem.drop (ptr + bytes.length)) else none

/-- `guest_bytes(memory, ptr, len)`: range-checked read. -/
def memRead (mem : List Nat) (ptr len : Nat) : Option (List Nat) :=
  if ptr + len ≤ mem.length then some ((mem.drop ptr).take len) else none

/-- wasm import `read_input(idx, words_ptr, mask_xz_ptr)`: both buffers are written unconditionally. -/
def wasmReadInput (mem : List Nat) (p : Port) (wordsPtr maskPtr : Nat) : Option (List Nat) :=
  match memWrite mem wordsPtr (wordsToBytes p.words) with
  | some mem' => memWrite mem' maskPtr (wordsToBytes p.mask)
  | none => none

/-- wasm import `write_output(idx, words_ptr, mask_xz_ptr)`: both buffers are read unconditionally and
the mask is always `Some`. -/
def wasmWriteOutput (mem : List Nat) (p : Port) (wordsPtr maskPtr : Nat) : Option Port :=
  let n := p.words.length
  match memRead mem wordsPtr (n * 8), memRead mem maskPtr (n * 8) with
  | some wb, some mb => svcWriteOutput p (bytesToWords wb) (some (bytesToWords mb))
  | _, _ => none

/-- native `host_read_input(ctx, idx, words, mask_xz)`: a null mask pointer is skipped. -/
def nativeReadInput (p : Port) (wantMask : Bool) : List Nat × Option (List Nat) :=
  (p.words, if wantMask then some p.mask else none)

/-- native `host_write_output(ctx, idx, words, mask_xz)`: a null mask pointer means "no X/Z". -/
def nativeWriteOutput (p : Port) (words : List Nat) (mask : Option (List Nat)) : Option Port :=
  svcWriteOutput p (words.take p.words.length) (mask.map (fun m => m.take p.words.length))

end VerylModel.Words
