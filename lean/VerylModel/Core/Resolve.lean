/-
M-Resolve: executable model of crates/metadata/src/lockfile.rs (dependency resolution).

Modelled line by line: `resolve_version` / `resolve_version_from_lockfile` /
`resolve_version_from_latest` (pubfile sorted by version, first match), `resolve_dependency`,
`get_metadata`, `gen_locks` (breadth first: one loop over the dependencies of a project with the
`name_table` suffixing and the `src_table` uuid de-duplication, then one recursive call per
newly pushed lock), `Lockfile::new`, `Lockfile::update` (`modified` ⇔ uuid sets differ),
`sort_table`, `save` (flatten + sort) and `load` (group by url + `sort_table`).

Representation
* names: `n3`, `n3_0`, `n3_0_1` … are `[3]`, `[3,0]`, `[3,0,1]` (`format!("{name}_{suffix}")`
  appends one element), so a *declared* `n3_0` and a *suffixed* `n3` coincide as in the code;
* urls, project names, paths, revisions: `Nat` identifiers; versions: `Nat` ranks in semver order;
* a version requirement is an opaque `ρ` with `World.mt : ρ → Nat → Bool` (`VersionReq::matches`);
* `metadata.dependencies` is a `HashMap`: the model takes the *iteration order* as given (the
  order of `Meta.deps`); every theorem is quantified over it;
* the recursion of `gen_locks` is cut by the uuid table in the code; the model takes a fuel.

Modelled, not verified (trusted base of C31): `Uuid::new_v5` is injective on the
(url, path, revision) triple; `toml` round-trips a lockfile; `slice::sort_by` is a stable sort
(= `List.mergeSort`); git checkout of a revision yields that revision's Veryl.toml; dependency
`properties` and the root-only `path` override of a git dependency are not modelled (never generated).
No imports: this file is linked into the `vmodel` driver.
-/
namespace VerylModel.Resolve

abbrev Name := List Nat

inductive Err where
  | nameConflict | invalid | conflict | notFound | unpublished | noVersion | fuel
deriving DecidableEq, Repr, Inhabited

/-- `pubfile::Release`. -/
structure Release where
  version : Nat
  revision : Nat
deriving DecidableEq, Repr, Inhabited

/-- Key of `lock_table` (`UrlPath`). -/
inductive Key where
  | url (u : Nat)
  | path (p : Nat)
deriving DecidableEq, Repr, Inhabited

/-- `LockSource`. -/
inductive Src where
  | repo (url path proj version revision : Nat)
  | path (p : Nat)
deriving DecidableEq, Repr, Inhabited

/-- `LockSource::to_url`. -/
def Src.key : Src → Key
  | .repo u _ _ _ _ => .url u
  | .path p => .path p

/-- What `gen_uuid` hashes: url, path inside the repository, revision. -/
structure Uuid where
  key : Key
  path : Nat
  revision : Nat
deriving DecidableEq, Repr, Inhabited

/-- `Lock::uuid` (properties omitted). -/
def Src.uuid : Src → Uuid
  | .repo u p _ _ r => ⟨.url u, p, r⟩
  | .path p => ⟨.path p, p, 0⟩

/-- `impl Ord for LockSource`: repositories by (url, project, version); repository < path. -/
def Src.cmp : Src → Src → Ordering
  | .repo u1 _ pr1 v1 _, .repo u2 _ pr2 v2 _ =>
    (compare u1 u2).then ((compare pr1 pr2).then (compare v1 v2))
  | .path a, .path b => compare a b
  | .repo _ _ _ _ _, .path _ => .lt
  | .path _, .repo _ _ _ _ _ => .gt

structure LockDep where
  name : Name
  src : Src
deriving DecidableEq, Repr, Inhabited

structure Lock where
  name : Name
  src : Src
  deps : List LockDep
  visible : Bool
deriving DecidableEq, Repr, Inhabited

/-- `lock_table : HashMap<UrlPath, Vec<Lock>>` as an association list with unique keys. -/
abbrev Table := List (Key × List Lock)

def Table.get : Table → Key → List Lock
  | [], _ => []
  | (k, ls) :: rest, key => if k = key then ls else Table.get rest key

/-- `.entry(k).and_modify(|x| x.push(lock)).or_insert(vec![lock])`. -/
def Table.push : Table → Key → Lock → Table
  | [], k, l => [(k, [l])]
  | (k', ls) :: rest, k, l => if k' = k then (k', ls ++ [l]) :: rest else (k', ls) :: Table.push rest k l

/-- All locks (`lock_table.values().flatten()`). -/
def Table.locks (t : Table) : List Lock := t.flatMap (·.2)

/-- `locks.sort_by(|a, b| b.source.cmp(&a.source))`: stable, descending. -/
def leDesc (a b : Lock) : Bool := Src.cmp b.src a.src != .gt
def leAsc (a b : Lock) : Bool := Src.cmp a.src b.src != .gt

def sortTable (t : Table) : Table := t.map (fun kv => (kv.1, kv.2.mergeSort leDesc))

def buildTable (locks : List Lock) : Table :=
  sortTable (locks.foldl (fun t l => Table.push t l.src.key l) [])

/-! ### the world: what the repositories and the filesystem contain -/

inductive DepKind (ρ : Type) where
  /-- `git`/`github` + `version` (+ `project`, defaulting to the dependency name). -/
  | git (url proj : Nat) (req : ρ)
  /-- `path` dependency; `target` is the canonical directory it resolves to. -/
  | path (target : Nat)
  /-- version-only, url without version, or neither git nor path. -/
  | bad

structure Dep (ρ : Type) where
  name : Name
  kind : DepKind ρ

/-- The part of a `Metadata` that resolution reads: its `dependencies`, in iteration order. -/
structure Meta (ρ : Type) where
  deps : List (Dep ρ)

structure World (ρ : Type) where
  /-- `VersionReq::matches`. -/
  mt : ρ → Nat → Bool
  /-- At `origin/HEAD` of repository `url`: the directory holding project `proj`
      (`search_project`) and the releases of its `Veryl.pub` in file order (`none`: no pubfile). -/
  head : Nat → Nat → Option (Nat × Option (List Release))
  /-- `Veryl.toml` of (url, path) at a revision. -/
  repoMeta : Nat → Nat → Nat → Option (Meta ρ)
  /-- `Veryl.toml` of a local directory. -/
  pathMeta : Nat → Option (Meta ρ)

variable {ρ : Type}

/-- `resolve_version_from_lockfile`: the first lock of the url with this project whose version matches. -/
def resolveFromLockfile (w : World ρ) (t : Table) (url proj : Nat) (req : ρ) : Option (Release × Nat) :=
  (t.get (.url url)).findSome? (fun l =>
    match l.src with
    | .repo _ p pr v r => if pr = proj && w.mt req v then some (⟨v, r⟩, p) else none
    | .path _ => none)

/-- `pubfile.releases.sort_by(|a, b| b.version.cmp(&a.version))` then the first match: the first
    release (in file order) among the matching ones of greatest version. -/
def bestRelease (w : World ρ) (req : ρ) : List Release → Option Release → Option Release
  | [], acc => acc
  | r :: rs, acc =>
    if w.mt req r.version then
      match acc with
      | none => bestRelease w req rs (some r)
      | some a => if a.version < r.version then bestRelease w req rs (some r) else bestRelease w req rs (some a)
    else bestRelease w req rs acc

/-- `resolve_version_from_latest`. -/
def resolveLatest (w : World ρ) (url proj : Nat) (req : ρ) : Except Err (Release × Nat) :=
  match w.head url proj with
  | none => .error .notFound
  | some (_, none) => .error .unpublished
  | some (path, some rels) =>
    match bestRelease w req rels none with
    | some r => .ok (r, path)
    | none => .error .noVersion

/-- `resolve_version`. -/
def resolveVersion (w : World ρ) (t : Table) (force : Bool) (url proj : Nat) (req : ρ) :
    Except Err (Release × Nat) :=
  match resolveFromLockfile w t url proj req with
  | some locked => if force then resolveLatest w url proj req else .ok locked
  | none => resolveLatest w url proj req

/-- `resolve_dependency`. -/
def resolveDependency (w : World ρ) (t : Table) (force : Bool) (d : Dep ρ) : Except Err LockDep :=
  match d.kind with
  | .bad => .error .invalid
  | .git url proj req =>
    match resolveVersion w t force url proj req with
    | .error e => .error e
    | .ok (rel, path) => .ok ⟨d.name, .repo url path proj rel.version rel.revision⟩
  | .path target =>
    match w.pathMeta target with
    | none => .error .notFound
    | some _ => .ok ⟨d.name, .path target⟩

/-- `get_metadata`. -/
def getMetadata (w : World ρ) : Src → Except Err (Meta ρ)
  | .repo u p _ _ r => match w.repoMeta u p r with | some m => .ok m | none => .error .notFound
  | .path p => match w.pathMeta p with | some m => .ok m | none => .error .notFound

def resolveAll (w : World ρ) (t : Table) (force : Bool) : List (Dep ρ) → Except Err (List LockDep)
  | [] => .ok []
  | d :: ds =>
    match resolveDependency w t force d with
    | .error e => .error e
    | .ok x => match resolveAll w t force ds with
      | .error e => .error e
      | .ok xs => .ok (x :: xs)

/-- The name table without one name. -/
def dropName (tbl : List Name) (n : Name) : List Name := tbl.filter (· ≠ n)

/-- `loop { let new_name = format!("{name}_{suffix}"); if !name_table.contains(&new_name) {…} suffix += 1 }`:
    the least suffix `≥ s` whose name is free. A name that was tested is dropped from the table (it
    cannot be tested again), so `fuel = tbl.length` iterations always suffice (`freshFrom_not_mem`). -/
def freshGo (name : Name) : Nat → List Name → Nat → Nat
  | 0, _, s => s
  | fuel + 1, tbl, s =>
    if (name ++ [s]) ∈ tbl then freshGo name fuel (dropName tbl (name ++ [s])) (s + 1) else s

def freshFrom (name : Name) (tbl : List Name) : Nat := freshGo name tbl.length tbl 0

def freshName (name : Name) (tbl : List Name) : Name := name ++ [freshFrom name tbl]

/-- Loop state of one `gen_locks` level. -/
structure Acc (ρ : Type) where
  names : List Name        -- name_table
  srcs : List Uuid         -- src_table (keys)
  locks : List Lock        -- ret
  metas : List (Meta ρ)    -- dependencies_metadata

/-- Body of `for (name, dep) in &metadata.dependencies`. -/
def stepDep (w : World ρ) (t : Table) (force root : Bool) (a : Acc ρ) (d : Dep ρ) : Except Err (Acc ρ) :=
  match resolveDependency w t force d with
  | .error e => .error e
  | .ok dependency =>
    match getMetadata w dependency.src with
    | .error e => .error e
    | .ok m =>
      let clash := a.names.contains d.name
      if clash && root then .error .nameConflict else
      let name := if clash then freshName d.name a.names else d.name
      let names := name :: a.names
      match resolveAll w t force m.deps with
      | .error e => .error e
      | .ok dependencies =>
        let lock : Lock := { name := name, src := dependency.src, deps := dependencies, visible := root }
        if a.srcs.contains lock.src.uuid then
          if root then .error .conflict else .ok { a with names := names }
        else
          .ok { names := names, srcs := lock.src.uuid :: a.srcs, locks := a.locks ++ [lock],
                metas := a.metas ++ [m] }

def levelLoop (w : World ρ) (t : Table) (force root : Bool) : List (Dep ρ) → Acc ρ → Except Err (Acc ρ)
  | [], a => .ok a
  | d :: ds, a =>
    match stepDep w t force root a d with
    | .error e => .error e
    | .ok a' => levelLoop w t force root ds a'

abbrev GenResult := Except Err (List Lock × List Name × List Uuid)

/-- `for metadata in dependencies_metadata { ret.append(gen_locks(&metadata, …, false, …)) }`. -/
def genChildren (rec : List (Dep ρ) → List Name → List Uuid → GenResult) :
    List (Meta ρ) → List Name → List Uuid → List Lock → GenResult
  | [], ns, ss, acc => .ok (acc, ns, ss)
  | m :: ms, ns, ss, acc =>
    match rec m.deps ns ss with
    | .error e => .error e
    | .ok (ls, ns', ss') => genChildren rec ms ns' ss' (acc ++ ls)

/-- `gen_locks`. -/
def genLocks (w : World ρ) (t : Table) (force : Bool) : Nat → Bool → List (Dep ρ) → List Name → List Uuid → GenResult
  | 0, _, _, _, _ => .error .fuel
  | fuel + 1, root, deps, names, srcs =>
    match levelLoop w t force root deps { names := names, srcs := srcs, locks := [], metas := [] } with
    | .error e => .error e
    | .ok a => genChildren (genLocks w t force fuel false) a.metas a.names a.srcs a.locks

/-- `Lockfile::new`. -/
def newLockfile (w : World ρ) (fuel : Nat) (root : List (Dep ρ)) : Except Err Table :=
  match genLocks w [] false fuel true root [] [] with
  | .error e => .error e
  | .ok (locks, _, _) => .ok (buildTable locks)

/-- The `modified` flag of `Lockfile::update`. -/
def modifiedBy (old : Table) (locks : List Lock) : Bool :=
  locks.any (fun l => !(old.get l.src.key).any (fun x => x.src.uuid == l.src.uuid)) ||
  old.locks.any (fun o => !locks.any (fun x => x.src.uuid == o.src.uuid))

/-- `Lockfile::update`. -/
def update (w : World ρ) (fuel : Nat) (old : Table) (force : Bool) (root : List (Dep ρ)) :
    Except Err (Table × Bool) :=
  match genLocks w old force fuel true root [] [] with
  | .error e => .error e
  | .ok (locks, _, _) => .ok (buildTable locks, modifiedBy old locks)

/-- `Lockfile::save`: the `projects` array written to Veryl.lock. -/
def saveProjects (t : Table) : List Lock := t.locks.mergeSort leAsc

/-- `Lockfile::load`: group by url in file order, then `sort_table`. `visible` is recomputed from
    the root declarations (`metadata.dependencies.contains_key(&lock.name)`). -/
def loadTable (rootNames : List Name) (projects : List Lock) : Table :=
  buildTable (projects.map (fun l => { l with visible := rootNames.contains l.name }))

end VerylModel.Resolve
