/-
M-SV: abstract syntax and 2-state semantics of the SystemVerilog subset that `veryl-emitter`
produces for the designs of the `emit` harness domain (C01) and that `veryl-translator` accepts
(C22).  There is no SystemVerilog simulator in the sandbox: this file IS the SV side, a
transcription of IEEE 1800-2017 (my reading of the LRM, the only SV oracle available):

* Table 11-2 / §11.3.2: operator precedence; every binary operator associates left to right
  (`**` included) — `resolve` turns the flat operator chain that the text contains into a tree
  whose root is the RIGHTMOST operator of LOWEST precedence.
* §11.6.1 Table 11-21 (`size`), §11.8.1 (`sgn`), §11.8.2 (context propagation, `eval`):
  operands of `+ - * / % & | ^ ~^` and the branches of `?:` are context-determined; relational and
  equality operands are sized to the larger of the two; shift amount, exponent, reduction/logical
  operands, concatenation items, `?:` condition are self-determined.
* §5.7.1: unsized decimal = 32 bit signed; based literal unsigned unless `s`; `'0 '1` = one
  unsigned bit that fills its context.
* §6.24.1: `N'(e)` = what an `N`-bit variable holds after being assigned `e`, signedness of `e`
  passes through; `signed'(e)`/`unsigned'(e)`/`$signed`/`$unsigned` keep the size;
  `byte'/shortint'/int'/longint'(e)` = assignment to a signed 8/16/32/64-bit variable.
* §11.4.2 `/ %` truncate toward zero / sign of first operand, zero divisor = x (here `none`,
  "don't care"); §11.4.3 Table 11-4 power; §11.4.10 shifts; §11.5.1 selects are unsigned.
* §10.7 assignment: RHS evaluated at `max (size rhs) (width lhs)`, type of the RHS, truncated.
* §12.5 `case`: selector and all item expressions sized to the widest, signed iff all signed,
  items tried in order. §9.2.2 `always_comb` re-evaluates until stable, `always_ff` body runs
  at the events of its sensitivity list, §10.4.2 nonblocking assignments update after all
  processes sensitive to the event have run.
* event semantics reduced to a cycle protocol (`run`): inputs change between clock edges; the
  reset assertion edge is an event of its own.
No imports: linked into `vmodel`.
-/
namespace VerylModel.SV

inductive UnOp
  | plus | neg | bnot | lnot | rand | ror | rxor | rnand | rnor | rxnor
deriving DecidableEq, Repr

inductive BinOp
  | pow | mul | div | mod | add | sub | shl | shr | ashl | ashr
  | lt | le | gt | ge | eq | ne | band | bxor | bxnor | bor | land | lor
deriving DecidableEq, Repr

/-- Table 11-2 (binary operators), larger = binds tighter. -/
def BinOp.prec : BinOp → Nat
  | .pow => 11
  | .mul | .div | .mod => 10
  | .add | .sub => 9
  | .shl | .shr | .ashl | .ashr => 8
  | .lt | .le | .gt | .ge => 7
  | .eq | .ne => 6
  | .band => 5
  | .bxor | .bxnor => 4
  | .bor => 3
  | .land => 2
  | .lor => 1

def BinOp.isArith : BinOp → Bool
  | .mul | .div | .mod | .add | .sub | .band | .bxor | .bxnor | .bor => true
  | _ => false

def BinOp.isCmp : BinOp → Bool
  | .lt | .le | .gt | .ge | .eq | .ne => true
  | _ => false

def BinOp.isShift : BinOp → Bool
  | .shl | .shr | .ashl | .ashr => true
  | _ => false

def UnOp.isReduce : UnOp → Bool
  | .plus | .neg | .bnot => false
  | _ => true

/-! ## Syntax as written (chains and parentheses kept) -/

mutual
inductive Raw
  | var (id : Nat)
  | bitsel (id i : Nat)
  | partsel (id hi lo : Nat)
  | lit (w : Nat) (s : Bool) (v : Nat)
  | dec (v : Nat)
  | fill (b : Bool)
  | un (op : UnOp) (a : Raw)
  | chain (first : Raw) (rest : Rest)
  | paren (a : Raw)
  | cond (c a b : Raw)
  | cat (a b : Raw)
  | rep (n : Nat) (a : Raw)
  | sizeCast (n : Nat) (a : Raw)
  | typeCast (w : Nat) (a : Raw)
  | signCast (sys : Bool) (s : Bool) (a : Raw)
inductive Rest
  | nil
  | cons (op : BinOp) (e : Raw) (tl : Rest)
end

/-! ## Resolved expression tree -/

inductive Expr
  | var (id : Nat)
  | bitsel (id i : Nat)
  | partsel (id hi lo : Nat)
  | lit (w : Nat) (s : Bool) (v : Nat)
  | dec (v : Nat)
  | fill (b : Bool)
  | un (op : UnOp) (a : Expr)
  | bin (op : BinOp) (a b : Expr)
  | cond (c a b : Expr)
  | cat (a b : Expr)
  | rep (n : Nat) (a : Expr)
  | sizeCast (n : Nat) (a : Expr)
  | typeCast (w : Nat) (a : Expr)
  | signCast (s : Bool) (a : Expr)
deriving Repr, Inhabited, DecidableEq

/-! ## Operator chains → trees

`pickRootAux` is the loop of `prec_climb` (conv/expression.rs) with one switch: with
`powRight = false` every operator of equal precedence replaces the current minimum (`<=`,
left-associative — IEEE for ALL binary operators); with `powRight = true` a `**` replaces it only
when strictly lower (`<`) — Veryl's analyzer. -/

def pickRootAux (powRight : Bool) : List BinOp → Nat → Nat → Nat → Nat
  | [], _, mi, _ => mi
  | op :: t, i, mi, mp =>
    let better := if powRight && op == .pow then decide (op.prec < mp) else decide (op.prec ≤ mp)
    if better then pickRootAux powRight t (i + 1) i op.prec
    else pickRootAux powRight t (i + 1) mi mp

def pickRoot (powRight : Bool) : List BinOp → Nat
  | [] => 0
  | op :: t => pickRootAux powRight t 1 0 op.prec

/-- Tree of `e0 op0 e1 op1 … e_n`: root = `pickRoot`, recursively on both sides (`fuel` ≥ number of
operators; structural so that the kernel can evaluate it). -/
def buildF {E : Type} (powRight : Bool) (mk : BinOp → E → E → E) (dflt : E) :
    Nat → List BinOp → List E → E
  | _, [], es => es.headD dflt
  | 0, _ :: _, es => es.headD dflt
  | fuel + 1, op :: t, es =>
    let ops := op :: t
    let i := min (pickRoot powRight ops) t.length
    mk (ops.getD i op)
      (buildF powRight mk dflt fuel (ops.take i) (es.take (i + 1)))
      (buildF powRight mk dflt fuel (ops.drop (i + 1)) (es.drop (i + 1)))

def build {E : Type} (powRight : Bool) (mk : BinOp → E → E → E) (dflt : E) (ops : List BinOp) (es : List E) : E :=
  buildF powRight mk dflt ops.length ops es

mutual
def resolve : Raw → Expr
  | .var id => .var id
  | .bitsel id i => .bitsel id i
  | .partsel id hi lo => .partsel id hi lo
  | .lit w s v => .lit w s v
  | .dec v => .dec v
  | .fill b => .fill b
  | .un op a => .un op (resolve a)
  | .chain f r => build false Expr.bin (.dec 0) (restOps r) (resolve f :: restExprs r)
  | .paren a => resolve a
  | .cond c a b => .cond (resolve c) (resolve a) (resolve b)
  | .cat a b => .cat (resolve a) (resolve b)
  | .rep n a => .rep n (resolve a)
  | .sizeCast n a => .sizeCast n (resolve a)
  | .typeCast w a => .typeCast w (resolve a)
  | .signCast _ s a => .signCast s (resolve a)
def restExprs : Rest → List Expr
  | .nil => []
  | .cons _ e tl => resolve e :: restExprs tl
def restOps : Rest → List BinOp
  | .nil => []
  | .cons op _ tl => op :: restOps tl
end

/-! ## Values -/

/-- declared variable: width and signedness (index in the list = identifier) -/
structure Decl where
  width : Nat
  signed : Bool
deriving Repr, DecidableEq

structure Env where
  decls : List Decl
  vals : List Nat

def Env.decl (env : Env) (id : Nat) : Decl := env.decls.getD id { width := 1, signed := false }
def Env.val (env : Env) (id : Nat) : Nat := env.vals.getD id 0 % 2 ^ (env.decl id).width

/-- two's-complement reading of a `w`-bit value. -/
def toInt (w v : Nat) : Int :=
  if w ≠ 0 ∧ v.testBit (w - 1) then (v : Int) - ((2 ^ w : Nat) : Int) else (v : Int)

/-- the `w`-bit pattern of an integer. -/
def ofInt (w : Nat) (i : Int) : Nat := (i % ((2 ^ w : Nat) : Int)).toNat

/-- extend (sign-extend iff `signed`) or truncate a `fromW`-bit value to `toW` bits. -/
def ext (v fromW toW : Nat) (signed : Bool) : Nat :=
  if toW ≤ fromW then v % 2 ^ toW
  else if signed && (fromW ≠ 0 && v.testBit (fromW - 1)) then v % 2 ^ fromW + (2 ^ toW - 2 ^ fromW)
  else v % 2 ^ fromW

def b2n (b : Bool) : Nat := if b then 1 else 0

def parity (v : Nat) : Nat → Nat
  | 0 => 0
  | k + 1 => (v % 2 + parity (v / 2) k) % 2

/-- `b ^ e % m` by square and multiply; `fuel` ≥ bit length of `e` (`e + 1` is used: the recursion
halves `e`, so only `log e` steps run). -/
def powModAux : Nat → Nat → Nat → Nat → Nat
  | 0, _, _, m => 1 % m
  | fuel + 1, b, e, m =>
    if e = 0 then 1 % m
    else
      let h := powModAux fuel ((b * b) % m) (e / 2) m
      if e % 2 = 1 then (b * h) % m else h

def powMod (b e m : Nat) : Nat := powModAux (e + 1) b e m

/-- bits `hi..lo` of `v`. -/
def bitsOf (v hi lo : Nat) : Nat := (v / 2 ^ lo) % 2 ^ (hi + 1 - lo)

/-- `v` with bits `hi..lo` replaced by the low bits of `x` (bits at or above `w` are dropped). -/
def setBits (w v hi lo x : Nat) : Nat :=
  (v % 2 ^ lo + (x % 2 ^ (hi + 1 - lo)) * 2 ^ lo + (v / 2 ^ (hi + 1)) * 2 ^ (hi + 1)) % 2 ^ w

/-! ## Operators on operands already sized to the expression width `w` (§11.4) -/

/-- context-determined binary operators; `none` = division by zero. -/
def arith (op : BinOp) (x y w : Nat) (s : Bool) : Option Nat :=
  match op with
  | .add => some ((x + y) % 2 ^ w)
  | .sub => some ((x + 2 ^ w - y % 2 ^ w) % 2 ^ w)
  | .mul => some ((x * y) % 2 ^ w)
  | .div =>
    if y = 0 then none
    else if s then some (ofInt w (Int.tdiv (toInt w x) (toInt w y))) else some (x / y)
  | .mod =>
    if y = 0 then none
    else if s then some (ofInt w (Int.tmod (toInt w x) (toInt w y))) else some (x % y)
  | .band => some (x &&& y)
  | .bor => some (x ||| y)
  | .bxor => some (x ^^^ y)
  | _ => some (2 ^ w - 1 - (x ^^^ y) % 2 ^ w)

/-- shifts: `x` sized to `w`, amount `k` unsigned (§11.4.10). -/
def shift (op : BinOp) (x k w : Nat) (s : Bool) : Nat :=
  match op with
  | .shl | .ashl => if k ≥ w then 0 else (x * 2 ^ k) % 2 ^ w
  | .shr => if k ≥ w then 0 else x / 2 ^ k
  | _ =>
    if s then
      (if k ≥ w then (if toInt w x < 0 then 2 ^ w - 1 else 0) else ofInt w (toInt w x / ((2 ^ k : Nat) : Int)))
    else (if k ≥ w then 0 else x / 2 ^ k)

/-- relational / equality on operands sized to `cw`, compared as signed iff `cs`. -/
def cmp (op : BinOp) (x y cw : Nat) (cs : Bool) : Bool :=
  match op with
  | .eq => x = y
  | .ne => x ≠ y
  | .lt => if cs then toInt cw x < toInt cw y else x < y
  | .le => if cs then toInt cw x ≤ toInt cw y else x ≤ y
  | .gt => if cs then toInt cw x > toInt cw y else x > y
  | _ => if cs then toInt cw x ≥ toInt cw y else x ≥ y

/-- §11.4.3 Table 11-4: base `x` sized to `w` (signed iff `bs`), exponent `e` of its own width
`ew` (signed iff `es`). `none` = zero to a negative power (x). -/
def power (x w : Nat) (bs : Bool) (e ew : Nat) (es : Bool) : Option Nat :=
  let b : Int := if bs then toInt w x else (x : Int)
  let ei : Int := if es then toInt ew e else (e : Int)
  if ei < 0 then
    if b = 0 then none
    else if b = 1 then some (1 % 2 ^ w)
    else if b = -1 then some (if ei % 2 = 0 then 1 % 2 ^ w else ofInt w (-1))
    else some 0
  else some (powMod x ei.toNat (2 ^ w))

/-- reductions and `!` on a self-determined operand of `aw` bits. -/
def reduce (op : UnOp) (v aw : Nat) : Nat :=
  match op with
  | .lnot => b2n (v = 0)
  | .rand => b2n (v = 2 ^ aw - 1)
  | .ror => b2n (v ≠ 0)
  | .rxor => parity v aw
  | .rnand => b2n (v ≠ 2 ^ aw - 1)
  | .rnor => b2n (v = 0)
  | _ => 1 - parity v aw

/-! ## §11.6.1 size, §11.8.1 type, §11.8.2 evaluation -/

def size (env : Env) : Expr → Nat
  | .var id => (env.decl id).width
  | .bitsel _ _ => 1
  | .partsel _ hi lo => hi + 1 - lo
  | .lit w _ _ => w
  | .dec _ => 32
  | .fill _ => 1
  | .un op a => if op.isReduce then 1 else size env a
  | .bin op a b =>
    if op.isArith then max (size env a) (size env b)
    else if op.isShift || op == .pow then size env a
    else 1
  | .cond _ a b => max (size env a) (size env b)
  | .cat a b => size env a + size env b
  | .rep n a => n * size env a
  | .sizeCast n _ => n
  | .typeCast w _ => w
  | .signCast _ a => size env a

def sgn (env : Env) : Expr → Bool
  | .var id => (env.decl id).signed
  | .bitsel _ _ => false
  | .partsel _ _ _ => false
  | .lit _ s _ => s
  | .dec _ => true
  | .fill _ => false
  | .un op a => if op.isReduce then false else sgn env a
  | .bin op a b =>
    if op.isArith then sgn env a && sgn env b
    else if op.isShift || op == .pow then sgn env a
    else false
  | .cond _ a b => sgn env a && sgn env b
  | .cat _ _ => false
  | .rep _ _ => false
  | .sizeCast _ a => sgn env a
  | .typeCast _ _ => true
  | .signCast s _ => s

/-- `n` copies of the `aw`-bit value `v`. -/
def replicate (v aw : Nat) : Nat → Nat
  | 0 => 0
  | n + 1 => replicate v aw n * 2 ^ aw + v % 2 ^ aw

/-- value of `e` in a context of `w` bits and type `s` (`w ≥ size e`; `s` only if `sgn e`);
`none` = x (zero divisor, zero to a negative power). Every result is reduced modulo `2^w`
(a no-op for well-sized contexts; it makes `eval … < 2^w` hold by construction). -/
def eval (env : Env) : Expr → Nat → Bool → Option Nat
  | .var id, w, s => some (ext (env.val id) (env.decl id).width w s % 2 ^ w)
  | .bitsel id i, w, _ => some (ext (bitsOf (env.val id) i i) 1 w false % 2 ^ w)
  | .partsel id hi lo, w, _ => some (ext (bitsOf (env.val id) hi lo) (hi + 1 - lo) w false % 2 ^ w)
  | .lit lw _ v, w, s => some (ext v lw w s % 2 ^ w)
  | .dec v, w, s => some (ext v 32 w s % 2 ^ w)
  | .fill b, w, _ => some ((if b then 2 ^ w - 1 else 0) % 2 ^ w)
  | .un op a, w, s =>
    match op with
    | .plus => (eval env a w s).map fun v => v % 2 ^ w
    | .neg => (eval env a w s).map fun v => (2 ^ w - v % 2 ^ w) % 2 ^ w
    | .bnot => (eval env a w s).map fun v => (2 ^ w - 1 - v % 2 ^ w) % 2 ^ w
    | _ =>
      let aw := size env a
      (eval env a aw (sgn env a)).map fun v => ext (reduce op v aw) 1 w false % 2 ^ w
  | .bin op a b, w, s =>
    if op.isArith then
      match eval env a w s, eval env b w s with
      | some x, some y => (arith op x y w s).map fun v => v % 2 ^ w
      | _, _ => none
    else if op.isShift then
      match eval env a w s, eval env b (size env b) (sgn env b) with
      | some x, some k => some (shift op x k w s % 2 ^ w)
      | _, _ => none
    else if op == .pow then
      match eval env a w s, eval env b (size env b) (sgn env b) with
      | some x, some e => (power x w s e (size env b) (sgn env b)).map fun v => v % 2 ^ w
      | _, _ => none
    else if op.isCmp then
      let cw := max (size env a) (size env b)
      let cs := sgn env a && sgn env b
      match eval env a cw cs, eval env b cw cs with
      | some x, some y => some (ext (b2n (cmp op x y cw cs)) 1 w false % 2 ^ w)
      | _, _ => none
    else
      match eval env a (size env a) (sgn env a), eval env b (size env b) (sgn env b) with
      | some x, some y =>
        some (ext (b2n (if op == .land then (x ≠ 0 && y ≠ 0) else (x ≠ 0 || y ≠ 0))) 1 w false % 2 ^ w)
      | _, _ => none
  | .cond c a b, w, s =>
    match eval env c (size env c) (sgn env c), eval env a w s, eval env b w s with
    | some cv, some x, some y => some ((if cv ≠ 0 then x else y) % 2 ^ w)
    | _, _, _ => none
  | .cat a b, w, _ =>
    let aw := size env a
    let bw := size env b
    match eval env a aw (sgn env a), eval env b bw (sgn env b) with
    | some x, some y => some (ext (x * 2 ^ bw + y % 2 ^ bw) (aw + bw) w false % 2 ^ w)
    | _, _ => none
  | .rep n a, w, _ =>
    let aw := size env a
    (eval env a aw (sgn env a)).map fun v => ext (replicate v aw n) (n * aw) w false % 2 ^ w
  | .sizeCast n a, w, s =>
    (eval env a (max (size env a) n) (sgn env a)).map fun v => ext (v % 2 ^ n) n w s % 2 ^ w
  | .typeCast k a, w, s =>
    (eval env a (max (size env a) k) (sgn env a)).map fun v => ext (v % 2 ^ k) k w s % 2 ^ w
  | .signCast _ a, w, s =>
    (eval env a (size env a) (sgn env a)).map fun v => ext v (size env a) w s % 2 ^ w

/-- §10.7: the value an `lw`-bit target receives from `e`. -/
def assignVal (env : Env) (lw : Nat) (e : Expr) : Option Nat :=
  (eval env e (max (size env e) lw) (sgn env e)).map fun v => v % 2 ^ lw

/-! ## Statements and processes -/

inductive LHS
  | var (id : Nat)
  | bitsel (id i : Nat)
  | partsel (id hi lo : Nat)
deriving Repr, DecidableEq

def LHS.id : LHS → Nat
  | .var id => id
  | .bitsel id _ => id
  | .partsel id _ _ => id

def LHS.width (env : Env) : LHS → Nat
  | .var id => (env.decl id).width
  | .bitsel _ _ => 1
  | .partsel _ hi lo => hi + 1 - lo

mutual
inductive Stmt
  | skip
  | assign (nb : Bool) (l : LHS) (e : Raw)
  | seq (a b : Stmt)
  | ite (c : Raw) (t e : Stmt)
  | case (sel : Raw) (arms : Arms) (dflt : Stmt)
inductive Arms
  | nil
  | cons (labels : List Raw) (body : Stmt) (tl : Arms)
end

abbrev State := List Nat

def setVal (σ : State) (id v : Nat) : State := σ.set id v

/-- store `x` into the target. -/
def store (decls : List Decl) (σ : State) (l : LHS) (x : Nat) : State :=
  let w := (decls.getD l.id { width := 1, signed := false }).width
  match l with
  | .var id => setVal σ id (x % 2 ^ w)
  | .bitsel id i => setVal σ id (setBits w (σ.getD id 0) i i x)
  | .partsel id hi lo => setVal σ id (setBits w (σ.getD id 0) hi lo x)

/-- pending nonblocking updates, oldest first -/
abbrev Log := List (LHS × Nat)

def commit (decls : List Decl) (σ : State) (log : Log) : State :=
  log.foldl (fun σ (l, x) => store decls σ l x) σ

def armsLabels : Arms → List Raw
  | .nil => []
  | .cons ls _ tl => ls ++ armsLabels tl

/-- §12.5.1: width and type every case expression is brought to -/
def caseCtx (env : Env) (sel : Expr) (labels : List Expr) : Nat × Bool :=
  labels.foldl (fun (w, s) l => (max w (size env l), s && sgn env l)) (size env sel, sgn env sel)

def matchLabels (env : Env) (cw : Nat) (cs : Bool) (sv : Nat) : List Raw → Option Bool
  | [] => some false
  | l :: t =>
    match eval env (resolve l) cw cs with
    | none => none
    | some lv => if lv = sv then some true else matchLabels env cw cs sv t

mutual
/-- run a statement: blocking assignments update the state, nonblocking ones are logged and read
the state unchanged. `none` = an x value was needed. -/
def exec (decls : List Decl) : Stmt → State × Log → Option (State × Log)
  | .skip, st => some st
  | .assign nb l e, (σ, log) =>
    let env : Env := { decls := decls, vals := σ }
    match assignVal env (l.width env) (resolve e) with
    | none => none
    | some x => if nb then some (σ, log ++ [(l, x)]) else some (store decls σ l x, log)
  | .seq a b, st =>
    match exec decls a st with
    | none => none
    | some st' => exec decls b st'
  | .ite c t e, (σ, log) =>
    let env : Env := { decls := decls, vals := σ }
    let ce := resolve c
    match eval env ce (size env ce) (sgn env ce) with
    | none => none
    | some cv => if cv ≠ 0 then exec decls t (σ, log) else exec decls e (σ, log)
  | .case sel arms dflt, (σ, log) =>
    let env : Env := { decls := decls, vals := σ }
    let se := resolve sel
    let (cw, cs) := caseCtx env se ((armsLabels arms).map resolve)
    match eval env se cw cs with
    | none => none
    | some sv =>
      match execArms decls env cw cs sv arms (σ, log) with
      | none => none
      | some (some r) => some r
      | some none => exec decls dflt (σ, log)
/-- outer `none` = x needed; inner `none` = no item matched -/
def execArms (decls : List Decl) (env : Env) (cw : Nat) (cs : Bool) (sv : Nat) :
    Arms → State × Log → Option (Option (State × Log))
  | .nil, _ => some none
  | .cons ls body tl, st =>
    match matchLabels env cw cs sv ls with
    | none => none
    | some true => (exec decls body st).map some
    | some false => execArms decls env cw cs sv tl st
end

inductive Edge | pos | neg
deriving DecidableEq, Repr

/-- `always_ff @(edge clk [or edge rst]) body` -/
structure FF where
  clkEdge : Edge
  clk : Nat
  rst : Option (Edge × Nat)
  body : Stmt

inductive Item
  | comb (s : Stmt)
  | ff (f : FF)

structure Module where
  decls : List Decl
  inputs : List Nat
  outputs : List Nat
  items : List Item

/-- one pass over the `always_comb` processes in source order -/
def combPass (decls : List Decl) : List Item → State → Option State
  | [], σ => some σ
  | .comb s :: t, σ =>
    match exec decls s (σ, []) with
    | none => none
    | some (σ', _) => combPass decls t σ'
  | .ff _ :: t, σ => combPass decls t σ

/-- re-evaluate the combinational processes until nothing changes (`fuel` passes at most;
`none` = x needed or not stable: outside the cycle protocol). -/
def settle (m : Module) : Nat → State → Option State
  | 0, _ => none
  | fuel + 1, σ =>
    match combPass m.decls m.items σ with
    | none => none
    | some σ' => if σ' = σ then some σ else settle m fuel σ'

def FF.sensitive (f : FF) (e : Edge) (id : Nat) : Bool :=
  (f.clkEdge == e && f.clk == id) ||
  (match f.rst with
   | some (re, r) => re == e && r == id
   | none => false)

/-- all `always_ff` processes sensitive to the event run on the same pre-event state; their
nonblocking updates are collected in order. -/
def fireLog (decls : List Decl) (e : Edge) (id : Nat) (σ : State) : List Item → Log → Option Log
  | [], log => some log
  | .comb _ :: t, log => fireLog decls e id σ t log
  | .ff f :: t, log =>
    if f.sensitive e id then
      match exec decls f.body (σ, log) with
      | none => none
      | some (_, log') => fireLog decls e id σ t log'
    else fireLog decls e id σ t log

def settleFuel (m : Module) : Nat := m.items.length + 2

/-- the signal `id` makes the transition `e` (the caller has already stored the new level of a DATA
signal such as the reset; the clock is not a data signal in this subset): settle, run the
sensitive processes on that state, apply the nonblocking updates, settle. -/
def event (m : Module) (e : Edge) (id : Nat) (σ : State) : Option State :=
  match settle m (settleFuel m) σ with
  | none => none
  | some σ2 =>
    match fireLog m.decls e id σ2 m.items [] with
    | none => none
    | some log => settle m (settleFuel m) (commit m.decls σ2 log)

/-! ## The cycle protocol (testbench)

What a user of the build configuration drives: `clkActive` = `[build] clock_type`, `rstHigh` =
reset asserts high (`[build] reset_type`).  One cycle = inputs take the stimulus, inactive clock
edge, active clock edge, outputs sampled (`cycle`).  `cycleStrict` additionally drives the
COMPLEMENT of the stimulus around the inactive edge: a process wrongly sensitive to that edge would
capture garbage.  Reset = assertion edge, one full cycle with reset held, deassertion edge. -/

structure TB where
  clk : Nat
  rst : Nat
  clkActive : Edge
  rstHigh : Bool

def Edge.flip : Edge → Edge
  | .pos => .neg
  | .neg => .pos

def setInputs (decls : List Decl) (σ : State) (compl : Bool) : List Nat → List Nat → State
  | id :: ids, v :: vs =>
    let w := (decls.getD id { width := 1, signed := false }).width
    setInputs decls (setVal σ id (if compl then 2 ^ w - 1 - v % 2 ^ w else v % 2 ^ w)) compl ids vs
  | _, _ => σ

def cycle (m : Module) (tb : TB) (σ : State) (stim : List Nat) : Option State :=
  match event m tb.clkActive.flip tb.clk (setInputs m.decls σ false m.inputs stim) with
  | none => none
  | some σ1 => event m tb.clkActive tb.clk σ1

def cycleStrict (m : Module) (tb : TB) (σ : State) (stim : List Nat) : Option State :=
  match event m tb.clkActive.flip tb.clk (setInputs m.decls σ true m.inputs stim) with
  | none => none
  | some σ1 => event m tb.clkActive tb.clk (setInputs m.decls σ1 false m.inputs stim)

def sample (m : Module) (σ : State) : List Nat := m.outputs.map fun id => σ.getD id 0

def cycles (cyc : State → List Nat → Option State) (m : Module) : State → List (List Nat) → Option (List (List Nat))
  | _, [] => some []
  | σ, s :: t =>
    match cyc σ s with
    | none => none
    | some σ' => (cycles cyc m σ' t).map fun tr => sample m σ' :: tr

def initState (m : Module) (tb : TB) : State :=
  setVal (m.decls.map fun _ => 0) tb.rst (if tb.rstHigh then 0 else 1)

def rstEdge (tb : TB) (assert : Bool) : Edge := if tb.rstHigh == assert then .pos else .neg

/-- state after the reset sequence (all inputs 0) -/
def resetSeq (cyc : State → List Nat → Option State) (m : Module) (tb : TB) : Option State :=
  match event m (rstEdge tb true) tb.rst (setVal (initState m tb) tb.rst (if tb.rstHigh then 1 else 0)) with
  | none => none
  | some σ1 =>
    match cyc σ1 (m.inputs.map fun _ => 0) with
    | none => none
    | some σ2 => event m (rstEdge tb false) tb.rst (setVal σ2 tb.rst (if tb.rstHigh then 0 else 1))

/-- output trace of the module under the cycle protocol -/
def run (m : Module) (tb : TB) (stim : List (List Nat)) : Option (List (List Nat)) :=
  match resetSeq (cycle m tb) m tb with
  | none => none
  | some σ => cycles (cycle m tb) m σ stim

/-- the same with the complement trick around every inactive edge -/
def runStrict (m : Module) (tb : TB) (stim : List (List Nat)) : Option (List (List Nat)) :=
  match resetSeq (cycleStrict m tb) m tb with
  | none => none
  | some σ => cycles (cycleStrict m tb) m σ stim

end VerylModel.SV
