import VerylModel.Core.Pretty
/-
Operations and decidable node predicates on `Doc` used by C09, C13, C26 (evaluated by the driver on every
real Formatter/Emitter document, and hypotheses of the theorems of Props/C09, C13, C26).
Imports only Core/Pretty.lean: linked into the `vmodel` driver.
-/
namespace VerylModel.Pretty

/-- Every `IfBreak` text is "," (true of every Doc the formatter builds: the optional trailing separator). -/
def ifbCommaNode : Doc → Bool
  | .ifBreak t => t == [',']
  | _ => true

/-- No `IfBreak` text node at all (true of every Doc the emitter builds). -/
def noIfbNode : Doc → Bool
  | .ifBreak _ => false
  | _ => true

/-- Every `Line` separator is pure whitespace. -/
def lineWsNode : Doc → Bool
  | .line sep => sep.all isWs
  | _ => true

/-- Every `Anchored` text carries a 1-based source position (the emitter anchors only tokens with
    `line != 0 && column != 0`). -/
def srcOkNode : Doc → Bool
  | .anchored _ sl sc => sl != 0 && sc != 0
  | _ => true

mutual
/-- Delete every `Comments` node: what `strip_comments` does to the emitter's document (the emitter
    then simply never builds them). -/
def stripComments : Doc → Doc
  | .concat ds => .concat (stripCommentsList ds)
  | .indent off d => .indent off (stripComments d)
  | .group d => .group (stripComments d)
  | .forceFlat d => .forceFlat (stripComments d)
  | .comments _ => .nil
  | d => d
def stripCommentsList : List Doc → List Doc
  | [] => []
  | d :: ds => stripComments d :: stripCommentsList ds
end

end VerylModel.Pretty
