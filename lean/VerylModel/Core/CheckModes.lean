/-
M-CheckModes: executable model of the per-file decision logic of `veryl fmt [--check]`
(crates/veryl/src/cmd_fmt.rs) and `veryl build [--check]` (crates/veryl/src/cmd_build.rs), with
`utils::write_file_if_changed`.

A filesystem is `Path → Option Content`. The formatter, the emitter and the filelist/bundle
assembly are parameters (`format : Content → Option Content`, `none` = the file does not parse;
each build file carries the text and the source map the emitter produces for it).
"Leaves every file unchanged" is modelled as "no `write_file_if_changed` call wrote" (`writes = 0`).

Modelled, not verified: analysis errors abort both modes alike before anything is compared or
written (not modelled); `.build/info.toml`, `Veryl.lock` and the fragment cache are not outputs.
No imports: linked into `vmodel`.
-/
namespace VerylModel.CheckModes

abbrev Path := Nat
abbrev Content := List Nat
abbrev FS := Path → Option Content

/-- The write performed by `write_file_if_changed` when the content differs. -/
def FS.write (fs : FS) (p : Path) (c : Content) : FS := fun q => if q = p then some c else fs q

/-- `utils::write_file_if_changed`: (new filesystem, `written`). -/
def writeIfChanged (fs : FS) (p : Path) (c : Content) : FS × Bool :=
  if fs p = some c then (fs, false) else (fs.write p c, true)

inductive Outcome where
  /-- `Err(..)`: exit status ≠ 0 through `?`. -/
  | error
  /-- `Ok(all_pass)`. -/
  | done (pass : Bool)
deriving DecidableEq, Repr

structure Run where
  outcome : Outcome
  fs : FS
  writes : Nat

/-- `CmdFmt::exec`: the loop over `paths` (source files, possibly with repetitions). -/
def fmtLoop (format : Content → Option Content) (check : Bool) : List Path → FS → Bool → Nat → Run
  | [], fs, pass, w => ⟨.done pass, fs, w⟩
  | p :: ps, fs, pass, w =>
    match fs p with
    | none => ⟨.error, fs, w⟩                       -- `fs::read_to_string(..)?`
    | some input =>
      match format input with
      | none => ⟨.error, fs, w⟩                     -- `Parser::parse(..)?`
      | some out =>
        if input = out then fmtLoop format check ps fs pass w
        else if check then fmtLoop format check ps fs false w
        else
          let r := writeIfChanged fs p out
          fmtLoop format check ps r.1 pass (if r.2 then w + 1 else w)

def fmtRun (format : Content → Option Content) (check : Bool) (paths : List Path) (fs : FS) : Run :=
  fmtLoop format check paths fs true 0

/-- One emitted file of a build. -/
structure BFile where
  dst : Path
  map : Path
  /-- `context.path.prj == "$std"` (`exclude_check`). -/
  std : Bool
  text : Content
  mapText : Content
deriving Repr

structure BCfg where
  /-- `Target::Bundle { path }`. -/
  bundle : Option Path
  /-- `sourcemap_target != SourceMapTarget::None`. -/
  maps : Bool
  filelist : Path
  /-- text of the filelist / of the assembled bundle (functions of the sorted file list, C25). -/
  listText : Content
  bundleText : Content
deriving Repr

def count (b : Bool) (w : Nat) : Nat := if b then w + 1 else w

/-- Write mode, per-file part (non-bundle target): `.sv`, then `.sv.map` unless disabled. -/
def writeFiles (maps : Bool) : List BFile → FS → Nat → FS × Nat
  | [], fs, w => (fs, w)
  | f :: fl, fs, w =>
    let r1 := writeIfChanged fs f.dst f.text
    if maps then
      let r2 := writeIfChanged r1.1 f.map f.mapText
      writeFiles maps fl r2.1 (count r2.2 (count r1.2 w))
    else writeFiles maps fl r1.1 (count r1.2 w)

/-- `veryl build`: with a bundle target the per-file outputs (and maps) are staged in a temporary
    directory and only the bundle and the filelist reach the project. -/
def buildWrite (c : BCfg) (files : List BFile) (fs : FS) : FS × Nat :=
  match c.bundle with
  | none =>
    let r := writeFiles c.maps files fs 0
    let r2 := writeIfChanged r.1 c.filelist c.listText
    (r2.1, count r2.2 r.2)
  | some b =>
    let r1 := writeIfChanged fs b c.bundleText
    let r2 := writeIfChanged r1.1 c.filelist c.listText
    (r2.1, count r2.2 (count r1.2 0))

/-- `fs::read_to_string(&dst).unwrap_or(String::new())`. -/
def readOrEmpty (fs : FS) (p : Path) : Content := (fs p).getD []

/-- Check mode, per-file part (non-bundle target). The code reads
    `if check && bundle {stage} else if check && !exclude_check {compare} else {write}`: a `$std`
    file falls into the *write* arm, so `--check` writes `$std` outputs (and maps). -/
def checkFiles (maps : Bool) : List BFile → FS → Bool → Nat → Bool × FS × Nat
  | [], fs, pass, w => (pass, fs, w)
  | f :: fl, fs, pass, w =>
    if f.std then
      let r1 := writeIfChanged fs f.dst f.text
      if maps then
        let r2 := writeIfChanged r1.1 f.map f.mapText
        checkFiles maps fl r2.1 pass (count r2.2 (count r1.2 w))
      else checkFiles maps fl r1.1 pass (count r1.2 w)
    else checkFiles maps fl fs (pass && readOrEmpty fs f.dst == f.text) w

/-- `veryl build --check`: (passes, filesystem afterwards, number of writes). Per file
    `output != emitter.as_str()` unless `$std`; a bundle is compared as a whole (everything is
    staged in a temporary directory); maps of project files and the filelist are never looked at. -/
def buildCheckRun (c : BCfg) (files : List BFile) (fs : FS) : Bool × FS × Nat :=
  match c.bundle with
  | none => checkFiles c.maps files fs true 0
  | some b => (readOrEmpty fs b == c.bundleText, fs, 0)

def buildCheck (c : BCfg) (files : List BFile) (fs : FS) : Bool := (buildCheckRun c files fs).1

end VerylModel.CheckModes
