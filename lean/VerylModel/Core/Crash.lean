import VerylModel.Core.Incremental
/-
M-Crash: one `veryl build|check` as the LIST of filesystem steps the code performs, in the order it
performs them, on a filesystem of (content, mtime) cells; a crash executes a prefix of that list;
damage replaces a file under `.build` by arbitrary content or deletes it; the next build decides
hit/miss from what it finds.

Modelled on (read on the pinned tree):
* `veryl/src/utils.rs::write_file_if_changed` — read + compare, then `open(O_CREAT|O_TRUNC)`,
  `write_all` IN PLACE (`OutMode.inPlace`; `OutMode.atomic` is the proposed repair).
* `path/src/lib.rs::atomic_write` — `NamedTempFile::new_in(dir)`, `write_all`, `fchmod 0644`,
  `persist` = `rename(tmp, path)`.
* `cache/src/lib.rs` — `open_with_lock` (unreadable / unparsable / other-key manifest ⇒ empty),
  `read_blob` (the file stem must equal `content_hash(bytes)`, else the file is REMOVED and the read
  fails; then strip `BLOB_MAGIC`, `split_first_chunk::<4>`, version compare — commit 7005a14;
  `readBlobOld` is the code before it), `write_blob` (`if !path.exists() { atomic_write }`), `save`
  (skip-write shortcut, manifest by `atomic_write`, then `gc`).
* `veryl/src/incremental.rs` — `open` (via `Incremental.missSet`), `dst_is_stale` (recorded in
  `generated_files` ∧ `dst.exists()` ∧ `src.modified() <= stamp`; the `.sv.map` is never looked at),
  `try_restore` (load / decode / restore failure ⇒ the file is added to the miss set, no dependents;
  since commit 1f0da8d also when the entry names a diagnostics blob that cannot be loaded or decoded —
  `restoreOkOld`/`replayedOld` are the code before it).
* `veryl/src/cmd_build.rs` + `pipeline.rs` + `main.rs` — order: pass-1 loop (`capture` ⇒ fragment
  blobs), emit loop (`.sv` then `.sv.map` per missed file), filelist, `Incremental::save`
  (diagnostics blobs, manifest, gc), and last `metadata.save_build_info()` = `fs::write` IN PLACE.
  `check` performs the blob and manifest steps only.
* `metadata/src/metadata.rs::load` — an unreadable `info.toml` is ignored (empty `generated_files`).

What a file *is* to its only reader: a `.sv`, `.sv.map`, filelist or blob is raw bytes; the manifest
is either something `toml` parses to a `Man` or not; `info.toml` likewise (`Content`).  The toml
round trip and BLAKE3 naming are trusted (C29); the analyzer, the fragment encoder and the
fragment decoder are opaque (`Env`).  One `write` call delivers its whole buffer (observed with
strace for every file of the generated projects); `writeChunk` lists allow several.
No imports beyond `Core/Incremental` (linked into `vmodel`).
-/
namespace VerylModel.Crash
open VerylModel.Incremental

abbrev Bytes := List Nat

inductive Path
  | sv (f : File)        -- emitted SystemVerilog of source `f` (`path.dst`)
  | map (f : File)       -- its source map (`path.map`)
  | filelist
  | blob (n : Nat)       -- `.build/cache/fragments/xx/<name>.frag`
  | manifest             -- `.build/cache/manifest.toml`
  | info                 -- `.build/info.toml`
  | lock (i : Nat)       -- `.build/lock`, `.build/cache/lock`
  | tmp (k : Nat)        -- a `NamedTempFile`
deriving DecidableEq, Repr

def Path.isTmp : Path → Bool
  | .tmp _ => true
  | _ => false

/-- The parsed manifest: global key, `files` (as in `Core/Incremental`), and the blob names the
    entries point to (`fragment`, `diagnostics`). -/
structure Man where
  key : Nat
  files : List (File × Entry)
  blobOf : List (File × Nat)
  diagOf : List (File × Nat)
deriving DecidableEq, Repr

inductive Content
  | raw (b : Bytes)
  | man (m : Man)                      -- bytes that `toml::from_str::<Manifest>` accepts, giving `m`
  | inf (g : List (File × Nat))        -- bytes that parse as `BuildInfo`: `.sv` of file ↦ stamp
deriving DecidableEq, Repr

/-- Appending a `write` to a file: the first write into a just-truncated file gives that content. -/
def Content.append : Content → Content → Content
  | .raw a, .raw b => .raw (a ++ b)
  | .raw [], c => c
  | c, _ => c

structure Cell where
  c : Content
  mt : Nat               -- mtime
deriving DecidableEq, Repr

def FS := Path → Option Cell

def emptyFS : FS := fun _ => none

def FS.set (fs : FS) (p : Path) (v : Option Cell) : FS := fun q => if q = p then v else fs q

def content (c : Option Cell) : Option Content := c.map (·.c)

inductive Step
  | openTrunc (p : Path)                  -- open(O_WRONLY|O_CREAT|O_TRUNC)
  | writeChunk (p : Path) (c : Content)   -- write(fd, …)
  | createTmp (k : Nat)                   -- open(O_RDWR|O_CREAT|O_EXCL) of a fresh temp name
  | chmodTmp (k : Nat)                    -- fchmod(fd, 0644)
  | renameTmp (k : Nat) (p : Path)        -- rename(tmp, p)
  | unlink (p : Path)
deriving DecidableEq, Repr

/-- One step at logical time `now` (the clock of the running build). -/
def exec (now : Nat) (fs : FS) : Step → FS
  | .openTrunc p => fs.set p (some ⟨.raw [], now⟩)
  | .writeChunk p c =>
    match fs p with
    | some old => fs.set p (some ⟨old.c.append c, now⟩)
    | none => fs
  | .createTmp k => fs.set (.tmp k) (some ⟨.raw [], now⟩)
  | .chmodTmp _ => fs
  | .renameTmp k p =>
    match fs (.tmp k) with
    | some cell => (fs.set p (some cell)).set (.tmp k) none
    | none => fs
  | .unlink p => fs.set p none

def run (now : Nat) (fs : FS) (l : List Step) : FS := l.foldl (exec now) fs

/-- The process dies after `n` steps. -/
def crash (now : Nat) (fs : FS) (l : List Step) (n : Nat) : FS := run now fs (l.take n)

/-- Does the step change what is at `p`? -/
def Step.touches : Step → Path → Bool
  | .openTrunc q, p => decide (q = p)
  | .writeChunk q _, p => decide (q = p)
  | .createTmp k, p => decide (Path.tmp k = p)
  | .chmodTmp _, _ => false
  | .renameTmp k q, p => decide (q = p) || decide (Path.tmp k = p)
  | .unlink q, p => decide (q = p)

/-! ### The two ways a file is written -/

def joinC (cs : List Content) : Content := cs.foldl Content.append (.raw [])

/-- `veryl_path::atomic_write`. -/
def atomicWrite (k : Nat) (p : Path) (cs : List Content) : List Step :=
  (.createTmp k :: cs.map (.writeChunk (.tmp k))) ++ [.chmodTmp k, .renameTmp k p]

/-- `OpenOptions::new().create(true).write(true).truncate(true)` + `write_all`; also `fs::write`. -/
def inPlaceWrite (p : Path) (cs : List Content) : List Step :=
  .openTrunc p :: cs.map (.writeChunk p)

inductive OutMode
  | inPlace      -- the code
  | atomic       -- `write_file_if_changed` through `atomic_write`
deriving DecidableEq, Repr

inductive Block
  | atomic (k : Nat) (p : Path) (cs : List Content)
  | inPlace (p : Path) (cs : List Content)
  | unlink (p : Path)

def Block.steps : Block → List Step
  | .atomic k p cs => atomicWrite k p cs
  | .inPlace p cs => inPlaceWrite p cs
  | .unlink p => [.unlink p]

/-- The real (non-temp) path a block is about. -/
def Block.target : Block → Path
  | .atomic _ p _ => p
  | .inPlace p _ => p
  | .unlink p => p

def stepsOf (bs : List Block) : List Step := bs.flatMap Block.steps

def writeFile (mode : OutMode) (p : Path) (d : Bytes) : Block :=
  match mode with
  | .inPlace => .inPlace p [.raw d]
  | .atomic => .atomic 0 p [.raw d]

/-! ### What the next run reads -/

def lookupNat (m : List (File × Nat)) (f : File) : Option Nat :=
  match m with
  | [] => none
  | (k, v) :: rest => if k = f then some v else lookupNat rest f

def emptyMan (key : Nat) : Man := { key := key, files := [], blobOf := [], diagOf := [] }

/-- `Store::open_with_lock`: absent, unparsable or other-key manifest ⇒ no entries. -/
def openMan (key : Nat) (fs : FS) : Man :=
  match fs .manifest with
  | some ⟨.man m, _⟩ => if m.key = key then m else emptyMan key
  | _ => emptyMan key

/-- `on_disk_current`. -/
def onDiskCurrent (key : Nat) (fs : FS) : Bool :=
  match fs .manifest with
  | some ⟨.man m, _⟩ => decide (m.key = key)
  | _ => false

/-- `metadata.build_info.generated_files.get(&path.dst)` (`Metadata::load` ignores a bad file). -/
def stampOf (fs : FS) (f : File) : Option Nat :=
  match fs .info with
  | some ⟨.inf g, _⟩ => lookupNat g f
  | _ => none

def oldInfo (fs : FS) : List (File × Nat) :=
  match fs .info with
  | some ⟨.inf g, _⟩ => g
  | _ => []

inductive Policy
  | code       -- `dst_is_stale` as it is
  | fixed      -- additionally: the `.sv` and the `.sv.map` exist and are not newer than the stamp
deriving DecidableEq, Repr

/-- `¬ dst_is_stale`. -/
def fresh (pol : Policy) (fs : FS) (mtime : File → Nat) (f : File) : Bool :=
  match stampOf fs f with
  | none => false
  | some st =>
    match fs (.sv f) with
    | none => false
    | some o =>
      !(decide (st < mtime f)) &&
      (match pol with
       | .code => true
       | .fixed =>
         !(decide (st < o.mt)) &&
         (match fs (.map f) with
          | none => false
          | some m => !(decide (st < m.mt))))

/-- `Store::read_blob` before commit 7005a14: magic and version only. -/
def readBlobOld (magic ver : Bytes) (d : Bytes) : Option Bytes :=
  if magic.isPrefixOf d then
    let rest := d.drop magic.length
    if rest.length < 4 then none
    else if rest.take 4 = ver then some (rest.drop 4) else none
  else none

/-- `Store::read_blob` on the bytes `d` of the file named `n`: the name must be the content hash of
    the bytes (`name` = `content_hash`, abstract), then magic and version. -/
def readBlob (name : Bytes → Nat) (magic ver : Bytes) (n : Nat) (d : Bytes) : Option Bytes :=
  if name d = n then readBlobOld magic ver d else none

/-- The opaque parts of one run. -/
structure Env where
  an : World → File → Bytes          -- emitted `.sv`
  anMap : World → File → Bytes       -- emitted `.sv.map`
  flist : World → Bytes
  frag : World → File → Bytes        -- `Fragment::to_bytes` of the captured pass-1 state
  diag : World → File → Option Bytes -- `capture_diagnostics` of a file with warnings
  cach : World → File → Bool
  deps : World → File → List File
  decode : Bytes → Bool              -- `Fragment::from_bytes` and `fragment_cache::restore` succeed
  decodeDiag : Bytes → Bool := fun _ => true   -- `fragment_cache::restore_diagnostics` succeeds
  magic : Bytes
  ver : Bytes
  key : Nat
  name : Bytes → Nat                 -- `content_hash`

/-- `Store::load` / `load_diagnostics`: `fs::read` + `read_blob`. -/
def loadBlob (E : Env) (fs : FS) (n : Nat) : Option Bytes :=
  match fs (.blob n) with
  | some ⟨.raw d, _⟩ => readBlob E.name E.magic E.ver n d
  | _ => none

def loadBlobOld (E : Env) (fs : FS) (n : Nat) : Option Bytes :=
  match fs (.blob n) with
  | some ⟨.raw d, _⟩ => readBlobOld E.magic E.ver d
  | _ => none

/-- the diagnostics part of `try_restore`: an entry that names a diagnostics blob needs it loadable
    and decodable -/
def diagOk (E : Env) (m : Man) (fs : FS) (f : File) : Bool :=
  match lookupNat m.diagOf f with
  | none => true
  | some k =>
    match loadBlob E fs k with
    | some pl => E.decodeDiag pl
    | none => false

/-- `try_restore` succeeds for `f`. -/
def restoreOk (E : Env) (m : Man) (fs : FS) (f : File) : Bool :=
  match lookupNat m.blobOf f with
  | none => false
  | some n =>
    match loadBlob E fs n with
    | some pl => diagOk E m fs f && E.decode pl
    | none => false

/-- `try_restore` before commits 7005a14 and 1f0da8d. -/
def restoreOkOld (E : Env) (m : Man) (fs : FS) (f : File) : Bool :=
  match lookupNat m.blobOf f with
  | none => false
  | some n =>
    match loadBlobOld E fs n with
    | some pl => E.decode pl
    | none => false

/-- Does `read_blob` remove the file named `n`?  (It exists and its bytes do not hash to `n`.) -/
def purges (E : Env) (fs : FS) (n : Nat) : Bool :=
  match fs (.blob n) with
  | none => false
  | some ⟨.raw d, _⟩ => !(decide (E.name d = n))
  | some _ => true

/-- The blobs `try_restore` of `f` removes: the fragment blob if damaged; the diagnostics blob if the
    fragment loaded and that one is damaged. -/
def purgeOf (E : Env) (m : Man) (fs : FS) (f : File) : List Nat :=
  match lookupNat m.blobOf f with
  | none => []
  | some n =>
    if purges E fs n then [n]
    else match loadBlob E fs n, lookupNat m.diagOf f with
      | some _, some k => if purges E fs k then [k] else []
      | _, _ => []

/-- `Incremental::open`'s miss set, then the files `try_restore` gives up on. -/
def missFinal (pol : Policy) (E : Env) (w : World) (mtime : File → Nat) (emit : Bool) (fs : FS) : List File :=
  let m := openMan E.key fs
  let ms := missSet m.files w.hash (fresh pol fs mtime) emit w.files
  ms ++ w.files.filter (fun f => !ms.contains f && !restoreOk E m fs f)

def emitted (pol : Policy) (E : Env) (w : World) (mtime : File → Nat) (emit : Bool) (fs : FS) : List File :=
  w.files.filter (fun f => (missFinal pol E w mtime emit fs).contains f)

/-! ### The plan of one run: which writes happen, in order -/

/-- What the pass-1 loop does to the store for one file: `try_restore` removing a damaged blob,
    `capture` writing a fragment blob. -/
inductive P1
  | purge (n : Nat)
  | blob (n : Nat) (d : Bytes)
deriving DecidableEq, Repr

def P1.block : P1 → Block
  | .purge n => .unlink (.blob n)
  | .blob n d => .atomic n (.blob n) [.raw d]

structure Plan where
  pass1 : List P1                       -- pass-1 loop, in path order
  outs : List (Path × Bytes)            -- `.sv` / `.sv.map` rewritten by the emit loop
  filelist : Option Bytes
  diagBlobs : List (Nat × Bytes)
  manifest : Option Man                 -- `none`: `save` took its skip-write shortcut
  gc : List Nat
  info : Option (List (File × Nat))     -- `none` for `check`

/-- `.build/lock`, `.build/cache/lock`, then the pass-1 loop's fragment blobs. -/
def Plan.pre0 (pl : Plan) : List Block :=
  [.inPlace (.lock 0) [], .inPlace (.lock 1) []] ++
  pl.pass1.map P1.block

/-- the emit loop -/
def Plan.outBlocks (mode : OutMode) (pl : Plan) : List Block :=
  pl.outs.map (fun o => writeFile mode o.1 o.2)

/-- filelist, then `Incremental::save`'s diagnostics blobs -/
def Plan.pre1 (mode : OutMode) (pl : Plan) : List Block :=
  (match pl.filelist with | none => [] | some d => [writeFile mode .filelist d]) ++
  pl.diagBlobs.map (fun b => .atomic b.1 (.blob b.1) [.raw b.2])

def Plan.pre (mode : OutMode) (pl : Plan) : List Block :=
  pl.pre0 ++ pl.outBlocks mode ++ pl.pre1 mode

def Plan.mid (pl : Plan) : List Block :=
  match pl.manifest with | none => [] | some m => [.atomic 1 .manifest [.man m]]

def Plan.post (pl : Plan) : List Block :=
  pl.gc.map (fun n => .unlink (.blob n)) ++
  (match pl.info with | none => [] | some g => [.inPlace .info [.inf g]])

def Plan.blocks (mode : OutMode) (pl : Plan) : List Block := pl.pre mode ++ pl.mid ++ pl.post

def Plan.steps (mode : OutMode) (pl : Plan) : List Step := stepsOf (pl.blocks mode)

/-- `write_file_if_changed`: nothing happens when the file already holds the data. -/
def changed (fs : FS) (p : Path) (d : Bytes) : List (Path × Bytes) :=
  if content (fs p) = some (.raw d) then [] else [(p, d)]

/-- `path.exists()` during the run: written earlier in this run, or there at the start and not removed. -/
def blobExists (fs : FS) (gone seen : List Nat) (n : Nat) : Bool :=
  seen.contains n || ((fs (.blob n)).isSome && !gone.contains n)

/-- `write_blob` for a list of (name, data): `if !path.exists() { atomic_write }`. -/
def newBlobs (fs : FS) (gone : List Nat) : List (Nat × Bytes) → List Nat → List (Nat × Bytes)
  | [], _ => []
  | (n, d) :: rest, seen =>
    if blobExists fs gone seen n then newBlobs fs gone rest seen
    else (n, d) :: newBlobs fs gone rest (n :: seen)

def blobData (E : Env) (pl : Bytes) : Bytes := E.magic ++ E.ver ++ pl

def newManifest (pol : Policy) (E : Env) (w : World) (mtime : File → Nat) (emit : Bool) (fs : FS) : Man :=
  let m := openMan E.key fs
  let miss := missFinal pol E w mtime emit fs
  { key := E.key
    files := saveManifest w (E.cach w) (E.deps w)
    blobOf := w.files.filterMap (fun f =>
      if miss.contains f then
        (if E.cach w f then some (f, E.name (blobData E (E.frag w f))) else none)
      else (lookupNat m.blobOf f).map (fun n => (f, n)))
    diagOf := w.files.filterMap (fun f =>
      if miss.contains f then
        (if E.cach w f then (E.diag w f).map (fun d => (f, E.name (blobData E d))) else none)
      else (lookupNat m.diagOf f).map (fun n => (f, n))) }

def newInfo (em : List File) (now : Nat) (fs : FS) : List (File × Nat) :=
  em.map (fun f => (f, now)) ++ oldInfo fs

/-- The pass-1 loop over the paths: a file outside `Incremental::open`'s miss set goes through
    `try_restore` (which may remove damaged blobs); a file that is (now) a miss is captured. -/
def pass1Items (E : Env) (w : World) (fs : FS) (m : Man) (ms missF : List File) :
    List File → (gone seen : List Nat) → List P1
  | [], _, _ => []
  | f :: rest, gone, seen =>
    let pur := if ms.contains f then [] else purgeOf E m fs f
    let gone' := pur ++ gone
    let data := E.magic ++ E.ver ++ E.frag w f
    let cap := if missF.contains f && E.cach w f && !blobExists fs gone' seen (E.name data)
               then [(E.name data, data)] else []
    pur.map P1.purge ++ cap.map (fun b => P1.blob b.1 b.2) ++
      pass1Items E w fs m ms missF rest gone' (cap.map (·.1) ++ seen)

def P1.purged : List P1 → List Nat
  | [] => []
  | .purge n :: r => n :: P1.purged r
  | .blob _ _ :: r => P1.purged r

def P1.written : List P1 → List Nat
  | [] => []
  | .purge _ :: r => P1.written r
  | .blob n _ :: r => n :: P1.written r

def mkPlan (pol : Policy) (E : Env) (w : World) (mtime : File → Nat) (now : Nat) (emit : Bool) (fs : FS) : Plan :=
  let m := openMan E.key fs
  let ms := missSet m.files w.hash (fresh pol fs mtime) emit w.files
  let missF := missFinal pol E w mtime emit fs
  let em := emitted pol E w mtime emit fs
  let nm := newManifest pol E w mtime emit fs
  let p1 := pass1Items E w fs m ms missF w.files [] []
  let db := newBlobs fs (P1.purged p1) ((em.filter (E.cach w)).filterMap (fun f =>
              (E.diag w f).map (fun d => (E.name (blobData E d), blobData E d)))) (P1.written p1)
  let keepNames := nm.blobOf.map (·.2) ++ nm.diagOf.map (·.2)
  let save := !(onDiskCurrent E.key fs && decide (m = nm))
  { pass1 := p1
    outs := if emit then em.flatMap (fun f => changed fs (.sv f) (E.an w f) ++ changed fs (.map f) (E.anMap w f)) else []
    filelist := if emit then (match changed fs .filelist (E.flist w) with | [] => none | _ => some (E.flist w)) else none
    diagBlobs := db
    manifest := if save then some nm else none
    gc := if save then ((m.blobOf.map (·.2) ++ m.diagOf.map (·.2)).filter (fun n => !keepNames.contains n)).eraseDups else []
    info := if emit then some (newInfo em now fs) else none }

/-- A complete run of `veryl build` (`emit = true`) or `veryl check` (`emit = false`). -/
def build (pol : Policy) (mode : OutMode) (E : Env) (w : World) (mtime : File → Nat) (now : Nat) (emit : Bool) (fs : FS) : FS :=
  run now fs ((mkPlan pol E w mtime now emit fs).steps mode)

/-! ### Vocabulary of the recovery statements -/

/-- Both emitted files of source `f` are complete and are what a clean run over `w` emits. -/
def OutputsOk (E : Env) (w : World) (fs : FS) (f : File) : Prop :=
  content (fs (.sv f)) = some (.raw (E.an w f)) ∧ content (fs (.map f)) = some (.raw (E.anMap w f))

/-- The analyzer as C04 sees it. -/
def an' (E : Env) : World → File → Bytes × Bytes := fun w f => (E.an w f, E.anMap w f)

/-- The manifest the next run will open was saved by a successful run over world `wm`
    (`wm` with no files: absent / unreadable / other key). -/
def ManOf (E : Env) (fs : FS) (wm : World) : Prop :=
  (openMan E.key fs).files = saveManifest wm (E.cach wm) (E.deps wm)

/-- The state invariant recovery needs: whenever `dst_is_stale` can say "fresh" for a file recorded
    in the manifest (and `H`: its source is what the manifest recorded), its outputs on disk are the
    recorded world's complete outputs. -/
def Good (pol : Policy) (E : Env) (fs : FS) (wm : World) (H : File → Prop) : Prop :=
  ManOf E fs wm ∧ ∀ f, f ∈ wm.files → H f → ∀ mt, fresh pol fs mt f = true → OutputsOk E wm fs f

def outData (E : Env) (w : World) : Path → Bytes
  | .sv f => E.an w f
  | .map f => E.anMap w f
  | _ => []

/-! ### Cached diagnostics (`try_restore`) -/

/-- What a restored file replays (`restoreOk` has already made sure the blob loads and decodes). -/
def replayed (E : Env) (decodeDiag : Bytes → Option (List Nat)) (m : Man) (fs : FS) (f : File) : List Nat :=
  match lookupNat m.diagOf f with
  | none => []
  | some n =>
    match loadBlob E fs n with
    | none => []
    | some pl => (decodeDiag pl).getD []

/-- Before commit 1f0da8d: `load_diagnostics` ⇒ `restore_diagnostics`; any failure ⇒ nothing (only a
    `debug!` line), and the file stayed a hit. -/
def replayedOld (E : Env) (decodeDiag : Bytes → Option (List Nat)) (m : Man) (fs : FS) (f : File) : List Nat :=
  match lookupNat m.diagOf f with
  | none => []
  | some n =>
    match loadBlobOld E fs n with
    | none => []
    | some pl => (decodeDiag pl).getD []

/-! ### Abstract event word (correspondence with `strace`) -/

def Path.tag : Path → String
  | .sv f => s!"sv{f}"
  | .map f => s!"map{f}"
  | .filelist => "flist"
  | .blob n => s!"blob{n}"
  | .manifest => "manifest"
  | .info => "info"
  | .lock i => s!"lock{i}"
  | .tmp _ => "tmp"

/-- `T:` open+truncate, `W:` write, `C:` create temp, `M:` fchmod, `R:` rename onto, `U:` unlink.
    For temp files the tag names the file the temp is renamed to (`blockWord`). -/
def blockWord : Block → List String
  | .atomic _ p cs => [s!"C:{p.tag}"] ++ cs.map (fun _ => s!"W:tmp.{p.tag}") ++ [s!"M:{p.tag}", s!"R:{p.tag}"]
  | .inPlace p cs => [s!"T:{p.tag}"] ++ cs.map (fun _ => s!"W:{p.tag}")
  | .unlink p => [s!"U:{p.tag}"]

end VerylModel.Crash
