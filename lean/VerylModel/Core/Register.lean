/-
M-Register: executable model of symbol registration during pass 1
(`crates/analyzer/src/symbol_table.rs`, `SymbolTable::insert`), as driven file by file from
`crates/veryl/src/pipeline.rs::analyze`.

`insert` looks at the symbols already registered under the same (canonical) name; the new symbol
is refused (`None`, later reported as a duplicated identifier) when one of them lives in the same
namespace and their `define_context`s are not mutually exclusive; otherwise it is appended.

Modelled, not verified (trusted base of C24):
* `DefineContext::exclusive` is an arbitrary relation `excl` (parameter);
* `name_table` (a `HashMap` name ↦ `Vec<SymbolId>`) is flattened into one insertion-ordered list:
  scanning the entries of one name = scanning the whole list for that name;
* everything else pass 1 does with a symbol (scope tree mirror, namespace index) is a function of
  the same insertions.
No imports: this file is linked into the `vmodel` driver.
-/
namespace VerylModel.Register

structure Sym where
  ns : List Nat        -- `namespace.paths`
  name : Nat           -- `canonical_str_id(token.text)`
  defctx : Nat         -- `namespace.define_context` (abstract)
  payload : Nat        -- kind, token, … (whatever else the symbol carries)
deriving DecidableEq, Repr, Inhabited

/-- The conflict test of `SymbolTable::insert`. -/
def conflict (excl : Nat → Nat → Bool) (s item : Sym) : Bool :=
  s.name == item.name && (s.ns == item.ns && !(excl s.defctx item.defctx))

/-- `DefineContext::exclusive` on the `pos` / `neg` identifier sets of two contexts
    (`!self.pos.is_disjoint(&value.neg) || !self.neg.is_disjoint(&value.pos)`, namespace.rs). -/
def exclusiveSets (pos neg pos' neg' : List Nat) : Bool :=
  pos.any (fun x => neg'.contains x) || neg.any (fun x => pos'.contains x)

/-- `SymbolTable::insert`: refused (table unchanged) on conflict, else appended. -/
def insertSym (excl : Nat → Nat → Bool) (tbl : List Sym) (s : Sym) : List Sym :=
  if tbl.any (conflict excl s) then tbl else tbl ++ [s]

/-- pass 1 of one file: its symbols in source order. -/
def registerFile (excl : Nat → Nat → Bool) (tbl : List Sym) (file : List Sym) : List Sym :=
  file.foldl (insertSym excl) tbl

/-- pass 1 of the project: files in the order given. -/
def registerAll (excl : Nat → Nat → Bool) (files : List (List Sym)) : List Sym :=
  files.foldl (registerFile excl) []

/-- The final `(namespace, name) ↦ symbol` map. -/
def find (tbl : List Sym) (ns : List Nat) (name : Nat) : Option Sym :=
  tbl.find? (fun s => s.ns == ns && s.name == name)

/-- No two symbols of the project conflict (error-free project: no duplicated identifier). -/
def NoConflict (excl : Nat → Nat → Bool) (l : List Sym) : Prop :=
  l.Pairwise (fun a b => conflict excl a b = false ∧ conflict excl b a = false)

/-- Stronger: all `(namespace, name)` keys of the project are distinct. -/
def KeyDisjoint (l : List Sym) : Prop :=
  l.Pairwise (fun a b => ¬ (a.ns = b.ns ∧ a.name = b.name))

instance (l : List Sym) : Decidable (KeyDisjoint l) := by unfold KeyDisjoint; exact inferInstance

end VerylModel.Register
