import VerylModel.Core.SV
/-
M-Ctx + M-Sim (Veryl side) + `emitModel` for C01.

* `VRaw`/`VStmt`/`VDesign`: the Veryl surface subset the `emit` harness domain generates
  (operator chains flat as written, parentheses kept).
* `precClimb` = `conv/expression.rs::prec_climb` (`SV.build true`: `**` right-associative).
* `gather`/`annot` = `Expression::gather_context`/`apply_context` + `Op::eval_context_*`
  (analyzer/src/ir/expression.rs, op.rs): every node gets the `(width, signed)` it is evaluated at.
* `evalA` = the interpreter (`simulator/src/ir/expression.rs::Expression::eval` over
  `Op::eval_value_unary/binary`, 2-state): values carry their own width and sign flag, every
  operator first `expand`s its operands to the annotated width.  The per-operator arithmetic is
  shared with M-SV (`SV.arith`, `SV.shift`, …): that the Rust operators compute these functions at
  a given `(width, signed)` is C17/C18, not repeated here.
* `Sim`: `Simulator::step` / `step_reset` on the lowered `always_ff` (declaration.rs): the clock
  event runs `if rst {reset branch} else {body}` with the polarity folded into the branch order, an
  asynchronous reset also runs the reset branch as the reset event of `step_reset`; the write log is
  committed after all event statements.
* `emitModel` = `veryl-emitter` on the subset: tokens copied, `<: >:` → `< >`,
  `if c ? a : b` → `((c) ? (a) : (b))`, `x as N` → `N'(x)`, `as iN/uN` → `byte'…longint'`
  (+ `unsigned'`), `{a repeat n}` → `{n{a}}`, `assign` → `always_comb`, `always_ff` sensitivity
  list from ClockType/ResetType (or the explicit port type), `if_reset` → `if (rst)`/`if (!rst)`.
No imports beyond M-SV: linked into `vmodel`.
-/
namespace VerylModel.Emit
open VerylModel.SV

/-! ## Syntax -/

mutual
inductive VRaw
  | var (id : Nat)
  | bitsel (id i : Nat)
  | partsel (id hi lo : Nat)
  | lit (w : Nat) (s : Bool) (v : Nat)
  | dec (v : Nat)
  | fill (b : Bool)
  | un (op : UnOp) (a : VRaw)
  | chain (first : VRaw) (rest : VRest)
  | paren (a : VRaw)
  | ifx (c a b : VRaw)
  | cat (a b : VRaw)
  | rep (n : Nat) (a : VRaw)
  | asNum (n : Nat) (a : VRaw)
  | asInt (sg : Bool) (w : Nat) (a : VRaw)
  | sysSigned (s : Bool) (a : VRaw)
inductive VRest
  | nil
  | cons (op : BinOp) (e : VRaw) (tl : VRest)
end

inductive VExpr
  | var (id : Nat)
  | bitsel (id i : Nat)
  | partsel (id hi lo : Nat)
  | lit (w : Nat) (s : Bool) (v : Nat)
  | dec (v : Nat)
  | fill (b : Bool)
  | un (op : UnOp) (a : VExpr)
  | bin (op : BinOp) (a b : VExpr)
  | ifx (c a b : VExpr)
  | cat (a b : VExpr)
  | rep (n : Nat) (a : VExpr)
  | asNum (n : Nat) (a : VExpr)
  | asInt (sg : Bool) (w : Nat) (a : VExpr)
  | sysSigned (s : Bool) (a : VExpr)
deriving Repr, Inhabited, DecidableEq

mutual
def precClimb : VRaw → VExpr
  | .var id => .var id
  | .bitsel id i => .bitsel id i
  | .partsel id hi lo => .partsel id hi lo
  | .lit w s v => .lit w s v
  | .dec v => .dec v
  | .fill b => .fill b
  | .un op a => .un op (precClimb a)
  | .chain f r => build true VExpr.bin (.dec 0) (vrestOps r) (precClimb f :: vrestExprs r)
  | .paren a => precClimb a
  | .ifx c a b => .ifx (precClimb c) (precClimb a) (precClimb b)
  | .cat a b => .cat (precClimb a) (precClimb b)
  | .rep n a => .rep n (precClimb a)
  | .asNum n a => .asNum n (precClimb a)
  | .asInt sg w a => .asInt sg w (precClimb a)
  | .sysSigned s a => .sysSigned s (precClimb a)
def vrestExprs : VRest → List VExpr
  | .nil => []
  | .cons _ e tl => precClimb e :: vrestExprs tl
def vrestOps : VRest → List BinOp
  | .nil => []
  | .cons op _ tl => op :: vrestOps tl
end

/-! ## The emitter on expressions -/

mutual
def emitRaw : VRaw → Raw
  | .var id => .var id
  | .bitsel id i => .bitsel id i
  | .partsel id hi lo => .partsel id hi lo
  | .lit w s v => .lit w s v
  | .dec v => .dec v
  | .fill b => .fill b
  | .un op a => .un op (emitRaw a)
  | .chain f r => .chain (emitRaw f) (emitRest r)
  | .paren a => .paren (emitRaw a)
  | .ifx c a b => .paren (.cond (.paren (emitRaw c)) (.paren (emitRaw a)) (.paren (emitRaw b)))
  | .cat a b => .cat (emitRaw a) (emitRaw b)
  | .rep n a => .rep n (emitRaw a)
  | .asNum n a => .sizeCast n (emitRaw a)
  | .asInt sg w a => if sg then .typeCast w (emitRaw a) else .signCast false false (.typeCast w (emitRaw a))
  | .sysSigned s a => .signCast true s (emitRaw a)
def emitRest : VRest → Rest
  | .nil => .nil
  | .cons op e tl => .cons op (emitRaw e) (emitRest tl)
end

/-- the emitter on a resolved tree (what `emitRaw` means once both sides are parsed) -/
def emitExpr : VExpr → Expr
  | .var id => .var id
  | .bitsel id i => .bitsel id i
  | .partsel id hi lo => .partsel id hi lo
  | .lit w s v => .lit w s v
  | .dec v => .dec v
  | .fill b => .fill b
  | .un op a => .un op (emitExpr a)
  | .bin op a b => .bin op (emitExpr a) (emitExpr b)
  | .ifx c a b => .cond (emitExpr c) (emitExpr a) (emitExpr b)
  | .cat a b => .cat (emitExpr a) (emitExpr b)
  | .rep n a => .rep n (emitExpr a)
  | .asNum n a => .sizeCast n (emitExpr a)
  | .asInt sg w a => if sg then .typeCast w (emitExpr a) else .signCast false (.typeCast w (emitExpr a))
  | .sysSigned s a => .signCast s (emitExpr a)

/-! ## M-Ctx: gather_context / apply_context -/

structure Ctx where
  w : Nat
  s : Bool
deriving DecidableEq, Repr, Inhabited

/-- `Expression::gather_context` (the `(width, signed)` part). -/
def gather (decls : List Decl) : VExpr → Ctx
  | .var id => let d := decls.getD id { width := 1, signed := false }; ⟨d.width, d.signed⟩
  | .bitsel id _ => ⟨1, (decls.getD id { width := 1, signed := false }).signed⟩
  | .partsel id hi lo => ⟨hi + 1 - lo, (decls.getD id { width := 1, signed := false }).signed⟩
  | .lit w s _ => ⟨w, s⟩
  | .dec _ => ⟨32, true⟩
  | .fill _ => ⟨0, true⟩
  | .un op a => if op.isReduce then ⟨1, false⟩ else gather decls a
  | .bin op a b =>
    let x := gather decls a
    let y := gather decls b
    if op.isArith then ⟨max x.w y.w, x.s && y.s⟩
    else if op.isShift || op == .pow then ⟨x.w, x.s⟩
    else if op == .eq || op == .ne || op == .land || op == .lor then ⟨1, false⟩
    else ⟨1, x.s && y.s⟩
  | .ifx _ a b =>
    let y := gather decls a
    let z := gather decls b
    ⟨max y.w z.w, y.s && z.s⟩
  | .cat a b => ⟨(gather decls a).w + (gather decls b).w, false⟩
  | .rep n a => ⟨n * (gather decls a).w, false⟩
  | .asNum n _ => ⟨n, false⟩
  | .asInt sg _ a => ⟨(gather decls a).w, sg⟩
  | .sysSigned s a => ⟨(gather decls a).w, s⟩

/-- expression with the context every node is evaluated at (`comptime.expr_context`) -/
inductive AExpr
  | var (id : Nat) (c : Ctx)
  | bitsel (id i : Nat) (c : Ctx)
  | partsel (id hi lo : Nat) (c : Ctx)
  | lit (w : Nat) (s : Bool) (v : Nat) (c : Ctx)
  | dec (v : Nat) (c : Ctx)
  | fill (b : Bool) (c : Ctx)
  | un (op : UnOp) (a : AExpr) (c : Ctx)
  | bin (op : BinOp) (a b : AExpr) (c : Ctx)
  | ifx (cnd a b : AExpr) (c : Ctx)
  | cat (a b : AExpr) (c : Ctx)
  | rep (n : Nat) (a : AExpr) (c : Ctx)
  | asNum (n : Nat) (a : AExpr) (opw : Nat) (c : Ctx)
  | asInt (sg : Bool) (w : Nat) (a : AExpr) (opw : Nat) (c : Ctx)
  | sysSigned (s : Bool) (a : AExpr) (c : Ctx)
deriving Repr, Inhabited

def AExpr.ctx : AExpr → Ctx
  | .var _ c | .bitsel _ _ c | .partsel _ _ _ c | .lit _ _ _ c | .dec _ c | .fill _ c => c
  | .un _ _ c | .bin _ _ _ c | .ifx _ _ _ c | .cat _ _ c | .rep _ _ c => c
  | .asNum _ _ _ c | .asInt _ _ _ _ c | .sysSigned _ _ c => c

/-- `$signed`/`$unsigned`: the lowering stamps the sign on the operand's top node -/
def AExpr.setSign (s : Bool) : AExpr → AExpr
  | .var id c => .var id ⟨c.w, s⟩
  | .bitsel id i c => .bitsel id i ⟨c.w, s⟩
  | .partsel id hi lo c => .partsel id hi lo ⟨c.w, s⟩
  | .lit w ls v c => .lit w ls v ⟨c.w, s⟩
  | .dec v c => .dec v ⟨c.w, s⟩
  | .fill b c => .fill b ⟨c.w, s⟩
  | .un op a c => .un op a ⟨c.w, s⟩
  | .bin op a b c => .bin op a b ⟨c.w, s⟩
  | .ifx cnd a b c => .ifx cnd a b ⟨c.w, s⟩
  | .cat a b c => .cat a b ⟨c.w, s⟩
  | .rep n a c => .rep n a ⟨c.w, s⟩
  | .asNum n a opw c => .asNum n a opw ⟨c.w, s⟩
  | .asInt sg w a opw c => .asInt sg w a opw ⟨c.w, s⟩
  | .sysSigned s' a c => .sysSigned s' a ⟨c.w, s⟩

/-- `apply_context`: push `c` to the context-determined operands; self-determined operands were
finalised with their own gathered context. -/
def annot (decls : List Decl) : VExpr → Ctx → AExpr
  | .var id, c => .var id c
  | .bitsel id i, c => .bitsel id i c
  | .partsel id hi lo, c => .partsel id hi lo c
  | .lit w s v, c => .lit w s v c
  | .dec v, c => .dec v c
  | .fill b, c => .fill b c
  | .un op a, c =>
    if op.isReduce then .un op (annot decls a (gather decls a)) c else .un op (annot decls a c) c
  | .bin op a b, c =>
    if op.isArith then .bin op (annot decls a c) (annot decls b c) c
    else if op.isShift || op == .pow then .bin op (annot decls a c) (annot decls b (gather decls b)) c
    else if op.isCmp then
      let x := gather decls a
      let y := gather decls b
      let m : Ctx := ⟨max x.w y.w, x.s && y.s⟩
      .bin op (annot decls a m) (annot decls b m) c
    else .bin op (annot decls a (gather decls a)) (annot decls b (gather decls b)) c
  | .ifx cnd a b, c => .ifx (annot decls cnd (gather decls cnd)) (annot decls a c) (annot decls b c) c
  | .cat a b, c => .cat (annot decls a (gather decls a)) (annot decls b (gather decls b)) c
  | .rep n a, c => .rep n (annot decls a (gather decls a)) c
  | .asNum n a, c =>
    let x := gather decls a
    .asNum n (annot decls a ⟨max x.w n, x.s⟩) (max x.w n) c
  | .asInt sg w a, c =>
    -- a type cast does not widen its operand: the cast width seen by `gather_context` is 0
    let x := gather decls a
    .asInt sg w (annot decls a x) x.w c
  | .sysSigned s a, c => .sysSigned s ((annot decls a (gather decls a)).setSign s) ⟨c.w, s⟩

/-! ## M-Sim, expressions: the interpreter on annotated trees -/

/-- `Value`: width, sign flag, payload (2-state) -/
structure Val where
  w : Nat
  s : Bool
  v : Nat
deriving Repr, Inhabited, DecidableEq

/-- `Value::expand(width, use_sign)`: never truncates; a width-0 fill literal replicates. -/
def expand (x : Val) (w : Nat) (us : Bool) : Val :=
  if x.w ≥ w ∧ x.w ≠ 0 then x
  else if x.w = 0 then ⟨w, false, if x.v ≠ 0 then 2 ^ w - 1 else 0⟩
  else ⟨w, us && x.s, ext x.v x.w w (x.s && us)⟩

/-- a 1-bit result `expand`ed to the context width (`ret.expand(width, false)`) -/
def bitVal (b : Bool) (w : Nat) : Val := ⟨max w 1, false, b2n b⟩

def evalUn (op : UnOp) (x : Val) (c : Ctx) : Val :=
  match op with
  | .plus => expand x c.w c.s
  | .neg => let e := expand x c.w c.s; ⟨e.w, e.s, (2 ^ c.w - e.v % 2 ^ c.w) % 2 ^ c.w⟩
  | .bnot => let e := expand x c.w c.s; ⟨e.w, e.s, 2 ^ c.w - 1 - e.v % 2 ^ c.w⟩
  | _ => ⟨max c.w 1, false, reduce op x.v x.w⟩

/-- `Op::eval_value_binary` (2-state; `none` = x: division by zero / zero to a negative power);
results are masked to the width as the Rust does (`payload &= mask`) -/
def evalBin (op : BinOp) (x y : Val) (c : Ctx) : Option Val :=
  if op.isArith then
    let a := expand x c.w c.s
    let b := expand y c.w c.s
    let rs := match op with
      | .band | .bor | .bxor | .bxnor => false
      | _ => c.s
    (arith op (a.v % 2 ^ c.w) (b.v % 2 ^ c.w) c.w c.s).map fun r => ⟨c.w, rs, r % 2 ^ c.w⟩
  else if op.isShift then
    let a := expand x c.w c.s
    some ⟨c.w, (match op with | .shl | .shr => false | _ => a.s), shift op (a.v % 2 ^ c.w) y.v c.w c.s % 2 ^ c.w⟩
  else if op == .pow then
    let a := expand x c.w c.s
    (power (a.v % 2 ^ c.w) c.w a.s y.v y.w y.s).map fun r => ⟨c.w, a.s, r % 2 ^ c.w⟩
  else if op == .eq || op == .ne then
    let m := max x.w y.w
    let es := x.s && y.s
    let a := expand x m es
    let b := expand y m es
    some (bitVal (cmp op a.v b.v m es) c.w)
  else if op.isCmp then
    let m := max x.w y.w
    let a := expand x m c.s
    let b := expand y m c.s
    some (bitVal (cmp op a.v b.v m c.s) c.w)
  else
    some (bitVal (if op == .land then (x.v ≠ 0 && y.v ≠ 0) else (x.v ≠ 0 || y.v ≠ 0)) c.w)

def catVal (x y : Val) : Val := ⟨x.w + y.w, false, x.v * 2 ^ y.w + y.v % 2 ^ y.w⟩

def repVal (x : Val) : Nat → Val
  | 0 => ⟨0, false, 0⟩
  | n + 1 => catVal (repVal x n) x

/-- `ProtoExpression::width()`: the width the lowered node reports (value literals and variables:
their own; operators: the context width) -/
def AExpr.protoWidth (decls : List Decl) : AExpr → Nat
  | .var id _ => (decls.getD id { width := 1, signed := false }).width
  | .bitsel _ _ _ => 1
  | .partsel _ hi lo _ => hi + 1 - lo
  | .lit w _ _ _ => w
  | .dec _ _ => 32
  | .fill _ _ => 0
  | .un _ _ c | .bin _ _ _ c | .ifx _ _ _ c => c.w
  | .cat a b _ => a.protoWidth decls + b.protoWidth decls
  | .rep n a _ => n * a.protoWidth decls
  | .asNum _ a _ _ => a.protoWidth decls
  | .asInt _ _ a _ _ => a.protoWidth decls
  | .sysSigned _ a _ => a.protoWidth decls

/-- the narrowing / reinterpreting cast of `Conv<&air::Expression>` (`Op::As` arm): transparent
unless the operand was sized wider than the cast, or the sign flag flips at equal width under a
wider context. -/
def castVal (cw : Nat) (tsigned : Bool) (opw : Nat) (pw : Nat) (psigned : Bool) (v : Val) (c : Ctx) : Val :=
  let reinterpret := c.w > cw && opw ≤ cw && pw == cw && psigned != tsigned
  if cw > 0 && (opw > cw || reinterpret) then
    let nw := max c.w cw
    let r := (if v.w > nw then v.v % 2 ^ nw else (expand v nw false).v) % 2 ^ cw
    if tsigned && c.w > cw then
      let sgnb := 2 ^ (cw - 1)
      ⟨nw, false, ((r ^^^ sgnb) + 2 ^ nw - sgnb) % 2 ^ nw⟩
    else ⟨nw, false, r⟩
  else v

/-- the context a binary node is evaluated at: `Div/Rem`/relational/equality take their sign from
the two operand contexts (`Conv<&air::Expression>`), every other operator uses its own -/
def binCtx (op : BinOp) (a b : AExpr) (c : Ctx) : Ctx :=
  match op with
  | .div | .mod | .lt | .le | .gt | .ge | .eq | .ne => ⟨c.w, a.ctx.s && b.ctx.s⟩
  | _ => c

/-- `Expression::eval` (2-state). `vals id` = current value of variable `id`. -/
def evalA (decls : List Decl) (vals : List Nat) : AExpr → Option Val
  | .var id c =>
    let w := (decls.getD id { width := 1, signed := false }).width
    some ⟨w, c.s, vals.getD id 0 % 2 ^ w⟩
  | .bitsel id i c =>
    let w := (decls.getD id { width := 1, signed := false }).width
    some ⟨1, false, bitsOf (vals.getD id 0 % 2 ^ w) i i⟩
  | .partsel id hi lo c =>
    let w := (decls.getD id { width := 1, signed := false }).width
    some ⟨hi + 1 - lo, false, bitsOf (vals.getD id 0 % 2 ^ w) hi lo⟩
  | .lit w s v _ => some ⟨w, s, v⟩
  | .dec v _ => some ⟨32, true, v⟩
  | .fill b _ => some ⟨0, true, b2n b⟩
  | .un op a c => (evalA decls vals a).map fun x => evalUn op x c
  | .bin op a b c =>
    match evalA decls vals a, evalA decls vals b with
    | some x, some y => evalBin op x y (binCtx op a b c)
    | _, _ => none
  | .ifx cnd a b c =>
    match evalA decls vals cnd, evalA decls vals a, evalA decls vals b with
    | some cv, some x, some y =>
      let r := if cv.v ≠ 0 then x else y
      some (if r.w < c.w then expand r c.w (a.ctx.s && b.ctx.s) else r)
    | _, _, _ => none
  | .cat a b _ =>
    match evalA decls vals a, evalA decls vals b with
    | some x, some y => some (catVal x y)
    | _, _ => none
  | .rep n a _ => (evalA decls vals a).map fun x => repVal x n
  | .asNum n a opw c =>
    (evalA decls vals a).map fun v => castVal n false opw (a.protoWidth decls) a.ctx.s v c
  | .asInt sg w a opw c =>
    (evalA decls vals a).map fun v => castVal w sg opw (a.protoWidth decls) a.ctx.s v c
  | .sysSigned _ a _ => evalA decls vals a

/-- value stored by `lhs = e`: context = `max (gathered width) (lhs width)`, gathered sign;
the result is expanded by its own flag and truncated to the target. -/
def assignValV (decls : List Decl) (vals : List Nat) (lw : Nat) (e : VExpr) : Option Nat :=
  let g := gather decls e
  let c : Ctx := ⟨max g.w lw, g.s⟩
  (evalA decls vals (annot decls e c)).map fun v => (expand v (max c.w lw) c.s).v % 2 ^ lw

/-! ## Statements, design, simulator steps -/

mutual
inductive VStmt
  | skip
  | assign (l : LHS) (e : VRaw)
  | seq (a b : VStmt)
  | ite (c : VRaw) (t e : VStmt)
  | case (sel : VRaw) (arms : VArms) (dflt : VStmt)
inductive VArms
  | nil
  | cons (labels : List VRaw) (body : VStmt) (tl : VArms)
end

inductive VItem
  | assign (l : LHS) (e : VRaw)
  | comb (s : VStmt)
  /-- `always_ff [(clk, rst)] { if_reset { reset } else { body } }` (no reset: `reset = none`) -/
  | ff (explicit : Bool) (reset : Option VStmt) (body : VStmt)

inductive ClkKind | dflt | pos | neg
deriving DecidableEq, Repr
inductive RstKind | dflt | asyncHigh | asyncLow | syncHigh | syncLow
deriving DecidableEq, Repr

structure VDesign where
  decls : List Decl
  inputs : List Nat
  outputs : List Nat
  clk : Nat
  clkKind : ClkKind
  rst : Nat
  rstKind : RstKind
  items : List VItem

/-- `[build] clock_type`, `reset_type` -/
structure Cfg where
  clkEdge : Edge
  rstHigh : Bool
  rstSync : Bool
deriving DecidableEq, Repr

def clkEdgeOf (d : VDesign) (cfg : Cfg) : Edge :=
  match d.clkKind with
  | .dflt => cfg.clkEdge
  | .pos => .pos
  | .neg => .neg

def rstHighOf (d : VDesign) (cfg : Cfg) : Bool :=
  match d.rstKind with
  | .dflt => cfg.rstHigh
  | .asyncHigh | .syncHigh => true
  | .asyncLow | .syncLow => false

def rstSyncOf (d : VDesign) (cfg : Cfg) : Bool :=
  match d.rstKind with
  | .dflt => cfg.rstSync
  | .syncHigh | .syncLow => true
  | .asyncHigh | .asyncLow => false

/-- `case`: selector and item are each evaluated with their own (self-determined) context and
compared by `==` on the two values (`conv/utils.rs::case_condition`, one `==` per item) -/
def vMatchLabels (decls : List Decl) (vals : List Nat) (sel : VExpr) : List VRaw → Option Bool
  | [] => some false
  | l :: t =>
    let le := precClimb l
    match evalA decls vals (annot decls sel (gather decls sel)), evalA decls vals (annot decls le (gather decls le)) with
    | some sv, some lv =>
      match evalBin .eq sv lv ⟨1, false⟩ with
      | some v => if v.v ≠ 0 then some true else vMatchLabels decls vals sel t
      | none => none
    | _, _ => none

mutual
/-- statements of one process: in `always_comb` (`nb = false`) an assignment updates the state, in
`always_ff` it is appended to the write log. -/
def vexec (decls : List Decl) (nb : Bool) : VStmt → State × Log → Option (State × Log)
  | .skip, st => some st
  | .assign l e, (σ, log) =>
    let env : Env := { decls := decls, vals := σ }
    match assignValV decls σ (l.width env) (precClimb e) with
    | none => none
    | some x => if nb then some (σ, log ++ [(l, x)]) else some (store decls σ l x, log)
  | .seq a b, st =>
    match vexec decls nb a st with
    | none => none
    | some st' => vexec decls nb b st'
  | .ite c t e, (σ, log) =>
    let ce := precClimb c
    match evalA decls σ (annot decls ce (gather decls ce)) with
    | none => none
    | some cv => if cv.v ≠ 0 then vexec decls nb t (σ, log) else vexec decls nb e (σ, log)
  | .case sel arms dflt, (σ, log) =>
    match vexecArms decls nb (precClimb sel) arms (σ, log) with
    | none => none
    | some (some r) => some r
    | some none => vexec decls nb dflt (σ, log)
def vexecArms (decls : List Decl) (nb : Bool) (sel : VExpr) :
    VArms → State × Log → Option (Option (State × Log))
  | .nil, _ => some none
  | .cons ls body tl, (σ, log) =>
    match vMatchLabels decls σ sel ls with
    | none => none
    | some true => (vexec decls nb body (σ, log)).map some
    | some false => vexecArms decls nb sel tl (σ, log)
end

def vcombPass (decls : List Decl) : List VItem → State → Option State
  | [], σ => some σ
  | .assign l e :: t, σ =>
    match vexec decls false (.assign l e) (σ, []) with
    | none => none
    | some (σ', _) => vcombPass decls t σ'
  | .comb s :: t, σ =>
    match vexec decls false s (σ, []) with
    | none => none
    | some (σ', _) => vcombPass decls t σ'
  | .ff _ _ _ :: t, σ => vcombPass decls t σ

/-- comb settle: re-run the combinational declarations until nothing changes -/
def vsettle (d : VDesign) : Nat → State → Option State
  | 0, _ => none
  | fuel + 1, σ =>
    match vcombPass d.decls d.items σ with
    | none => none
    | some σ' => if σ' = σ then some σ else vsettle d fuel σ'

/-- clock event of one `always_ff`: `if rst {true side} else {false side}`, active-low swaps the
sides (declaration.rs) -/
def ffClock (d : VDesign) (rstHigh : Bool) (reset : Option VStmt) (body : VStmt) (σ : State) (log : Log) :
    Option (State × Log) :=
  match reset with
  | none => vexec d.decls true body (σ, log)
  | some r =>
    let level := σ.getD d.rst 0 % 2 ≠ 0
    if level == rstHigh then vexec d.decls true r (σ, log) else vexec d.decls true body (σ, log)

def clockLog (d : VDesign) (rstHigh : Bool) (σ : State) : List VItem → Log → Option Log
  | [], log => some log
  | .ff _ reset body :: t, log =>
    match ffClock d rstHigh reset body σ log with
    | none => none
    | some (_, log') => clockLog d rstHigh σ t log'
  | _ :: t, log => clockLog d rstHigh σ t log

/-- reset event: the reset branch of every `always_ff` with an asynchronous reset -/
def resetLog (d : VDesign) (σ : State) : List VItem → Log → Option Log
  | [], log => some log
  | .ff _ (some r) _ :: t, log =>
    match vexec d.decls true r (σ, log) with
    | none => none
    | some (_, log') => resetLog d σ t log'
  | _ :: t, log => resetLog d σ t log

def vfuel (d : VDesign) : Nat := d.items.length + 2

/-- `Simulator::step(clock)` followed by the comb settle that `get` performs -/
def step (d : VDesign) (cfg : Cfg) (σ : State) : Option State :=
  match vsettle d (vfuel d) σ with
  | none => none
  | some σ1 =>
    match clockLog d (rstHighOf d cfg) σ1 d.items [] with
    | none => none
    | some log => vsettle d (vfuel d) (commit d.decls σ1 log)

/-- `Simulator::step_reset(clock, reset)` -/
def stepReset (d : VDesign) (cfg : Cfg) (σ : State) : Option State :=
  let σa := setVal σ d.rst (if rstHighOf d cfg then 1 else 0)
  match vsettle d (vfuel d) σa with
  | none => none
  | some σ1 =>
    match clockLog d (rstHighOf d cfg) σ1 d.items [] with
    | none => none
    | some log1 =>
      match (if rstSyncOf d cfg then some log1 else resetLog d σ1 d.items log1) with
      | none => none
      | some log2 =>
        vsettle d (vfuel d) (setVal (commit d.decls σ1 log2) d.rst (if rstHighOf d cfg then 0 else 1))

def vsample (d : VDesign) (σ : State) : List Nat := d.outputs.map fun id => σ.getD id 0

def steps (d : VDesign) (cfg : Cfg) : State → List (List Nat) → Option (List (List Nat))
  | _, [] => some []
  | σ, s :: t =>
    match step d cfg (setInputs d.decls σ false d.inputs s) with
    | none => none
    | some σ' => (steps d cfg σ' t).map fun tr => vsample d σ' :: tr

/-- trace of the Veryl simulator: `step_reset`, then per stimulus vector `set` inputs, `step`,
`get` outputs -/
def simRun (d : VDesign) (cfg : Cfg) (stim : List (List Nat)) : Option (List (List Nat)) :=
  match stepReset d cfg (d.decls.map fun _ => 0) with
  | none => none
  | some σ => steps d cfg σ stim

/-! ## emitModel: statements, items, module -/

mutual
def emitStmt (nb : Bool) : VStmt → Stmt
  | .skip => .skip
  | .assign l e => .assign nb l (emitRaw e)
  | .seq a b => .seq (emitStmt nb a) (emitStmt nb b)
  | .ite c t e => .ite (emitRaw c) (emitStmt nb t) (emitStmt nb e)
  | .case sel arms d => .case (emitRaw sel) (emitArms nb arms) (emitStmt nb d)
def emitArms (nb : Bool) : VArms → Arms
  | .nil => .nil
  | .cons ls b tl => .cons (ls.map emitRaw) (emitStmt nb b) (emitArms nb tl)
end

/-- body of the emitted `always_ff`: `if_reset` → `if (rst)` / `if (!rst)` -/
def ffBody (rst : Nat) (high : Bool) (reset : Option VStmt) (body : VStmt) : Stmt :=
  match reset with
  | none => emitStmt true body
  | some r => .ite (if high then .var rst else .un .lnot (.var rst)) (emitStmt true r) (emitStmt true body)

/-- reset entry of the sensitivity list: only for an asynchronous reset, and (implicit form) only
when the block starts with `if_reset` -/
def ffSens (rst : Nat) (high sync explicit hasReset : Bool) : Option (Edge × Nat) :=
  if !sync && (explicit || hasReset) then some (if high then .pos else .neg, rst) else none

def emitItem (d : VDesign) (cfg : Cfg) : VItem → Item
  | .assign l e => .comb (.assign false l (emitRaw e))
  | .comb s => .comb (emitStmt false s)
  | .ff explicit reset body =>
    .ff ⟨clkEdgeOf d cfg, d.clk, ffSens d.rst (rstHighOf d cfg) (rstSyncOf d cfg) explicit reset.isSome,
         ffBody d.rst (rstHighOf d cfg) reset body⟩

def emitModel (d : VDesign) (cfg : Cfg) : Module :=
  { decls := d.decls, inputs := d.inputs, outputs := d.outputs, items := d.items.map (emitItem d cfg) }

/-- what the user of configuration `cfg` drives -/
def tbOf (d : VDesign) (cfg : Cfg) : TB :=
  { clk := d.clk, rst := d.rst, clkActive := clkEdgeOf d cfg, rstHigh := rstHighOf d cfg }

end VerylModel.Emit
