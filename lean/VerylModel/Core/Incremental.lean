/-
M-Incremental: model of crates/veryl/src/incremental.rs + the replay/dedup logic of
crates/veryl/src/pipeline.rs (`CheckError::append_cached`, `drop_cached_duplicates`).

Files are natural-number ids.  The analyzer is OPAQUE: `an w f` is everything a clean run derives
for file `f` in project state `w` (emitted .sv, .sv.map and the diagnostics owned by `f`).
What is modelled on the code:
* `Incremental::open`: per path `hit := entry.hash = hash ∧ entry.fragment.is_some() ∧
  (¬consider_output ∨ ¬dst_is_stale) ∧ ¬has_selected_test`; misses; then ONE hop of the recorded
  `dependents` of every missed path that has an entry ("already transitively closed").
* the build: missed files go through parse/pass1/pass2/emit (their `an w f` is produced and written),
  hit files are restored (nothing is produced: their outputs on disk and cached diagnostics stand).
* `Incremental::save`: a new manifest for the files of this build.
No imports (linked into `vmodel`).
-/
namespace VerylModel.Incremental

abbrev File := Nat

/-- Manifest entry (`FileEntry`): content hash, fragment present, recorded dependents,
    whether the file declares a selected test. -/
structure Entry where
  hash : Nat
  frag : Bool
  dependents : List File
  hasTest : Bool := false
deriving Repr, DecidableEq, Inhabited

/-- A project state: the paths handed to the pipeline and their content hashes. -/
structure World where
  files : List File
  hash : File → Nat

def lookup (m : List (File × Entry)) (f : File) : Option Entry :=
  match m with
  | [] => none
  | (k, e) :: rest => if k = f then some e else lookup rest f

/-- `hit` of `Incremental::open` for one path.  `fresh f` = `¬ dst_is_stale` (output exists, is
    recorded in build_info and is not older than the source); `emit` = `consider_output`. -/
def isHit (man : List (File × Entry)) (hash : File → Nat) (fresh : File → Bool) (emit : Bool) (f : File) : Bool :=
  match lookup man f with
  | none => false
  | some e => e.hash == hash f && e.frag && (!emit || fresh f) && !e.hasTest

def miss0 (man : List (File × Entry)) (hash : File → Nat) (fresh : File → Bool) (emit : Bool) (files : List File) : List File :=
  files.filter (fun f => !isHit man hash fresh emit f)

/-- dependents of the missed paths that have an entry (one hop). -/
def missDeps (man : List (File × Entry)) (ms : List File) : List File :=
  ms.flatMap (fun f => match lookup man f with | none => [] | some e => e.dependents)

def missSet (man : List (File × Entry)) (hash : File → Nat) (fresh : File → Bool) (emit : Bool) (files : List File) : List File :=
  let m0 := miss0 man hash fresh emit files
  m0 ++ missDeps man m0

/-- Number of files restored from the cache ("Restored k/n"). -/
def restoredCount (man : List (File × Entry)) (hash : File → Nat) (fresh : File → Bool) (emit : Bool) (files : List File) : Nat :=
  (files.filter (fun f => !(missSet man hash fresh emit files).contains f)).length

/-! ### One build step over an opaque analyzer -/

/-- What is on disk / in the cache for a file after some build: the result recorded for it. -/
abbrev Results (α : Type) := File → Option α

/-- Incremental build: recompute missed files, keep the rest. -/
def incBuild {α : Type} (an : World → File → α) (w : World) (miss : List File) (old : Results α) : Results α :=
  fun f => if w.files.contains f then (if miss.contains f then some (an w f) else old f) else none

def cleanBuild {α : Type} (an : World → File → α) (w : World) : Results α :=
  fun f => if w.files.contains f then some (an w f) else none

/-- The manifest written by `save` after a successful build of `w`. -/
def saveManifest (w : World) (cacheable : File → Bool) (dependents : File → List File) : List (File × Entry) :=
  w.files.map (fun f => (f, { hash := w.hash f, frag := cacheable f, dependents := dependents f }))

/-! ### Diagnostics replay and dedup (pipeline.rs) -/

/-- `related` after `append` (fresh), `append_cached`, `drop_cached_duplicates`:
    fresh diagnostics, then the cached ones not covered by a fresh one with the same key. -/
def report (fresh cached : List Nat) : List Nat :=
  fresh ++ cached.filter (fun k => !fresh.contains k)

/-- What `Incremental::save` stores as the diagnostics blob of a file with diagnostics
    (`collect_diagnosed`): everything reported for it this run, fresh or replayed. -/
def savedDiags (fresh cached : List Nat) : List Nat := report fresh cached

/-- The behaviour before the `fix:` commit: only the freshly produced diagnostics were stored,
    replacing the blob `Store::keep` had preserved. -/
def savedDiagsOld (fresh _cached : List Nat) : List Nat := fresh

end VerylModel.Incremental
