/-!
# C14 — combinational loop detection (`crates/analyzer/src/comb_loop_detect{.rs,/}`)

Model language: modules made of procedural blocks (`assign x[h:l] = f(reads…)` is a block with one
assignment; `always_comb` bodies are sequences with `if/else` and reassignment) over variables
with constant part selects, plus one level of instances of such modules (input / output ports
connected to part selects).  `f` is an *opaque mixing* function: every written bit depends on every
bit read (the harness renders it as `{(^{reads…}) repeat W}`, for which that is literally true).

Two dependency graphs are built for a design:

* `bitGraph`  — the reference: one node per bit; block dependencies by the denotational live-in
  analysis `liveIn` (executable form `liveInT`) at bit granularity; instances inlined (port bits
  wired one to one).  Verdict `refVerdict`.
* `flatRangeGraph` / `topRangeGraph` — the detector's abstraction: atomic ranges at access
  endpoints (`cutsOf`/`atomsOf`, Rust `atomic_ranges`/`BitPartition::overlapping_access`),
  statement-ordered SSA with phi merges (`Store`, `ssaStmt`, `ssaEdges`; Rust `ssa.rs` +
  `procedure.rs::eval_statement/eval_if/write_assignment_destination/dependencies`), port-level
  feedthrough summaries per child (`summaryOf`, `instEdges`; Rust `compute_module_summary` /
  `add_inst_feedthrough_edges`), SCC ⇒ `hasCycle`.  Verdict `detVerdict`.

`flatRangeGraphD`/`topRangeGraphD`/`detVerdictD` are the same graphs with the SSA machinery replaced
by `liveIn` at atom granularity; `Props/C14.lean` (`ssa_exact`) proves they have the same edges.

Abstractions (validated only by the differential of `checks/c14.py`): version ids are positions in
a list and `root_sources` is evaluated bottom-up (`Store.table`) instead of by a work list; hash
maps are association lists; an atomic range is named by `(variable, lower end)` instead of an index;
ranges not covered by any access are never materialised in Rust and never referenced here; the
extra cut points of `propagate_packed_endpoints` (bit-aligned copies) do not arise for mixing
assignments (`partition_exact_any_cuts` covers any refinement anyway); Kosaraju SCC is replaced by
`hasCycle` (peeling sinks), proved equivalent to "there is a closed path".
Import-free (core Lean only).
-/
namespace VerylModel.CombLoop

/-! ## finite sets as lists -/

def union {α} [DecidableEq α] (A B : List α) : List α := A ++ B.filter (fun x => decide (x ∉ A))

def unions {α} [DecidableEq α] : List (List α) → List α
  | [] => []
  | l :: ls => union l (unions ls)

/-- Add the elements of `xs` that are not yet in `S` (keeps `S` duplicate-free). -/
def addNew {α} [DecidableEq α] : List α → List α → List α
  | S, [] => S
  | S, x :: xs => if x ∈ S then addNew S xs else addNew (x :: S) xs

/-! ## graphs as edge lists; cycle check by reachability closure -/

abbrev Graph (α : Type) := List (α × α)

/-- Successors of the node set `S`. -/
def succs {α} [DecidableEq α] (g : Graph α) (S : List α) : List α :=
  (g.filter (fun e => decide (e.1 ∈ S))).map (·.2)

/-- Reachability closure of `S` (0 or more steps); stops at the fixed point, `fuel` rounds at most. -/
def closure {α} [DecidableEq α] (g : Graph α) : Nat → List α → List α
  | 0, S => S
  | n + 1, S =>
    let S' := addNew S (succs g S)
    if S'.length = S.length then S else closure g n S'

/-- Drop the edges into sinks (nodes without outgoing edge): they lie on no cycle. -/
def trim {α} [DecidableEq α] (g : Graph α) : Graph α :=
  let srcs := addNew [] (g.map (·.1))
  g.filter (fun e => decide (e.2 ∈ srcs))

def trimLoop {α} [DecidableEq α] : Nat → Graph α → Graph α
  | 0, g => g
  | n + 1, g =>
    let g' := trim g
    if g'.length = g.length then g else trimLoop n g'

/-- A cycle (an SCC with > 1 node or a self edge: what `check_graph` reports) exists iff peeling
sinks to the fixed point leaves some edge (`Lemmas`: `hasCycle_iff`). -/
def hasCycle {α} [DecidableEq α] (g : Graph α) : Bool :=
  !(trimLoop (g.length + 1) g).isEmpty

/-! ## the design language -/

/-- Constant part select `var[hi-1:lo]`: the bits `lo ≤ b < hi` of variable `var`. -/
structure Acc where
  var : Nat
  lo : Nat
  hi : Nat
deriving DecidableEq, Repr, Inhabited

inductive Stmt where
  | skip
  /-- `dst = f(reads…)` -/
  | assign (dst : Acc) (reads : List Acc)
  | seq (a b : Stmt)
  /-- `if g(cond…) { t } else { e }` -/
  | ite (cond : List Acc) (t e : Stmt)
deriving Repr, Inhabited

/-- A module without instances: port variable ids and procedural blocks. -/
structure Flat where
  inputs : List Nat
  outputs : List Nat
  blocks : List Stmt
deriving Repr, Inhabited

/-- `inst u: children[child] (p: src, …, q: dst, …)` -/
structure Inst where
  child : Nat
  ins : List (Nat × Acc)
  outs : List (Nat × Acc)
deriving Repr, Inhabited

structure Design where
  children : List Flat
  top : Flat
  insts : List Inst
deriving Repr, Inhabited

def Stmt.accs : Stmt → List Acc
  | .skip => []
  | .assign d rs => d :: rs
  | .seq a b => a.accs ++ b.accs
  | .ite c t e => c ++ t.accs ++ e.accs

/-- Destinations written by a block, in statement order. -/
def Stmt.dsts : Stmt → List Acc
  | .skip => []
  | .assign d _ => [d]
  | .seq a b => a.dsts ++ b.dsts
  | .ite _ t e => t.dsts ++ e.dsts

/-! ## denotational live-in dependency analysis, generic in the key granularity -/

/-- What a key holds at some point of a block: possibly still its value on entry (`retain`),
and the entry values (`deps`) the assignments executed so far make it depend on. -/
structure DV (κ : Type) where
  retain : Bool
  deps : List κ
deriving Repr

abbrev Env (κ : Type) := κ → DV κ

def Env.init {κ} : Env κ := fun _ => ⟨true, []⟩

/-- Entry values a read of `k` depends on. -/
def lookup {κ} (env : Env κ) (k : κ) : List κ :=
  (env k).deps ++ (if (env k).retain then [k] else [])

def readAll {κ} [DecidableEq κ] (keysOf : Acc → List κ) (env : Env κ) (rs : List Acc) : List κ :=
  unions (rs.map (fun r => unions ((keysOf r).map (lookup env))))

/-- The specification: environments as functions. -/
def liveIn {κ} [DecidableEq κ] (keysOf : Acc → List κ) :
    Stmt → List κ → Env κ → Env κ
  | .skip, _, env => env
  | .assign d rs, c, env =>
    let D := union c (readAll keysOf env rs)
    let ks := keysOf d
    fun k => if k ∈ ks then ⟨false, D⟩ else env k
  | .seq a b, c, env => liveIn keysOf b c (liveIn keysOf a c env)
  | .ite cond t e, c, env =>
    let c' := union c (readAll keysOf env cond)
    let et := liveIn keysOf t c' env
    let ee := liveIn keysOf e c' env
    fun k => ⟨(et k).retain || (ee k).retain, union (et k).deps (ee k).deps⟩

/-- Environments as association lists (first match wins; absent = value on entry). -/
abbrev TEnv (κ : Type) := List (κ × DV κ)

def TEnv.get {κ} [DecidableEq κ] (t : TEnv κ) : Env κ := fun k =>
  match t.lookup k with
  | some v => v
  | none => ⟨true, []⟩

/-- The executable form of `liveIn` (`Lemmas`: `(liveInT … t).get = liveIn … t.get`). -/
def liveInT {κ} [DecidableEq κ] (keysOf : Acc → List κ) :
    Stmt → List κ → TEnv κ → TEnv κ
  | .skip, _, t => t
  | .assign d rs, c, t =>
    let D := union c (readAll keysOf t.get rs)
    (keysOf d).map (fun k => (k, ⟨false, D⟩)) ++ t
  | .seq a b, c, t => liveInT keysOf b c (liveInT keysOf a c t)
  | .ite cond th el, c, t =>
    let c' := union c (readAll keysOf t.get cond)
    let tt := liveInT keysOf th c' t
    let te := liveInT keysOf el c' t
    (addNew [] ((tt ++ te).map (·.1))).map (fun k =>
      (k, ⟨(tt.get k).retain || (te.get k).retain, union (tt.get k).deps (te.get k).deps⟩))

/-- Dependency edges `source → written key` of one block (a final retained value is not a read). -/
def blockEdges {κ} [DecidableEq κ] (keysOf : Acc → List κ) (s : Stmt) : Graph κ :=
  let t := liveInT keysOf s [] []
  (unions (s.dsts.map keysOf)).flatMap (fun k => (t.get k).deps.map (fun x => (x, k)))

/-! ## bit level (reference) -/

/-- `(var, bit)` -/
abbrev Bit := Nat × Nat

def Acc.bits (a : Acc) : List Bit := (List.range (a.hi - a.lo)).map (fun i => (a.var, a.lo + i))

def Flat.accs (m : Flat) : List Acc := m.blocks.flatMap Stmt.accs

def flatBitGraph (m : Flat) : Graph Bit :=
  m.blocks.flatMap (blockEdges Acc.bits)

/-- `(scope, var, bit)`: scope 0 = the top module, scope j+1 = instance j. -/
abbrev HBit := Nat × Nat × Nat

def atScope (s : Nat) (g : Graph Bit) : Graph HBit := g.map (fun e => ((s, e.1), (s, e.2)))

def width (a : Acc) : Nat := a.hi - a.lo

/-- Port wiring of instance `j`: actual bit `lo+i` → child input bit `i`; child output bit `i` →
destination bit `lo+i`. -/
def portEdges (j : Nat) (i : Inst) : Graph HBit :=
  i.ins.flatMap (fun pa => (List.range (width pa.2)).map
      (fun k => ((0, pa.2.var, pa.2.lo + k), (j + 1, pa.1, k)))) ++
  i.outs.flatMap (fun qd => (List.range (width qd.2)).map
      (fun k => ((j + 1, qd.1, k), (0, qd.2.var, qd.2.lo + k))))

def instBitEdges (d : Design) (j : Nat) (i : Inst) : Graph HBit :=
  match d.children[i.child]? with
  | none => []
  | some c => portEdges j i ++ atScope (j + 1) (flatBitGraph c)

def zipIdx {α} : List α → Nat → List (Nat × α)
  | [], _ => []
  | x :: xs, n => (n, x) :: zipIdx xs (n + 1)

/-- The reference graph of the whole design: instances inlined. -/
def bitGraph (d : Design) : Graph HBit :=
  atScope 0 (flatBitGraph d.top) ++ (zipIdx d.insts 0).flatMap (fun ji => instBitEdges d ji.1 ji.2)

/-- Reference verdict: some module of the design (a child on its own, or the top with its
instances inlined) has a cycle of bit-level dependencies. -/
def refVerdict (d : Design) : Bool :=
  d.children.any (fun c => hasCycle (flatBitGraph c)) || hasCycle (bitGraph d)

/-! ## atomic ranges -/

/-- `(var, lower end of the atomic range)` -/
abbrev Atom := Nat × Nat

/-- Cut points of variable `v`: both ends of every access to it. -/
def cutsOf (accs : List Acc) (v : Nat) : List Nat :=
  addNew [] ((accs.filter (fun a => a.var = v)).flatMap (fun a => [a.lo, a.hi]))

/-- Atomic ranges overlapping an access (`BitPartition::overlapping_access`): the access ends are
cut points, so these are the cut points inside it. -/
def atomsOf (cuts : Nat → List Nat) (a : Acc) : List Atom :=
  ((cuts a.var).filter (fun c => a.lo ≤ c ∧ c < a.hi)).map (fun c => (a.var, c))

def maxCutLE (cs : List Nat) (b : Nat) : Nat := (cs.filter (· ≤ b)).foldl max 0

/-- The atomic range a bit lies in. -/
def atomOf (cuts : Nat → List Nat) (b : Bit) : Atom := (b.1, maxCutLE (cuts b.1) b.2)

/-! ## SSA store (`ssa.rs`), version ids = positions in `vers` -/

inductive Ver (κ : Type) where
  | entry (k : κ)
  | defn (ins : List Nat)
  | phi (ins : List Nat)
deriving Repr

structure Store (κ : Type) where
  vers : List (Ver κ)
  /-- `entries`: the LiveOnEntry version of a key, once created -/
  entries : List (κ × Nat)
  /-- `current` bindings (first match wins) -/
  cur : List (κ × Nat)
deriving Repr

namespace Store
variable {κ : Type} [DecidableEq κ]

def empty : Store κ := ⟨[], [], []⟩

def entry (s : Store κ) (k : κ) : Store κ × Nat :=
  match s.entries.lookup k with
  | some v => (s, v)
  | none => ({ s with vers := s.vers ++ [.entry k], entries := (k, s.vers.length) :: s.entries },
             s.vers.length)

def read (s : Store κ) (k : κ) : Store κ × Nat :=
  match s.cur.lookup k with
  | some v => (s, v)
  | none => s.entry k

def readMany (s : Store κ) : List κ → Store κ × List Nat
  | [] => (s, [])
  | k :: ks =>
    let r := s.read k
    let r2 := readMany r.1 ks
    (r2.1, r.2 :: r2.2)

def definition (s : Store κ) (srcs : List Nat) : Store κ × Nat :=
  ({ s with vers := s.vers ++ [.defn (addNew [] srcs)] }, s.vers.length)

def bind (s : Store κ) (k : κ) (v : Nat) : Store κ := { s with cur := (k, v) :: s.cur }

/-- `phi`: duplicate inputs dropped; a single input is returned as is. -/
def phi (s : Store κ) (ins : List Nat) : Store κ × Nat :=
  match addNew [] ins with
  | [v] => (s, v)
  | l => ({ s with vers := s.vers ++ [.phi l] }, s.vers.length)

/-- What a branch contributes for `k` at a merge: its final binding if that differs from the
binding at the checkpoint (`capture_and_rollback` keeps exactly those). -/
def changed (c base : List (κ × Nat)) (k : κ) : List Nat :=
  match c.lookup k with
  | some v => if base.lookup k = some v then [] else [v]
  | none => []

/-- The fallback input of a phi: the binding at the checkpoint, else the LiveOnEntry version. -/
def fallback (s : Store κ) (base : List (κ × Nat)) (k : κ) : Store κ × Nat :=
  match base.lookup k with
  | some v => (s, v)
  | none => s.entry k

/-- `merge` of two branch states (`ct`, `ce`: the bindings at the end of the branches) on top of
the checkpoint bindings `base`: every key rebound in a branch gets a phi of the branch versions,
plus the fallback when some branch left it alone. -/
def mergeKeys (ct ce base : List (κ × Nat)) : Store κ → List κ → Store κ
  | s, [] => s
  | s, k :: ks =>
    let ins := changed ct base k ++ changed ce base k
    if ins.isEmpty then mergeKeys ct ce base s ks
    else
      let r := if ins.length < 2 then ((s.fallback base k).1, ins ++ [(s.fallback base k).2])
               else (s, ins)
      let r2 := r.1.phi r.2
      mergeKeys ct ce base (r2.1.bind k r2.2) ks

/-- Sources of one version given the sources of all earlier ones: `(with, without)` the entry keys
reached through phi nodes only. -/
def evalVer (tbl : List (List κ × List κ)) : Ver κ → List κ × List κ
  | .entry k => ([k], [])
  | .defn ins =>
    let s := unions (ins.map (fun i => (tbl.getD i ([], [])).1))
    (s, s)
  | .phi ins =>
    (unions (ins.map (fun i => (tbl.getD i ([], [])).1)),
     unions (ins.map (fun i => (tbl.getD i ([], [])).2)))

/-- Bottom-up evaluation of `root_sources` for every version (inputs have smaller ids). -/
def table (vs : List (Ver κ)) : List (List κ × List κ) :=
  vs.foldl (fun tbl v => tbl ++ [evalVer tbl v]) []

/-- `root_sources`: entry keys reachable from a version; an entry reached through phi nodes only
(retained state) is not a source. -/
def rootSources (s : Store κ) (v : Nat) : List κ := ((table s.vers).getD v ([], [])).2

end Store

/-! ## procedure evaluation (`procedure.rs`) on the SSA store -/

section Ssa
variable {κ : Type} [DecidableEq κ]

/-- `eval_expr` of a mixing expression: the current versions of every key of every read. -/
def evalReads (keysOf : Acc → List κ) (s : Store κ) (rs : List Acc) : Store κ × List Nat :=
  s.readMany (addNew [] (rs.flatMap keysOf))

/-- `write_assignment_destination`: the destination keys are rebound one at a time; the right-hand
side is re-evaluated for each (it may read keys rebound a moment ago). -/
def writeKeys (keysOf : Acc → List κ) (rs : List Acc) (ctrl : List Nat) :
    Store κ → List κ → Store κ
  | s, [] => s
  | s, k :: ks =>
    let r := evalReads keysOf s rs
    let r2 := r.1.definition (ctrl ++ r.2)
    writeKeys keysOf rs ctrl (r2.1.bind k r2.2) ks

def ssaStmt (keysOf : Acc → List κ) : Stmt → List Nat → Store κ → Store κ
  | .skip, _, s => s
  | .assign d rs, ctrl, s => writeKeys keysOf rs ctrl s (addNew [] (keysOf d))
  | .seq a b, ctrl, s => ssaStmt keysOf b ctrl (ssaStmt keysOf a ctrl s)
  | .ite cond t e, ctrl, s =>
    let r := evalReads keysOf s cond
    let ctrl' := ctrl ++ r.2
    let base := r.1.cur
    let st := ssaStmt keysOf t ctrl' r.1
    let se := ssaStmt keysOf e ctrl' { st with cur := base }
    Store.mergeKeys st.cur se.cur base { se with cur := base }
      (addNew [] ((st.cur ++ se.cur).map (·.1)))

/-- `dependencies()`: root sources of the final version of every written key. -/
def ssaEdges (keysOf : Acc → List κ) (st : Stmt) : Graph κ :=
  let s := ssaStmt keysOf st [] Store.empty
  let tbl := Store.table s.vers
  (unions (st.dsts.map keysOf)).flatMap (fun k =>
    match s.cur.lookup k with
    | some v => (tbl.getD v ([], [])).2.map (fun x => (x, k))
    | none => [])

end Ssa

/-! ## the detector's graphs -/

/-- `feedthrough`: `(input port, output port)` pairs with a combinational path, port level. -/
abbrev Summary := List (Nat × Nat)

def graphNodes {α} [DecidableEq α] (g : Graph α) : List α :=
  addNew [] (g.flatMap (fun e => [e.1, e.2]))

/-- `compute_module_summary` -/
def summaryOf (m : Flat) (g : Graph Atom) : Summary :=
  m.inputs.flatMap (fun p =>
    let S := closure g (g.length + 1) ((graphNodes g).filter (fun n => n.1 = p))
    (m.outputs.filter (fun q => S.any (fun n => n.1 = q))).map (fun q => (p, q)))

def flatCuts (m : Flat) : Nat → List Nat := cutsOf m.accs

def flatRangeGraph (m : Flat) : Graph Atom :=
  m.blocks.flatMap (ssaEdges (atomsOf (flatCuts m)))

def flatRangeGraphD (m : Flat) : Graph Atom :=
  m.blocks.flatMap (blockEdges (atomsOf (flatCuts m)))

def Inst.accs (i : Inst) : List Acc := i.ins.map (·.2) ++ i.outs.map (·.2)

def Design.topAccs (d : Design) : List Acc := d.top.accs ++ d.insts.flatMap Inst.accs

def Design.topCuts (d : Design) : Nat → List Nat := cutsOf d.topAccs

/-- `add_inst_feedthrough_edges`: every atomic range read by the actual of input port `p` →
every atomic range of the destination of output port `q`, for `(p, q)` in the child's summary. -/
def instEdges (cuts : Nat → List Nat) (c : Flat) (sm : Summary) (i : Inst) : Graph Atom :=
  i.ins.flatMap (fun pa =>
    if pa.1 ∈ c.inputs then
      i.outs.flatMap (fun qd =>
        if qd.1 ∈ c.outputs ∧ (pa.1, qd.1) ∈ sm then
          (atomsOf cuts pa.2).flatMap (fun r => (atomsOf cuts qd.2).map (fun w => (r, w)))
        else [])
    else [])

def topInstEdges (d : Design) (childGraph : Flat → Graph Atom) : Graph Atom :=
  d.insts.flatMap (fun i =>
    match d.children[i.child]? with
    | none => []
    | some c => instEdges d.topCuts c (summaryOf c (childGraph c)) i)

def topRangeGraph (d : Design) : Graph Atom :=
  d.top.blocks.flatMap (ssaEdges (atomsOf d.topCuts)) ++ topInstEdges d flatRangeGraph

def topRangeGraphD (d : Design) : Graph Atom :=
  d.top.blocks.flatMap (blockEdges (atomsOf d.topCuts)) ++ topInstEdges d flatRangeGraphD

/-- Detector verdict: a combinational loop is reported for some module. -/
def detVerdict (d : Design) : Bool :=
  d.children.any (fun c => hasCycle (flatRangeGraph c)) || hasCycle (topRangeGraph d)

def detVerdictD (d : Design) : Bool :=
  d.children.any (fun c => hasCycle (flatRangeGraphD c)) || hasCycle (topRangeGraphD d)

end VerylModel.CombLoop
