import VerylModel.Gen.Cells
import VerylModel.Gen.FuseTables
/-
Models of the constructions and rewrite rules the gate converter (`crates/synthesizer/src/conv/*.rs`)
relies on, at the level of the VALUES the emitted cells compute (a bus is a function `Nat → Bool`,
bit `i` at index `i`; a width is an explicit `n`). Line by line:

* `arith.rs`: `full_adder`, `ripple_add_core`, `kogge_stone_add` (seed / prefix stages with
  `d = 1, 2, 4, …` while `d < n` / carry and sum formation), the dispatch of `ripple_add`
  (`a.len() < 4` ripple, else Kogge–Stone), `ripple_sub` (`a + !b + 1`), `compare` for `<`
  (one extension bit, MSB of the difference).
* `prefix.rs`: `sklansky` (halve, recurse, combine every right prefix with the left's last).
* `balance.rs`: any tree over the leaves of a chain (`Tree`), evaluated with the chain's operator.
* `worklist.rs`: `simplify` with all its per-kind helpers (`simpl_absorb_2/3`, `simpl_xor_family`,
  `simpl_mux2`, `simpl_aoi_family`, `simpl_ao_family`, `simpl_ao31`, `simpl_ao22`, `simpl_oai22`,
  `invert_simpl`); `iv` = known constant value of input `i`, `nets` = net id of input `i`.
* `counter.rs`: one conditional-increment stage (`B0' = Mux2(c, B0, !B0)`,
  `Bk' = Mux2(c, Bk, Bk ^ AND(B0…B(k-1)))`), `add_mod`.
The fusion tables of `postpass.rs` are generated (`Gen/FuseTables.lean`).
-/
namespace VerylModel.SynthRules
open VerylModel.Gen

/-- Inputs of a cell from a list (`x[i]`). -/
def ins (l : List Bool) : Nat → Bool := fun i => l.getD i false

/-- Value of the low `n` bits of a bus. -/
def toNat (x : Nat → Bool) : Nat → Nat
  | 0 => 0
  | n + 1 => toNat x n + (if x n then 2 ^ n else 0)

/-! ## arith.rs -/

/-- `full_adder`: (sum, cout) from Xor2/Xor2/And2/And2/Or2. -/
def fullAdder (a b cin : Bool) : Bool × Bool :=
  let aXorB := CellKind.eval .xor2 (ins [a, b])
  let sum := CellKind.eval .xor2 (ins [aXorB, cin])
  let aAndB := CellKind.eval .and2 (ins [a, b])
  let cinAndAb := CellKind.eval .and2 (ins [cin, aXorB])
  (sum, CellKind.eval .or2 (ins [aAndB, cinAndAb]))

/-- Carry into bit `i` of `ripple_add_core`. -/
def rippleCarry (a b : Nat → Bool) (cin : Bool) : Nat → Bool
  | 0 => cin
  | i + 1 => (fullAdder (a i) (b i) (rippleCarry a b cin i)).2

/-- Sum bit `i` of `ripple_add_core`. -/
def rippleSum (a b : Nat → Bool) (cin : Bool) (i : Nat) : Bool :=
  (fullAdder (a i) (b i) (rippleCarry a b cin i)).1

/-- One prefix stage: `(P[i], G[i]) ← (P[i] & P[i-d], G[i] | (P[i] & G[i-d]))` for `i ≥ d`. -/
def ksStage (d : Nat) (pg : Nat → Bool × Bool) : Nat → Bool × Bool :=
  fun i => if d ≤ i then ((pg i).1 && (pg (i - d)).1, (pg i).2 || ((pg i).1 && (pg (i - d)).2)) else pg i

/-- `while d < n { …; d *= 2 }` (fuel `n` is never exhausted, `Lemmas.ksLoop_fuel`). -/
def ksLoop : Nat → Nat → Nat → (Nat → Bool × Bool) → (Nat → Bool × Bool)
  | 0, _, _, pg => pg
  | fuel + 1, d, n, pg => if d < n then ksLoop fuel (2 * d) n (ksStage d pg) else pg

/-- Sum bit `i` of `kogge_stone_add` on `n`-bit operands. -/
def ksSum (n : Nat) (a b : Nat → Bool) (cin : Bool) (i : Nat) : Bool :=
  let pSeed := fun j => xor (a j) (b j)
  let gSeed := fun j => a j && b j
  let pg := ksLoop n 1 n (fun j => (pSeed j, gSeed j))
  if i = 0 then xor (pSeed 0) cin
  else xor (pSeed i) ((pg (i - 1)).2 || ((pg (i - 1)).1 && cin))

/-- `ripple_add`: ripple below 4 bits, Kogge–Stone from 4 bits on. -/
def addSum (n : Nat) (a b : Nat → Bool) (cin : Bool) (i : Nat) : Bool :=
  if n < 4 then rippleSum a b cin i else ksSum n a b cin i

/-- `ripple_sub`: `a + !b + 1`. -/
def subSum (n : Nat) (a b : Nat → Bool) (i : Nat) : Bool :=
  addSum n a (fun j => !(b j)) true i

/-- `compare(.., Op::Less, signed = false)`: operands zero-extended by one bit, result = bit `n` of
    the `(n+1)`-bit difference. -/
def lessUnsigned (n : Nat) (a b : Nat → Bool) : Bool :=
  subSum (n + 1) (fun j => if j < n then a j else false) (fun j => if j < n then b j else false) n

/-! ## prefix.rs -/

/-- `sklansky`: one value per prefix. -/
def sklansky {α : Type} (op : α → α → α) (leaves : List α) : List α :=
  if _h : leaves.length ≤ 1 then leaves
  else
    let half := leaves.length / 2
    let left := sklansky op (leaves.take half)
    let right := sklansky op (leaves.drop half)
    match left.getLast? with
    | some carry => left ++ right.map (op carry)
    | none => left ++ right
termination_by leaves.length
decreasing_by
  all_goals simp only [List.length_take, List.length_drop]
  all_goals omega

/-- All prefixes of a running fold: `[x0, x0∘x1, x0∘x1∘x2, …]`. -/
def scanFrom {α : Type} (op : α → α → α) (acc : α) : List α → List α
  | [] => [acc]
  | y :: ys => acc :: scanFrom op (op acc y) ys

def prefixes {α : Type} (op : α → α → α) : List α → List α
  | [] => []
  | x :: xs => scanFrom op x xs

/-! ## balance.rs -/

inductive Tree (α : Type) where
  | leaf (a : α)
  | node (l r : Tree α)

def Tree.eval {α : Type} (op : α → α → α) : Tree α → α
  | .leaf a => a
  | .node l r => op (l.eval op) (r.eval op)

def Tree.leaves {α : Type} : Tree α → List α
  | .leaf a => [a]
  | .node l r => l.leaves ++ r.leaves

/-! ## worklist.rs: `simplify` -/

inductive Simpl where
  | const (b : Bool)
  | alias (n : Nat)
  | invert (n : Nat)
deriving DecidableEq, Repr

def Simpl.eval (env : Nat → Bool) : Simpl → Bool
  | .const b => b
  | .alias n => env n
  | .invert n => !(env n)

def NET_CONST0 : Nat := 0
def NET_CONST1 : Nat := 1

/-- `invert_simpl`. -/
def invertSimpl : Simpl → Simpl
  | .const v => .const (!v)
  | .alias n => .invert n
  | .invert n => .alias n

structure AbsorbParams where
  dominant : Bool
  dominantOut : Bool
  unitInvert : Bool
  selfAlias : Bool

def AbsorbParams.AND : AbsorbParams := ⟨false, false, false, true⟩
def AbsorbParams.OR : AbsorbParams := ⟨true, true, false, true⟩
def AbsorbParams.NAND : AbsorbParams := ⟨false, true, true, false⟩
def AbsorbParams.NOR : AbsorbParams := ⟨true, false, true, false⟩

abbrev IV := Nat → Option Bool
abbrev Nets := Nat → Nat

def simplAbsorb2 (iv : IV) (nets : Nets) (p : AbsorbParams) : Option Simpl :=
  if iv 0 = some p.dominant || iv 1 = some p.dominant then some (.const p.dominantOut)
  else
    let unit := !p.dominant
    let make := fun (net : Nat) => if p.unitInvert then Simpl.invert net else Simpl.alias net
    if iv 0 = some unit then some (make (nets 1))
    else if iv 1 = some unit then some (make (nets 0))
    else if p.selfAlias && nets 0 = nets 1 then some (.alias (nets 0))
    else none

def simplAbsorb3 (iv : IV) (nets : Nets) (p : AbsorbParams) : Option Simpl :=
  if iv 0 = some p.dominant || iv 1 = some p.dominant || iv 2 = some p.dominant then some (.const p.dominantOut)
  else if iv 0 = some (!p.dominant) && iv 1 = some (!p.dominant) && iv 2 = some (!p.dominant) then
    some (.const (!p.dominantOut))
  else if p.selfAlias && nets 0 = nets 1 && nets 1 = nets 2 then some (.alias (nets 0))
  else none

def simplXorFamily (iv : IV) (nets : Nets) (baseParity : Bool) : Option Simpl :=
  match iv 0, iv 1 with
  | some a, some b => some (.const (if baseParity then a == b else a != b))
  | _, _ =>
    let id := baseParity
    if iv 0 = some id then some (.alias (nets 1))
    else if iv 1 = some id then some (.alias (nets 0))
    else if iv 0 = some (!id) then some (.invert (nets 1))
    else if iv 1 = some (!id) then some (.invert (nets 0))
    else if nets 0 = nets 1 then some (.const baseParity)
    else none

def simplMux2 (iv : IV) (nets : Nets) : Option Simpl :=
  match iv 0 with
  | some false => some (.alias (nets 1))
  | some true => some (.alias (nets 2))
  | none =>
    if nets 1 = nets 2 then some (.alias (nets 1))
    else if iv 1 = some false && iv 2 = some true then some (.alias (nets 0))
    else if iv 1 = some true && iv 2 = some false then some (.invert (nets 0))
    else none

def simplAoiFamily (iv : IV) (nets : Nets) (isAoi : Bool) : Option Simpl :=
  let shortCircuitC := isAoi
  if iv 2 = some shortCircuitC then some (.const (!shortCircuitC))
  else
    let legNeutral := !shortCircuitC
    if iv 0 = some legNeutral || iv 1 = some legNeutral then
      some (match iv 2 with
        | some b => .const (!b)
        | none => .invert (nets 2))
    else none

def simplAo31 (iv : IV) (nets : Nets) (invert : Bool) : Option Simpl :=
  if iv 3 = some true then some (.const (!invert))
  else if iv 0 = some false || iv 1 = some false || iv 2 = some false then
    some (match iv 3 with
      | some b => .const (if invert then !b else b)
      | none => if invert then .invert (nets 3) else .alias (nets 3))
  else if iv 0 = some true && iv 1 = some true && iv 2 = some true then some (.const (!invert))
  else none

def simplAoFamily (iv : IV) (nets : Nets) (isAo : Bool) : Option Simpl :=
  let shortCircuit := isAo
  if iv 2 = some shortCircuit then some (.const shortCircuit)
  else
    let legNeutral := !shortCircuit
    if iv 0 = some legNeutral || iv 1 = some legNeutral then
      some (match iv 2 with
        | some b => .const b
        | none => .alias (nets 2))
    else if iv 0 = some shortCircuit && iv 1 = some shortCircuit then some (.const shortCircuit)
    else none

def simplAo22 (iv : IV) (nets : Nets) : Option Simpl :=
  let abOne := iv 0 = some true && iv 1 = some true
  let cdOne := iv 2 = some true && iv 3 = some true
  if abOne || cdOne then some (.const true)
  else
    let abZero := iv 0 = some false || iv 1 = some false || nets 0 = NET_CONST0 || nets 1 = NET_CONST0
    let cdZero := iv 2 = some false || iv 3 = some false || nets 2 = NET_CONST0 || nets 3 = NET_CONST0
    if abZero && cdZero then some (.const false)
    else if abZero && iv 2 = some true then some (.alias (nets 3))
    else if abZero && iv 3 = some true then some (.alias (nets 2))
    else if abZero && nets 2 = nets 3 then some (.alias (nets 2))
    else if cdZero && iv 0 = some true then some (.alias (nets 1))
    else if cdZero && iv 1 = some true then some (.alias (nets 0))
    else if cdZero && nets 0 = nets 1 then some (.alias (nets 0))
    else none

def simplOai22 (iv : IV) (nets : Nets) : Option Simpl :=
  let abZero := iv 0 = some false && iv 1 = some false
  let cdZero := iv 2 = some false && iv 3 = some false
  if abZero || cdZero then some (.const true)
  else
    let abOne := iv 0 = some true || iv 1 = some true || nets 0 = NET_CONST1 || nets 1 = NET_CONST1
    let cdOne := iv 2 = some true || iv 3 = some true || nets 2 = NET_CONST1 || nets 3 = NET_CONST1
    if abOne && cdOne then some (.const false) else none

/-- `simplify`: the dispatch table. -/
def simplify (kind : CellKind) (iv : IV) (nets : Nets) : Option Simpl :=
  match kind with
  | .buf => (iv 0).map Simpl.const
  | .not => (iv 0).map (fun b => Simpl.const (!b))
  | .and2 => simplAbsorb2 iv nets .AND
  | .or2 => simplAbsorb2 iv nets .OR
  | .nand2 => simplAbsorb2 iv nets .NAND
  | .nor2 => simplAbsorb2 iv nets .NOR
  | .xor2 => simplXorFamily iv nets false
  | .xnor2 => simplXorFamily iv nets true
  | .mux2 => simplMux2 iv nets
  | .and3 => simplAbsorb3 iv nets .AND
  | .or3 => simplAbsorb3 iv nets .OR
  | .nand3 => simplAbsorb3 iv nets .NAND
  | .nor3 => simplAbsorb3 iv nets .NOR
  | .ao21 => simplAoFamily iv nets true
  | .aoi21 => simplAoiFamily iv nets true
  | .oa21 => simplAoFamily iv nets false
  | .oai21 => simplAoiFamily iv nets false
  | .ao31 => simplAo31 iv nets false
  | .aoi31 => simplAo31 iv nets true
  | .ao22 => simplAo22 iv nets
  | .aoi22 => (simplAo22 iv nets).map invertSimpl
  | .oai22 => simplOai22 iv nets

/-! ## counter.rs -/

/-- `AND(B0 … B(k-1))`, the carry into bit `k` of the increment. -/
def allOnesBelow (x : Nat → Bool) : Nat → Bool
  | 0 => true
  | k + 1 => allOnesBelow x k && x k

/-- One stage: `B0' = Mux2(c, B0, Not(B0))`, `Bk' = Mux2(c, Bk, Xor2(Bk, AND(B0…B(k-1))))`. -/
def incStage (c : Bool) (x : Nat → Bool) (k : Nat) : Bool :=
  if k = 0 then CellKind.eval .mux2 (ins [c, x 0, CellKind.eval .not (ins [x 0])])
  else CellKind.eval .mux2 (ins [c, x k, CellKind.eval .xor2 (ins [x k, allOnesBelow x k])])

/-- Number of set conditions. -/
def popcount : List Bool → Nat
  | [] => 0
  | c :: cs => (if c then 1 else 0) + popcount cs

/-- Carry into bit `i` of `add_mod` (ripple from constant 0). -/
def addModCarry (a b : Nat → Bool) : Nat → Bool
  | 0 => false
  | i + 1 => (a i && b i) || (addModCarry a b i && xor (a i) (b i))

def addModSum (a b : Nat → Bool) (i : Nat) : Bool := xor (xor (a i) (b i)) (addModCarry a b i)

end VerylModel.SynthRules
