import VerylModel.Core.ExprRef
/-
M-Sim: reference semantics of the small synchronous design language emitted by the `engines`
harness domain (C02, C03): variables with (width, signed); `assign` / `always_comb` (blocking
statement sequences with if/else and case) and `always_ff` with `if_reset` (nonblocking: every
right-hand side is evaluated on the pre-edge state, the writes are committed afterwards);
expressions = `ExprRef.Expr` (IEEE 1800 context rules) over a table of leaves (whole variables
or constant part selects).

The statement semantics is written once, generically over a value domain `Dom`:
* `D2` — 2-state: a variable holds `some v` or `none` ("don't care": a divisor was zero somewhere
  upstream; the engines may legitimately differ there).
* `D4` — 4-state: (payload, mask) with per-bit X propagation following IEEE 1800 §11.4; every
  operator has the usual fast path "all operands known ⇒ the 2-state result".
`settle` runs all combinational declarations `n` times in the given order (for an acyclic design
any order reaches the unique fix-point within `n` passes: `Props/C02.settle_order_indep`);
`step` = set inputs, settle, evaluate the `always_ff` bodies on that state into an event list,
commit it, settle again.
Imports only `Core/ExprRef` (core Lean): linked into `vmodel`.
-/
namespace VerylModel.Sim
open VerylModel.ExprRef

/-- a leaf of an expression: bits `[lo, lo+width)` of variable `var`, read with type `signed`
(a whole variable: `lo = 0`, declared width and signedness; a part select: unsigned). -/
structure Leaf where
  var : Nat
  lo : Nat
  width : Nat
  signed : Bool
deriving Repr

/-- an expression over leaves: `Expr.port k` is the `k`-th leaf. -/
structure Rhs where
  leaves : List Leaf
  body : Expr
deriving Repr

/-- assignment target: bits `[lo, lo+width)` of `var`; `full` = the whole variable. -/
structure Lhs where
  var : Nat
  lo : Nat
  width : Nat
  full : Bool
deriving Repr

mutual
inductive Stmt where
  | set (l : Lhs) (r : Rhs)
  /-- run-time indexed store `var[idx*w +: w] := r` (`w = 1`: a bit select `var[idx] := r`);
  `vw` = declared width of `var` (an index outside the variable writes nothing) -/
  | setDyn (var vw w : Nat) (idx : Rhs) (r : Rhs)
  | ite (c : Rhs) (t e : Stmts)
  /-- `case sel { lw'lv: body … default: dflt }`: first arm with `sel == label` wins -/
  | case (sel : Rhs) (arms : Arms) (dflt : Stmts)
  | disp (id : Nat) (args : List Rhs)
inductive Stmts where
  | nil
  | cons (s : Stmt) (ss : Stmts)
inductive Arms where
  | nil
  | cons (lw lv : Nat) (body : Stmts) (rest : Arms)
end

inductive Decl where
  | comb (body : Stmts)
  | ff (hasReset : Bool) (rst body : Stmts)

structure Design where
  nvars : Nat
  inputs : List Nat
  observed : List Nat
  decls : List Decl

/-! ### value domains -/

/-- what the statement semantics needs from a value domain -/
structure Dom where
  Val : Type
  /-- value of `r` in an assignment context of `wo` bits -/
  rhs : (Nat → Val) → Rhs → Nat → Val
  /-- truth value of a condition; `none` = undetermined (every target of the statement is poisoned) -/
  cond : (Nat → Val) → Rhs → Option Bool
  /-- `sel == lw'lv` -/
  arm : (Nat → Val) → Rhs → Nat → Nat → Option Bool
  /-- value of a run-time index; `none` = undetermined (the target variable is poisoned) -/
  idx : (Nat → Val) → Rhs → Option Nat
  /-- old value, target, new value (already `< 2^width`) ↦ merged value -/
  write : Val → Lhs → Val → Val
  /-- `$display` argument: self-determined width and value -/
  arg : (Nat → Val) → Rhs → Nat × Val
  poison : Val

/-- a store: one value per variable. A structure (not a bare function type) so that the compiled
model keeps stores as data — a definition returning a bare function would be compiled with the
look-up index as an extra parameter and re-execute statements on every look-up. -/
structure Store (D : Dom) where
  get : Nat → D.Val

instance (D : Dom) : CoeFun (Store D) (fun _ => Nat → D.Val) := ⟨Store.get⟩

def updF {α : Type} (σ : Nat → α) (i : Nat) (v : α) : Nat → α := fun j => if j = i then v else σ j

def upd {D : Dom} (σ : Store D) (i : Nat) (v : D.Val) : Store D := ⟨updF σ.get i v⟩

def poisonList (D : Dom) : List Nat → Store D → Store D
  | [], σ => σ
  | x :: xs, σ => poisonList D xs (upd σ x D.poison)

/-! ### assignment targets (the variables a statement may write) -/

mutual
def targetsS : Stmt → List Nat
  | .set l _ => [l.var]
  | .setDyn v _ _ _ _ => [v]
  | .ite _ t e => targetsSs t ++ targetsSs e
  | .case _ arms d => targetsArms arms ++ targetsSs d
  | .disp _ _ => []
def targetsSs : Stmts → List Nat
  | .nil => []
  | .cons s ss => targetsS s ++ targetsSs ss
def targetsArms : Arms → List Nat
  | .nil => []
  | .cons _ _ b rest => targetsSs b ++ targetsArms rest
end

mutual
def hasDispS : Stmt → Bool
  | .set _ _ => false
  | .setDyn _ _ _ _ _ => false
  | .ite _ t e => hasDispSs t || hasDispSs e
  | .case _ arms d => hasDispArms arms || hasDispSs d
  | .disp _ _ => true
def hasDispSs : Stmts → Bool
  | .nil => false
  | .cons s ss => hasDispS s || hasDispSs ss
def hasDispArms : Arms → Bool
  | .nil => false
  | .cons _ _ b rest => hasDispSs b || hasDispArms rest
end

/-- the target of a run-time indexed store once the index is known -/
def dynLhs (v w i : Nat) : Lhs := { var := v, lo := i * w, width := w, full := false }

/-! ### blocking execution (`assign`, `always_comb`) -/

mutual
def execS (D : Dom) : Stmt → Store D → Store D
  | .set l r, σ => upd σ l.var (D.write (σ.get l.var) l (D.rhs σ.get r l.width))
  | .setDyn v vw w idx r, σ =>
    match D.idx σ.get idx with
    | some i => if i * w + w ≤ vw then upd σ v (D.write (σ.get v) (dynLhs v w i) (D.rhs σ.get r w)) else σ
    | none => upd σ v D.poison
  | .ite c t e, σ =>
    match D.cond σ.get c with
    | some true => execSs D t σ
    | some false => execSs D e σ
    | none => poisonList D (targetsSs t ++ targetsSs e) σ
  | .case sel arms d, σ =>
    match execArms D sel (targetsSs d) arms σ with
    | some σ' => σ'
    | none => execSs D d σ
  | .disp _ _, σ => σ
def execSs (D : Dom) : Stmts → Store D → Store D
  | .nil, σ => σ
  | .cons s ss, σ => execSs D ss (execS D s σ)
/-- `none` = no arm matched (the default branch runs); `dt` = the targets of the default branch -/
def execArms (D : Dom) (sel : Rhs) (dt : List Nat) : Arms → Store D → Option (Store D)
  | .nil, _ => none
  | .cons lw lv b rest, σ =>
    match D.arm σ.get sel lw lv with
    | some true => some (execSs D b σ)
    | some false => execArms D sel dt rest σ
    | none => some (poisonList D (targetsSs b ++ targetsArms rest ++ dt) σ)
end

/-! ### nonblocking execution (`always_ff`): every read sees the pre-edge state `σ` -/

inductive Ev (V : Type) where
  | write (l : Lhs) (v : V)
  | poisonVar (x : Nat)
  | disp (id : Nat) (args : List (Nat × V))
  /-- a `$display` under an undetermined condition: the output of this cycle is a don't-care -/
  | dispDc

def poisonEvs (D : Dom) (xs : List Nat) (disp : Bool) : List (Ev D.Val) :=
  xs.map Ev.poisonVar ++ (if disp then [Ev.dispDc] else [])

mutual
def nbS (D : Dom) : Stmt → Store D → List (Ev D.Val)
  | .set l r, σ => [Ev.write l (D.rhs σ.get r l.width)]
  | .setDyn v vw w idx r, σ =>
    match D.idx σ.get idx with
    | some i => if i * w + w ≤ vw then [Ev.write (dynLhs v w i) (D.rhs σ.get r w)] else []
    | none => [Ev.poisonVar v]
  | .ite c t e, σ =>
    match D.cond σ.get c with
    | some true => nbSs D t σ
    | some false => nbSs D e σ
    | none => poisonEvs D (targetsSs t ++ targetsSs e) (hasDispSs t || hasDispSs e)
  | .case sel arms d, σ =>
    match nbArms D sel (targetsSs d) (hasDispSs d) arms σ with
    | some evs => evs
    | none => nbSs D d σ
  | .disp id args, σ => [Ev.disp id (args.map (D.arg σ.get))]
def nbSs (D : Dom) : Stmts → Store D → List (Ev D.Val)
  | .nil, _ => []
  | .cons s ss, σ => nbS D s σ ++ nbSs D ss σ
def nbArms (D : Dom) (sel : Rhs) (dt : List Nat) (dd : Bool) : Arms → Store D → Option (List (Ev D.Val))
  | .nil, _ => none
  | .cons lw lv b rest, σ =>
    match D.arm σ.get sel lw lv with
    | some true => some (nbSs D b σ)
    | some false => nbArms D sel dt dd rest σ
    | none => some (poisonEvs D (targetsSs b ++ targetsArms rest ++ dt) (hasDispSs b || hasDispArms rest || dd))
end

def applyEv (D : Dom) (σ : Store D) : Ev D.Val → Store D
  | .write l v => upd σ l.var (D.write (σ.get l.var) l v)
  | .poisonVar x => upd σ x D.poison
  | .disp _ _ => σ
  | .dispDc => σ

/-- commit the write log in program order (last write wins per bit) -/
def commit (D : Dom) (evs : List (Ev D.Val)) (σ : Store D) : Store D := evs.foldl (applyEv D) σ

/-! ### settle / step / run -/

def runComb (D : Dom) (σ : Store D) : Decl → Store D
  | .comb b => execSs D b σ
  | .ff _ _ _ => σ

/-- one pass over all combinational declarations in the given order -/
def pass (D : Dom) (ds : List Decl) (σ : Store D) : Store D := ds.foldl (runComb D) σ

def settle (D : Dom) (ds : List Decl) : Nat → Store D → Store D
  | 0, σ => σ
  | n + 1, σ => settle D ds n (pass D ds σ)

def ffEvents (D : Dom) (reset : Bool) (σ : Store D) : Decl → List (Ev D.Val)
  | .comb _ => []
  | .ff hasReset rst body => nbSs D (if reset && hasReset then rst else body) σ

def events (D : Dom) (ds : List Decl) (reset : Bool) (σ : Store D) : List (Ev D.Val) :=
  ds.flatMap (ffEvents D reset σ)

def setInputs {D : Dom} : List Nat → List D.Val → Store D → Store D
  | i :: is, v :: vs, σ => setInputs is vs (upd σ i v)
  | _, _, σ => σ

/-- a store read from a finite table (variables beyond the table read `poison`) -/
def lookup (D : Dom) (tbl : List D.Val) : Store D := ⟨fun i => tbl.getD i D.poison⟩

/-- the first `n` variables of a store as a table -/
def tabulate (D : Dom) (n : Nat) (σ : Store D) : List D.Val := (List.range n).map σ.get

/-- one clock edge on the state table: inputs, settle, sample + evaluate `always_ff`, commit,
settle. `reset` = the edge is taken with the reset asserted. -/
def step (D : Dom) (dsg : Design) (tbl : List D.Val) (reset : Bool) (ins : List D.Val) : List D.Val × List (Ev D.Val) :=
  let n := dsg.decls.length
  let σ1 := settle D dsg.decls n (setInputs dsg.inputs ins (lookup D tbl))
  let evs := events D dsg.decls reset σ1
  (tabulate D dsg.nvars (settle D dsg.decls n (commit D evs σ1)), evs)

/-- per cycle: the observed values and the event list (for the `$display` records) -/
def run (D : Dom) (dsg : Design) : List D.Val → List (Bool × List D.Val) → List (List D.Val × List (Ev D.Val))
  | _, [] => []
  | tbl, (reset, ins) :: rest =>
    let r := step D dsg tbl reset ins
    (dsg.observed.map (lookup D r.1).get, r.2) :: run D dsg r.1 rest

/-! ### D2: 2-state with don't-care -/

def slice (v lo w : Nat) : Nat := (v / 2 ^ lo) % 2 ^ w

/-- replace bits `[lo, lo+w)` of `o` by `n` (`n < 2^w`) -/
def splice (o lo w n : Nat) : Nat := o % 2 ^ lo + n * 2 ^ lo + (o / 2 ^ (lo + w)) * 2 ^ (lo + w)

def env2 (σ : Nat → Option Nat) : List Leaf → Option Env
  | [] => some []
  | l :: ls =>
    match σ l.var, env2 σ ls with
    | some v, some env => some ({ width := l.width, signed := l.signed, value := slice v l.lo l.width } :: env)
    | _, _ => none

/-- self-determined value -/
def selfVal (env : Env) (e : Expr) : Option Nat := eval env e (size env e) (sgn env e)

def eqLabel (sel : Rhs) (lw lv : Nat) : Rhs := { leaves := sel.leaves, body := .bin .eq sel.body (.lit lw false lv) }

def rhs2 (σ : Nat → Option Nat) (r : Rhs) (wo : Nat) : Option Nat :=
  match env2 σ r.leaves with
  | some env => assign env wo r.body
  | none => none

def cond2 (σ : Nat → Option Nat) (r : Rhs) : Option Bool :=
  match env2 σ r.leaves with
  | some env => (selfVal env r.body).map (fun v => v != 0)
  | none => none

def idx2 (σ : Nat → Option Nat) (r : Rhs) : Option Nat :=
  match env2 σ r.leaves with
  | some env => selfVal env r.body
  | none => none

def write2 (old : Option Nat) (l : Lhs) (new : Option Nat) : Option Nat :=
  if l.full then new else
  match old, new with
  | some o, some n => some (splice o l.lo l.width n)
  | _, _ => none

def arg2 (σ : Nat → Option Nat) (r : Rhs) : Nat × Option Nat :=
  match env2 σ r.leaves with
  | some env => (size env r.body, selfVal env r.body)
  | none => (0, none)

@[reducible] def D2 : Dom where
  Val := Option Nat
  rhs := rhs2
  cond := cond2
  arm := fun σ sel lw lv => cond2 σ (eqLabel sel lw lv)
  idx := idx2
  write := write2
  arg := arg2
  poison := none

/-! ### D4: 4-state -/

structure Port4 where
  width : Nat
  signed : Bool
  value : Nat
  mask : Nat
deriving Repr

abbrev Env4 := List Port4

def erase (env : Env4) : Env := env.map fun p => { width := p.width, signed := p.signed, value := p.value }

def portOf4 (env : Env4) (i : Nat) : Port4 := env.getD i { width := 1, signed := false, value := 0, mask := 0 }

abbrev V4 := Nat × Nat

def allX (w : Nat) : V4 := (0, 2 ^ w - 1)

/-- clear the bits of `v` that are set in `m` -/
def clr (v m : Nat) : Nat := (v ||| m) ^^^ m

/-- the bits known to be 1 -/
def known1 (x : V4) : Nat := clr x.1 x.2

/-- the bits (below `w`) known to be 0 -/
def known0 (w : Nat) (x : V4) : Nat := clr (2 ^ w - 1) (x.1 ||| x.2)

/-- three-valued truth of a self-determined operand: `some true` (a known 1 bit), `some false`
(all bits known 0), `none` (X) -/
def truth4 (x : V4) : Option Bool :=
  if known1 x ≠ 0 then some true else if x.2 = 0 then some false else none

def ofTruth (t : Option Bool) : V4 :=
  match t with
  | some b => (b2n b, 0)
  | none => (0, 1)

def arith2 (op : BinOp) (w : Nat) (s : Bool) (x y : Nat) : Option Nat :=
  match op with
  | .add => some ((x + y) % 2 ^ w)
  | .sub => some ((x + 2 ^ w - y) % 2 ^ w)
  | .mul => some ((x * y) % 2 ^ w)
  | .div =>
    if y = 0 then none
    else if s then some (ofInt w (Int.tdiv (toInt w x) (toInt w y))) else some (x / y)
  | .mod =>
    if y = 0 then none
    else if s then some (ofInt w (Int.tmod (toInt w x) (toInt w y))) else some (x % y)
  | .band => some (x &&& y)
  | .bor => some (x ||| y)
  | .bxor => some (x ^^^ y)
  | _ => some (2 ^ w - 1 - (x ^^^ y))

def shift2 (op : BinOp) (w : Nat) (s : Bool) (x k : Nat) : Nat :=
  match op with
  | .shl | .ashl => if k ≥ w then 0 else (x * 2 ^ k) % 2 ^ w
  | .shr => if k ≥ w then 0 else x / 2 ^ k
  | _ =>
    if s then (if k ≥ w then (if toInt w x < 0 then 2 ^ w - 1 else 0) else ofInt w (toInt w x / ((2 ^ k : Nat) : Int)))
    else (if k ≥ w then 0 else x / 2 ^ k)

def cmp2 (op : BinOp) (cw : Nat) (cs : Bool) (x y : Nat) : Nat :=
  match op with
  | .eq => b2n (x = y)
  | .ne => b2n (x ≠ y)
  | .lt => if cs then b2n (toInt cw x < toInt cw y) else b2n (x < y)
  | .le => if cs then b2n (toInt cw x ≤ toInt cw y) else b2n (x ≤ y)
  | .gt => if cs then b2n (toInt cw x > toInt cw y) else b2n (x > y)
  | _ => if cs then b2n (toInt cw x ≥ toInt cw y) else b2n (x ≥ y)

def red2 (op : UnOp) (aw v : Nat) : Nat :=
  match op with
  | .lnot => b2n (v = 0)
  | .rand => b2n (v = 2 ^ aw - 1)
  | .ror => b2n (v ≠ 0)
  | .rxor => parity v aw
  | .rnand => b2n (v ≠ 2 ^ aw - 1)
  | .rnor => b2n (v = 0)
  | _ => 1 - parity v aw

/-- reduction / logical negation of an operand with X bits -/
def red4 (op : UnOp) (aw : Nat) (x : V4) : V4 :=
  match op with
  | .rand => if known0 aw x ≠ 0 then (0, 0) else (0, 1)
  | .rnand => if known0 aw x ≠ 0 then (1, 0) else (0, 1)
  | .ror => if known1 x ≠ 0 then (1, 0) else (0, 1)
  | .rnor | .lnot => if known1 x ≠ 0 then (0, 0) else (0, 1)
  | _ => (0, 1)

/-- bitwise operators on operands with X bits (Z is treated as X) -/
def bitwise4 (op : BinOp) (w : Nat) (x y : V4) : V4 :=
  match op with
  | .band =>
    let m := clr (x.2 ||| y.2) (known0 w x ||| known0 w y)
    (clr (known1 x &&& known1 y) m, m)
  | .bor =>
    let m := clr (x.2 ||| y.2) (known1 x ||| known1 y)
    (clr (known1 x ||| known1 y) m, m)
  | .bxor =>
    let m := x.2 ||| y.2
    (clr (x.1 ^^^ y.1) m, m)
  | _ =>
    let m := x.2 ||| y.2
    (clr (2 ^ w - 1 - ((x.1 ^^^ y.1) % 2 ^ w)) m, m)

def isBitwise : BinOp → Bool
  | .band | .bor | .bxor | .bxnor => true
  | _ => false

/-- 4-state value of `e` in a context of `w` bits and type `s`. -/
def eval4 (env : Env4) : Expr → Nat → Bool → V4
  | .port i, w, s =>
    let p := portOf4 env i
    (ext p.value p.width w s, ext p.mask p.width w s)
  | .lit lw _ v, w, s => (ext v lw w s, 0)
  | .un op a, w, s =>
    match op with
    | .plus => eval4 env a w s
    | .neg =>
      let x := eval4 env a w s
      if x.2 = 0 then ((2 ^ w - x.1) % 2 ^ w, 0) else allX w
    | .bnot =>
      let x := eval4 env a w s
      if x.2 = 0 then (2 ^ w - 1 - x.1, 0) else (clr (2 ^ w - 1 - x.1 % 2 ^ w) x.2, x.2)
    | _ =>
      let aw := size (erase env) a
      let x := eval4 env a aw (sgn (erase env) a)
      let r : V4 := if x.2 = 0 then (red2 op aw x.1, 0) else red4 op aw x
      (ext r.1 1 w false, ext r.2 1 w false)
  | .bin op a b, w, s =>
    if op.isArith then
      let x := eval4 env a w s
      let y := eval4 env b w s
      if x.2 = 0 ∧ y.2 = 0 then
        match arith2 op w s x.1 y.1 with
        | some v => (v, 0)
        | none => allX w
      else if isBitwise op then bitwise4 op w x y
      else allX w
    else if op.isShift then
      let bw := size (erase env) b
      let x := eval4 env a w s
      let k := eval4 env b bw (sgn (erase env) b)
      if k.2 ≠ 0 then allX w
      else if x.2 = 0 then (shift2 op w s x.1 k.1, 0)
      else (clr (shift2 op w s x.1 k.1) (shift2 op w s x.2 k.1), shift2 op w s x.2 k.1)
    else if op.isCmp then
      let cw := max (size (erase env) a) (size (erase env) b)
      let cs := sgn (erase env) a && sgn (erase env) b
      let x := eval4 env a cw cs
      let y := eval4 env b cw cs
      let r : V4 :=
        if x.2 = 0 ∧ y.2 = 0 then (cmp2 op cw cs x.1 y.1, 0)
        else
          match op with
          | .eq => if clr (x.1 ^^^ y.1) (x.2 ||| y.2) ≠ 0 then (0, 0) else (0, 1)
          | .ne => if clr (x.1 ^^^ y.1) (x.2 ||| y.2) ≠ 0 then (1, 0) else (0, 1)
          | _ => (0, 1)
      (ext r.1 1 w false, ext r.2 1 w false)
    else
      let x := eval4 env a (size (erase env) a) (sgn (erase env) a)
      let y := eval4 env b (size (erase env) b) (sgn (erase env) b)
      let r : V4 :=
        if x.2 = 0 ∧ y.2 = 0 then
          (match op with
            | .land => b2n (x.1 ≠ 0 && y.1 ≠ 0)
            | _ => b2n (x.1 ≠ 0 || y.1 ≠ 0), 0)
        else
          match op with
          | .land =>
            (match truth4 x, truth4 y with
              | some false, _ => (0, 0)
              | _, some false => (0, 0)
              | some true, some true => (1, 0)
              | _, _ => (0, 1))
          | _ =>
            (match truth4 x, truth4 y with
              | some true, _ => (1, 0)
              | _, some true => (1, 0)
              | some false, some false => (0, 0)
              | _, _ => (0, 1))
      (ext r.1 1 w false, ext r.2 1 w false)
  | .ite c a b, w, s =>
    let cv := eval4 env c (size (erase env) c) (sgn (erase env) c)
    let x := eval4 env a w s
    let y := eval4 env b w s
    if cv.2 = 0 then (if cv.1 ≠ 0 then x else y)
    else
      match truth4 cv with
      | some true => x
      | some false => y
      | none =>
        let m := x.2 ||| y.2 ||| (x.1 ^^^ y.1)
        (clr x.1 m, m)
  | .cat a b, w, _ =>
    let aw := size (erase env) a
    let bw := size (erase env) b
    let x := eval4 env a aw (sgn (erase env) a)
    let y := eval4 env b bw (sgn (erase env) b)
    (ext (x.1 * 2 ^ bw + y.1) (aw + bw) w false, ext (x.2 * 2 ^ bw + y.2) (aw + bw) w false)

def assign4 (env : Env4) (wo : Nat) (e : Expr) : V4 :=
  let r := eval4 env e (max (size (erase env) e) wo) (sgn (erase env) e)
  (r.1 % 2 ^ wo, r.2 % 2 ^ wo)

def selfVal4 (env : Env4) (e : Expr) : V4 := eval4 env e (size (erase env) e) (sgn (erase env) e)

def env4 (σ : Nat → V4) : List Leaf → Env4
  | [] => []
  | l :: ls => { width := l.width, signed := l.signed, value := slice (σ l.var).1 l.lo l.width, mask := slice (σ l.var).2 l.lo l.width } :: env4 σ ls

def rhs4 (σ : Nat → V4) (r : Rhs) (wo : Nat) : V4 := assign4 (env4 σ r.leaves) wo r.body

/-- a condition holds iff some bit is known to be 1 (`value_is_true` of the interpreter; IEEE:
an X condition selects the else branch) -/
def cond4 (σ : Nat → V4) (r : Rhs) : Option Bool := some (known1 (selfVal4 (env4 σ r.leaves) r.body) != 0)

/-- a run-time index with an X/Z bit is undetermined -/
def idx4 (σ : Nat → V4) (r : Rhs) : Option Nat :=
  let x := selfVal4 (env4 σ r.leaves) r.body
  if x.2 = 0 then some x.1 else none

def write4 (old : V4) (l : Lhs) (new : V4) : V4 :=
  if l.full then new else (splice old.1 l.lo l.width new.1, splice old.2 l.lo l.width new.2)

def arg4 (σ : Nat → V4) (r : Rhs) : Nat × V4 :=
  (size (erase (env4 σ r.leaves)) r.body, selfVal4 (env4 σ r.leaves) r.body)

@[reducible] def D4 : Dom where
  Val := V4
  rhs := rhs4
  cond := cond4
  arm := fun σ sel lw lv => cond4 σ (eqLabel sel lw lv)
  idx := idx4
  write := write4
  arg := arg4
  poison := (0, 1)

/-- embedding of a known 2-state value -/
def lift (v : Nat) : V4 := (v, 0)

end VerylModel.Sim
