/-
M-Inside: what the emitter writes for `x inside {items}` with and without `expand_inside_operation`
(crates/emitter/src/emitter.rs `inside_normal_expression`, `range`, `inside_expanded_expression`,
`inside_element_operation`), evaluated on 2-state unsigned `w`-bit values (all operands < 2^w).

normal:    `((x) inside {i₁, …})`  with  `a..b`  ↦ `[a:(b)-1]`,  `a..=b` ↦ `[a:b]`,  `c` ↦ `c`
expanded:  `(e₁ || …)`             with  `a..b`  ↦ `((x) >= (a)) && ((x) < (b))`,
                                          `a..=b` ↦ `((x) >= (a)) && ((x) <= (b))`,  `c` ↦ `(x) ==? (c)`
SystemVerilog (IEEE 1800-2017 §11.4.13): `x inside {[lo:hi]}` ⇔ `lo <= x && x <= hi`; a value item
matches with `==?` (plain equality on 2-state values). `(b)-1` is computed modulo `2^w`.
No imports: linked into the `vmodel` driver.
-/
namespace VerylModel.Inside

inductive Item where
  | value (c : Nat)
  | range (a b : Nat) (inclusive : Bool)
deriving Repr, DecidableEq, Inhabited

/-- One element of the `inside` set as emitted WITHOUT `expand_inside_operation`. -/
def normalItem (w x : Nat) : Item → Bool
  | .value c => x == c
  | .range a b true => decide (a ≤ x) && decide (x ≤ b)
  | .range a b false => decide (a ≤ x) && decide (x ≤ (b + 2 ^ w - 1) % 2 ^ w)

/-- `((x) inside {items})`. -/
def normal (w x : Nat) (items : List Item) : Bool := items.any (normalItem w x)

/-- `inside_element_operation`. -/
def expandedItem (x : Nat) : Item → Bool
  | .value c => x == c
  | .range a b true => decide (x ≥ a) && decide (x ≤ b)
  | .range a b false => decide (x ≥ a) && decide (x < b)

/-- `inside_expanded_expression`: the `||` chain. -/
def expanded (x : Nat) : List Item → Bool
  | [] => false
  | [i] => expandedItem x i
  | i :: is => expandedItem x i || expanded x is

end VerylModel.Inside
