/-
M-Graph: finite digraphs as edge lists over `Nat` node ids, topological orders, and acyclicity as
the existence of a rank function. Import-free (linked into `vmodel`).

An edge `(a, b)` reads "`a` must come before `b`" (in the type dag: `a` is referenced by `b`;
`TypeDag::insert_dag_edge(parent, child)` stores the edge reversed, dependency → dependent).
-/
namespace VerylModel.Graph

abbrev Edge := Nat × Nat

/-- `x` occurs before `y` in `l`. -/
def Before (l : List Nat) (x y : Nat) : Prop := ∃ l1 l2 l3, l = l1 ++ x :: l2 ++ y :: l3

/-- `order` is a topological order of `edges` (what `petgraph::algo::toposort` returns on a DAG):
    every edge goes forward. -/
def IsTopo (edges : List Edge) (order : List Nat) : Prop :=
  order.Nodup ∧ ∀ e ∈ edges, Before order e.1 e.2

/-- Acyclic = some rank function strictly increases along every edge. -/
def Acyclic (edges : List Edge) : Prop := ∃ rank : Nat → Nat, ∀ e ∈ edges, rank e.1 < rank e.2

/-- Executable check that `order` is a topological order of the edges among its nodes. -/
def idxOf (l : List Nat) (x : Nat) : Nat :=
  match l with
  | [] => 0
  | y :: ys => if y = x then 0 else idxOf ys x + 1

def isTopoB (edges : List Edge) (order : List Nat) : Bool :=
  edges.all (fun e => !(order.contains e.1 && order.contains e.2) || idxOf order e.1 < idxOf order e.2)

end VerylModel.Graph
