/-
M-Store: executable model of crates/cache/src/lib.rs (`Store`).

Modelled line by line: `open_with_lock` (manifest parse, schema/key test, `on_disk_current`),
`entry`, `load`/`load_diagnostics` (`read_blob`: content-hash test with removal of a damaged file,
magic + version header), `write_blob`
(content addressed, "exists ⇒ reuse"), `put`, `set_diagnostics`, `keep`, `invalidate`,
`set_dependents`, `set_tests`, `save` (skip-write shortcut, manifest replace, `gc`), and the API as a
state machine (`Op`, `step`, `run`). The second half is the abstract specification of C29
(`Spec`, `AState`, `astep`) and the abstraction function (`abs`).

Modelled, not verified (trusted base of C29):
* BLAKE3 content addressing is *injective naming*: a blob's name is its data.
* `toml::to_string`/`from_str` round-trip a manifest; an unparsable file is `none`.
* `atomic_write`/`fs::remove_file` succeed (failure paths degrade to a miss in the code and are
  covered by C05's damage model, not here).
* The advisory lock gives one store at a time (C30 treats concurrency).
No imports: this file is linked into the `vmodel` driver.
-/
namespace VerylModel.Store

/-- `FileEntry` of the manifest. Blob references are the blob *names*. -/
structure Entry where
  hash : String
  fragment : Option String
  dependents : List String
  tests : List String
  diagnostics : Option String
deriving DecidableEq, Repr, Inhabited

abbrev Files := List (String × Entry)

def lookup (fs : Files) (p : String) : Option Entry :=
  match fs with
  | [] => none
  | (k, v) :: rest => if k = p then some v else lookup rest p

/-- `BTreeMap::insert`: replace or add. Order is irrelevant to every observer used here. -/
def insert (fs : Files) (p : String) (e : Entry) : Files :=
  (p, e) :: fs.filter (fun kv => kv.1 ≠ p)

/-- `get_mut(p).map(f)`. -/
def update (fs : Files) (p : String) (f : Entry → Entry) : Files :=
  fs.map (fun kv => if kv.1 = p then (kv.1, f kv.2) else kv)

/-- `BTreeMap == BTreeMap` (same keys, same values), on the association-list representation. -/
def sub (a b : Files) : Bool := a.all (fun kv => lookup b kv.1 == some kv.2)
def mapEq (a b : Files) : Bool := sub a b && sub b a

structure Manifest where
  schema : Nat
  key : String
  files : Files
deriving DecidableEq, Repr, Inhabited

/-- Filesystem under the store root: manifest file (`none` = absent or unparsable) and blob files
    as (name, content). -/
structure Disk where
  manifest : Option Manifest
  blobs : List (String × String)
deriving DecidableEq, Repr, Inhabited

structure Mem where
  key : String
  files : Files          -- `manifest.files`
  next : Files           -- `next_files`
  onDiskCurrent : Bool
deriving DecidableEq, Repr, Inhabited

structure Consts where
  schemaVersion : Nat
  header : String        -- BLOB_MAGIC ++ SCHEMA_VERSION.to_le_bytes(), as text

def blobData (c : Consts) (payload : String) : String := c.header ++ payload

/-- Injective naming: the model names a blob by its data. -/
def blobName (c : Consts) (payload : String) : String := blobData c payload

def findBlob (bs : List (String × String)) (name : String) : Option String :=
  match bs with
  | [] => none
  | (n, d) :: rest => if n = name then some d else findBlob rest name

/-- `read_blob`: file present; its bytes hash to its name (in the model a blob's name *is* its
    data, so: `data = name`), otherwise the file is removed and the read is a miss; header matches;
    return payload. Returns the disk too, because of the `remove_file`. -/
def readBlob (c : Consts) (d : Disk) (name : String) : Disk × Option String :=
  match findBlob d.blobs name with
  | none => (d, none)
  | some data =>
    if data ≠ name then
      ({ d with blobs := d.blobs.filter (fun b => b.1 ≠ name) }, none)
    else if data.startsWith c.header then (d, some (data.drop c.header.length).toString)
    else (d, none)

/-- `write_blob`: `if !path.exists() { atomic_write }`. -/
def writeBlob (c : Consts) (d : Disk) (payload : String) : Disk × String :=
  let name := blobName c payload
  match findBlob d.blobs name with
  | some _ => (d, name)
  | none => ({ d with blobs := (name, blobData c payload) :: d.blobs }, name)

def openStore (c : Consts) (d : Disk) (key : String) : Mem :=
  match d.manifest with
  | some m =>
    if m.schema = c.schemaVersion ∧ m.key = key then
      { key := key, files := m.files, next := [], onDiskCurrent := true }
    else
      { key := key, files := [], next := [], onDiskCurrent := false }
  | none => { key := key, files := [], next := [], onDiskCurrent := false }

def entry (m : Mem) (p : String) : Option Entry := lookup m.files p

def load (c : Consts) (d : Disk) (e : Entry) : Disk × Option String :=
  match e.fragment with
  | none => (d, none)
  | some n => readBlob c d n

def loadDiagnostics (c : Consts) (d : Disk) (e : Entry) : Disk × Option String :=
  match e.diagnostics with
  | none => (d, none)
  | some n => readBlob c d n

def put (c : Consts) (d : Disk) (m : Mem) (p h : String) (blob : Option String) : Disk × Mem :=
  match blob with
  | none =>
    let e : Entry := { hash := h, fragment := none, dependents := [], tests := [], diagnostics := none }
    (d, { m with next := insert m.next p e })
  | some payload =>
    let (d', name) := writeBlob c d payload
    let e : Entry := { hash := h, fragment := some name, dependents := [], tests := [], diagnostics := none }
    (d', { m with next := insert m.next p e })

def setDiagnostics (c : Consts) (d : Disk) (m : Mem) (p blob : String) : Disk × Mem :=
  match lookup m.next p with
  | none => (d, m)
  | some e =>
    match e.fragment with
    | none => (d, m)
    | some _ =>
      let (d', name) := writeBlob c d blob
      (d', { m with next := update m.next p (fun e => { e with diagnostics := some name }) })

def keep (m : Mem) (p : String) : Mem :=
  match lookup m.files p with
  | none => m
  | some e => { m with next := insert m.next p e }

def invalidate (m : Mem) (p : String) : Mem :=
  { m with next := update m.next p (fun e => { e with fragment := none }) }

def setDependents (m : Mem) (p : String) (ds : List String) : Mem :=
  { m with next := update m.next p (fun e => { e with dependents := ds }) }

def setTests (m : Mem) (p : String) (ts : List String) : Mem :=
  { m with next := update m.next p (fun e => { e with tests := ts }) }

def referenced (fs : Files) : List String :=
  fs.flatMap (fun kv => kv.2.fragment.toList ++ kv.2.diagnostics.toList)

/-- `gc`: remove every blob file not referenced by the manifest. -/
def gc (d : Disk) (fs : Files) : Disk :=
  { d with blobs := d.blobs.filter (fun b => (referenced fs).contains b.1) }

/-- The write branch of `save`: replace `manifest.files`, write the manifest, `gc`. -/
def saveWrite (c : Consts) (d : Disk) (m : Mem) : Disk × Mem :=
  let d1 : Disk := { d with manifest := some { schema := c.schemaVersion, key := m.key, files := m.next } }
  (gc d1 m.next, { m with files := m.next, next := [], onDiskCurrent := true })

def save (c : Consts) (d : Disk) (m : Mem) : Disk × Mem :=
  if m.onDiskCurrent && mapEq m.next m.files then
    (d, { m with next := [] })
  else
    saveWrite c d m

/-! ## Operation sequences

The store API as a state machine on `(disk, open store?)`. Operations that need an open store
are no-ops without one (the driver answers `bad-op`; in Rust they cannot be written). -/

inductive Op where
  | open (key : String)
  | drop
  | put (p h : String) (blob : Option String)
  | setDiagnostics (p blob : String)
  | keep (p : String)
  | invalidate (p : String)
  | setDependents (p : String) (ds : List String)
  | setTests (p : String) (ts : List String)
  | save
  /-- `entry(p).and_then(load)`: a read, but `read_blob` may remove a damaged file -/
  | load (p : String)
  /-- `entry(p).and_then(load_diagnostics)` -/
  | loadDiagnostics (p : String)
deriving DecidableEq, Repr, Inhabited

abbrev State := Disk × Option Mem

/-- Fresh cache directory, no store open. -/
def init : State := ({ manifest := none, blobs := [] }, none)

def step (c : Consts) (s : State) (o : Op) : State :=
  match o, s.2 with
  | .open key, _ => (s.1, some (openStore c s.1 key))
  | .drop, _ => (s.1, none)
  | .put p h b, some m => let r := put c s.1 m p h b; (r.1, some r.2)
  | .setDiagnostics p b, some m => let r := setDiagnostics c s.1 m p b; (r.1, some r.2)
  | .keep p, some m => (s.1, some (keep m p))
  | .invalidate p, some m => (s.1, some (invalidate m p))
  | .setDependents p ds, some m => (s.1, some (setDependents m p ds))
  | .setTests p ts, some m => (s.1, some (setTests m p ts))
  | .save, some m => let r := save c s.1 m; (r.1, some r.2)
  | .load p, some m =>
    match entry m p with
    | none => s
    | some e => ((load c s.1 e).1, some m)
  | .loadDiagnostics p, some m =>
    match entry m p with
    | none => s
    | some e => ((loadDiagnostics c s.1 e).1, some m)
  | _, none => s

def run (c : Consts) (s : State) (ops : List Op) : State := ops.foldl (step c) s

/-! ## Abstract specification (C29): a versioned key-value map

`Spec` is "the last saved build": the key it was saved under and, per source path, the entry
together with the *payload bytes* of its fragment / diagnostics blobs. `AState`/`astep` is the
reference machine over which the property is stated: it stores payloads directly, knows nothing
about blob files, content addressing, the skip-write shortcut or garbage collection. -/

structure AbsEntry where
  hash : String
  dependents : List String
  tests : List String
  fragment : Option String      -- payload bytes
  diagnostics : Option String   -- payload bytes
deriving DecidableEq, Repr, Inhabited

abbrev AbsFiles := String → Option AbsEntry

abbrev Spec := Option (String × AbsFiles)

def AbsFiles.empty : AbsFiles := fun _ => none

def AbsFiles.set (f : AbsFiles) (p : String) (e : AbsEntry) : AbsFiles :=
  fun q => if p = q then some e else f q

def AbsFiles.modify (f : AbsFiles) (p : String) (g : AbsEntry → AbsEntry) : AbsFiles :=
  fun q => if p = q then (f q).map g else f q

structure ASession where
  key : String
  prev : AbsFiles     -- what `entry`/`load`/`load_diagnostics` answer
  next : AbsFiles     -- the build in progress

structure AState where
  saved : Spec
  sess : Option ASession

def ainit : AState := { saved := none, sess := none }

/-- What a store opened with `key` sees of the last saved build. -/
def Spec.visible (s : Spec) (key : String) : AbsFiles :=
  match s with
  | some (k, f) => if k = key then f else AbsFiles.empty
  | none => AbsFiles.empty

def astep (a : AState) (o : Op) : AState :=
  match o, a.sess with
  | .open key, _ =>
    { a with sess := some { key := key, prev := a.saved.visible key, next := AbsFiles.empty } }
  | .drop, _ => { a with sess := none }
  | .put p h b, some s =>
    let e : AbsEntry := { hash := h, dependents := [], tests := [], fragment := b, diagnostics := none }
    { a with sess := some { s with next := s.next.set p e } }
  | .setDiagnostics p b, some s =>
    match s.next p with
    | none => a
    | some e =>
      match e.fragment with
      | none => a
      | some _ =>
        { a with sess := some { s with next := s.next.modify p (fun e => { e with diagnostics := some b }) } }
  | .keep p, some s =>
    match s.prev p with
    | none => a
    | some e => { a with sess := some { s with next := s.next.set p e } }
  | .invalidate p, some s =>
    { a with sess := some { s with next := s.next.modify p (fun e => { e with fragment := none }) } }
  | .setDependents p ds, some s =>
    { a with sess := some { s with next := s.next.modify p (fun e => { e with dependents := ds }) } }
  | .setTests p ts, some s =>
    { a with sess := some { s with next := s.next.modify p (fun e => { e with tests := ts }) } }
  | .save, some s =>
    { saved := some (s.key, s.next), sess := some { s with prev := s.next, next := AbsFiles.empty } }
  | .load _, some _ => a             -- reads do not change the abstract state
  | .loadDiagnostics _, some _ => a
  | _, none => a

def arun (a : AState) (ops : List Op) : AState := ops.foldl astep a

/-! ### Abstraction function -/

def absEntry (c : Consts) (d : Disk) (e : Entry) : AbsEntry :=
  { hash := e.hash, dependents := e.dependents, tests := e.tests,
    fragment := (load c d e).2, diagnostics := (loadDiagnostics c d e).2 }

def absFiles (c : Consts) (d : Disk) (fs : Files) : AbsFiles :=
  fun p => (lookup fs p).map (absEntry c d)

/-- The last saved build as the disk records it (a manifest of a foreign schema is no build). -/
def absDisk (c : Consts) (d : Disk) : Spec :=
  match d.manifest with
  | some m => if m.schema = c.schemaVersion then some (m.key, absFiles c d m.files) else none
  | none => none

def absMem (c : Consts) (d : Disk) (m : Mem) : ASession :=
  { key := m.key, prev := absFiles c d m.files, next := absFiles c d m.next }

def abs (c : Consts) (s : State) : AState :=
  { saved := absDisk c s.1, sess := s.2.map (absMem c s.1) }

end VerylModel.Store
