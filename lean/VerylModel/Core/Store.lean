/-
M-Store: executable model of crates/cache/src/lib.rs (`Store`).

Modelled line by line: `open_with_lock` (manifest parse, schema/key test, `on_disk_current`),
`entry`, `load`/`load_diagnostics` (`read_blob`: magic + version header), `write_blob`
(content addressed, "exists ⇒ reuse"), `put`, `set_diagnostics`, `keep`, `invalidate`,
`set_dependents`, `set_tests`, `save` (skip-write shortcut, manifest replace, `gc`).

Modelled, not verified (trusted base of C29):
* BLAKE3 content addressing is *injective naming*: a blob's name is its data.
* `toml::to_string`/`from_str` round-trip a manifest; an unparsable file is `none`.
* `atomic_write`/`fs::remove_file` succeed (failure paths degrade to a miss in the code and are
  covered by C05's damage model, not here).
* The advisory lock gives one store at a time (C30 treats concurrency).
No imports: this file is linked into the `vmodel` driver.
-/
namespace VerylModel.Store

/-- `FileEntry` of the manifest. Blob references are the blob *names*. -/
structure Entry where
  hash : String
  fragment : Option String
  dependents : List String
  tests : List String
  diagnostics : Option String
deriving DecidableEq, Repr, Inhabited

abbrev Files := List (String × Entry)

def lookup (fs : Files) (p : String) : Option Entry :=
  match fs with
  | [] => none
  | (k, v) :: rest => if k = p then some v else lookup rest p

/-- `BTreeMap::insert`: replace or add. Order is irrelevant to every observer used here. -/
def insert (fs : Files) (p : String) (e : Entry) : Files :=
  (p, e) :: fs.filter (fun kv => kv.1 ≠ p)

/-- `get_mut(p).map(f)`. -/
def update (fs : Files) (p : String) (f : Entry → Entry) : Files :=
  fs.map (fun kv => if kv.1 = p then (kv.1, f kv.2) else kv)

/-- `BTreeMap == BTreeMap` (same keys, same values), on the association-list representation. -/
def sub (a b : Files) : Bool := a.all (fun kv => lookup b kv.1 == some kv.2)
def mapEq (a b : Files) : Bool := sub a b && sub b a

structure Manifest where
  schema : Nat
  key : String
  files : Files
deriving Repr, Inhabited

/-- Filesystem under the store root: manifest file (`none` = absent or unparsable) and blob files
    as (name, content). -/
structure Disk where
  manifest : Option Manifest
  blobs : List (String × String)
deriving Repr, Inhabited

structure Mem where
  key : String
  files : Files          -- `manifest.files`
  next : Files           -- `next_files`
  onDiskCurrent : Bool
deriving Repr, Inhabited

structure Consts where
  schemaVersion : Nat
  header : String        -- BLOB_MAGIC ++ SCHEMA_VERSION.to_le_bytes(), as text

def blobData (c : Consts) (payload : String) : String := c.header ++ payload

/-- Injective naming: the model names a blob by its data. -/
def blobName (c : Consts) (payload : String) : String := blobData c payload

def findBlob (bs : List (String × String)) (name : String) : Option String :=
  match bs with
  | [] => none
  | (n, d) :: rest => if n = name then some d else findBlob rest name

/-- `read_blob`: file present, header matches, return payload. -/
def readBlob (c : Consts) (d : Disk) (name : String) : Option String :=
  match findBlob d.blobs name with
  | none => none
  | some data => if data.startsWith c.header then some (data.drop c.header.length).toString else none

/-- `write_blob`: `if !path.exists() { atomic_write }`. -/
def writeBlob (c : Consts) (d : Disk) (payload : String) : Disk × String :=
  let name := blobName c payload
  match findBlob d.blobs name with
  | some _ => (d, name)
  | none => ({ d with blobs := (name, blobData c payload) :: d.blobs }, name)

def openStore (c : Consts) (d : Disk) (key : String) : Mem :=
  match d.manifest with
  | some m =>
    if m.schema = c.schemaVersion ∧ m.key = key then
      { key := key, files := m.files, next := [], onDiskCurrent := true }
    else
      { key := key, files := [], next := [], onDiskCurrent := false }
  | none => { key := key, files := [], next := [], onDiskCurrent := false }

def entry (m : Mem) (p : String) : Option Entry := lookup m.files p

def load (c : Consts) (d : Disk) (e : Entry) : Option String :=
  match e.fragment with
  | none => none
  | some n => readBlob c d n

def loadDiagnostics (c : Consts) (d : Disk) (e : Entry) : Option String :=
  match e.diagnostics with
  | none => none
  | some n => readBlob c d n

def put (c : Consts) (d : Disk) (m : Mem) (p h : String) (blob : Option String) : Disk × Mem :=
  match blob with
  | none =>
    let e : Entry := { hash := h, fragment := none, dependents := [], tests := [], diagnostics := none }
    (d, { m with next := insert m.next p e })
  | some payload =>
    let (d', name) := writeBlob c d payload
    let e : Entry := { hash := h, fragment := some name, dependents := [], tests := [], diagnostics := none }
    (d', { m with next := insert m.next p e })

def setDiagnostics (c : Consts) (d : Disk) (m : Mem) (p blob : String) : Disk × Mem :=
  match lookup m.next p with
  | none => (d, m)
  | some e =>
    match e.fragment with
    | none => (d, m)
    | some _ =>
      let (d', name) := writeBlob c d blob
      (d', { m with next := update m.next p (fun e => { e with diagnostics := some name }) })

def keep (m : Mem) (p : String) : Mem :=
  match lookup m.files p with
  | none => m
  | some e => { m with next := insert m.next p e }

def invalidate (m : Mem) (p : String) : Mem :=
  { m with next := update m.next p (fun e => { e with fragment := none }) }

def setDependents (m : Mem) (p : String) (ds : List String) : Mem :=
  { m with next := update m.next p (fun e => { e with dependents := ds }) }

def setTests (m : Mem) (p : String) (ts : List String) : Mem :=
  { m with next := update m.next p (fun e => { e with tests := ts }) }

def referenced (fs : Files) : List String :=
  fs.flatMap (fun kv => kv.2.fragment.toList ++ kv.2.diagnostics.toList)

/-- `gc`: remove every blob file not referenced by the manifest. -/
def gc (d : Disk) (fs : Files) : Disk :=
  { d with blobs := d.blobs.filter (fun b => (referenced fs).contains b.1) }

def save (c : Consts) (d : Disk) (m : Mem) : Disk × Mem :=
  if m.onDiskCurrent && mapEq m.next m.files then
    (d, { m with next := [] })
  else
    let d1 : Disk := { d with manifest := some { schema := c.schemaVersion, key := m.key, files := m.next } }
    (gc d1 m.next, { m with files := m.next, next := [], onDiskCurrent := true })

end VerylModel.Store
