import VerylModel.Core.TokenPos
/-
M-Migrator (C23): `veryl migrate`'s text reconstruction.

Modelled line by line from /repo/crates/migrator/src/migrator.rs:
  `Migrator::push_token`   -> `pushToken`  (spacing from the token's (line, column); the column is
                              advanced by the number of CHARACTERS of the text after its last line feed)
  `Migrator::token`        -> a `VerylToken` is flattened into its token followed by its comments
  `VerylWalker for Migrator` -> every token in tree order, except that `for_statement` does not
                              visit `colon` and `scalar_type`: `keep = false` marks exactly the tokens
                              (and the comments attached to them) of that `Colon ScalarType`
  `NewlineStyle::Auto`      -> `detectNl` (/repo/crates/metadata/src/format.rs, non-Windows build)
  `cmd_migrate` decision    -> `shouldMigrate` (/repo/crates/veryl/src/cmd_migrate.rs)
The old parser, the old tree walker (which tokens are visited, in which order) and the formatter that
`cmd_migrate` runs afterwards are not modelled; the differential (`hx migrate`) covers the first two.
Import-free apart from Core/TokenPos (text primitives).
-/
namespace VerylModel.Migrator
open VerylModel.TokenPos

/-- One token or comment of the old syntax tree, in walk order. -/
structure MTok where
  text : Text
  line : Nat
  col : Nat
  keep : Bool
  deriving DecidableEq, Repr

structure St where
  out : Text
  line : Nat
  col : Nat
  deriving DecidableEq, Repr

def repeatText : Nat → Text → Text
  | 0, _ => []
  | n + 1, t => t ++ repeatText n t

/-- `auto_detect_newline_style`: CRLF iff the first line feed follows a carriage return
(`None => native_newline_str()` = `"\n"` off Windows). -/
def detectNlFrom (prev : Nat) : Text → Text
  | [] => [10]
  | c :: cs => if c = 10 then (if prev = 13 then [13, 10] else [10]) else detectNlFrom c cs

def detectNl (raw : Text) : Text := detectNlFrom 0 raw

/-- `newlines`, column after the optional reset, `spaces` of `push_token`. -/
def newlinesOf (s : St) (x : MTok) : Nat := x.line - s.line          -- saturating_sub
def colReset (s : St) (x : MTok) : Nat := if newlinesOf s x > 0 then 1 else s.col
def spacesOf (s : St) (x : MTok) : Nat := x.col - colReset s x       -- saturating_sub

/-- The separator `push_token` writes in front of the text. -/
def pushSep (nl : Text) (s : St) (x : MTok) : Text :=
  repeatText (newlinesOf s x) nl ++ List.replicate (spacesOf s x) 32

/-- As coded:
```
let newlines_in_text = text.matches('\n').count() as u32;
self.line += newlines_in_text;
// Token columns count characters, so the tracked column must too.
let len = text[text.rfind('\n').map(|x| x + 1).unwrap_or(0)..].chars().count();
if newlines_in_text > 0 { self.column = 1 + len as u32; } else { self.column += len as u32; }
```
(`column` here is the value after `self.column += spaces`; `text[rfind + 1 ..]`, or all of the text
if it has no line feed, is `lastSeg text`). -/
def colAfterCoded (column : Nat) (text : Text) : Nat :=
  let len := (lastSeg text).length
  if countNl text > 0 then 1 + len else column + len

/-- `push_token` with the column update as a parameter. -/
def pushTokenWith (colAfter : Nat → Text → Nat) (nl : Text) (s : St) (x : MTok) : St :=
  { out := s.out ++ pushSep nl s x ++ x.text,
    line := x.line + countNl x.text,                  -- self.line = x.line; self.line += newlines_in_text
    col := colAfter (colReset s x + spacesOf s x) x.text }

def pushToken (nl : Text) (s : St) (x : MTok) : St := pushTokenWith colAfterCoded nl s x

def initSt : St := { out := [], line := 1, col := 1 }

/-- The walker: everything but the `for` index type annotation. -/
def walk (toks : List MTok) : List MTok := toks.filter (·.keep)

def migrateWith (colAfter : Nat → Text → Nat) (nl : Text) (toks : List MTok) : Text :=
  ((walk toks).foldl (pushTokenWith colAfter nl) initSt).out

/-- `Migrator::migrate(input, raw_input)` followed by `as_str()`. -/
def migrate (raw : Text) (toks : List MTok) : Text := migrateWith colAfterCoded (detectNl raw) toks

/-- `cmd_migrate`: `let migrate = if let Ok(veryl) = parser { Migrator::migratable(&veryl.veryl) } else { true }`.
`migratable` is the constant extracted from the source (Gen/MigratorConsts.lean). -/
def shouldMigrate (migratable : Bool) (newParserAccepts : Bool) : Bool :=
  if newParserAccepts then migratable else true

/-! ### Column tracking before the repair (kept to document the defect; see Props/C23 `old_*`)

```
let len = text.len() - text.rfind('\n').map(|x| x + 1).unwrap_or(0);     // BYTES
if newlines_in_text > 0 { self.column = 1; } else { self.column += len as u32; }
```
-/
def colAfterOld (column : Nat) (text : Text) : Nat :=
  let len := utf8Len text - (match rfindNl text with | some i => i + 1 | none => 0)
  if countNl text > 0 then 1 else column + len

def migrateOld (raw : Text) (toks : List MTok) : Text := migrateWith colAfterOld (detectNl raw) toks

end VerylModel.Migrator
