/-
M-Svlv: the DPI `svLogicVecVal` conversion of `crates/analyzer/src/value.rs`
(`impl From<&Value> for Vec<SvLogicVecVal>`, `impl From<&[SvLogicVecVal]> for Value`), the 4-word
window of `crates/cosim/src/lib.rs` (`cosim_get`), and the per-bit waveform character
(`Value::to_vcd_value`, `Value::to_fst_bits`, `VcdValueIter`).  Import-free.

Veryl's internal 4-state encoding (value.rs `new_x` / `new_z` / `to_vcd_value`):
  bit = (mask_xz, payload):  (0,0)=0  (0,1)=1  (1,0)=X  (1,1)=Z.
-/
namespace VerylModel.Svlv

/-- `enum Value { U64(ValueU64), BigUint(ValueBigUint) }`: which arm holds the value. -/
inductive Arm where
  | u64
  | big
deriving DecidableEq

/-- `payload`, `mask_xz`, `width` of either arm (`signed` plays no role in the conversions). -/
structure Val where
  repr : Arm
  payload : Nat
  mask : Nat
  width : Nat
deriving DecidableEq

/-- `#[repr(C)] struct SvLogicVecVal { aval: u32, bval: u32 }`. -/
structure Word where
  aval : Nat
  bval : Nat
deriving DecidableEq

def two32 : Nat := 4294967296
def two64 : Nat := 18446744073709551616

/-- `Value::new` / `from_u128` / `from_le_bytes`: the arm is chosen by `width <= 64`. -/
def mkVal (payload mask width : Nat) : Val :=
  if width ≤ 64 then ⟨.u64, payload, mask, width⟩ else ⟨.big, payload, mask, width⟩

/-- `let len = if width.is_multiple_of(32) { width / 32 } else { width / 32 + 1 }`. -/
def lenWords (width : Nat) : Nat :=
  if width % 32 = 0 then width / 32 else width / 32 + 1

/-- The `Value::U64` arm: `for _ in 0..len { push(lo32(payload)^lo32(mask), lo32(mask)); payload >>= 32; mask >>= 32 }`. -/
def toWordsU64 : Nat → Nat → Nat → List Word
  | 0, _, _ => []
  | n + 1, p, m =>
    let p32 := p % two32
    let m32 := m % two32
    ⟨p32 ^^^ m32, m32⟩ :: toWordsU64 n (p >>> 32) (m >>> 32)

/-- `BigUint::to_u32_digits`: little-endian base-2^32 digits, no trailing zero digit (zero ↦ `[]`). -/
def u32Digits (n : Nat) : List Nat :=
  if _h : n = 0 then [] else (n % two32) :: u32Digits (n / two32)
termination_by n
decreasing_by exact Nat.div_lt_self (Nat.pos_of_ne_zero (by assumption)) (by decide)

/-- The `Value::BigUint` arm: `for i in 0..len { p = *payload.get(i).unwrap_or(&0); m = …; push(p^m, m) }`. -/
def toWordsBigFrom (pd md : List Nat) : Nat → Nat → List Word
  | 0, _ => []
  | n + 1, i =>
    let p32 := pd.getD i 0
    let m32 := md.getD i 0
    ⟨p32 ^^^ m32, m32⟩ :: toWordsBigFrom pd md n (i + 1)

/-- `impl From<&Value> for Vec<SvLogicVecVal>`. -/
def toWords (v : Val) : List Word :=
  let len := lenWords v.width
  match v.repr with
  | .u64 => toWordsU64 len v.payload v.mask
  | .big => toWordsBigFrom (u32Digits v.payload) (u32Digits v.mask) len 0

/-- One arm of `impl From<&[SvLogicVecVal]> for Value`:
`for val in value.iter().rev() { acc <<= 32; acc |= f(val) }`; `wrap` is `2^64` for the `u64`
accumulators (a `u64 <<` discards the bits shifted out) and `0` (= no wrap) for `BigUint`. -/
def accumulate (wrap : Nat) (f : Word → Nat) (ws : List Word) : Nat :=
  ws.reverse.foldl (fun acc w =>
    let sh := acc <<< 32
    (if wrap = 0 then sh else sh % wrap) ||| f w) 0

/-- `impl From<&[SvLogicVecVal]> for Value`: `width = len * 32`; `BigUint` arm iff `width > 64`. -/
def fromWords (ws : List Word) : Val :=
  let width := ws.length * 32
  if width > 64 then
    ⟨.big, accumulate 0 (fun w => w.aval ^^^ w.bval) ws, accumulate 0 (fun w => w.bval) ws, width⟩
  else
    ⟨.u64, accumulate two64 (fun w => w.aval ^^^ w.bval) ws, accumulate two64 (fun w => w.bval) ws, width⟩

/-- `cosim_get`: the caller's buffer is `&mut [SvLogicVecVal; 4]`; word `i` is `ret.get(i)` or zero. -/
def cosimWindow (ws : List Word) : List Word :=
  (List.range 4).map (fun i => ws.getD i ⟨0, 0⟩)

/-- The four states of a bit; ids used on the wire: 0, 1, 2 = Z, 3 = X (the `sv_0/sv_1/sv_z/sv_x`
numbering of IEEE 1800 Annex H `svdpi.h`). -/
inductive Bit4 where
  | b0
  | b1
  | z
  | x
deriving DecidableEq

/-- `Value::to_vcd_value(i)`: `mask.bit(i) ? (payload.bit(i) ? Z : X) : (payload.bit(i) ? V1 : V0)`. -/
def vcdBit (v : Val) (i : Nat) : Bit4 :=
  if v.mask.testBit i then
    if v.payload.testBit i then .z else .x
  else if v.payload.testBit i then .b1 else .b0

/-- `VcdValueIter` / `to_fst_bits`: `for i in (0..width).rev() { push(to_vcd_value(i)) }`, MSB first. -/
def vcdBits (v : Val) : List Bit4 :=
  (List.range v.width).reverse.map (vcdBit v)

/-- The state of bit `i` as the simulator holds it (the meaning of `(mask_xz, payload)`). -/
def stateOf (payload mask i : Nat) : Bit4 :=
  match mask.testBit i, payload.testBit i with
  | false, false => .b0
  | false, true => .b1
  | true, false => .x
  | true, true => .z

/-- IEEE 1800-2023 Annex H.10.1.2 (`svLogicVecVal`): `(aval, bval)` of one bit. -/
def annexH : Bit4 → Bool × Bool
  | .b0 => (false, false)
  | .b1 => (true, false)
  | .z => (false, true)
  | .x => (true, true)

def Bit4.toChar : Bit4 → Char
  | .b0 => '0'
  | .b1 => '1'
  | .z => 'z'
  | .x => 'x'

end VerylModel.Svlv
