import VerylModel.Core.EmitModel
/-
M-Translate (C22): `veryl translate` on the SystemVerilog subset of M-SV.

`crates/translator/src/convert.rs` walks the sv-parser tree and copies expression TEXT verbatim
(only `N'(x)` / `T'(x)` are rewritten, by `convert/expr.rs::expr_text_to_veryl`); statements are
re-assembled: `begin … end` → statement list, `if (c) … else …` → `if c { … } else { … }`, the
first `if` of an `always_ff` whose condition is the reset (`rst`, `!rst`, `~rst`, parenthesised) →
`if_reset`, `case` → `case`, `assign` → `assign`, `always_comb begin … end` → `always_comb { … }`,
`always_ff @(edge clk [or edge rst])` → `always_ff (clk, rst)`.

`trRaw` is defined exactly on the expression forms whose verbatim copy IS the same Veryl
expression (identifiers, selects, sized/decimal/fill literals, unary operators, binary operators
except `<` `>`, parentheses, concatenation); on every other form it is `none`: the real translator
copies or rewrites those into text that is not Veryl (`a < b`, `c ? a : b`, `{2{a}}`,
`(a) as logic<8>`, `(a) as signed`) WITHOUT reporting an unsupported construct — the C22 findings.
-/
namespace VerylModel.Translate
open VerylModel.SV VerylModel.Emit

mutual
def trRaw : Raw → Option VRaw
  | .var id => some (.var id)
  | .bitsel id i => some (.bitsel id i)
  | .partsel id hi lo => some (.partsel id hi lo)
  | .lit w s v => some (.lit w s v)
  | .dec v => some (.dec v)
  | .fill b => some (.fill b)
  | .un op a => (trRaw a).map (.un op)
  | .chain f r =>
    match trRaw f, trRest r with
    | some f', some r' => some (.chain f' r')
    | _, _ => none
  | .paren a => (trRaw a).map .paren
  | .cat a b =>
    match trRaw a, trRaw b with
    | some a', some b' => some (.cat a' b')
    | _, _ => none
  | .cond _ _ _ => none
  | .rep _ _ => none
  | .sizeCast _ _ => none
  | .typeCast _ _ => none
  | .signCast _ _ _ => none
def trRest : Rest → Option VRest
  | .nil => some .nil
  | .cons op e tl =>
    if op == .lt || op == .gt then none else
    match trRaw e, trRest tl with
    | some e', some tl' => some (.cons op e' tl')
    | _, _ => none
end

def trRaws : List Raw → Option (List VRaw)
  | [] => some []
  | r :: t =>
    match trRaw r, trRaws t with
    | some r', some t' => some (r' :: t')
    | _, _ => none

mutual
/-- statements of a process whose assignments are all blocking (`nb = false`, `always_comb`) or all
nonblocking (`nb = true`, `always_ff`) -/
def trStmt (nb : Bool) : Stmt → Option VStmt
  | .skip => some .skip
  | .assign n l e => if n == nb then (trRaw e).map (.assign l) else none
  | .seq a b =>
    match trStmt nb a, trStmt nb b with
    | some a', some b' => some (.seq a' b')
    | _, _ => none
  | .ite c t e =>
    match trRaw c, trStmt nb t, trStmt nb e with
    | some c', some t', some e' => some (.ite c' t' e')
    | _, _, _ => none
  | .case sel arms d =>
    match trRaw sel, trArms nb arms, trStmt nb d with
    | some s', some a', some d' => some (.case s' a' d')
    | _, _, _ => none
def trArms (nb : Bool) : Arms → Option VArms
  | .nil => some .nil
  | .cons ls b tl =>
    match trRaws ls, trStmt nb b, trArms nb tl with
    | some ls', some b', some tl' => some (.cons ls' b' tl')
    | _, _, _ => none
end

/-- the reset test `emit_if` recognises: `rst`, `!rst` (also `~rst`, parenthesised in the source) -/
def isRstCond (rst : Nat) : Raw → Bool
  | .var id => id == rst
  | .un .lnot (.var id) => id == rst
  | .un .bnot (.var id) => id == rst
  | _ => false

/-- a module item; the clock / reset of an `always_ff` are the first two identifiers of its event
control -/
def trItem : Item → Option VItem
  | .comb (.assign false l e) => (trRaw e).map (.assign l)
  | .comb s => (trStmt false s).map .comb
  | .ff f =>
    match f.rst, f.body with
    | some (_, rst), .ite c t e =>
      if isRstCond rst c then
        match trStmt true t, trStmt true e with
        | some t', some e' => some (.ff true (some t') e')
        | _, _ => none
      else none
    | none, b => (trStmt true b).map (.ff true none)
    | _, _ => none

def trItems : List Item → Option (List VItem)
  | [] => some []
  | i :: t =>
    match trItem i, trItems t with
    | some i', some t' => some (i' :: t')
    | _, _ => none

/-- `translateModel`: the Veryl design the translator writes for the module (clock / reset =
identifiers `clk` / `rst`; port types are copied as `logic`, see the finding on clock ports: the
model gives them the generic `clock` / `reset` type the analyzer requires) -/
def translateModel (m : Module) (clk rst : Nat) : Option VDesign :=
  (trItems m.items).map fun items =>
    { decls := m.decls, inputs := m.inputs, outputs := m.outputs, clk := clk, clkKind := .dflt,
      rst := rst, rstKind := .dflt, items := items }

end VerylModel.Translate
