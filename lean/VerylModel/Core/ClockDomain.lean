/-
M-ClockDomain: the clock-domain lattice and the CDC check sites of the analyzer, as coded.

Rust sources mirrored (crates/analyzer/src):
* `symbol.rs`  `enum ClockDomain { Explicit(id), Inferred(id), Implicit, None }`,
  `domain_id`, `compatible`, `merge`;
* `conv/checker/clock_domain.rs`  `check_clock_domain` (report iff `!compatible && !unsafe(cdc)`);
* `ir/op.rs`  `eval_type_unary` (copy), `eval_type_binary` (check x y; merge),
  `eval_type_ternary` (check x y; check x z; check y z; merge merge),
  `eval_type_concatenation` (fold from the default `None`: check acc e; acc := merge acc e);
* `ir/expression.rs`  struct constructor / array literal (same fold), factor with index/select
  expressions (same fold, starting at the variable's domain);
* `conv/utils.rs`  `check_assign_clock_domain` (inference of an `Implicit` destination, then
  dst-vs-rhs, dst-vs-always_ff-clock, dst-vs-every-enclosing-condition);
* `conv/declaration.rs`  `always_ff`: check clock-vs-reset.

Import-free (linked into `vmodel`).
-/
namespace VerylModel.ClockDomain

/-- `symbol.rs: enum ClockDomain`. Symbol ids are `Nat`. -/
inductive Dom where
  | explicit (id : Nat)
  | inferred (id : Nat)
  | implicit
  | none
  deriving DecidableEq, Repr, Inhabited

namespace Dom

/-- `ClockDomain::domain_id`. -/
def domainId : Dom → Option Nat
  | explicit id => some id
  | inferred id => some id
  | _ => Option.none

/-- `ClockDomain::compatible`. -/
def compatible (a x : Dom) : Bool :=
  match a, x with
  | none, _ => true
  | _, none => true
  | a, b =>
    match a.domainId, b.domainId with
    | some a, some b => a == b
    | Option.none, Option.none => true
    | _, _ => false

/-- `ClockDomain::merge`. -/
def merge (a other : Dom) : Dom :=
  match a, other with
  | none, x => x
  | x, none => x
  | x, y => if x.domainId.isSome then x else y

end Dom

/-- One `MismatchClockDomain` diagnostic: the two domains it names. -/
abbrev Report := Dom × Dom

/-- `check_clock_domain(context, lhs, rhs, token)`; `u` = `unsafe_table::contains(token, Cdc)`. -/
def check (u : Bool) (lhs rhs : Dom) : List Report :=
  if !lhs.compatible rhs && !u then [(lhs, rhs)] else []

/-- Expression trees; `α` is the leaf payload (a domain, or a variable reference). -/
inductive Expr (α : Type) where
  | leaf (a : α)
  | unary (x : Expr α)
  | binary (x y : Expr α)
  | ternary (c t e : Expr α)
  /-- concatenation / struct constructor / array literal (`init` = default `None`), or a factor
  with index/select expressions (`init` = the variable). -/
  | nary (init : α) (es : List (Expr α))
  deriving Repr, Inhabited

namespace Expr

mutual
def map {α β : Type} (f : α → β) : Expr α → Expr β
  | leaf a => leaf (f a)
  | unary x => unary (map f x)
  | binary x y => binary (map f x) (map f y)
  | ternary c t e => ternary (map f c) (map f t) (map f e)
  | nary i es => nary (f i) (mapList f es)
def mapList {α β : Type} (f : α → β) : List (Expr α) → List (Expr β)
  | [] => []
  | e :: es => map f e :: mapList f es
end

mutual
def leaves {α : Type} : Expr α → List α
  | leaf a => [a]
  | unary x => leaves x
  | binary x y => leaves x ++ leaves y
  | ternary c t e => leaves c ++ (leaves t ++ leaves e)
  | nary i es => i :: leavesList es
def leavesList {α : Type} : List (Expr α) → List α
  | [] => []
  | e :: es => leaves e ++ leavesList es
end

mutual
/-- Domain of the expression's `Comptime` and the diagnostics of all check sites inside it, in
evaluation order. `u`: the expression sits inside `unsafe (cdc)`. -/
def eval (u : Bool) : Expr Dom → Dom × List Report
  | leaf d => (d, [])
  | unary x => eval u x
  | binary x y =>
    let (dx, rx) := eval u x
    let (dy, ry) := eval u y
    (dx.merge dy, rx ++ ry ++ check u dx dy)
  | ternary c t e =>
    let (dc, rc) := eval u c
    let (dt, rt) := eval u t
    let (de, re) := eval u e
    ((dc.merge dt).merge de, rc ++ rt ++ re ++ (check u dc dt ++ check u dc de ++ check u dt de))
  | nary i es => evalFold u i es
/-- `for e in es { check(acc, e); acc = acc.merge(e) }`. -/
def evalFold (u : Bool) (acc : Dom) : List (Expr Dom) → Dom × List Report
  | [] => (acc, [])
  | e :: es =>
    let (de, re) := eval u e
    let (d, r) := evalFold u (acc.merge de) es
    (d, re ++ check u acc de ++ r)
end

end Expr

/-- `check_assign_clock_domain`: the id an `Implicit` destination is inferred to (always_ff: the
clock's; otherwise the RHS's). -/
def inferredId (rhs : Dom) (ffClock : Option Dom) : Option Nat :=
  match ffClock with
  | some c => c.domainId
  | Option.none => rhs.domainId

/-- `check_assign_clock_domain`: the destination's domain after inference. -/
def inferDst (dst rhs : Dom) (ffClock : Option Dom) : Dom :=
  if dst = Dom.implicit then
    match inferredId rhs ffClock with
    | some id => Dom.inferred id
    | Option.none => dst
  else dst

/-- `if is_affiliated(AlwaysFf) && let Some(clock) = current_clock { check(dst, clock) }`. -/
def clockCheck (u : Bool) (dst : Dom) : Option Dom → List Report
  | some c => check u dst c
  | Option.none => []

/-- The three statement-level checks of `check_assign_clock_domain`, given the (inferred)
destination domain, the RHS domain, the always_ff clock (if inside always_ff) and the stack of
enclosing statement conditions. -/
def assignChecks (u : Bool) (dst rhs : Dom) (ffClock : Option Dom) (conds : List Dom) : List Report :=
  check u dst rhs
    ++ clockCheck u dst ffClock
    ++ (conds.map (fun c => check u dst c)).flatten

/-- A whole assignment whose leaf domains are known: RHS-internal diagnostics followed by the
statement-level ones. Returns the destination's new domain too. -/
def assignEval (u : Bool) (dst : Dom) (rhs : Expr Dom) (ffClock : Option Dom) (conds : List Dom) :
    Dom × List Report :=
  let (dr, rr) := rhs.eval u
  let dst' := inferDst dst dr ffClock
  (dst', rr ++ assignChecks u dst' dr ffClock conds)

/-! ### Designs: variables with declared domains, statements processed in source order.

Conversion (`conv/statement.rs`, `conv/declaration.rs`) walks a module's declarations in source
order; an identifier's domain is read from `context.var_paths` at that moment, and an assignment to
an `Implicit` variable rewrites that entry (`Inferred id`). `with_condition_domain` keeps a stack of
the enclosing conditions' domains:
* `if c {T} else if c₂ {T₂} … else {E}`: `T` and `E` run under `c`, `Tᵢ` under `cᵢ` only;
* `case c {…}`: every arm and the default under `c`;
* `switch {c₁: B₁ … default: D}`: `Bᵢ` under `cᵢ` only, `D` under nothing new.
`unsafe (cdc)` is a declaration-level block: one flag per module item. -/

/-- Leaf of a design expression: a literal (domain `None`) or a variable. -/
inductive Leaf where
  | const
  | var (v : Nat)
  deriving DecidableEq, Repr, Inhabited

/-- Current domain of every variable (`context.var_paths[..].clock_domain`), by index. Variables
declared inside an always block (`var`/`let`) have `None`. -/
abbrev Env := List Dom

def Env.get (env : Env) (v : Nat) : Dom := env.getD v Dom.none

def Env.resolve (env : Env) : Leaf → Dom
  | Leaf.const => Dom.none
  | Leaf.var v => env.get v

mutual
inductive Stmt where
  | assign (dst : Nat) (rhs : Expr Leaf)
  | ifs (c : Expr Leaf) (thn : Block) (elifs : Arms) (els : Block)
  | case (c : Expr Leaf) (arms : Blocks)
  | switch (arms : Arms) (dflt : Block)
inductive Block where
  | nil
  | cons (s : Stmt) (b : Block)
inductive Arms where
  | nil
  | cons (c : Expr Leaf) (b : Block) (r : Arms)
inductive Blocks where
  | nil
  | cons (b : Block) (r : Blocks)
end

instance : Inhabited Stmt := ⟨Stmt.switch Arms.nil Block.nil⟩
instance : Inhabited Block := ⟨Block.nil⟩

/-- A diagnostic tagged with the index of the item (assignment, condition, instance connection;
numbered from 1 in source order) whose evaluation produced it; tag 0 = an always_ff header
(clock-vs-reset). -/
abbrev Tagged := Nat × Report

structure Walk where
  env : Env
  next : Nat            -- index of the next item
  out : List Tagged     -- reversed
  /-- (clock, reset) pairs whose header check was already made: a second identical diagnostic
  (same two port tokens) is dropped by `Context::insert_error`. -/
  hdr : List (Nat × Nat) := []

def Walk.emit (w : Walk) (rs : List Report) : Walk :=
  { w with next := w.next + 1, out := (rs.map (fun r => (w.next, r))).reverse ++ w.out }

def Walk.emitHeader (w : Walk) (c r : Nat) (rs : List Report) : Walk :=
  if rs.isEmpty || w.hdr.contains (c, r) then w
  else { w with out := (rs.map (fun r => (0, r))).reverse ++ w.out, hdr := (c, r) :: w.hdr }

mutual
def stmtWalk (u : Bool) (ffClock : Option Dom) (conds : List Dom) (w : Walk) : Stmt → Walk
  | Stmt.assign dst rhs =>
    let (d', rs) := assignEval u (w.env.get dst) (rhs.map w.env.resolve) ffClock conds
    { (w.emit rs) with env := w.env.set dst d' }
  | Stmt.ifs c thn elifs els =>
    let (dc, rc) := (c.map w.env.resolve).eval u
    let w1 := blockWalk u ffClock (conds ++ [dc]) (w.emit rc) thn
    let w2 := armsWalk u ffClock conds w1 elifs
    blockWalk u ffClock (conds ++ [dc]) w2 els
  | Stmt.case c arms =>
    let (dc, rc) := (c.map w.env.resolve).eval u
    blocksWalk u ffClock (conds ++ [dc]) (w.emit rc) arms
  | Stmt.switch arms dflt =>
    blockWalk u ffClock conds (armsWalk u ffClock conds w arms) dflt
def blockWalk (u : Bool) (ffClock : Option Dom) (conds : List Dom) (w : Walk) : Block → Walk
  | Block.nil => w
  | Block.cons s b => blockWalk u ffClock conds (stmtWalk u ffClock conds w s) b
def armsWalk (u : Bool) (ffClock : Option Dom) (conds : List Dom) (w : Walk) : Arms → Walk
  | Arms.nil => w
  | Arms.cons c b r =>
    let (dc, rc) := (c.map w.env.resolve).eval u
    armsWalk u ffClock conds (blockWalk u ffClock (conds ++ [dc]) (w.emit rc) b) r
def blocksWalk (u : Bool) (ffClock : Option Dom) (conds : List Dom) (w : Walk) : Blocks → Walk
  | Blocks.nil => w
  | Blocks.cons b r => blocksWalk u ffClock conds (blockWalk u ffClock conds w b) r
end

/-- `clock_domain_table` of one module instance: first connected expression per sub-module port
domain (key). -/
abbrev InstTable := List (Nat × Dom)

/-- Connections of a module instance, in the order written: the sub-module port's domain key and
the connected expression. `if let Some(x) = table.get(key) { check(x, expr) } else { insert }`. -/
def instWalk (u : Bool) (w : Walk) (table : InstTable) : List (Nat × Expr Leaf) → Walk
  | [] => w
  | (k, e) :: rest =>
    let (d, r) := (e.map w.env.resolve).eval u
    match table.lookup k with
    | some x => instWalk u (w.emit (r ++ check u x d)) table rest
    | Option.none => instWalk u (w.emit r) ((k, d) :: table) rest

/-- Module-level items, each with its own `unsafe (cdc)` flag. -/
inductive Item where
  /-- `assign dst = rhs;` -/
  | assign (u : Bool) (dst : Nat) (rhs : Expr Leaf)
  /-- `always_comb { … }` -/
  | comb (u : Bool) (body : Block)
  /-- `always_ff (clk, rst) { … }`: clock-vs-reset check, then the body with `current_clock`. -/
  | ff (u : Bool) (clock : Nat) (reset : Option Nat) (body : Block)
  /-- `inst u: Sub (p: e, …);` -/
  | inst (u : Bool) (conns : List (Nat × Expr Leaf))
  deriving Inhabited

/-- The `unsafe (cdc)` flag of an item. -/
def Item.isUnsafe : Item → Bool
  | .assign u _ _ => u
  | .comb u _ => u
  | .ff u _ _ _ => u
  | .inst u _ => u

def itemWalk (w : Walk) : Item → Walk
  | Item.assign u dst rhs => stmtWalk u Option.none [] w (Stmt.assign dst rhs)
  | Item.comb u body => blockWalk u Option.none [] w body
  | Item.ff u clock reset body =>
    let dc := w.env.get clock
    let w1 := match reset with
      | some r => w.emitHeader clock r (check u dc (w.env.get r))
      | Option.none => w
    blockWalk u (some dc) [] w1 body
  | Item.inst u conns => instWalk u w [] conns

/-- Clock ports of the module = the variables some `always_ff` uses as its clock (that is how the
harness declares them); likewise reset ports. -/
def clockVars (items : List Item) : List Nat :=
  (items.filterMap (fun it => match it with | Item.ff _ c _ _ => some c | _ => Option.none)).eraseDups

def resetVars (items : List Item) : List Nat :=
  (items.filterMap (fun it => match it with | Item.ff _ _ (some r) _ => some r | _ => Option.none)).eraseDups

/-- `conv/ir.rs`: after all declarations, a module with a unique clock port and a unique reset port
(the default clock / default reset) checks the two against each other, at the `module` token —
never inside `unsafe (cdc)`. -/
def defaultCheck (w : Walk) (items : List Item) : Walk :=
  match clockVars items, resetVars items with
  | [c], [r] => w.emitHeader c r (check false (w.env.get c) (w.env.get r))
  | _, _ => w

def designWalk (env : Env) (items : List Item) : Walk :=
  defaultCheck (items.foldl itemWalk { env := env, next := 1, out := [] }) items

/-- All diagnostics of a design, in order, tagged by item index. -/
def designReports (env : Env) (items : List Item) : List Tagged :=
  (designWalk env items).out.reverse

end VerylModel.ClockDomain
