/-
M-Codec: executable model of the fragment ID codec.

Mirrors, line by line,
* `crates/parser/src/fragment_codec.rs`: `IdWindow::{count,encode}`, `IdRebase::decode`,
  `EncodeSession::{encode_str,encode_path}`, `DecodeSession::{new,decode_str,decode_path}`;
* `crates/analyzer/src/fragment_codec.rs`: `encode_sentinel`, `decode_sentinel`;
* `crates/parser/src/resource_table.rs`: `GlobalTable::{insert,get_value,get_id}` (a `BiMap` plus a
  `last` counter);
and defines `canon` (renumber ids by first occurrence), the comparison the harness applies to
table dumps.

Integers are Rust `usize`/`u64` (both 64 bit on the supported targets, so `as` casts between
them are the identity).  Where debug Rust would panic on overflow/underflow the model answers
`Res.panic`; a refused id (the `Err(String)` of the code) is `Res.err`.

Modelled, not verified (trusted base of C06):
* which struct fields carry ids is decided by serde-derive in Rust; the model is about the ids;
* `postcard` round-trips the `u64` wire values and the dictionaries;
* `BiMap::insert` overwrites pairs that share the left or the right value.
No imports: this file is linked into the `vmodel` driver.
-/
namespace VerylModel.IdCodec

def U64 : Nat := 2 ^ 64

/-- Outcome of a codec call: `Ok`, `Err(String)` (refused), or a debug-build arithmetic panic. -/
inductive Res where
  | ok (n : Nat)
  | err
  | panic
deriving DecidableEq, Repr, Inhabited

/-- `IdWindow { start, end }`: the half-open window `(start, end]`. -/
structure IdWindow where
  start : Nat
  stop : Nat
deriving DecidableEq, Repr, Inhabited

/-- `IdWindow::count`: `self.end - self.start` (usize subtraction: underflow panics). -/
def IdWindow.count (w : IdWindow) : Res :=
  if w.start ≤ w.stop then .ok (w.stop - w.start) else .panic

/-- `IdWindow::encode`. -/
def IdWindow.encode (w : IdWindow) (id : Nat) : Res :=
  if id > w.start ∧ id ≤ w.stop then .ok (id - w.start - 1) else .err

/-- `IdRebase { base, count }`. -/
structure IdRebase where
  base : Nat
  count : Nat
deriving DecidableEq, Repr, Inhabited

/-- `IdRebase::decode`: `base + local + 1` is usize addition (overflow panics). -/
def IdRebase.decode (r : IdRebase) (loc : Nat) : Res :=
  if loc < r.count then
    (if r.base + loc + 1 < U64 then .ok (r.base + loc + 1) else .panic)
  else .err

/-- analyzer `encode_sentinel`: id 0 is the unresolved-reference sentinel, wire value 0;
    real ids are shifted by one (`v + 1` on `u64`). -/
def encodeSentinel (w : IdWindow) (id : Nat) : Res :=
  if id = 0 then .ok 0 else
  match w.encode id with
  | .ok v => if v + 1 < U64 then .ok (v + 1) else .panic
  | r => r

/-- analyzer `decode_sentinel`. -/
def decodeSentinel (r : IdRebase) (v : Nat) : Res :=
  if v = 0 then .ok 0 else r.decode (v - 1)

/-- The rebase the restore side builds for a window: `reserve_*_ids(count)` returned `base`. -/
def rebaseOf (base : Nat) (w : IdWindow) : IdRebase := { base := base, count := w.stop - w.start }

/-! ### capture → restore compositions -/

/-- capture → restore of one counter id (TokenId/TextId: no sentinel). -/
def roundtrip (b : Nat) (w : IdWindow) (id : Nat) : Res :=
  match w.encode id with
  | .ok v => (rebaseOf b w).decode v
  | r => r

/-- capture → restore of a SymbolId/DefinitionId (sentinel-0 wire shift). -/
def roundtripS (b : Nat) (w : IdWindow) (id : Nat) : Res :=
  match encodeSentinel w id with
  | .ok v => decodeSentinel (rebaseOf b w) v
  | r => r

/-- `InWin w id`: `id ∈ (start, end]`. -/
def InWin (w : IdWindow) (id : Nat) : Prop := w.start < id ∧ id ≤ w.stop

/-- The reserved range does not overflow `usize` (`reserve_*_ids` itself would have panicked). -/
def Fits (b : Nat) (w : IdWindow) : Prop := b + (w.stop - w.start) < U64

instance (w : IdWindow) (id : Nat) : Decidable (InWin w id) := by unfold InWin; exact inferInstance
instance (b : Nat) (w : IdWindow) : Decidable (Fits b w) := by unfold Fits; exact inferInstance

/-- Serialising a payload = encoding its ids in order with `?` (first refusal aborts). -/
def encodeIds (enc : Nat → Res) : List Nat → Option (List Nat)
  | [] => some []
  | id :: rest =>
    match enc id with
    | .ok v => (encodeIds enc rest).map (v :: ·)
    | _ => none

/-! ### Interning tables and the StrId / PathId dictionaries -/

/-- `GlobalTable<T, U>`: `BiMap` as an association list (value, id) + the `last` counter. -/
structure Table (α : Type) where
  entries : List (α × Nat)
  last : Nat
deriving Repr

instance {α : Type} : Inhabited (Table α) := ⟨⟨[], 0⟩⟩

def Table.empty {α : Type} : Table α := ⟨[], 0⟩

def getId {α : Type} [DecidableEq α] : List (α × Nat) → α → Option Nat
  | [], _ => none
  | (v, i) :: rest, x => if v = x then some i else getId rest x

def getValue {α : Type} : List (α × Nat) → Nat → Option α
  | [], _ => none
  | (v, i) :: rest, x => if i = x then some v else getValue rest x

/-- `GlobalTable::get_id`. -/
def Table.getId {α : Type} [DecidableEq α] (t : Table α) (v : α) : Option Nat :=
  VerylModel.IdCodec.getId t.entries v

/-- `GlobalTable::get_value`. -/
def Table.getValue {α : Type} (t : Table α) (id : Nat) : Option α :=
  VerylModel.IdCodec.getValue t.entries id

/-- `GlobalTable::insert`: an existing value keeps its id; otherwise it gets `last` and `last`
    is incremented. `BiMap::insert` drops pairs sharing the left or the right value. -/
def Table.insert {α : Type} [DecidableEq α] (t : Table α) (v : α) : Table α × Nat :=
  match t.getId v with
  | some id => (t, id)
  | none =>
    ({ entries := (v, t.last) :: t.entries.filter (fun e => e.1 ≠ v ∧ e.2 ≠ t.last),
       last := t.last + 1 }, t.last)

/-- `EncodeSession` (one dictionary; strings and paths are two instances of it). -/
structure EncSession (α : Type) where
  map : List (Nat × Nat)      -- global id ↦ dictionary index
  dict : List α
deriving Repr, DecidableEq

def EncSession.empty {α : Type} : EncSession α := ⟨[], []⟩

def mapGet : List (Nat × Nat) → Nat → Option Nat
  | [], _ => none
  | (k, v) :: rest, x => if k = x then some v else mapGet rest x

/-- `EncodeSession::encode_str` / `encode_path`. `none` = `Err("unknown StrId")`. -/
def EncSession.encode {α : Type} (s : EncSession α) (t : Table α) (id : Nat) :
    Option (EncSession α × Nat) :=
  match mapGet s.map id with
  | some x => some (s, x)
  | none =>
    match t.getValue id with
    | none => none
    | some value =>
      let loc := s.dict.length
      some ({ map := (id, loc) :: s.map, dict := s.dict ++ [value] }, loc)

/-- Encode a sequence of ids (the order in which serde visits the payload). -/
def encodeAll {α : Type} (t : Table α) : EncSession α → List Nat → Option (EncSession α × List Nat)
  | s, [] => some (s, [])
  | s, id :: rest =>
    match s.encode t id with
    | none => none
    | some (s', l) =>
      match encodeAll t s' rest with
      | none => none
      | some (s'', ls) => some (s'', l :: ls)

/-- `DecodeSession::new`: re-intern the dictionary, in order, into the live table. -/
def internAll {α : Type} [DecidableEq α] : Table α → List α → Table α × List Nat
  | t, [] => (t, [])
  | t, v :: rest =>
    let (t', id) := t.insert v
    let (t'', ids) := internAll t' rest
    (t'', id :: ids)

/-- `DecodeSession::decode_str` / `decode_path`: index into the re-interned ids. -/
def decodeDict (strs : List Nat) (loc : Nat) : Option Nat := strs[loc]?

/-! ### `canon`: renumber ids by first occurrence -/

/-- A dump token: literal text (abstracted to a payload) or an id of some kind (SymbolId,
    TokenId, …). -/
inductive Tok (α : Type) where
  | lit (a : α)
  | id (kind : Nat) (v : Nat)
deriving DecidableEq, Repr

def seenGet : List ((Nat × Nat) × Nat) → Nat × Nat → Option Nat
  | [], _ => none
  | (k, n) :: rest, x => if k = x then some n else seenGet rest x

/-- Walk the dump; every (kind, id) is replaced by the index of its first occurrence. -/
def canonAux {α : Type} : List ((Nat × Nat) × Nat) → List (Tok α) → List (Tok α)
  | _, [] => []
  | seen, .lit a :: rest => .lit a :: canonAux seen rest
  | seen, .id k v :: rest =>
    match seenGet seen (k, v) with
    | some n => .id k n :: canonAux seen rest
    | none => .id k seen.length :: canonAux (((k, v), seen.length) :: seen) rest

def canon {α : Type} (t : List (Tok α)) : List (Tok α) := canonAux [] t

/-- The first-occurrence table `canon` ends with (same walk as `canonAux`). -/
def canonSeen {α : Type} : List ((Nat × Nat) × Nat) → List (Tok α) → List ((Nat × Nat) × Nat)
  | seen, [] => seen
  | seen, .lit _ :: rest => canonSeen seen rest
  | seen, .id k v :: rest =>
    match seenGet seen (k, v) with
    | some _ => canonSeen seen rest
    | none => canonSeen (((k, v), seen.length) :: seen) rest

/-- Reverse lookup in a first-occurrence table: (kind, number) ↦ original id (0 if absent). -/
def seenInv : List ((Nat × Nat) × Nat) → Nat → Nat → Nat
  | [], _, _ => 0
  | ((k', v), m) :: rest, k, n => if m = n ∧ k' = k then v else seenInv rest k n

/-- Apply a renaming of ids (per kind) to a dump. -/
def rename {α : Type} (σ : Nat → Nat → Nat) : List (Tok α) → List (Tok α)
  | [] => []
  | .lit a :: rest => .lit a :: rename σ rest
  | .id k v :: rest => .id k (σ k v) :: rename σ rest

/-- The (kind, id) pairs occurring in a dump. -/
def idsOf {α : Type} : List (Tok α) → List (Nat × Nat)
  | [] => []
  | .lit _ :: rest => idsOf rest
  | .id k v :: rest => (k, v) :: idsOf rest

end VerylModel.IdCodec
