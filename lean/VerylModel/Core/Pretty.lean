/-
M-Pretty: executable model of crates/pretty/src/render.rs (+ the `Doc` type of doc.rs).

Modelled line by line (same case splits, same order):
* `render_inner`: the `while let Some(frame) = stack.pop()` loop is `renderFrames`; the head of the
  frame list is the top of the Rust `Vec` stack.
* `render_frame` is `stepFrame` (all 15 `Doc` constructors): it returns the frames pushed by this
  step (top first) and the new state. `emit_anchored`, `emit_break`, `flush_pending`,
  `flush_pending_with_indent`, `pad_for`, `render_comments` (one loop iteration = `commentStep`),
  the `DedentHardline` truncation, `fits_flat` (work-list loop = `fitsWork`, one iteration =
  `fitsStep`, including the scan of the outer continuation exactly as coded) and
  `strip_trailing_whitespace`.
* Text is `List Char` (Unicode scalar values): `col`, `dst_column`, `fits_flat` budgets and pads all
  count `chars()` in the Rust code, not bytes. The one byte-level piece of code, the
  `DedentHardline` truncation (`out.len()`, `bytes[len-want..] all b' '`, `truncate`), is
  equivalent on chars because the byte 0x20 only ever encodes the char ' ' in UTF-8: "the last
  `want` bytes exist and are all 0x20" ⇔ "the last `want` chars exist and are all ' '".
* `State.out` is kept REVERSED (`rout`, last written char first) so that pushes and the truncation
  are O(length of what is written); `State.anchors` likewise (`ranchors`).

Modelled, not verified (trusted base): integer overflow of `u32`/`usize`/`i32`/`isize` counters
(`current_line`, `col as u32`, `indent + off`, `level * indent_width`) is not modelled — the model
uses `Nat`/`Int`; `str::split`/`trim_end_matches`/`matches`/`rsplit` behave as documented.
No imports: this file is linked into the `vmodel` driver.
-/
namespace VerylModel.Pretty

inductive Mode | flat | brk
deriving DecidableEq, Repr, Inhabited

/-- `CommentDoc`. -/
structure CommentDoc where
  text : List Char
  leadingNewlines : Nat
  isLine : Bool
  srcLine : Nat
  srcCol : Nat
deriving Repr, Inhabited

/-- `Doc` (doc.rs), 15 constructors in the order of the Rust enum. -/
inductive Doc where
  | nil
  | text (s : List Char)
  | concat (ds : List Doc)
  | indent (off : Int) (d : Doc)
  | group (d : Doc)
  | forceFlat (d : Doc)
  | line (sep : List Char)
  | hardline
  | dedentHardline (level : Nat)
  | comments (cs : List CommentDoc)
  | ifBreak (s : List Char)
  | ifBreakPad (w : Nat)
  | pad (w : Nat)
  | ifFlatPad (w : Nat)
  | anchored (s : List Char) (srcLine srcCol : Nat)
deriving Inhabited

mutual
/-- Number of nodes; the termination measure of both work-list loops. -/
def Doc.size : Doc → Nat
  | .concat ds => 1 + Doc.sizeList ds
  | .indent _ d => 1 + d.size
  | .group d => 1 + d.size
  | .forceFlat d => 1 + d.size
  | _ => 1
def Doc.sizeList : List Doc → Nat
  | [] => 0
  | d :: ds => d.size + Doc.sizeList ds
end

/-- `Frame`. -/
structure Frame where
  indent : Int
  mode : Mode
  doc : Doc
deriving Inhabited

/-- `RenderOpts`. -/
structure Opts where
  maxWidth : Nat
  indentWidth : Nat
  newline : List Char
  strip : Bool
deriving Repr, Inhabited

/-- `RenderedAnchor`. -/
structure Anchor where
  dstLine : Nat
  dstCol : Nat
  srcLine : Nat
  srcCol : Nat
  text : List Char
deriving Repr, Inhabited, DecidableEq

/-- `State` (`out` and `anchors` reversed). -/
structure St where
  rout : List Char := []
  col : Nat := 0
  line : Nat := 1
  swallow : Bool := false
  pending : Option Nat := none
  ranchors : List Anchor := []
deriving Repr, Inhabited

def St.out (s : St) : List Char := s.rout.reverse
def St.anchors (s : St) : List Anchor := s.ranchors.reverse

def spaces (n : Nat) : List Char := List.replicate n ' '

/-- `s.matches('\n').count()`. -/
def countNl (t : List Char) : Nat := t.count '\n'

/-- `s.rsplit('\n').next().unwrap_or("").chars().count()`: chars after the last `'\n'`. -/
def lastLineLen (t : List Char) : Nat := (t.reverse.takeWhile (· != '\n')).length

/-- `pad_for`. -/
def padFor (indent : Int) (o : Opts) : Nat := indent.toNat * o.indentWidth

/-- `flush_pending`. -/
def flushPending (s : St) : St :=
  match s.pending with
  | none => s
  | some pad => { s with rout := spaces pad ++ s.rout, col := pad, pending := none }

/-- `flush_pending_with_indent`. -/
def flushPendingWith (s : St) (indent : Int) (o : Opts) : St :=
  match s.pending with
  | none => s
  | some pad =>
    let target := min (padFor indent o) pad
    { s with rout := spaces target ++ s.rout, col := target, pending := none }

/-- `Doc::Text` / `emit_anchored` tail: clear swallow, push, count newlines. -/
def writeText (s : St) (t : List Char) : St :=
  let nls := countNl t
  if nls = 0 then
    { s with swallow := false, rout := t.reverse ++ s.rout, col := s.col + t.length }
  else
    { s with swallow := false, rout := t.reverse ++ s.rout, line := s.line + nls, col := lastLineLen t }

/-- `Line` (flat) / `IfBreak`: clear swallow, push, `col += chars` (newlines NOT counted). -/
def writeFlat (s : St) (t : List Char) : St :=
  { s with swallow := false, rout := t.reverse ++ s.rout, col := s.col + t.length }

/-- Pads / flat hardline: clear swallow, push `w` spaces, `col += w`. -/
def writeSpaces (s : St) (w : Nat) : St :=
  { s with swallow := false, rout := spaces w ++ s.rout, col := s.col + w }

/-- `emit_break`. -/
def emitBreak (s : St) (indent : Int) (o : Opts) : St :=
  let s :=
    if s.swallow then { s with swallow := false }
    else { s with rout := o.newline.reverse ++ s.rout, line := s.line + 1, col := 0 }
  { s with pending := some (padFor indent o) }

/-- The truncation of `DedentHardline` in break mode. -/
def dedentTruncate (s : St) (level : Nat) (o : Opts) : St :=
  let want := level * o.indentWidth
  if want > 0 ∧ s.pending.isNone then
    if want ≤ s.rout.length ∧ (s.rout.take want).all (· == ' ') then
      { s with rout := s.rout.drop want, col := s.col - want }
    else s
  else s

/-- `for _ in 0..to_emit { out.push_str(newline); current_line += 1; col = 0 }`. -/
def pushNewlines (o : Opts) : Nat → St → St
  | 0, s => s
  | n + 1, s =>
    pushNewlines o n { s with rout := o.newline.reverse ++ s.rout, line := s.line + 1, col := 0 }

/-- Loop body of `render_comments`, part 1: the separation from the previous emission
    (`pre_swallow` … `state.pending_indent = None`). -/
def commentLead (o : Opts) (padWidth : Nat) (s : St) (c : CommentDoc) : St :=
  let preSwallow := s.swallow
  let s := { s with swallow := false }
  let pending := s.pending.isSome
  if c.leadingNewlines = 0 ∧ preSwallow = false ∧ pending = false then
    if s.col > 0 then { s with rout := ' ' :: s.rout, col := s.col + 1 } else s
  else
    let already := if preSwallow || pending then 1 else 0
    let toEmit := (max c.leadingNewlines 1) - already
    let s := pushNewlines o toEmit s
    { s with rout := spaces padWidth ++ s.rout, col := padWidth, pending := none }

/-- Loop body of `render_comments`, part 2: `if c.src_line != 0 && c.src_column != 0 { anchors.push }`. -/
def commentAnchor (s : St) (c : CommentDoc) : St :=
  if c.srcLine ≠ 0 ∧ c.srcCol ≠ 0 then
    { s with ranchors := { dstLine := s.line, dstCol := s.col + 1, srcLine := c.srcLine,
                           srcCol := c.srcCol, text := c.text } :: s.ranchors }
  else s

/-- Loop body of `render_comments`, part 3: the comment text and the position bookkeeping. -/
def commentBody (o : Opts) (padWidth : Nat) (s : St) (c : CommentDoc) : St :=
  let s := { s with rout := c.text.reverse ++ s.rout }
  let nls := countNl c.text
  if c.isLine then
    { s with rout := o.newline.reverse ++ s.rout, line := s.line + (nls + 1), col := 0,
             pending := some padWidth, swallow := true }
  else if nls > 0 then
    { s with line := s.line + nls, col := lastLineLen c.text }
  else
    { s with col := s.col + c.text.length }

/-- One iteration of the loop of `render_comments`. -/
def commentStep (o : Opts) (padWidth : Nat) (s : St) (c : CommentDoc) : St :=
  commentBody o padWidth (commentAnchor (commentLead o padWidth s c) c) c

/-- `render_comments`. -/
def renderComments (o : Opts) (indent : Int) (cs : List CommentDoc) (s : St) : St :=
  cs.foldl (commentStep o (padFor indent o)) s

/-- `emit_anchored`. -/
def emitAnchored (s : St) (indent : Int) (o : Opts) (t : List Char) (sl sc : Nat) : St :=
  let s := flushPendingWith s indent o
  let s := { s with swallow := false }
  let s := { s with ranchors := { dstLine := s.line, dstCol := s.col + 1, srcLine := sl,
                                  srcCol := sc, text := t } :: s.ranchors }
  writeText s t

/-! ### `fits_flat` -/

/-- Result of one iteration of the `while let Some((x, in_start)) = work.pop()` loop. -/
inductive FitsR where
  | ret (r : Bool)
  | cont (push : List (Doc × Bool)) (budget : Int)

/-- The `match x { … }` of `fits_flat` (after the `budget < 0` test). -/
def fitsStep (x : Doc) (inStart : Bool) (budget : Int) : FitsR :=
  match x with
  | .nil => .cont [] budget
  | .text s => .cont [] (budget - s.length)
  | .concat items => .cont (items.map (fun d => (d, inStart))) budget
  | .indent _ inner => .cont [(inner, inStart)] budget
  | .group inner => .cont [(inner, inStart)] budget
  | .forceFlat inner => .cont [(inner, inStart)] budget
  | .line sep => if inStart then .cont [] (budget - sep.length) else .ret true
  | .hardline => .ret (!inStart)
  | .dedentHardline _ => .ret (!inStart)
  | .ifBreak _ => .cont [] budget
  | .ifBreakPad _ => .cont [] budget
  | .pad w => .cont [] (budget - w)
  | .ifFlatPad w => .cont [] (budget - w)
  | .anchored s _ _ => .cont [] (budget - s.length)
  | .comments cs =>
    if cs.any (·.isLine) then .ret (!inStart)
    else .cont [] (cs.foldl (fun b c => b - ((c.text.length : Int) + 1)) budget)

def workSize : List (Doc × Bool) → Nat
  | [] => 0
  | w :: ws => w.1.size + workSize ws

theorem workSize_append (a b : List (Doc × Bool)) : workSize (a ++ b) = workSize a + workSize b := by
  induction a with
  | nil => simp [workSize]
  | cons x xs ih => simp [workSize, ih]; omega

theorem workSize_map (ds : List Doc) (i : Bool) :
    workSize (ds.map (fun d => (d, i))) = Doc.sizeList ds := by
  induction ds with
  | nil => simp [workSize, Doc.sizeList]
  | cons d ds ih => simp [workSize, Doc.sizeList, ih]

/-- T0 (part 1): every iteration of the `fits_flat` loop strictly shrinks the work list measure. -/
theorem fitsStep_size (x : Doc) (i : Bool) (b b' : Int) (push : List (Doc × Bool))
    (h : fitsStep x i b = .cont push b') : workSize push < x.size := by
  cases x <;> simp only [fitsStep] at h <;> (try split at h) <;> (try cases h) <;>
    simp [workSize, workSize_map, Doc.size]

/-- The loop of `fits_flat`; the head of the list is the top of the Rust `work` stack. -/
def fitsWork : List (Doc × Bool) → Int → Bool
  | [], budget => decide (budget ≥ 0)
  | (x, inStart) :: rest, budget =>
    if budget < 0 then false
    else
      match _h : fitsStep x inStart budget with
      | .ret r => r
      | .cont push budget' => fitsWork (push ++ rest) budget'
termination_by w _ => workSize w
decreasing_by
  have := fitsStep_size x inStart budget budget' push _h
  simp only [workSize_append, workSize]
  omega

/-- `fits_flat(d, outer, budget)`. -/
def fitsFlat (d : Doc) (outer : List Frame) (budget : Int) : Bool :=
  if budget < 0 then false
  else fitsWork ((d, true) :: outer.map (fun g => (g.doc, false))) budget

/-! ### `render_frame` and the main loop -/

/-- `render_frame(frame, opts, state, stack)`: frames pushed (top first) and the new state.
    `fs` is the rest of the stack (read by `fits_flat` only). -/
def stepFrame (o : Opts) (f : Frame) (fs : List Frame) (s : St) : List Frame × St :=
  match f.doc with
  | .nil => ([], s)
  | .text t => ([], writeText (flushPendingWith s f.indent o) t)
  | .concat items => (items.map (fun d => { indent := f.indent, mode := f.mode, doc := d }), s)
  | .indent off inner => ([{ indent := f.indent + off, mode := f.mode, doc := inner }], s)
  | .group inner =>
    let chosen :=
      if f.mode = .flat then Mode.flat
      else
        let remaining : Nat := o.maxWidth - s.col
        if fitsFlat inner fs remaining then Mode.flat else Mode.brk
    ([{ indent := f.indent, mode := chosen, doc := inner }], s)
  | .forceFlat inner => ([{ indent := f.indent, mode := .flat, doc := inner }], s)
  | .line sep =>
    match f.mode with
    | .flat => ([], writeFlat (flushPending s) sep)
    | .brk => ([], emitBreak s f.indent o)
  | .hardline =>
    match f.mode with
    | .flat => ([], writeSpaces (flushPending s) 1)
    | .brk => ([], emitBreak s f.indent o)
  | .dedentHardline level =>
    match f.mode with
    | .flat => ([], writeSpaces (flushPending s) 1)
    | .brk => ([], emitBreak (dedentTruncate s level o) f.indent o)
  | .comments cs => ([], renderComments o f.indent cs s)
  | .ifBreak t =>
    if f.mode = .brk then ([], writeFlat (flushPendingWith s f.indent o) t) else ([], s)
  | .ifBreakPad w =>
    if f.mode = .brk ∧ w > 0 then ([], writeSpaces (flushPendingWith s f.indent o) w) else ([], s)
  | .pad w =>
    if w > 0 then ([], writeSpaces (flushPendingWith s f.indent o) w) else ([], s)
  | .ifFlatPad w =>
    if f.mode = .flat ∧ w > 0 then ([], writeSpaces (flushPendingWith s f.indent o) w) else ([], s)
  | .anchored t sl sc => ([], emitAnchored s f.indent o t sl sc)

def stackSize : List Frame → Nat
  | [] => 0
  | f :: fs => f.doc.size + stackSize fs

theorem stackSize_append (a b : List Frame) : stackSize (a ++ b) = stackSize a + stackSize b := by
  induction a with
  | nil => simp [stackSize]
  | cons x xs ih => simp [stackSize, ih]; omega

theorem stackSize_map (ds : List Doc) (i : Int) (m : Mode) :
    stackSize (ds.map (fun d => { indent := i, mode := m, doc := d : Frame })) = Doc.sizeList ds := by
  induction ds with
  | nil => simp [stackSize, Doc.sizeList]
  | cons d ds ih => simp [stackSize, Doc.sizeList, ih]

/-- T0 (part 2): every `render_frame` call replaces the popped frame by strictly less work. -/
theorem stepFrame_size (o : Opts) (f : Frame) (fs : List Frame) (s : St) :
    stackSize (stepFrame o f fs s).1 < f.doc.size := by
  obtain ⟨i, m, d⟩ := f
  cases d <;> simp only [stepFrame] <;> (try split) <;>
    simp [stackSize, stackSize_map, Doc.size]

/-- The loop of `render_inner`. -/
def renderFrames (o : Opts) : List Frame → St → St
  | [], s => s
  | f :: fs, s => renderFrames o ((stepFrame o f fs s).1 ++ fs) (stepFrame o f fs s).2
termination_by fs _ => stackSize fs
decreasing_by
  have := stepFrame_size o f fs s
  simp only [stackSize_append, stackSize]
  omega

/-! ### `strip_trailing_whitespace` -/

def isTrailWs (c : Char) : Bool := c == ' ' || c == '\t'

/-- `line.trim_end_matches([' ', '\t'])` on a REVERSED line. -/
def trimEndR (rline : List Char) : List Char := rline.dropWhile isTrailWs

/-- `s.split(newline)` + per-line trim + re-join for a NON-EMPTY newline; `cur` is the current
    line, reversed. Matches are found left to right, non-overlapping, as `str::split` does. -/
def stripGo (nl : List Char) (hnl : nl ≠ []) : List Char → List Char → List Char
  | [], cur => (trimEndR cur).reverse
  | c :: s, cur =>
    if nl.isPrefixOf (c :: s) then
      (trimEndR cur).reverse ++ nl ++ stripGo nl hnl ((c :: s).drop nl.length) []
    else stripGo nl hnl s (c :: cur)
termination_by s _ => s.length
decreasing_by
  · have : 0 < nl.length := List.length_pos_iff.mpr hnl
    simp only [List.length_drop, List.length_cons]
    omega
  · simp

/-- `strip_trailing_whitespace(s, newline)`. With an empty pattern `str::split("")` yields
    `"", c₁, c₂, …, cₙ, ""`, so every `' '`/`'\t'` char is trimmed away. -/
def stripTrailingWhitespace (s : List Char) (nl : List Char) : List Char :=
  if h : nl = [] then s.filter (fun c => !isTrailWs c) else stripGo nl h s []

/-! ### `render_inner` -/

/-- `Rendered`. -/
structure Rendered where
  text : List Char
  anchors : List Anchor
deriving Repr, Inhabited

def initFrame (d : Doc) : Frame := { indent := 0, mode := .brk, doc := d }

/-- The state after the main loop of `render_inner`. -/
def renderState (o : Opts) (d : Doc) : St := renderFrames o [initFrame d] {}

/-- `render_with_anchors`. -/
def render (o : Opts) (d : Doc) : Rendered :=
  let s := renderState o d
  { text := if o.strip then stripTrailingWhitespace s.out o.newline else s.out,
    anchors := s.anchors }

/-! ### Decidable side conditions of the theorems (evaluated by the driver on real documents) -/

mutual
/-- `p` holds at every node of the document. -/
def Doc.all (p : Doc → Bool) : Doc → Bool
  | .concat ds => p (.concat ds) && Doc.allList p ds
  | .indent off d => p (.indent off d) && d.all p
  | .group d => p (.group d) && d.all p
  | .forceFlat d => p (.forceFlat d) && d.all p
  | d => p d
def Doc.allList (p : Doc → Bool) : List Doc → Bool
  | [] => true
  | d :: ds => d.all p && Doc.allList p ds
end

/-- The text is non-empty and does not end in a space (a `DedentHardline` cannot truncate it). -/
def solid (t : List Char) : Bool :=
  match t.reverse with
  | c :: _ => c != ' '
  | [] => false

/-- Node condition of `anchor_true_partial`: no `'\n'` inside `Line` separators and `IfBreak`
    texts (the renderer adds their length to `col` without looking for newlines). -/
def anchorNodeOK : Doc → Bool
  | .line sep => countNl sep == 0
  | .ifBreak t => countNl t == 0
  | _ => true

/-- Node condition: a `DedentHardline` that cannot truncate anything (`level * indent_width = 0`). -/
def noTruncNode (o : Opts) : Doc → Bool
  | .dedentHardline l => l * o.indentWidth == 0
  | _ => true

def isWs (c : Char) : Bool := c == ' ' || c == '\t' || c == '\n' || c == '\r'

/-- Node condition of `nonws_opts_invariant`: separators and break-only texts are pure whitespace. -/
def layoutNeutralNode : Doc → Bool
  | .line sep => sep.all isWs
  | .ifBreak t => t.all isWs
  | _ => true

/-- Node condition of `newline_only`: no text of the document contains `'\n'`. -/
def nlFreeNode : Doc → Bool
  | .text t => countNl t == 0
  | .line sep => countNl sep == 0
  | .ifBreak t => countNl t == 0
  | .anchored t _ _ => countNl t == 0
  | .comments cs => cs.all (fun c => countNl c.text == 0)
  | _ => true

/-- Decidable form of `NlWs` (Lemmas/Pretty.lean): the newline string is pure whitespace. -/
def nlWsB (o : Opts) : Bool := o.newline.all isWs

/-- Decidable form of `NlOK`: the newline string is `pre ++ "\n"` with no `'\n'` in `pre`. -/
def nlOkB (o : Opts) : Bool :=
  match o.newline.reverse with
  | c :: pre => c == '\n' && countNl pre == 0
  | [] => false

end VerylModel.Pretty
