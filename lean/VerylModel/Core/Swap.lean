/-!
# M-Swap — handing a running simulation over from the JIT to the compiled C code (C33)

Import-free, executable.  Three layers:

* **generic hybrid runs** (`run`, `hrun`, `trace`, `htrace`): a step function with two
  implementations and an arbitrary schedule saying which one serves step `n`;
* **the dispatch model**: `settle` mirrors `Ir::settle_comb` (`crates/simulator/src/ir.rs`),
  `event` mirrors `Simulator::eval_event_stmts`, `opStep` mirrors `Simulator::{new,set,get,step,
  step_reset}` (the `comb_dirty` discipline), `hookGate` mirrors
  `backend::aot_c::verif_swap::gate`.  A dispatch produces *micro-operations*
  (`Micro`: JIT settle, C constant cone, C main pass, JIT/C event evaluation, commit, input
  writes) and updates the dispatcher's own state (`DSt`: attempt counter, `const_cone_done`,
  `comb_dirty`, the two residency fall-back flags);
* **engines** (`Eng σ`): what each micro-operation does to an abstract simulator state `σ`.
  `machRun` runs an API-call sequence through the dispatcher and the engines.

The byte-level reading of `≈` ("equal outside the localised comb bytes") is `Eqv`.
-/
namespace VerylModel.Swap

/-! ## Generic hybrid runs -/

section Generic
variable {σ ι : Type}

/-- The reference run: every step served by `f`. -/
def run (f : ι → σ → σ) : List ι → σ → σ
  | [], s => s
  | i :: is, s => run f is (f i s)

/-- A hybrid run: step number `n` (counted from the given start index) is served by `g` when
    `sched n`, by `f` otherwise.  `sched` is arbitrary: swap once, never, or back and forth. -/
def hrun (f g : ι → σ → σ) (sched : Nat → Bool) : Nat → List ι → σ → σ
  | _, [], s => s
  | n, i :: is, s => hrun f g sched (n + 1) is (if sched n then g i s else f i s)

/-- States after every step of the reference run. -/
def trace (f : ι → σ → σ) : List ι → σ → List σ
  | [], _ => []
  | i :: is, s => f i s :: trace f is (f i s)

/-- States after every step of a hybrid run. -/
def htrace (f g : ι → σ → σ) (sched : Nat → Bool) : Nat → List ι → σ → List σ
  | _, [], _ => []
  | n, i :: is, s =>
    let s' := if sched n then g i s else f i s
    s' :: htrace f g sched (n + 1) is s'

end Generic

/-! ## `≈` on byte memories -/

/-- Equality of two memories (address → byte) outside the localised addresses. -/
def Eqv (loc : Nat → Bool) (s t : Nat → Nat) : Prop := ∀ a, loc a = false → s a = t a

/-- Is byte `b` inside one of the ranges `(offset, length)`? (`localized_comb_bytes`) -/
def inRanges (rs : List (Nat × Nat)) (b : Nat) : Bool :=
  rs.any (fun r => decide (r.1 ≤ b) && decide (b < r.1 + r.2))

/-- All bytes `off .. off+len-1` lie inside `rs`. -/
def rangeInside (rs : List (Nat × Nat)) : Nat → Nat → Bool
  | _, 0 => true
  | off, len + 1 => inRanges rs off && rangeInside rs (off + 1) len

/-- The harness's `state` decision: the flip-flop bytes are equal and every differing comb byte
    range lies inside the localised ranges. -/
def stateEqv (ffEq : Bool) (loc diff : List (Nat × Nat)) : Bool :=
  ffEq && diff.all (fun d => rangeInside loc d.1 d.2)

/-! ## The dispatch model -/

/-- What a dispatch makes the engines do. -/
inductive Micro where
  | jSettle                -- per-chunk (Cranelift / interpreter) settle, all passes
  | cConst                 -- `veryl_aot_eval_const`: the run-once constant cone
  | cMain                  -- `veryl_aot_eval`: one pass of the compiled comb function
  | jEvent (e : Nat)       -- per-statement event evaluation (into the write log)
  | cEvent (e : Nat)       -- whole-event C function (into the write log)
  | commit                 -- `ff_commit_from_log`
  | setIn (v : Nat)        -- `Simulator::set` of the input ports
  | setRst (b : Bool)      -- `set_reset_level`
  deriving Repr, DecidableEq

/-- Per-design facts the dispatcher consults (`Ir::required_comb_passes`, `whole_comb.is_some()`,
    `whole_events.contains_key`; event 0 = clock, 1 = reset). -/
structure Cfg where
  passes : Nat
  comb : Bool
  ev : Nat → Bool

/-- The dispatcher's own state. `settles` is a ghost counter (used by the proofs only). -/
structure DSt where
  att : Nat := 0            -- `verif_swap::ATTEMPTS`
  constDone : Bool := false -- `Ir::const_cone_done`
  dirty : Bool := true      -- `Simulator::comb_dirty`
  fbComb : Bool := false    -- residency: `whole_comb:<top>` recorded
  fbEv : Bool := false      -- residency: `whole_event:<top>` recorded
  settles : Nat := 0
  deriving Repr

/-- `verif_swap::gate` after `set_ready_at k` (`none` = never ready): is attempt number `n` served
    by the compiled module? -/
def hookGate (k : Option Nat) (n : Nat) : Bool :=
  match k with
  | none => false
  | some k => decide (k ≤ n)

/-- `for _ in 0..passes { match whole.try_dispatch(..) { Done => {}, NotReady => { …fallback…;
    run_chunked_settle; return } } }` — returns the new attempt counter, whether it fell back, and
    the micro-operations. -/
def mainLoop (g : Nat → Bool) : Nat → Nat → Nat × Bool × List Micro
  | 0, a => (a, false, [])
  | n + 1, a =>
    if g a then
      let r := mainLoop g n (a + 1)
      (r.1, r.2.1, Micro.cMain :: r.2.2)
    else (a + 1, true, [Micro.jSettle])

/-- `Ir::settle_comb`, non-validate path. -/
def settle (g : Nat → Bool) (c : Cfg) (d : DSt) : DSt × List Micro :=
  if c.comb then
    -- `!const_cone_done && try_dispatch_const(..) == Done`
    let r0 := !d.constDone && g d.att
    let a1 := if d.constDone then d.att else d.att + 1
    let r := mainLoop g (max c.passes 1) a1
    ({ d with att := r.1, constDone := d.constDone || r0, fbComb := d.fbComb || r.2.1,
              settles := d.settles + 1 },
     (if r0 then [Micro.cConst] else []) ++ r.2.2)
  else ({ d with settles := d.settles + 1 }, [Micro.jSettle])

/-- `Simulator::eval_event_stmts`, non-validate path. -/
def event (g : Nat → Bool) (c : Cfg) (e : Nat) (d : DSt) : DSt × List Micro :=
  if c.ev e then
    if g d.att then ({ d with att := d.att + 1 }, [Micro.cEvent e])
    else ({ d with att := d.att + 1, fbEv := true }, [Micro.jEvent e])
  else (d, [Micro.jEvent e])

/-- `if self.comb_dirty { self.do_settle_comb(); self.comb_dirty = false; }` -/
def ensure (g : Nat → Bool) (c : Cfg) (d : DSt) : DSt × List Micro :=
  if d.dirty then
    let r := settle g c d
    ({ r.1 with dirty := false }, r.2)
  else (d, [])

/-- Simulator API calls (designs without derived clocks). -/
inductive Op where
  | new | set (v : Nat) | get | step | stepReset
  deriving Repr, DecidableEq

def opStep (g : Nat → Bool) (c : Cfg) (d : DSt) : Op → DSt × List Micro
  | .new => ({ d with dirty := true }, [Micro.setRst false])
  | .set v => ({ d with dirty := true }, [Micro.setIn v])
  | .get => ensure g c d
  | .step =>
    let r1 := ensure g c d
    let r2 := event g c 0 r1.1
    ({ r2.1 with dirty := true }, r1.2 ++ r2.2 ++ [Micro.commit])
  | .stepReset =>
    -- set_reset_level(true); step_in_reset(assertion_edge) = settle, clock event, reset event,
    -- commit; set_reset_level(false)
    let r1 := ensure g c { d with dirty := true }
    let r2 := event g c 0 r1.1
    let r3 := event g c 1 r2.1
    ({ r3.1 with dirty := true },
     [Micro.setRst true] ++ r1.2 ++ r2.2 ++ r3.2 ++ [Micro.commit, Micro.setRst false])

/-- Dispatcher only: the states after every call (what the harness measures) . -/
def dispRun (g : Nat → Bool) (c : Cfg) : List Op → DSt → List DSt
  | [], _ => []
  | o :: os, d =>
    let d' := (opStep g c d o).1
    d' :: dispRun g c os d'

/-! ## Engines -/

structure Eng (σ : Type) where
  jS : σ → σ
  cC : σ → σ
  cM : σ → σ
  jE : Nat → σ → σ
  cE : Nat → σ → σ
  commit : σ → σ
  setIn : Nat → σ → σ
  setRst : Bool → σ → σ

def iter {σ : Type} (f : σ → σ) : Nat → σ → σ
  | 0, s => s
  | n + 1, s => iter f n (f s)

def Eng.micro {σ : Type} (E : Eng σ) : Micro → σ → σ
  | .jSettle => E.jS
  | .cConst => E.cC
  | .cMain => E.cM
  | .jEvent e => E.jE e
  | .cEvent e => E.cE e
  | .commit => E.commit
  | .setIn v => E.setIn v
  | .setRst b => E.setRst b

def Eng.runMicro {σ : Type} (E : Eng σ) : List Micro → σ → σ
  | [], s => s
  | m :: ms, s => E.runMicro ms (E.micro m s)

/-- One API call: dispatch, then let the engines execute the micro-operations. -/
def machStep {σ : Type} (g : Nat → Bool) (c : Cfg) (E : Eng σ) (x : DSt × σ) (o : Op) : DSt × σ :=
  let r := opStep g c x.1 o
  (r.1, E.runMicro r.2 x.2)

def machRun {σ : Type} (g : Nat → Bool) (c : Cfg) (E : Eng σ) : List Op → DSt × σ → DSt × σ
  | [], x => x
  | o :: os, x => machRun g c E os (machStep g c E x o)

/-- The gate of a run that never leaves the JIT. -/
def never : Nat → Bool := fun _ => false

/-! ## Constant cone: once vs. every settle (all settles served by C) -/

inductive Tr (ι : Type) where
  | settle
  | other (i : ι)

/-- What the code does: the constant cone runs at the first C settle only (`const_cone_done`). -/
def runOnce {σ ι : Type} (cC cM : σ → σ) (p : Nat) (x : ι → σ → σ) : List (Tr ι) → σ × Bool → σ × Bool
  | [], s => s
  | .settle :: ts, (s, done) =>
    runOnce cC cM p x ts (if done then iter cM p s else iter cM p (cC s), true)
  | .other i :: ts, (s, done) => runOnce cC cM p x ts (x i s, done)

/-- The reference: the constant statements are evaluated in every settle, from cycle 0. -/
def runEvery {σ ι : Type} (cC cM : σ → σ) (p : Nat) (x : ι → σ → σ) : List (Tr ι) → σ → σ
  | [], s => s
  | .settle :: ts, s => runEvery cC cM p x ts (iter cM p (cC s))
  | .other i :: ts, s => runEvery cC cM p x ts (x i s)

/-! ## A small concrete machine (non-vacuity of the hypotheses; witness of the first-settle gap) -/

structure Toy where
  inp : Nat := 0
  ff : Nat := 0
  rst : Nat := 0
  k : Nat := 0          -- output of the constant cone
  t : Nat := 0          -- a localised intermediate (stale under C)
  out : Nat := 0
  log : Option Nat := none
  deriving Repr, DecidableEq

/-- Equality outside the localised field `t`. -/
def ToyR (a b : Toy) : Prop :=
  a.inp = b.inp ∧ a.ff = b.ff ∧ a.rst = b.rst ∧ a.k = b.k ∧ a.out = b.out ∧ a.log = b.log

instance (a b : Toy) : Decidable (ToyR a b) := by unfold ToyR; infer_instance

def toyEng : Eng Toy where
  jS s := { s with k := 7, t := s.inp + s.ff, out := s.inp + s.ff + 7 }
  cC s := { s with k := 7 }
  cM s := { s with out := s.inp + s.ff + s.k }
  jE e s := { s with log := some (if e = 0 then (if s.rst = 1 then 0 else s.out) else 0) }
  cE e s := { s with log := some (if e = 0 then (if s.rst = 1 then 0 else s.out) else 0) }
  commit s := { s with ff := s.log.getD s.ff, log := none }
  setIn v s := { s with inp := v }
  setRst b s := { s with rst := if b then 1 else 0 }

def toyCfg : Cfg := { passes := 1, comb := true, ev := fun _ => true }

end VerylModel.Swap
