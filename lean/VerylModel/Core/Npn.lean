/-
C21 — model of `/repo/crates/synthesizer/src/aig/npn4.rs` (cargo feature `aig`).

Truth tables (`Tt4 = u16`) are `Nat`s below 65536; bit `m` is the function value on the input
assignment whose bit `i` is `x_i`.  Every function mirrors its Rust namesake line by line:

* `permTt`       = `perm_tt`       (loop over `m in 0..16`, inner loop builds `mprime`)
* `flipInputs`   = `flip_inputs`   (`mask & 0xF`, loop over `m in 0..16`)
* `Transform.apply` = `NpnTransform::apply` (`perm_tt`, `flip_inputs`, `!t`)
* `npnCanonical` = `npn_canonical` (three nested loops, strict `<` keeps the first minimum).
  The Rust reads `perm_tt(tt, ALL_PERMS[pi])` out of a lazily built table
  (`table[pi * 65536 + tt]`, filled by the very same `perm_tt`); the model calls `permTt`.
* `Pattern.eval` / `Pattern.tt` = `AigPattern::eval` / `tt`
* `transformPattern` = `transform_pattern` (`perm_inv`, `var_subst`, `map_edge`).

Not modelled: Rust panics (index out of bounds in `eval` when an edge refers to a node that
does not exist yet, `perm_inv[p]` for `p ≥ 4`, shift overflow for a `perm` entry ≥ 32) — these
inputs are excluded by `Pattern.wf` / `perm ∈ allPerms`; the model uses defaults there and the
driver answers `panic`.

Import-free apart from the generated constants (linked into `vmodel`).
-/
import VerylModel.Gen.Npn

namespace VerylModel.Core.Npn
open VerylModel.Gen.Npn

/-- `out |= (f(m) & 1) << m` for `m in 0..n`, starting from 0 — the shape of both truth-table
loops (`perm_tt`, `flip_inputs`). -/
def packBits (f : Nat → Nat) (n : Nat) : Nat :=
  (List.range n).foldl (fun out m => out ||| ((f m &&& 1) <<< m)) 0

/-- Inner loop of `perm_tt`: `for (i, &p) in perm.iter().enumerate() { mprime |= ((m >> i) & 1) << p }`. -/
def permIndex (perm : List Nat) (m : Nat) : Nat :=
  perm.zipIdx.foldl (fun mp pi => mp ||| (((m >>> pi.2) &&& 1) <<< pi.1)) 0

/-- `perm_tt(tt, perm)`; the final `% 65536` is `out as Tt4`. -/
def permTt (tt : Nat) (perm : List Nat) : Nat :=
  packBits (fun m => tt >>> permIndex perm m) permTtBound % 65536

/-- `flip_inputs(tt, mask)`. -/
def flipInputs (tt mask : Nat) : Nat :=
  let mask := mask &&& flipMask
  packBits (fun m => tt >>> (m ^^^ mask)) flipBound % 65536

/-- `!t` on a `u16`. -/
def not16 (t : Nat) : Nat := t ^^^ 65535

/-- `NpnTransform`. -/
structure Transform where
  perm : List Nat
  inNeg : Nat
  outNeg : Bool
deriving DecidableEq, Repr

/-- `NpnTransform::IDENTITY`. -/
def Transform.identity : Transform := ⟨identityPerm, identityInNeg, identityOutNeg⟩

/-- `NpnTransform::apply`. -/
def Transform.apply (t : Transform) (tt : Nat) : Nat :=
  let x := permTt tt t.perm
  let x := flipInputs x t.inNeg
  if t.outNeg then not16 x else x

/-- Body of the innermost loop of `npn_canonical` (one `in_neg`, both output polarities). -/
def canonInner (permed : Nat) (perm : List Nat) (acc : Nat × Transform) (inNeg : Nat) : Nat × Transform :=
  let flipped := flipInputs permed inNeg
  let acc := if flipped < acc.1 then (flipped, ⟨perm, inNeg, false⟩) else acc
  let neg := not16 flipped
  if neg < acc.1 then (neg, ⟨perm, inNeg, true⟩) else acc

/-- Body of the outer loop of `npn_canonical` (one permutation). -/
def canonOuter (tt : Nat) (acc : Nat × Transform) (perm : List Nat) : Nat × Transform :=
  let permed := permTt tt perm
  (List.range inNegBound).foldl (canonInner permed perm) acc

/-- `npn_canonical(tt)` → `(best_tt, best)`. -/
def npnCanonical (tt : Nat) : Nat × Transform :=
  allPerms.foldl (canonOuter tt) (tt, Transform.identity)

/-- The 24·16·2 transforms in the order the loops of `npn_canonical` visit them. -/
def all768 : List Transform :=
  allPerms.flatMap fun p => (List.range inNegBound).flatMap fun n => [⟨p, n, false⟩, ⟨p, n, true⟩]

/-! ### Patterns -/

/-- `PatEdge(node, negated)`: `node < 4` is an input variable, `node ≥ 4` the AND `node - 4`. -/
structure PatEdge where
  node : Nat
  neg : Bool
deriving DecidableEq, Repr

/-- `AigPattern`. -/
structure Pattern where
  ands : List (PatEdge × PatEdge)
  output : PatEdge
deriving DecidableEq, Repr

def Pattern.size (p : Pattern) : Nat := p.ands.length

/-- `if neg { !0 } else { 0 }` on `u16`. -/
def negMask (b : Bool) : Nat := if b then 65535 else 0

/-- One iteration of the loop of `AigPattern::eval`: `values.push(va & vb)`. -/
def evalStep (values : List Nat) (ab : PatEdge × PatEdge) : List Nat :=
  let va := values.getD ab.1.node 0 ^^^ negMask ab.1.neg
  let vb := values.getD ab.2.node 0 ^^^ negMask ab.2.neg
  values ++ [va &&& vb]

/-- `AigPattern::eval(vars)` (`vars` = the four input tables). -/
def Pattern.eval (p : Pattern) (vars : List Nat) : Nat :=
  let values := p.ands.foldl evalStep vars
  values.getD p.output.node 0 ^^^ negMask p.output.neg

/-- `AigPattern::tt()`. -/
def Pattern.tt (p : Pattern) : Nat := p.eval varTt

/-- Every edge refers to an input or an earlier AND (otherwise `eval` panics in Rust). -/
def andsWf : Nat → List (PatEdge × PatEdge) → Bool
  | _, [] => true
  | n, (a, b) :: rest => decide (a.node < n) && decide (b.node < n) && andsWf (n + 1) rest

def Pattern.wf (p : Pattern) : Bool :=
  andsWf 4 p.ands && decide (p.output.node < 4 + p.ands.length)

/-- `perm_inv` of `transform_pattern`: `for (i, &p) in perm.iter().enumerate() { perm_inv[p] = i }`. -/
def permInv (perm : List Nat) : List Nat :=
  perm.zipIdx.foldl (fun inv pi => inv.set pi.1 pi.2) [0, 0, 0, 0]

/-- `var_subst` of `transform_pattern`. -/
def varSubst (t : Transform) : List (Nat × Bool) :=
  let inv := permInv t.perm
  [0, 1, 2, 3].map fun j =>
    let newNode := inv.getD j 0
    let neg := ((t.inNeg >>> newNode) &&& 1) != 0
    (newNode, neg)

/-- `map_edge` of `transform_pattern`. -/
def mapEdge (vs : List (Nat × Bool)) (e : PatEdge) : PatEdge :=
  if e.node < 4 then
    let nv := vs.getD e.node (0, false)
    ⟨nv.1, e.neg ^^ nv.2⟩
  else e

/-- `transform_pattern(pat, t)`. -/
def transformPattern (p : Pattern) (t : Transform) : Pattern :=
  let vs := varSubst t
  let ands := p.ands.map fun ab => (mapEdge vs ab.1, mapEdge vs ab.2)
  let o := mapEdge vs p.output
  ⟨ands, ⟨o.node, o.neg ^^ t.outNeg⟩⟩

end VerylModel.Core.Npn
