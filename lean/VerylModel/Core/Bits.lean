/-
M-Bits: 4-state bit vectors as the analyzer's constant evaluator stores them
(`crates/analyzer/src/value.rs`: `ValueU64`, `ValueBigUint`, `Value`) and the operator
evaluation of `crates/analyzer/src/ir/op.rs` (`Op::eval_value_unary`, `Op::eval_value_binary`).

* `V4`      = (width, payload, mask_xz, signed); per bit (payload, mask):
              0 = (0,0)   1 = (1,0)   X = (0,1)   Z = (1,1)          (value.rs `new_x`, `new_z`,
              `to_vcd_value`).
* `Ref.*`   = IEEE 1800-2017 §11.4 written directly (bit functions, truth tables, `Int` values);
              independent of the Rust. Results are `BV` (width + bits; no signedness flag).
* `Impl.*`  = line-by-line models of the two Rust representations in CHECKED arithmetic: a
              function returns `none` exactly where the debug-profile Rust panics (`+`/`-`
              overflow, shift amount ≥ 64, `unwrap` on `None`, `unreachable!`, `unimplemented!`).

Import-free (linked into `vmodel`).  Widths are `Nat` (the Rust stores `u32`; widths < 2^32 is a
trusted assumption, as is `usize` = 64 bit).
-/
namespace VerylModel.Bits

/-- A 4-state value as stored by the analyzer. -/
structure V4 where
  width : Nat
  payload : Nat
  mask : Nat
  signed : Bool
deriving DecidableEq, Repr, Inhabited

/-- A 4-state bit vector without a type flag: what IEEE defines as "the value". -/
structure BV where
  width : Nat
  payload : Nat
  mask : Nat
deriving DecidableEq, Repr, Inhabited

def V4.toBV (v : V4) : BV := ⟨v.width, v.payload, v.mask⟩

/-- Well-formed: no payload/mask bit at or above `width`. -/
def V4.wf (v : V4) : Prop := v.payload < 2 ^ v.width ∧ v.mask < 2 ^ v.width

instance (v : V4) : Decidable v.wf := by unfold V4.wf; exact inferInstance

/-- `enum Op` of op.rs, same order. -/
inductive Op
  | Pow | Div | Rem | Mul | Add | Sub | ArithShiftL | ArithShiftR | LogicShiftL | LogicShiftR
  | LessEq | GreaterEq | Less | Greater | Eq | EqWildcard | Ne | NeWildcard | LogicAnd | LogicOr
  | LogicNot | BitAnd | BitOr | BitXor | BitXnor | BitNand | BitNor | BitNot | As | Ternary
  | Concatenation | ArrayLiteral | Condition | Repeat
deriving DecidableEq, Repr

/-- Pack `f 0 … f (w-1)` into a number (bit `i` = `f i`). -/
def packN : Nat → (Nat → Bool) → Nat
  | 0, _ => 0
  | n + 1, f => packN n f + (if f n then 2 ^ n else 0)

/-- `∃ i < n, p i`, computably. -/
def anyLt : Nat → (Nat → Bool) → Bool
  | 0, _ => false
  | n + 1, p => anyLt n p || p n

/-- Square-and-multiply `b ^ e % m` (fuel = any bound ≥ bit length of `e`; `e` itself works). -/
def powModAux : Nat → Nat → Nat → Nat → Nat
  | 0, _, _, m => 1 % m
  | fuel + 1, b, e, m =>
    if e = 0 then 1 % m
    else
      let h := powModAux fuel b (e / 2) m
      if e % 2 = 1 then (h * h % m) * (b % m) % m else h * h % m

def powMod (b e m : Nat) : Nat := powModAux (e.log2 + 1) b e m

/-- Number of one bits (`u64::count_ones`, `BigUint::count_ones`). -/
def popcountAux : Nat → Nat → Nat
  | 0, _ => 0
  | fuel + 1, n => if n = 0 then 0 else n % 2 + popcountAux fuel (n / 2)

def popcount (n : Nat) : Nat := popcountAux (n.log2 + 1) n

/-! ## Ref: IEEE 1800-2017 §11.4 -/
namespace Ref

/-- One 4-state bit. -/
inductive B4 | b0 | b1 | bx | bz
deriving DecidableEq, Repr

def B4.ofPM (p m : Bool) : B4 :=
  match m, p with
  | false, false => .b0
  | false, true => .b1
  | true, false => .bx
  | true, true => .bz

def B4.p : B4 → Bool
  | .b1 | .bz => true
  | _ => false

def B4.m : B4 → Bool
  | .bx | .bz => true
  | _ => false

def B4.known : B4 → Bool
  | .b0 | .b1 => true
  | _ => false

/-- Table 11-? bitwise binary AND. -/
def B4.and : B4 → B4 → B4
  | .b0, _ => .b0
  | _, .b0 => .b0
  | .b1, .b1 => .b1
  | _, _ => .bx

def B4.or : B4 → B4 → B4
  | .b1, _ => .b1
  | _, .b1 => .b1
  | .b0, .b0 => .b0
  | _, _ => .bx

def B4.xor : B4 → B4 → B4
  | .b0, .b0 => .b0
  | .b0, .b1 => .b1
  | .b1, .b0 => .b1
  | .b1, .b1 => .b0
  | _, _ => .bx

def B4.not : B4 → B4
  | .b0 => .b1
  | .b1 => .b0
  | _ => .bx

def B4.xnor (a b : B4) : B4 := (a.xor b).not

def bitOf (payload mask : Nat) (i : Nat) : B4 := B4.ofPM (payload.testBit i) (mask.testBit i)

def _root_.VerylModel.Bits.V4.bit (v : V4) (i : Nat) : B4 := bitOf v.payload v.mask i
def _root_.VerylModel.Bits.BV.bit (v : BV) (i : Nat) : B4 := bitOf v.payload v.mask i

def BV.ofFn (w : Nat) (f : Nat → B4) : BV :=
  ⟨w, packN w (fun i => (f i).p), packN w (fun i => (f i).m)⟩

def _root_.VerylModel.Bits.BV.hasXZ (a : BV) : Bool := a.mask != 0

/-- Bit `i` of operand `x` extended to its context (§11.6.1, §11.8.2): an unsized fill literal
    (`'0 '1 'x 'z`, stored with width 0) replicates its bit; otherwise bits above the operand
    width copy the sign bit when the expression type is signed and the operand is signed, and are
    0 otherwise. -/
def extBit (x : V4) (s : Bool) (i : Nat) : B4 :=
  if x.width = 0 then x.bit 0
  else if i < x.width then x.bit i
  else if s && x.signed then x.bit (x.width - 1)
  else .b0

/-- Operand `x` sized to `w` bits in an expression of signedness `s` (truncation when narrower:
    the low `w` bits, as an assignment-like cast does). -/
def ext (x : V4) (w : Nat) (s : Bool) : BV := BV.ofFn w (extBit x s)

def allX (w : Nat) : BV := ⟨w, 0, 2 ^ w - 1⟩
def ofNat (w n : Nat) : BV := ⟨w, n % 2 ^ w, 0⟩
def ofInt (w : Nat) (z : Int) : BV := ⟨w, (z % ((2 ^ w : Nat) : Int)).toNat, 0⟩

/-- Two's-complement value of a known vector. -/
def _root_.VerylModel.Bits.BV.toInt (a : BV) : Int :=
  if a.width ≠ 0 ∧ a.payload.testBit (a.width - 1) then (a.payload : Int) - ((2 ^ a.width : Nat) : Int)
  else (a.payload : Int)

/-- Numeric value of a known vector in an expression of signedness `s`. -/
def val (a : BV) (s : Bool) : Int := if s then a.toInt else (a.payload : Int)

/-- A 1-bit result, zero-extended to the width the context asks for. -/
def ofB4 (w : Nat) (r : B4) : BV := ⟨w, r.p.toNat, r.m.toNat⟩

def ofBool (w : Nat) (b : Bool) : BV := ⟨w, b.toNat, 0⟩

/-- §11.4.3 arithmetic on operands already sized to the expression width `w`: any x/z operand bit
    gives all-x; otherwise the value modulo `2^w`. -/
def arithBV (g : Int → Int → Int) (a b : BV) (w : Nat) (s : Bool) : BV :=
  if a.hasXZ || b.hasXZ then allX w else ofInt w (g (val a s) (val b s))

def arith (g : Int → Int → Int) (x y : V4) (w : Nat) (s : Bool) : BV :=
  arithBV g (ext x w s) (ext y w s) w s

def add := arith (· + ·)
def sub := arith (· - ·)
def mul := arith (· * ·)

/-- §11.4.2: division or modulus by zero gives x; `/` truncates toward zero. -/
def divBV (a b : BV) (w : Nat) (s : Bool) : BV :=
  if a.hasXZ || b.hasXZ || b.payload == 0 then allX w else ofInt w (Int.tdiv (val a s) (val b s))

def div (x y : V4) (w : Nat) (s : Bool) : BV := divBV (ext x w s) (ext y w s) w s

/-- `%` takes the sign of the first operand. -/
def remBV (a b : BV) (w : Nat) (s : Bool) : BV :=
  if a.hasXZ || b.hasXZ || b.payload == 0 then allX w else ofInt w (Int.tmod (val a s) (val b s))

def rem (x y : V4) (w : Nat) (s : Bool) : BV := remBV (ext x w s) (ext y w s) w s

def plus (x : V4) (w : Nat) (s : Bool) : BV := ext x w s

def minusBV (a : BV) (w : Nat) (s : Bool) : BV :=
  if a.hasXZ then allX w else ofInt w (- val a s)

def minus (x : V4) (w : Nat) (s : Bool) : BV := minusBV (ext x w s) w s

/-- §11.4.8 bitwise operators, bit by bit. -/
def bitwiseBV (f : B4 → B4 → B4) (a b : BV) (w : Nat) : BV :=
  BV.ofFn w (fun i => f (a.bit i) (b.bit i))

def bitwise (f : B4 → B4 → B4) (x y : V4) (w : Nat) (s : Bool) : BV :=
  bitwiseBV f (ext x w s) (ext y w s) w

def band := bitwise B4.and
def bor := bitwise B4.or
def bxor := bitwise B4.xor
def bxnor := bitwise B4.xnor

def bnotBV (a : BV) (w : Nat) : BV := BV.ofFn w (fun i => (a.bit i).not)

def bnot (x : V4) (w : Nat) (s : Bool) : BV := bnotBV (ext x w s) w

/-- §11.4.9 reduction: the operator applied bit after bit (self-determined operand). -/
def reduce (f : B4 → B4 → B4) (unit : B4) (x : V4) : B4 :=
  (List.range x.width).foldl (fun acc i => f acc (x.bit i)) unit

def rand (x : V4) (w : Nat) : BV := ofB4 w (reduce B4.and .b1 x)
def rnand (x : V4) (w : Nat) : BV := ofB4 w (reduce B4.and .b1 x).not
def ror (x : V4) (w : Nat) : BV := ofB4 w (reduce B4.or .b0 x)
def rnor (x : V4) (w : Nat) : BV := ofB4 w (reduce B4.or .b0 x).not
def rxor (x : V4) (w : Nat) : BV := ofB4 w (reduce B4.xor .b0 x)
def rxnor (x : V4) (w : Nat) : BV := ofB4 w (reduce B4.xor .b0 x).not

/-- §11.4.7: the truth value of an operand: 1 if some bit is 1, 0 if all bits are 0, else x. -/
def truth (x : V4) : B4 :=
  if anyLt x.width (fun i => x.bit i == .b1) then .b1
  else if anyLt x.width (fun i => !(x.bit i).known) then .bx
  else .b0

def lnot (x : V4) (w : Nat) : BV := ofB4 w (truth x).not
def land (x y : V4) (w : Nat) : BV := ofB4 w ((truth x).and (truth y))
def lor (x y : V4) (w : Nat) : BV := ofB4 w ((truth x).or (truth y))

/-- The width two comparison operands are brought to (§11.6.1: the larger operand). -/
def cmpWidth (x y : V4) : Nat := max x.width y.width

/-- §11.4.4 relational: x if any operand bit is x/z; signed comparison iff both operands signed
    (`s`, supplied by the caller as for the Rust API). -/
def relationalBV (r : Int → Int → Bool) (a b : BV) (w : Nat) (s : Bool) : BV :=
  if a.hasXZ || b.hasXZ then ofB4 w .bx else ofBool w (r (val a s) (val b s))

def relational (r : Int → Int → Bool) (x y : V4) (w : Nat) (s : Bool) : BV :=
  relationalBV r (ext x (cmpWidth x y) s) (ext y (cmpWidth x y) s) w s

def lt := relational (fun a b => decide (a < b))
def le := relational (fun a b => decide (a ≤ b))
def gt := relational (fun a b => decide (a > b))
def ge := relational (fun a b => decide (a ≥ b))

/-- §11.4.5 logical equality on operands sized to `W`: 0 if some bit position is known in both
    operands and differs, otherwise x if the comparison is ambiguous (some x/z), otherwise 1. -/
def eqBV (W : Nat) (a b : BV) : B4 :=
  if anyLt W (fun i => (a.bit i).known && (b.bit i).known && (a.bit i != b.bit i)) then .b0
  else if a.hasXZ || b.hasXZ then .bx
  else .b1

/-- Operands are sign-extended iff both are signed. -/
def eqB4 (x y : V4) : B4 :=
  let s := x.signed && y.signed
  eqBV (cmpWidth x y) (ext x (cmpWidth x y) s) (ext y (cmpWidth x y) s)

def eq (x y : V4) (w : Nat) : BV := ofB4 w (eqB4 x y)
def ne (x y : V4) (w : Nat) : BV := ofB4 w (eqB4 x y).not

/-- §11.4.6 wildcard equality: x/z bits of the RIGHT operand are wildcards; x/z bits of the left
    operand at other positions make the result x unless a known mismatch decides it. -/
def eqwBV (W : Nat) (a b : BV) : B4 :=
  if anyLt W (fun i => (b.bit i).known && (a.bit i).known && (a.bit i != b.bit i)) then .b0
  else if anyLt W (fun i => (b.bit i).known && !(a.bit i).known) then .bx
  else .b1

def eqwB4 (x y : V4) : B4 :=
  let s := x.signed && y.signed
  eqwBV (cmpWidth x y) (ext x (cmpWidth x y) s) (ext y (cmpWidth x y) s)

def eqw (x y : V4) (w : Nat) : BV := ofB4 w (eqwB4 x y)
def new (x y : V4) (w : Nat) : BV := ofB4 w (eqwB4 x y).not

/-- §11.4.10 shifts: the right operand is unsigned and self-determined; an x/z amount gives x. -/
def shlBV (a : BV) (y : V4) (w : Nat) : BV :=
  if y.mask != 0 then allX w
  else BV.ofFn w (fun i => if y.payload ≤ i then a.bit (i - y.payload) else .b0)

def shl (x y : V4) (w : Nat) (s : Bool) : BV := shlBV (ext x w s) y w

def lshrBV (a : BV) (y : V4) (w : Nat) : BV :=
  if y.mask != 0 then allX w
  else BV.ofFn w (fun i => if i + y.payload < w then a.bit (i + y.payload) else .b0)

def lshr (x y : V4) (w : Nat) (s : Bool) : BV := lshrBV (ext x w s) y w

/-- `>>>` fills with the sign bit iff the result type is signed. -/
def ashrBV (a : BV) (y : V4) (w : Nat) (s : Bool) : BV :=
  if y.mask != 0 then allX w
  else BV.ofFn w (fun i => if i + y.payload < w then a.bit (i + y.payload)
                           else if s then a.bit (w - 1) else .b0)

def ashr (x y : V4) (w : Nat) (s : Bool) : BV := ashrBV (ext x w s) y w s

/-- §11.4.3 power, Table 11-4, base already sized; `bs`: the base is signed. The exponent is
    self-determined (keeps its own signedness). -/
def powBV (a : BV) (y : V4) (w : Nat) (bs : Bool) : BV :=
  if a.hasXZ || y.mask != 0 then allX w
  else
    let b : Int := val a bs
    let e : Int := val y.toBV y.signed
    if e < 0 then
      if b = 0 then allX w
      else if b = 1 then ofInt w 1
      else if b = -1 then (if e % 2 = 0 then ofInt w 1 else ofInt w (-1))
      else ofInt w 0
    else if e = 0 then ofInt w 1
    else
      -- b ^ e modulo 2^w, computed by square-and-multiply on the magnitude
      let r := powMod b.natAbs e.toNat (2 ^ w)
      if b < 0 ∧ e % 2 = 1 then ofInt w (- (r : Int)) else ofInt w r

/-- The base is signed iff the expression type is signed and the base operand is signed. -/
def pow (x y : V4) (w : Nat) (s : Bool) : BV := powBV (ext x w s) y w (s && x.signed)

/-- §11.5.1 part-select `x[beg:end]` read: bits outside the vector read as x; unsigned. -/
def select (x : V4) (beg end_ : Nat) : BV :=
  if beg < end_ then ⟨0, 0, 0⟩
  else BV.ofFn (beg - end_ + 1) (fun i => if i + end_ < x.width then x.bit (i + end_) else .bx)

/-- §11.4.12 concatenation `{x, y}`. -/
def concat (x y : V4) : BV :=
  BV.ofFn (x.width + y.width) (fun i => if i < y.width then y.bit i else x.bit (i - y.width))

/-- Part-select write `x[beg:end] = v`: bits outside the vector are dropped. -/
def assign (x v : V4) (beg end_ : Nat) : BV :=
  BV.ofFn x.width (fun i => if end_ ≤ i ∧ i ≤ beg then v.bit (i - end_) else x.bit i)

def trunc (x : V4) (w : Nat) : BV := if x.width ≤ w ∧ x.width ≠ 0 then x.toBV else ext x w false

end Ref

/-! ## Impl: the Rust, line by line, in checked arithmetic -/
namespace Impl

/-- `enum Value { U64(ValueU64), BigUint(ValueBigUint) }`. In the `u64` variant payload and mask
    are `u64` (callers keep them `< 2^64`). -/
inductive Val
  | u64 (v : V4)
  | big (v : V4)
deriving DecidableEq, Repr, Inhabited

def Val.v : Val → V4
  | .u64 v => v
  | .big v => v

def Val.width (x : Val) : Nat := x.v.width
def Val.signed (x : Val) : Bool := x.v.signed
def Val.isBig : Val → Bool
  | .u64 _ => false
  | .big _ => true

/-- `usize`/`u32` subtraction (debug: panics on underflow). -/
def usub (a b : Nat) : Option Nat := if b ≤ a then some (a - b) else none

/-- `usize` addition (debug: panics on overflow). -/
def uadd (a b : Nat) : Option Nat := if a + b < 2 ^ 64 then some (a + b) else none

namespace U64
def MAX : Nat := 2 ^ 64 - 1
/-- `ValueU64::gen_mask`. -/
def genMask (w : Nat) : Nat := if w ≥ 64 then MAX else (1 <<< w) - 1
/-- `!a` on u64. -/
def not (a : Nat) : Nat := a ^^^ MAX
/-- `a << sh` on u64: panics (debug) iff `sh ≥ 64`; bits shifted out are lost. -/
def shl (a sh : Nat) : Option Nat := if sh < 64 then some ((a <<< sh) % 2 ^ 64) else none
/-- `a >> sh` on u64. -/
def shr (a sh : Nat) : Option Nat := if sh < 64 then some (a >>> sh) else none
/-- `a.unbounded_shl(s)` with `s = y.min(64)`. -/
def ushl (a y : Nat) : Nat := if y ≥ 64 then 0 else (a <<< y) % 2 ^ 64
def ushr (a y : Nat) : Nat := if y ≥ 64 then 0 else a >>> y
/-- `a + b` on u64 in debug profile. -/
def add (a b : Nat) : Option Nat := if a + b < 2 ^ 64 then some (a + b) else none
def wadd (a b : Nat) : Nat := (a + b) % 2 ^ 64
def wsub (a b : Nat) : Nat := (a + 2 ^ 64 - b % 2 ^ 64) % 2 ^ 64
def wmul (a b : Nat) : Nat := (a * b) % 2 ^ 64
/-- `a as i64`. -/
def toI64 (a : Nat) : Int := if a < 2 ^ 63 then (a : Int) else (a : Int) - ((2 ^ 64 : Nat) : Int)
/-- `z as u64`. -/
def ofI64 (z : Int) : Nat := (z % ((2 ^ 64 : Nat) : Int)).toNat
/-- `z >> sh` on i64 (arithmetic). -/
def sar (z : Int) (sh : Nat) : Option Int := if sh < 64 then some (z / ((2 ^ sh : Nat) : Int)) else none
def I64MIN : Int := - ((2 ^ 63 : Nat) : Int)
/-- `i64::checked_div`. -/
def checkedDiv (a b : Int) : Option Int :=
  if b = 0 ∨ (a = I64MIN ∧ b = -1) then none else some (Int.tdiv a b)
def checkedRem (a b : Int) : Option Int :=
  if b = 0 ∨ (a = I64MIN ∧ b = -1) then none else some (Int.tmod a b)

def new (payload width : Nat) (signed : Bool) : V4 := ⟨width, payload, 0, signed⟩
def newX (width : Nat) (signed : Bool) : V4 := ⟨width, 0, genMask width, signed⟩
def newBit1x (isOne isX : Bool) : V4 :=
  if isOne then new 1 1 false else if isX then newX 1 false else new 0 1 false
def newBit0x (isZero isX : Bool) : V4 :=
  if isZero then new 0 1 false else if isX then newX 1 false else new 1 1 false
def newBitx1 (isX isOne : Bool) : V4 :=
  if isX then newX 1 false else if isOne then new 1 1 false else new 0 1 false

/-- `((p << sh) as i64) >> sh`. -/
def sext (p sh : Nat) : Option Int := do
  let q ← shl p sh
  sar (toI64 q) sh

/-- `(v >> (width - 1)) & 1 == 1` with `width : u32`. -/
def msb (v width : Nat) : Option Bool := do
  let k ← usub width 1
  let q ← shr v k
  some (q &&& 1 == 1)

/-- The ≤64 arm of `Value::expand` for a `U64` operand of non-zero width `< width`. -/
def signExt (x : V4) (width : Nat) (useSign : Bool) : Option V4 :=
  if x.signed && useSign then do
    let m ← msb x.payload x.width
    let mx ← msb x.mask x.width
    let mask := genMask width ^^^ genMask x.width
    some ⟨width, if m then x.payload ||| mask else x.payload,
                 if mx then x.mask ||| mask else x.mask, x.signed⟩
  else some ⟨width, x.payload, x.mask, if useSign then x.signed else false⟩

/-- `ValueU64::trunc`. -/
def trunc (x : V4) (width : Nat) : V4 :=
  ⟨width, x.payload &&& genMask width, x.mask &&& genMask width, x.signed⟩

/-- `ValueU64::select`. -/
def select (x : V4) (beg end_ : Nat) : Option V4 :=
  if beg < end_ then some ⟨0, 0, 0, false⟩
  else do
    let width ← uadd (beg - end_) 1
    let mask := genMask width
    if end_ ≥ 64 then some ⟨width, 0, mask, false⟩
    else do
      let p ← shr x.payload end_
      let m ← shr x.mask end_
      some ⟨width, p &&& mask, m &&& mask, false⟩

/-- `ValueU64::gen_mask_range`. -/
def genMaskRange (beg end_ : Nat) : Option Nat := do
  let width ← uadd beg 1
  some (genMask width &&& not (genMask end_))

/-- `ValueU64::assign`. -/
def assign (x value : V4) (beg end_ : Nat) : Option V4 :=
  if end_ ≥ 64 then some x
  else do
    let vp ← shl value.payload end_
    let vm ← shl value.mask end_
    let mask := genMask x.width
    let maskRange ← genMaskRange beg end_
    let inv := mask ^^^ maskRange
    some { x with payload := (x.payload &&& inv) ||| (vp &&& maskRange),
                  mask := (x.mask &&& inv) ||| (vm &&& maskRange) }

/-- `ValueU64::to_i64` (only the signed arm is reachable from `eval_value_binary`). -/
def toI64Val (x : V4) : Option (Option Int) :=
  if x.mask ≠ 0 then some none
  else if x.signed then do
    let m ← msb x.payload x.width
    some (some (toI64 (if m then x.payload ||| not (genMask x.width) else x.payload)))
  else some (if x.payload < 2 ^ 63 then some (x.payload : Int) else none)

end U64

namespace Big
/-- `ValueBigUint::gen_mask` (= `MaskCache::get`). -/
def genMask (w : Nat) : Nat := 2 ^ w - 1
def new (payload width : Nat) (signed : Bool) : V4 := ⟨width, payload, 0, signed⟩
def newX (width : Nat) (signed : Bool) : V4 := ⟨width, 0, genMask width, signed⟩

/-- `ValueBigUint::new_bigint`. -/
def newBigint (z : Int) (width : Nat) (signed : Bool) : V4 :=
  let mask := genMask width
  if z < 0 then ⟨width, ((z.natAbs ^^^ mask) + 1) &&& mask, 0, signed⟩
  else ⟨width, z.natAbs &&& mask, 0, signed⟩

/-- `ValueBigUint::to_bigint`: outer `none` = panic (`width - 1` on u32), inner = `None`. -/
def toBigint (x : V4) : Option (Option Int) :=
  if x.mask ≠ 0 then some none
  else do
    let k ← usub x.width 1
    if x.payload.testBit k then
      let mask := genMask x.width
      some (some (- ((((x.payload ^^^ mask) + 1) &&& mask : Nat) : Int)))
    else some (some (x.payload : Int))

/-- The >64 arm of `Value::expand` (either source representation). -/
def signExt (x : V4) (width : Nat) (useSign : Bool) : Option V4 :=
  if x.signed && useSign then do
    let k ← usub x.width 1
    let m := x.payload.testBit k
    let mx := x.mask.testBit k
    let mask := genMask width ^^^ genMask x.width
    some ⟨width, if m then x.payload ||| mask else x.payload,
                 if mx then x.mask ||| mask else x.mask, x.signed⟩
  else some ⟨width, x.payload, x.mask, if useSign then x.signed else false⟩

def trunc (x : V4) (width : Nat) : V4 :=
  ⟨width, x.payload &&& genMask width, x.mask &&& genMask width, x.signed⟩

/-- `ValueBigUint::to_value_u64`. -/
def toValueU64 (x : V4) : Option V4 :=
  if x.width ≤ 64 ∧ x.payload < 2 ^ 64 ∧ x.mask < 2 ^ 64 then some x else none

def select (x : V4) (beg end_ : Nat) : Option V4 :=
  if beg < end_ then some ⟨0, 0, 0, false⟩
  else do
    let width ← uadd (beg - end_) 1
    let mask := genMask width
    some ⟨width, (x.payload >>> end_) &&& mask, (x.mask >>> end_) &&& mask, false⟩

def genMaskRange (beg end_ : Nat) : Option Nat := do
  let width ← uadd beg 1
  let b := genMask width
  let e := genMask end_ ^^^ b
  some (b &&& e)

def assign (x value : V4) (beg end_ : Nat) : Option V4 := do
  let vp := value.payload <<< end_
  let vm := value.mask <<< end_
  let mask := genMask x.width
  let maskRange ← genMaskRange beg end_
  let inv := mask ^^^ maskRange
  some { x with payload := (x.payload &&& inv) ||| (vp &&& maskRange),
                mask := (x.mask &&& inv) ||| (vm &&& maskRange) }

/-- `pow_mod_width` (op.rs); `BigUint::modpow` is trusted to compute `mag ^ exp % modulus`. -/
def powModWidth (mag : Nat) (negative : Bool) (exp width : Nat) : Nat :=
  let modulus := genMask width + 1
  let ret := powMod mag exp modulus
  if negative && exp % 2 == 1 && ret != 0 then (modulus - ret) % modulus else ret

end Big

/-- Wire constructor used by the harness: `Value::from_le_bytes`. -/
def ofWire (w : Nat) (s : Bool) (p m : Nat) : Val :=
  if w ≤ 64 then .u64 ⟨w, if p < 2 ^ 64 then p else 0, if m < 2 ^ 64 then m else 0, s⟩
  else .big ⟨w, p, m, s⟩

/-- The width-0 arm shared by `Value::expand` and `Value::trunc` (all-bit fill literal). -/
def fill (x : V4) (width : Nat) : Val :=
  if width > 64 then
    .big ⟨width, if x.payload ≠ 0 then Big.genMask width else 0,
                 if x.mask ≠ 0 then Big.genMask width else 0, false⟩
  else
    .u64 ⟨width, if x.payload ≠ 0 then U64.genMask width else 0,
                 if x.mask ≠ 0 then U64.genMask width else 0, false⟩

/-- `Value::expand`. -/
def expand (self : Val) (width : Nat) (useSign : Bool) : Option Val :=
  if self.width ≥ width ∧ self.width ≠ 0 then some self
  else if self.width = 0 then
    match self with
    | .u64 x => some (fill x width)
    | .big _ => none
  else if width > 64 then
    match self with
    | .u64 x => (Big.signExt x width useSign).map .big
    | .big x => (Big.signExt x width useSign).map .big
  else
    match self with
    | .u64 x => (U64.signExt x width useSign).map .u64
    | .big _ => none

/-- `Value::trunc`. -/
def trunc (self : Val) (width : Nat) : Option Val :=
  if self.width = 0 then
    match self with
    | .u64 x => some (fill x width)
    | .big _ => none
  else if self.width ≤ width then some self
  else
    match self with
    | .u64 x => some (.u64 (U64.trunc x width))
    | .big x =>
      let t := Big.trunc x width
      match Big.toValueU64 t with
      | some y => some (.u64 y)
      | none => some (.big t)

/-- `Value::select`. -/
def select (self : Val) (beg end_ : Nat) : Option Val :=
  match self with
  | .u64 x => (U64.select x beg end_).map .u64
  | .big x => do
    let r ← Big.select x beg end_
    match Big.toValueU64 r with
    | some y => some (.u64 y)
    | none => some (.big r)

/-- `Value::concat`. -/
def concat (self x : Val) : Option Val := do
  let width ← uadd self.width x.width
  if width > 64 then
    let p := self.v.payload <<< x.width
    let m := self.v.mask <<< x.width
    some (.big ⟨width, p ||| x.v.payload, m ||| x.v.mask, false⟩)
  else
    match self, x with
    | .u64 a, .u64 b =>
      let shift := b.width
      if shift ≠ 64 then do
        let p ← U64.shl a.payload shift
        let m ← U64.shl a.mask shift
        some (.u64 ⟨width, p ||| b.payload, m ||| b.mask, false⟩)
      else some (.u64 ⟨width, a.payload ||| b.payload, a.mask ||| b.mask, false⟩)
    | _, _ => none

/-- `Value::assign`. -/
def assign (self value : Val) (beg end_ : Nat) : Option Val :=
  match self with
  | .u64 x =>
    let v : V4 := match value with
      | .u64 v => v
      | .big v => { v with payload := if v.payload < 2 ^ 64 then v.payload else 0,
                           mask := if v.mask < 2 ^ 64 then v.mask else 0 }
    (U64.assign x v beg end_).map .u64
  | .big x => (Big.assign x value.v beg end_).map .big

/-- `Value::to_shift_amount` (`usize::MAX` saturation for wide amounts). -/
def toShiftAmount (y : Val) : Option Nat :=
  match y with
  | .u64 v => if v.mask ≠ 0 then none else some v.payload
  | .big v => if v.mask ≠ 0 then none else some (if v.payload < 2 ^ 64 then v.payload else 2 ^ 64 - 1)

/-- Last step of every 1-bit-result arm: `Value::U64(ret).expand(width, false).into_owned()`. -/
def finishBit (b : V4) (width : Nat) : Option Val := expand (.u64 b) width false

/-! ### per-operator arms, after the prologue (both operands in one representation) -/

namespace U64

/-- Unary minus, U64 arm (op.rs, since /repo commit c18109e): `ret.payload ^= mask;
    ret.payload = ret.payload.wrapping_add(1); ret.payload &= mask`. -/
def neg (x : V4) (width : Nat) : V4 :=
  if x.mask ≠ 0 then newX width x.signed
  else
    let mask := genMask width
    { x with payload := wadd (x.payload ^^^ mask) 1 &&& mask }

/-- The arm as it was before commit c18109e (`ret.payload += 1`: debug-profile overflow panic at
    width 64, operand 0 — DESIGN §5 finding #20). Kept only to document the repaired defect. -/
def negOld (x : V4) (width : Nat) : Option V4 :=
  if x.mask ≠ 0 then some (newX width x.signed)
  else do
    let mask := genMask width
    let p ← add (x.payload ^^^ mask) 1
    some { x with payload := p &&& mask }

def bitNot (x : V4) (width : Nat) : V4 :=
  let mask := genMask width
  { x with payload := (x.payload ^^^ mask) &&& (x.mask ^^^ mask) }

def addOp (x y : V4) (width : Nat) (signed : Bool) : V4 :=
  if x.mask ≠ 0 ∨ y.mask ≠ 0 then newX width signed
  else new (wadd x.payload y.payload &&& genMask width) width signed

def subOp (x y : V4) (width : Nat) (signed : Bool) : V4 :=
  if x.mask ≠ 0 ∨ y.mask ≠ 0 then newX width signed
  else new (wsub x.payload y.payload &&& genMask width) width signed

def mulOp (x y : V4) (width : Nat) (signed : Bool) : V4 :=
  if x.mask ≠ 0 ∨ y.mask ≠ 0 then newX width signed
  else new (wmul x.payload y.payload &&& genMask width) width signed

def divOp (x y : V4) (width : Nat) (signed : Bool) : Option V4 :=
  let yMasked := y.payload &&& genMask width
  if x.mask ≠ 0 ∨ y.mask ≠ 0 ∨ yMasked = 0 then some (newX width signed)
  else if signed then do
    let sh ← usub 64 width
    let xs ← sext x.payload sh
    let ys ← sext y.payload sh
    let q := ofI64 ((checkedDiv xs ys).getD xs)
    some (new (q &&& genMask width) width signed)
  else some (new ((x.payload / y.payload) &&& genMask width) width signed)

def remOp (x y : V4) (width : Nat) (signed : Bool) : Option V4 :=
  let yMasked := y.payload &&& genMask width
  if x.mask ≠ 0 ∨ y.mask ≠ 0 ∨ yMasked = 0 then some (newX width signed)
  else if signed then do
    let sh ← usub 64 width
    let xs ← sext x.payload sh
    let ys ← sext y.payload sh
    let q := ofI64 ((checkedRem xs ys).getD 0)
    some (new (q &&& genMask width) width signed)
  else some (new ((x.payload % y.payload) &&& genMask width) width signed)

def andOp (x y : V4) (width : Nat) : V4 :=
  let m := (x.mask &&& y.mask) ||| (x.mask &&& not y.mask &&& y.payload) |||
           (y.mask &&& not x.mask &&& x.payload)
  ⟨width, (x.payload &&& y.payload) &&& not m, m, false⟩

def orOp (x y : V4) (width : Nat) : V4 :=
  let m := (x.mask &&& y.mask) ||| (x.mask &&& not y.mask &&& not y.payload) |||
           (y.mask &&& not x.mask &&& not x.payload)
  ⟨width, (x.payload ||| y.payload) &&& not m, m, false⟩

def xorOp (x y : V4) (width : Nat) : V4 :=
  let m := x.mask ||| y.mask
  ⟨width, (x.payload ^^^ y.payload) &&& not m, m, false⟩

def xnorOp (x y : V4) (width : Nat) : V4 :=
  let m := x.mask ||| y.mask
  ⟨width, (x.payload ^^^ y.payload ^^^ genMask width) &&& not m, m, false⟩

/-- `(is_zero, is_x)` of `Eq` / `(is_one, is_x)` of `Ne`. -/
def eqFlags (x y : V4) : Bool × Bool :=
  ((x.payload &&& not x.mask) != (y.payload &&& not y.mask), x.mask != 0 || y.mask != 0)

def wildFlags (x y : V4) : Bool × Bool :=
  let compareMask := not y.mask
  let valDiff := (x.payload ^^^ y.payload) &&& compareMask
  let definiteDiff := valDiff &&& not x.mask
  (definiteDiff != 0, (x.mask &&& compareMask) != 0)

def relFlags (r : Int → Int → Bool) (ru : Nat → Nat → Bool) (x y : V4) (xyWidth : Nat)
    (signed : Bool) : Option (Bool × Bool) := do
  let isOne ← if signed then do
      let sh ← usub 64 (max xyWidth 1)
      let xs ← sext x.payload sh
      let ys ← sext y.payload sh
      some (r xs ys)
    else some (ru x.payload y.payload)
  some (isOne, x.mask != 0 || y.mask != 0)

def landFlags (x y : V4) : Bool × Bool :=
  (((x.payload &&& not x.mask) != 0) && ((y.payload &&& not y.mask) != 0),
   x.mask != 0 || y.mask != 0)

def lorFlags (x y : V4) : Bool × Bool :=
  (((x.payload &&& not x.mask) != 0) || ((y.payload &&& not y.mask) != 0),
   x.mask != 0 || y.mask != 0)

def lshr (x : V4) (y : Nat) : V4 :=
  { x with signed := false, payload := ushr x.payload y, mask := ushr x.mask y }

def lshl (x : V4) (y width : Nat) : V4 :=
  let mask := genMask width
  { x with signed := false, payload := ushl x.payload y &&& mask, mask := ushl x.mask y &&& mask }

def ashl (x : V4) (y width : Nat) : V4 :=
  let mask := genMask width
  { x with payload := ushl x.payload y &&& mask, mask := ushl x.mask y &&& mask }

def ashr (x : V4) (y width : Nat) (signed : Bool) : Option V4 := do
  let (extP, extM) ← if signed then do
      let extMask := genMask (width - y) ^^^ genMask width   -- saturating_sub
      let pm ← msb x.payload x.width
      let mm ← msb x.mask x.width
      some (if pm then extMask else 0, if mm then extMask else 0)
    else some (0, 0)
  some { x with payload := ushr x.payload y ||| extP, mask := ushr x.mask y ||| extM }

/-- Negative-exponent table of `Op::Pow`. -/
def powNeg (v : V4) (width : Nat) (expOdd : Bool) : V4 :=
  let mask := genMask width
  if v.mask ≠ 0 ∨ (v.payload &&& mask) = 0 then newX width v.signed
  else if v.payload &&& mask = 1 then new 1 width v.signed
  else if v.signed ∧ (v.payload &&& mask) = mask then new (if expOdd then mask else 1) width true
  else new 0 width v.signed

def powOp (x : V4) (y : Option Nat) (width : Nat) : Option V4 :=
  match y with
  | none => some (newX width false)
  | some y =>
    if x.mask ≠ 0 then some (newX width x.signed)
    else if x.signed then do
      let base ← toI64Val x
      let base ← base            -- `.unwrap()`
      some (new (Big.powModWidth base.natAbs (base < 0) y width) width true)   -- `< 2^64` below
    else some (new (Big.powModWidth x.payload false y width) width false)

end U64

namespace Big

def neg (x : V4) (width : Nat) : V4 :=
  if x.mask ≠ 0 then newX width x.signed
  else
    let mask := genMask width
    { x with payload := ((x.payload ^^^ mask) + 1) &&& mask }

def bitNot (x : V4) (width : Nat) : V4 :=
  let mask := genMask width
  { x with payload := (x.payload ^^^ mask) &&& (x.mask ^^^ mask) }

def addOp (x y : V4) (width : Nat) (signed : Bool) : V4 :=
  if x.mask ≠ 0 ∨ y.mask ≠ 0 then newX width signed
  else new ((x.payload + y.payload) &&& genMask width) width signed

def subOp (x y : V4) (width : Nat) (signed : Bool) : V4 :=
  if x.mask ≠ 0 ∨ y.mask ≠ 0 then newX width signed
  else
    let mask := genMask width
    let ny := ((y.payload ^^^ mask) + 1) &&& mask
    new ((x.payload + ny) &&& mask) width signed

def mulOp (x y : V4) (width : Nat) (signed : Bool) : V4 :=
  if x.mask ≠ 0 ∨ y.mask ≠ 0 then newX width signed
  else new ((x.payload * y.payload) &&& genMask width) width signed

def divOp (x y : V4) (width : Nat) (signed : Bool) : Option V4 :=
  if x.mask ≠ 0 ∨ y.mask ≠ 0 ∨ y.payload = 0 then some (newX width signed)
  else if signed then do
    let a ← toBigint x
    let a ← a
    let b ← toBigint y
    let b ← b
    some (newBigint (Int.tdiv a b) width signed)
  else some (new ((x.payload / y.payload) &&& genMask width) width signed)

def remOp (x y : V4) (width : Nat) (signed : Bool) : Option V4 :=
  if x.mask ≠ 0 ∨ y.mask ≠ 0 ∨ y.payload = 0 then some (newX width signed)
  else if signed then do
    let a ← toBigint x
    let a ← a
    let b ← toBigint y
    let b ← b
    some (newBigint (Int.tmod a b) width signed)
  else some (new ((x.payload % y.payload) &&& genMask width) width signed)

def andOp (x y : V4) (width : Nat) : V4 :=
  let mask := genMask width
  let m := (x.mask &&& y.mask) ||| (x.mask &&& (y.mask ^^^ mask) &&& y.payload) |||
           (y.mask &&& (x.mask ^^^ mask) &&& x.payload)
  ⟨width, (x.payload &&& y.payload) &&& (m ^^^ mask), m, false⟩

def orOp (x y : V4) (width : Nat) : V4 :=
  let mask := genMask width
  let m := (x.mask &&& y.mask) ||| (x.mask &&& (y.mask ^^^ mask) &&& (y.payload ^^^ mask)) |||
           (y.mask &&& (x.mask ^^^ mask) &&& (x.payload ^^^ mask))
  ⟨width, (x.payload ||| y.payload) &&& (m ^^^ mask), m, false⟩

def xorOp (x y : V4) (width : Nat) : V4 :=
  let mask := genMask width
  let m := x.mask ||| y.mask
  ⟨width, (x.payload ^^^ y.payload) &&& (m ^^^ mask), m, false⟩

def xnorOp (x y : V4) (width : Nat) : V4 :=
  let mask := genMask width
  let m := x.mask ||| y.mask
  ⟨width, (x.payload ^^^ y.payload ^^^ mask) &&& (m ^^^ mask), m, false⟩

def eqFlags (x y : V4) : Bool × Bool :=
  let xMask := genMask x.width
  let yMask := genMask y.width
  ((x.payload &&& (x.mask ^^^ xMask)) != (y.payload &&& (y.mask ^^^ yMask)),
   x.mask != 0 || y.mask != 0)

def wildFlags (x y : V4) : Bool × Bool :=
  let fullMask := genMask y.width
  let compareMask := y.mask ^^^ fullMask
  let valDiff := (x.payload ^^^ y.payload) &&& compareMask
  let definiteDiff := valDiff &&& (x.mask ^^^ fullMask)
  (definiteDiff != 0, (x.mask &&& compareMask) != 0)

/-- Rust's derived `PartialOrd` on `Option<BigInt>`: `None < Some(_)`. -/
def optCmp (r : Int → Int → Bool) (rNoneNone rNoneSome rSomeNone : Bool) :
    Option Int → Option Int → Bool
  | none, none => rNoneNone
  | none, some _ => rNoneSome
  | some _, none => rSomeNone
  | some a, some b => r a b

def relFlags (ro : Option Int → Option Int → Bool) (ru : Nat → Nat → Bool) (x y : V4)
    (signed : Bool) : Option (Bool × Bool) := do
  let isOne ← if signed then do
      let a ← toBigint x
      let b ← toBigint y
      some (ro a b)
    else some (ru x.payload y.payload)
  some (isOne, x.mask != 0 || y.mask != 0)

def landFlags (x y : V4) : Bool × Bool :=
  (((x.payload &&& (x.mask ^^^ genMask x.width)) != 0) &&
   ((y.payload &&& (y.mask ^^^ genMask y.width)) != 0), x.mask != 0 || y.mask != 0)

def lorFlags (x y : V4) : Bool × Bool :=
  (((x.payload &&& (x.mask ^^^ genMask x.width)) != 0) ||
   ((y.payload &&& (y.mask ^^^ genMask y.width)) != 0), x.mask != 0 || y.mask != 0)

def lshr (x : V4) (y : Nat) : V4 :=
  { x with signed := false, payload := x.payload >>> y, mask := x.mask >>> y }

def lshl (x : V4) (y width : Nat) : V4 :=
  let y := min y width
  let mask := genMask width
  { x with signed := false, payload := (x.payload <<< y) &&& mask, mask := (x.mask <<< y) &&& mask }

def ashl (x : V4) (y width : Nat) : V4 :=
  let mask := genMask width
  let y := min y width
  { x with payload := (x.payload <<< y) &&& mask, mask := (x.mask <<< y) &&& mask }

def ashr (x : V4) (y width : Nat) (signed : Bool) : Option V4 := do
  let (extP, extM) ← if signed then do
      let extMask := genMask (width - y) ^^^ genMask width
      let k ← usub x.width 1
      let pm := ((x.payload >>> k) &&& 1) == 1
      let mm := ((x.mask >>> k) &&& 1) == 1
      some (if pm then extMask else 0, if mm then extMask else 0)
    else some (0, 0)
  some { x with payload := (x.payload >>> y) ||| extP, mask := (x.mask >>> y) ||| extM }

def powNeg (v : V4) (width : Nat) (expOdd : Bool) : V4 :=
  let mask := genMask width
  let p := v.payload &&& mask
  if v.mask ≠ 0 ∨ p = 0 then newX width v.signed
  else if p = 1 then new 1 width v.signed
  else if v.signed ∧ p = mask then new (if expOdd then mask else 1) width true
  else new 0 width v.signed

def powOp (x : V4) (y : Option Nat) (width : Nat) : Option V4 :=
  match y with
  | none => some (newX width false)
  | some y =>
    if x.mask ≠ 0 then some (newX width x.signed)
    else if x.signed then do
      let base ← toBigint x
      let base ← base
      some (new (powModWidth base.natAbs (base < 0) y width) width true)
    else some (new (powModWidth x.payload false y width) width false)

end Big

/-- Both operands after the prologue: same representation, or `unreachable!()`. -/
def both {α : Type} (x y : Val) (fu fb : V4 → V4 → Option α) : Option α :=
  match x, y with
  | .u64 a, .u64 b => fu a b
  | .big a, .big b => fb a b
  | _, _ => none

/-- `ValueU64::gen_mask(x.width)` / `mask_cache.get(x.width)` of the reduction arms. -/
def redMask : Val → Nat
  | .u64 v => U64.genMask v.width
  | .big v => Big.genMask v.width

/-- `Op::eval_value_unary`. -/
def evalUnary (op : Op) (x : Val) (width : Nat) (signed : Bool) : Option Val :=
  match op with
  | .Add => expand x width signed
  | .Sub => do
    let x ← expand x width signed
    match x with
    | .u64 x => some (.u64 (U64.neg x width))
    | .big x => some (.big (Big.neg x width))
  | .BitNot => do
    let x ← expand x width signed
    match x with
    | .u64 x => some (.u64 (U64.bitNot x width))
    | .big x => some (.big (Big.bitNot x width))
  | .BitAnd =>
    let mask := redMask x
    finishBit (U64.newBit0x ((x.v.payload ||| x.v.mask) != mask) (x.v.mask != 0)) width
  | .BitNand =>
    let mask := redMask x
    finishBit (U64.newBit1x ((x.v.payload ||| x.v.mask) != mask) (x.v.mask != 0)) width
  | .BitOr =>
    let mask := redMask x
    finishBit (U64.newBit1x ((x.v.payload &&& (x.v.mask ^^^ mask)) != 0) (x.v.mask != 0)) width
  | .BitNor | .LogicNot =>
    let mask := redMask x
    finishBit (U64.newBit0x ((x.v.payload &&& (x.v.mask ^^^ mask)) != 0) (x.v.mask != 0)) width
  | .BitXor =>
    let r := if x.v.mask ≠ 0 then U64.newX 1 false
             else U64.new (if popcount x.v.payload % 2 == 1 then 1 else 0) 1 false
    finishBit r width
  | .BitXnor =>
    let r := if x.v.mask ≠ 0 then U64.newX 1 false
             else U64.new (if popcount x.v.payload % 2 == 0 then 1 else 0) 1 false
    finishBit r width
  | _ => none

/-- `resize` (local fn of `eval_value_binary`). -/
def resize (v : Val) (width : Nat) (signed : Bool) : Option Val :=
  if v.width > width then trunc v width else expand v width signed

def arithArm (x y : Val) (width : Nat) (signed : Bool)
    (fu fb : V4 → V4 → Option V4) : Option Val := do
  let x ← expand x width signed
  let y ← expand y width signed
  both x y (fun a b => (fu a b).map .u64) (fun a b => (fb a b).map .big)

def cmpArm (x y : Val) (width : Nat) (sgn : Bool) (mk : Bool → Bool → V4)
    (fu fb : V4 → V4 → Option (Bool × Bool)) : Option Val := do
  let xyWidth := max x.width y.width
  let x ← expand x xyWidth sgn
  let y ← expand y xyWidth sgn
  let (a, b) ← both x y fu fb
  finishBit (mk a b) width

def shiftArm (x y : Val) (width : Nat) (signed : Bool)
    (fu fb : V4 → Nat → Option V4) : Option Val := do
  let x ← expand x width signed
  match toShiftAmount y with
  | none => some (match x with | .u64 _ => .u64 (U64.newX width false) | .big _ => .big (Big.newX width false))
  | some n =>
    match x with
    | .u64 v => do let r ← fu v n; expand (.u64 r) width false
    | .big v => do let r ← fb v n; expand (.big r) width false

/-- `y_negative` of the power arm: `y.signed() && match y { U64(v) => v.width > 0 &&
    (v.payload >> (v.width - 1)) & 1 == 1, BigUint(v) => v.width > 0 && v.payload.bit(v.width - 1) }`. -/
def powYNegative (y : Val) : Option Bool :=
  if y.signed then
    (if y.v.width > 0 then
      match y with
      | .u64 _ => do let q ← U64.shr y.v.payload (y.v.width - 1); some (q &&& 1 == 1)
      | .big _ => some (y.v.payload.testBit (y.v.width - 1))
     else some false)
  else some false

/-- `Op::eval_value_binary`. -/
def evalBinary (op : Op) (x y : Val) (width : Nat) (signed : Bool) : Option Val :=
  match op with
  | .Add => arithArm x y width signed (fun a b => some (U64.addOp a b width signed))
              (fun a b => some (Big.addOp a b width signed))
  | .Sub => arithArm x y width signed (fun a b => some (U64.subOp a b width signed))
              (fun a b => some (Big.subOp a b width signed))
  | .Mul => arithArm x y width signed (fun a b => some (U64.mulOp a b width signed))
              (fun a b => some (Big.mulOp a b width signed))
  | .Div => arithArm x y width signed (fun a b => U64.divOp a b width signed)
              (fun a b => Big.divOp a b width signed)
  | .Rem => arithArm x y width signed (fun a b => U64.remOp a b width signed)
              (fun a b => Big.remOp a b width signed)
  | .BitAnd => do
    let x ← resize x width signed
    let y ← resize y width signed
    both x y (fun a b => some (.u64 (U64.andOp a b width))) (fun a b => some (.big (Big.andOp a b width)))
  | .BitOr => arithArm x y width signed (fun a b => some (U64.orOp a b width))
              (fun a b => some (Big.orOp a b width))
  | .BitXor => arithArm x y width signed (fun a b => some (U64.xorOp a b width))
              (fun a b => some (Big.xorOp a b width))
  | .BitXnor => arithArm x y width signed (fun a b => some (U64.xnorOp a b width))
              (fun a b => some (Big.xnorOp a b width))
  | .Eq => cmpArm x y width (x.signed && y.signed) U64.newBit0x
              (fun a b => some (U64.eqFlags a b)) (fun a b => some (Big.eqFlags a b))
  | .Ne => cmpArm x y width (x.signed && y.signed) U64.newBit1x
              (fun a b => some (U64.eqFlags a b)) (fun a b => some (Big.eqFlags a b))
  | .EqWildcard => cmpArm x y width (x.signed && y.signed) U64.newBit0x
              (fun a b => some (U64.wildFlags a b)) (fun a b => some (Big.wildFlags a b))
  | .NeWildcard => cmpArm x y width (x.signed && y.signed) U64.newBit1x
              (fun a b => some (U64.wildFlags a b)) (fun a b => some (Big.wildFlags a b))
  | .Greater =>
    let xy := max x.width y.width
    cmpArm x y width signed (fun isOne isX => U64.newBitx1 isX isOne)
      (fun a b => U64.relFlags (fun p q => decide (p > q)) (fun p q => decide (p > q)) a b xy signed)
      (fun a b => Big.relFlags (Big.optCmp (fun p q => decide (p > q)) false false true)
                    (fun p q => decide (p > q)) a b signed)
  | .GreaterEq =>
    let xy := max x.width y.width
    cmpArm x y width signed (fun isOne isX => U64.newBitx1 isX isOne)
      (fun a b => U64.relFlags (fun p q => decide (p ≥ q)) (fun p q => decide (p ≥ q)) a b xy signed)
      (fun a b => Big.relFlags (Big.optCmp (fun p q => decide (p ≥ q)) true false true)
                    (fun p q => decide (p ≥ q)) a b signed)
  | .Less =>
    let xy := max x.width y.width
    cmpArm x y width signed (fun isOne isX => U64.newBitx1 isX isOne)
      (fun a b => U64.relFlags (fun p q => decide (p < q)) (fun p q => decide (p < q)) a b xy signed)
      (fun a b => Big.relFlags (Big.optCmp (fun p q => decide (p < q)) false true false)
                    (fun p q => decide (p < q)) a b signed)
  | .LessEq =>
    let xy := max x.width y.width
    cmpArm x y width signed (fun isOne isX => U64.newBitx1 isX isOne)
      (fun a b => U64.relFlags (fun p q => decide (p ≤ q)) (fun p q => decide (p ≤ q)) a b xy signed)
      (fun a b => Big.relFlags (Big.optCmp (fun p q => decide (p ≤ q)) true true false)
                    (fun p q => decide (p ≤ q)) a b signed)
  | .LogicAnd => cmpArm x y width false U64.newBit1x
              (fun a b => some (U64.landFlags a b)) (fun a b => some (Big.landFlags a b))
  | .LogicOr => cmpArm x y width false U64.newBit1x
              (fun a b => some (U64.lorFlags a b)) (fun a b => some (Big.lorFlags a b))
  | .LogicShiftR => shiftArm x y width signed (fun v n => some (U64.lshr v n)) (fun v n => some (Big.lshr v n))
  | .LogicShiftL => shiftArm x y width signed (fun v n => some (U64.lshl v n width))
              (fun v n => some (Big.lshl v n width))
  | .ArithShiftR => shiftArm x y width signed (fun v n => U64.ashr v n width signed)
              (fun v n => Big.ashr v n width signed)
  | .ArithShiftL => shiftArm x y width signed (fun v n => some (U64.ashl v n width))
              (fun v n => some (Big.ashl v n width))
  | .Pow => do
    let x ← expand x width signed
    let yv := y.v
    let yNegative ← powYNegative y
    if yNegative then
      let expOdd := yv.payload.testBit 0
      match x with
      | .u64 v => some (.u64 (U64.powNeg v width expOdd))
      | .big v => some (.big (Big.powNeg v width expOdd))
    else
      let n := toShiftAmount y
      match x with
      | .u64 v => do
        let r ← U64.powOp v n width
        -- `.to_u64().unwrap_or(0)`
        some (.u64 { r with payload := if r.payload < 2 ^ 64 then r.payload else 0 })
      | .big v => (Big.powOp v n width).map .big
  | .As => some x
  | _ => none

end Impl
end VerylModel.Bits
