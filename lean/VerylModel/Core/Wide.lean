/-
M-Wide: executable model of crates/simulator/src/wide_ops.rs — the 25 exported `wide_*` helpers
(multi-word arithmetic called from JIT/AOT code) plus `pack_nb_width`/`unpack_nb_width`.

A buffer is a `List Nat` of little-endian 64-bit words (`W = 2^64`); `rd a i` is
`(ptr.add(i*8) as *const u64).read_unaligned()`; a missing word reads as 0 in the model (the real
code would read out of bounds: the callers' contract "nb matches the buffer sizes" is a
precondition of every theorem and is respected by the harness).  `store dst ws` is the effect of
`wr(dst, i, ws[i])` for `i < ws.length` on the buffer `dst` (words above stay untouched).

Modelled line by line: the word loops (carry chains as structural recursion over the word count,
reading `rd a 0` and continuing on `a.tail`; index loops as `mapWords n g`), `u64` wrap-around
(`% W`), `overflowing_add/sub` (carry / borrow flag), the `u128` product of `wide_mul`,
`sext_word`, the early returns on `width == 0 || nb == 0`, the bit-by-bit sign fill of
`wide_ashr`, the in-place updates of `wide_apply_mask`/`wide_fill_ones`.
Not modelled: the profiling counters (`record`), pointer alignment, aliasing of `dst` with an
operand (the model is the non-aliased call; the harness uses distinct buffers).
No imports: this file is linked into the `vmodel` driver.
-/
namespace VerylModel.Wide

/-- 2^64. -/
def W : Nat := 18446744073709551616

/-- `rd(ptr, i)`. -/
def rd (a : List Nat) (i : Nat) : Nat := a.getD i 0

/-- `nw(nb) = nb / 8`. -/
def nw (nb : Nat) : Nat := nb / 8

/-- `pack_nb_width`: `(nb as u32) | ((width as u32) << 16)`; `none` = the `debug_assert!` fires. -/
def packNbWidth (nb width : Nat) : Option Nat :=
  if nb < 65536 ∧ width < 65536 then some (nb ||| (width <<< 16)) else none

/-- `unpack_nb_width(packed).0 = packed & 0xFFFF`. -/
def unpackNb (packed : Nat) : Nat := packed &&& 0xFFFF
/-- `unpack_nb_width(packed).1 = packed >> 16`. -/
def unpackWidth (packed : Nat) : Nat := packed >>> 16

/-- `!x` on `u64`. -/
def notW (x : Nat) : Nat := W - 1 - x

/-- effect of writing the words `ws` at indices `0..ws.length` of `dst`. -/
def store (dst ws : List Nat) : List Nat := ws ++ dst.drop ws.length

/-- `for i in 0..n { wr(dst, i, g i) }` (each word depends on operands only). -/
def mapWords (n : Nat) (g : Nat → Nat) : List Nat := (List.range n).map g

/-- little-endian value of a buffer. -/
def toNat : List Nat → Nat
  | [] => 0
  | w :: ws => w + W * toNat ws

-- ── bitwise ─────────────────────────────────────────────────────────────────────────────────

def band (n : Nat) (a b : List Nat) : List Nat := mapWords n fun i => rd a i &&& rd b i
def bor (n : Nat) (a b : List Nat) : List Nat := mapWords n fun i => rd a i ||| rd b i
def bxor (n : Nat) (a b : List Nat) : List Nat := mapWords n fun i => rd a i ^^^ rd b i
def bxorNot (n : Nat) (a b : List Nat) : List Nat := mapWords n fun i => notW (rd a i ^^^ rd b i)
def bandNot (n : Nat) (a b : List Nat) : List Nat := mapWords n fun i => rd a i &&& notW (rd b i)
def bnot (n : Nat) (a : List Nat) : List Nat := mapWords n fun i => notW (rd a i)
def copy (n : Nat) (a : List Nat) : List Nat := mapWords n fun i => rd a i

-- ── arithmetic ──────────────────────────────────────────────────────────────────────────────

/-- loop of `wide_add`; `carry` is the loop variable. -/
def addLoop : Nat → List Nat → List Nat → Nat → List Nat
  | 0, _, _, _ => []
  | n + 1, a, b, carry =>
    let sum1 := (rd a 0 + rd b 0) % W
    let c1 := (rd a 0 + rd b 0) / W
    let sum2 := (sum1 + carry) % W
    let c2 := (sum1 + carry) / W
    sum2 :: addLoop n a.tail b.tail (c1 + c2)

def add (n : Nat) (a b : List Nat) : List Nat := addLoop n a b 0

/-- loop of `wide_sub`; `overflowing_sub` = wrapping difference + borrow flag. -/
def subLoop : Nat → List Nat → List Nat → Nat → List Nat
  | 0, _, _, _ => []
  | n + 1, a, b, borrow =>
    let diff1 := (rd a 0 + W - rd b 0) % W
    let b1 := if rd a 0 < rd b 0 then 1 else 0
    let diff2 := (diff1 + W - borrow) % W
    let b2 := if diff1 < borrow then 1 else 0
    diff2 :: subLoop n a.tail b.tail (b1 + b2)

def sub (n : Nat) (a b : List Nat) : List Nat := subLoop n a b 0

/-- inner loop of `wide_mul` for one `ai`: `d` is `dst[i+j ..]`, `b` is `b[j ..]`; the loop ends
when `i + j >= n`, i.e. when `d` is exhausted (the bound `j < n` is implied). -/
def mulRow (ai : Nat) : List Nat → List Nat → Nat → List Nat
  | [], _, _ => []
  | dk :: d, b, carry =>
    let prod := ai * rd b 0 + dk + carry      -- u128
    (prod % W) :: mulRow ai d b.tail (prod / W)

/-- outer loop of `wide_mul`: `a` is `a[i ..]`, `d` is `dst[i ..]` (words below `i` are final). -/
def mulOuter : Nat → List Nat → List Nat → List Nat → List Nat
  | 0, _, _, d => d
  | k + 1, a, b, d =>
    let ai := rd a 0
    let d' := if ai = 0 then d else mulRow ai d b 0
    match d' with
    | [] => []
    | x :: rest => x :: mulOuter k a.tail b rest

def mul (n : Nat) (a b : List Nat) : List Nat := mulOuter n a b (List.replicate n 0)

/-- loop of `wide_negate`. -/
def negLoop : Nat → List Nat → Nat → List Nat
  | 0, _, _ => []
  | n + 1, a, carry =>
    let sum := (notW (rd a 0) + carry) % W
    let c := (notW (rd a 0) + carry) / W
    sum :: negLoop n a.tail c

def negate (n : Nat) (a : List Nat) : List Nat := negLoop n a 1

-- ── comparisons ─────────────────────────────────────────────────────────────────────────────

def eqLoop : Nat → List Nat → List Nat → Int
  | 0, _, _ => 1
  | n + 1, a, b => if rd a 0 ≠ rd b 0 then 0 else eqLoop n a.tail b.tail

def neLoop : Nat → List Nat → List Nat → Int
  | 0, _, _ => 0
  | n + 1, a, b => if rd a 0 ≠ rd b 0 then 1 else neLoop n a.tail b.tail

/-- `for i in (0..n).rev()`: the argument counts down from `n`. -/
def ucmp : Nat → List Nat → List Nat → Int
  | 0, _, _ => 0
  | i + 1, a, b =>
    let ai := rd a i
    let bi := rd b i
    if ai < bi then -1 else if ai > bi then 1 else ucmp i a b

def signBit (a : List Nat) (width : Nat) : Nat := (rd a ((width - 1) / 64) >>> ((width - 1) % 64)) &&& 1

def scmp (a b : List Nat) (packed : Nat) : Int :=
  let nb := unpackNb packed
  let width := unpackWidth packed
  if width = 0 ∨ nb = 0 then 0 else
  let aSign := signBit a width
  let bSign := signBit b width
  if aSign ≠ bSign then (if aSign = 1 then -1 else 1) else ucmp (nw nb) a b

def sextWord (a : List Nat) (i width sign : Nat) : Nat :=
  let bitsBelow := i * 64
  if bitsBelow ≥ width then (if sign = 1 then W - 1 else 0) else
  let raw := rd a i
  let top := width - bitsBelow
  if top ≥ 64 then raw else
  let mask := 2 ^ top - 1
  (raw &&& mask) ||| (if sign = 1 then notW mask else 0)

def scmpAsymLoop (a b : List Nat) (aw bw asg bsg : Nat) : Nat → Int
  | 0 => 0
  | i + 1 =>
    let av := sextWord a i aw asg
    let bv := sextWord b i bw bsg
    if av < bv then -1 else if av > bv then 1 else scmpAsymLoop a b aw bw asg bsg i

def scmpAsym (a b : List Nat) (aPacked bPacked : Nat) : Int :=
  let aNb := unpackNb aPacked
  let aW := unpackWidth aPacked
  let bNb := unpackNb bPacked
  let bW := unpackWidth bPacked
  if aW = 0 ∨ bW = 0 ∨ aNb = 0 ∨ bNb = 0 then 0 else
  let aSign := signBit a aW
  let bSign := signBit b bW
  if aSign ≠ bSign then (if aSign = 1 then -1 else 1) else
  scmpAsymLoop a b aW bW aSign bSign (max (nw aNb) (nw bNb))

-- ── shifts ──────────────────────────────────────────────────────────────────────────────────

def shl (n : Nat) (a : List Nat) (amount : Nat) : List Nat :=
  let wordShift := amount / 64
  let bitShift := amount % 64
  if wordShift ≥ n then mapWords n fun _ => 0 else
  mapWords n fun i =>
    let lo := if i ≥ wordShift then rd a (i - wordShift) else 0
    let hi := if i > wordShift then rd a (i - wordShift - 1) else 0
    if bitShift = 0 then lo else ((lo <<< bitShift) % W) ||| (hi >>> (64 - bitShift))

def lshr (n : Nat) (a : List Nat) (amount : Nat) : List Nat :=
  let wordShift := amount / 64
  let bitShift := amount % 64
  if wordShift ≥ n then mapWords n fun _ => 0 else
  mapWords n fun i =>
    let srcIdx := i + wordShift
    let lo := if srcIdx < n then rd a srcIdx else 0
    let hi := if srcIdx + 1 < n then rd a (srcIdx + 1) else 0
    if bitShift = 0 then lo else (lo >>> bitShift) ||| ((hi <<< (64 - bitShift)) % W)

/-- one iteration of the sign-fill loop of `wide_ashr`. -/
def setBitAt (n : Nat) (d : List Nat) (bitPos : Nat) : List Nat :=
  let word := bitPos / 64
  let bit := bitPos % 64
  if word < n then d.set word (rd d word ||| 2 ^ bit) else d

/-- `wide_ashr`; `dst` is the previous content of the destination (unchanged on early return). -/
def ashr (dst a : List Nat) (amount packed : Nat) : List Nat :=
  let nb := unpackNb packed
  let width := unpackWidth packed
  if nb = 0 ∨ width = 0 then dst else
  let n := nw nb
  let sign := signBit a width
  let d1 := store dst (lshr n a amount)
  if sign = 1 ∧ amount > 0 then
    let fillStart := if amount ≥ width then 0 else width - amount
    (List.range' fillStart (width - fillStart)).foldl (setBitAt n) d1
  else d1

-- ── reductions ──────────────────────────────────────────────────────────────────────────────

def isNonzeroLoop : Nat → List Nat → Int
  | 0, _ => 0
  | n + 1, a => if rd a 0 ≠ 0 then 1 else isNonzeroLoop n a.tail

def allOnesLoop : Nat → List Nat → Bool
  | 0, _ => true
  | n + 1, a => if rd a 0 ≠ W - 1 then false else allOnesLoop n a.tail

def isAllOnes (a : List Nat) (packed : Nat) : Int :=
  let width := unpackWidth packed
  if width = 0 then 1 else
  let fullWords := width / 64
  let remaining := width % 64
  if !allOnesLoop fullWords a then 0 else
  if remaining > 0 then
    let mask := 2 ^ remaining - 1
    if rd a fullWords &&& mask ≠ mask then 0 else 1
  else 1

/-- number of set bits among the low `k` bits (`u64::count_ones` for `k = 64`). -/
def countBits : Nat → Nat → Nat
  | 0, _ => 0
  | k + 1, x => x % 2 + countBits k (x / 2)

def popcntLoop : Nat → List Nat → Nat → Nat
  | 0, _, total => total
  | n + 1, a, total => popcntLoop n a.tail (total ^^^ countBits 64 (rd a 0))

def popcntParity (n : Nat) (a : List Nat) : Int := ((popcntLoop n a 0 &&& 1 : Nat) : Int)

-- ── masks ───────────────────────────────────────────────────────────────────────────────────

/-- `for i in from..n { wr(dst, i, 0) }`. -/
def zeroFrom (d : List Nat) (src n : Nat) : List Nat :=
  (List.range' src (n - src)).foldl (fun d i => d.set i 0) d

def applyMask (dst : List Nat) (packed : Nat) : List Nat :=
  let nb := unpackNb packed
  let width := unpackWidth packed
  if width = 0 ∨ nb = 0 then dst else
  let n := nw nb
  let fullWords := width / 64
  let remaining := width % 64
  let d1 := if remaining > 0 ∧ fullWords < n then dst.set fullWords (rd dst fullWords &&& (2 ^ remaining - 1)) else dst
  zeroFrom d1 (fullWords + if remaining > 0 then 1 else 0) n

def fillOnes (dst : List Nat) (packed : Nat) : List Nat :=
  let nb := unpackNb packed
  let width := unpackWidth packed
  if nb = 0 then dst else
  let n := nw nb
  let fullWords := width / 64
  let remaining := width % 64
  let d0 := (List.range (min fullWords n)).foldl (fun d i => d.set i (W - 1)) dst
  let d1 := if remaining > 0 ∧ fullWords < n then d0.set fullWords (2 ^ remaining - 1) else d0
  zeroFrom d1 (fullWords + if remaining > 0 then 1 else 0) n

-- ── resize ──────────────────────────────────────────────────────────────────────────────────

/-- `wide_resize`: `srcInfo` = packed (nb,width) in the low 32 bits, signed flag in bit 32. -/
def resize (src : List Nat) (srcInfo dstNb : Nat) : List Nat :=
  let srcW := unpackWidth (srcInfo % 4294967296)
  let signed := (srcInfo >>> 32) &&& 1 = 1
  if srcW = 0 then mapWords (nw dstNb) fun _ => 0 else
  let sign := if signed then signBit src srcW else 0
  mapWords (nw dstNb) fun i => sextWord src i srcW sign

end VerylModel.Wide
