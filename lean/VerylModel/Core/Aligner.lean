/-
M-Aligner: executable model of crates/aligner/src/lib.rs (`Align`, `Aligner`, `PadKind`, `Location`).

Modelled line by line (same case splits, same order):
* `Align::{finish_group, clear_had_item_in_statement, finish_item, start_item, start_item_break_gated,
  start_item_flat_gated, note_statement_end, token, dummy_location, dummy_token, duplicated_token,
  add_width, space}` — one function each (`token`/`duplicated_token` differ only in the `Location`
  they record, `space`/`add_width` only in the argument type, `dummy_location`/`dummy_token` only in
  where the `Location` comes from: the request carries the `Location`).
* `Aligner::{token, duplicated_token, note_statement_end (with observe_line/latest_observed_line),
  space, finish_group, finish_item, finish_group_for, clear_had_item_in_statement, gather_additions,
  enable/disable_auto_finish(_for), any_enabled}` and the direct uses the formatter makes of the public
  fields (`aligns[kind].…`, `additions.entry(loc).and_modify(..).or_insert(..)`).
* `HashMap<Location, (u32, PadKind)>` is an association list, newest binding first (`insert` = cons,
  `lookup` = first match): `HashMap::insert` overwrites, `entry().and_modify().or_insert()` is `addMerge`.
  The iteration order of the maps in `gather_additions` is irrelevant: per map the keys are distinct and
  across maps `+` and `PadKind::merge` are commutative and associative (Props/C08 `merge_comm`,
  `merge_assoc`, `addMerge_comm`).
* `aligns[kind]` with `kind ≥ aligns.len()` panics in Rust: `step` returns `none`.
* `Location.source` (a `TokenSource`) is a number (the harness interns sources).

Not modelled (trusted): `u32` overflow of `width`/`max_width` sums (the model uses `Nat`); the
subtraction `self.max_width - width` never underflows (Props/C08 `no_underflow`), `loc.line - self.line`
is guarded by `self.line > loc.line ||` exactly as in the code.
No imports: this file is linked into the `vmodel` driver.
-/
namespace VerylModel.Aligner

/-- `PadKind`. -/
inductive PadKind | always | ifBreak | ifFlat
deriving DecidableEq, Repr, Inhabited

/-- `PadKind::merge`. -/
def PadKind.merge : PadKind → PadKind → PadKind
  | .always, _ => .always
  | _, .always => .always
  | .ifBreak, .ifBreak => .ifBreak
  | .ifFlat, .ifFlat => .ifFlat
  | .ifBreak, .ifFlat => .always
  | .ifFlat, .ifBreak => .always

/-- `Location` (`source` interned as a number). -/
structure Loc where
  line : Nat
  col : Nat
  len : Nat
  src : Nat
  dup : Option Nat
deriving DecidableEq, Repr, Inhabited

/-- `HashMap<Location, (u32, PadKind)>`: association list, newest binding first. -/
abbrev Adds := List (Loc × Nat × PadKind)

def Adds.lookup (m : Adds) (l : Loc) : Option (Nat × PadKind) :=
  match m with
  | [] => none
  | (k, v) :: rest => if k = l then some v else Adds.lookup rest l

/-- `HashMap::insert`. -/
def Adds.insert (m : Adds) (l : Loc) (v : Nat × PadKind) : Adds := (l, v) :: m

/-- `entry(loc).and_modify(|(val, kd)| { *val += w; *kd = kd.merge(k) }).or_insert((w, k))`. -/
def Adds.addMerge (m : Adds) (l : Loc) (w : Nat) (k : PadKind) : Adds :=
  match m.lookup l with
  | some (w0, k0) => (l, (w0 + w, k0.merge k)) :: m
  | none => (l, (w, k)) :: m

/-- The distinct keys, first (= newest) binding of each, in list order. -/
def Adds.canon : Adds → Adds
  | [] => []
  | (k, v) :: rest => (k, v) :: (Adds.canon rest).filter (fun e => e.1 ≠ k)

/-- `Align`. `rest` in push order. -/
structure Align where
  enable : Bool := false
  padKind : PadKind := .always
  index : Nat := 0
  maxWidth : Nat := 0
  width : Nat := 0
  line : Nat := 0
  hadItem : Bool := false
  rest : List (Loc × Nat × PadKind) := []
  additions : Adds := []
  disableAuto : Bool := false
  lastLoc : Option Loc := none
deriving Repr, Inhabited

/-- `Align::finish_group`. -/
def Align.finishGroup (a : Align) : Align :=
  { a with
    additions := a.rest.foldl (fun m e => m.insert e.1 (a.maxWidth - e.2.1, e.2.2)) a.additions,
    rest := [], maxWidth := 0 }

/-- `Align::clear_had_item_in_statement`. -/
def Align.clearHad (a : Align) : Align := { a with hadItem := false }

/-- The group-cut test of `finish_item`:
    `!self.disable_auto_finish && (self.line > loc.line || loc.line - self.line > 1)`. -/
def Align.cuts (a : Align) (loc : Loc) : Bool :=
  !a.disableAuto && (decide (a.line > loc.line) || decide (loc.line - a.line > 1))

/-- `finish_item`, first part: `self.enable = false; let kind = self.pad_kind; self.pad_kind = PadKind::default()`. -/
def Align.closeItem (a : Align) : Align := { a with enable := false, padKind := .always }

/-- `finish_item`, last part: `max_width = max(max_width, width); line = loc.line; rest.push((loc, width, kind));
    width = 0; index += 1`. -/
def Align.pushItem (a : Align) (loc : Loc) (kind : PadKind) : Align :=
  { a with maxWidth := max a.maxWidth a.width, line := loc.line, rest := a.rest ++ [(loc, a.width, kind)],
           width := 0, index := a.index + 1 }

/-- `Align::finish_item`. -/
def Align.finishItem (a : Align) : Align :=
  if a.enable then
    match a.lastLoc with
    | none => a.closeItem
    | some loc =>
      (if a.closeItem.cuts loc then a.closeItem.finishGroup else a.closeItem).pushItem loc a.padKind
  else a

/-- `Align::start_item` (`pk = always`), `start_item_break_gated`, `start_item_flat_gated`. -/
def Align.startItem (pk : PadKind) (a : Align) : Align :=
  if !a.enable then { a with enable := true, width := 0, padKind := pk, hadItem := true } else a

/-- `Align::note_statement_end`. -/
def Align.noteEnd (line : Nat) (a : Align) : Align :=
  if a.hadItem then
    let a := if line > a.line then { a with line := line } else a
    { a with hadItem := false }
  else a

/-- `Align::token` / `Align::duplicated_token` (the `Location` carries `duplicated`). -/
def Align.token (loc : Loc) (a : Align) : Align :=
  if a.enable then { a with width := a.width + loc.len, lastLoc := some loc } else a

/-- `Align::dummy_location` / `Align::dummy_token`. -/
def Align.dummy (loc : Loc) (a : Align) : Align :=
  if a.enable then { a with lastLoc := some loc } else a

/-- `Align::add_width` / `Align::space`. -/
def Align.addWidth (w : Nat) (a : Align) : Align :=
  if a.enable then { a with width := a.width + w } else a

/-- `Aligner`. -/
structure Aligner where
  additions : Adds := []
  aligns : List Align
  latest : Nat := 0
deriving Repr, Inhabited

/-- `Aligner::new()` for `align_kind::COUNT = n`. -/
def Aligner.new (n : Nat) : Aligner := { aligns := List.replicate n {} }

/-- One public call (or direct field use) on an `Aligner`. -/
inductive Op where
  | start (k : Nat) (pk : PadKind)          -- aligns[k].start_item*()
  | finishItemK (k : Nat)                   -- aligns[k].finish_item()
  | finishItem                              -- Aligner::finish_item
  | finishGroup                             -- Aligner::finish_group
  | finishGroupFor (k : Nat)                -- Aligner::finish_group_for
  | clearHad                                -- Aligner::clear_had_item_in_statement
  | clearHadK (k : Nat)                     -- aligns[k].clear_had_item_in_statement()
  | noteEnd                                 -- Aligner::note_statement_end
  | noteEndK (k : Nat) (line : Nat)         -- aligns[k].note_statement_end(line)
  | token (loc : Loc)                       -- Aligner::token / Aligner::duplicated_token
  | tokenK (k : Nat) (loc : Loc)            -- aligns[k].duplicated_token
  | space (n : Nat)                         -- Aligner::space
  | addWidthK (k : Nat) (n : Nat)           -- aligns[k].add_width
  | dummyK (k : Nat) (loc : Loc)            -- aligns[k].dummy_location / dummy_token
  | autoK (k : Nat) (disable : Bool)        -- enable/disable_auto_finish_for
  | auto (disable : Bool)                   -- enable/disable_auto_finish
  | direct (loc : Loc) (w : Nat) (pk : PadKind)   -- additions.entry(loc).and_modify(..).or_insert(..)
  | gather                                  -- Aligner::gather_additions
deriving Repr, Inhabited

/-- `f(&mut self.aligns[k])`; `none` = index out of bounds (panic). -/
def Aligner.onK (g : Aligner) (k : Nat) (f : Align → Align) : Option Aligner :=
  if k < g.aligns.length then some { g with aligns := g.aligns.modify k f } else none

def Aligner.onAll (g : Aligner) (f : Align → Align) : Aligner :=
  { g with aligns := g.aligns.map f }

/-- `observe_line`. -/
def Aligner.observe (g : Aligner) (line : Nat) : Aligner :=
  if line > g.latest then { g with latest := line } else g

/-- The inner loop of `gather_additions` for one `Align`. -/
def gatherOne (m : Adds) (a : Align) : Adds :=
  a.additions.canon.reverse.foldl (fun m e => m.addMerge e.1 e.2.1 e.2.2) m

/-- One call. -/
def Aligner.step (g : Aligner) : Op → Option Aligner
  | .start k pk => g.onK k (Align.startItem pk)
  | .finishItemK k => g.onK k Align.finishItem
  | .finishItem => some (g.onAll Align.finishItem)
  | .finishGroup => some (g.onAll Align.finishGroup)
  | .finishGroupFor k => g.onK k (fun a => a.finishItem.finishGroup)
  | .clearHad => some (g.onAll Align.clearHad)
  | .clearHadK k => g.onK k Align.clearHad
  | .noteEnd => some (g.onAll (Align.noteEnd g.latest))
  | .noteEndK k line => g.onK k (Align.noteEnd line)
  | .token loc => some ((g.observe loc.line).onAll (Align.token loc))
  | .tokenK k loc => g.onK k (Align.token loc)
  | .space n => some (g.onAll (Align.addWidth n))
  | .addWidthK k n => g.onK k (Align.addWidth n)
  | .dummyK k loc => g.onK k (Align.dummy loc)
  | .autoK k b => g.onK k (fun a => { a with disableAuto := b })
  | .auto b => some (g.onAll (fun a => { a with disableAuto := b }))
  | .direct loc w pk => some { g with additions := g.additions.addMerge loc w pk }
  | .gather => some { g with additions := g.aligns.foldl gatherOne g.additions }

/-- A sequence of calls; `none` as soon as one of them panics. -/
def Aligner.run (g : Aligner) : List Op → Option Aligner
  | [] => some g
  | op :: ops =>
    match g.step op with
    | none => none
    | some g' => g'.run ops

/-- `Aligner::any_enabled`. -/
def Aligner.anyEnabled (g : Aligner) : Bool := g.aligns.any (·.enable)

end VerylModel.Aligner
