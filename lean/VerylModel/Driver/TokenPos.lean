import VerylModel.Core.TokenPos
import VerylModel.Driver.Util
/-! `vmodel tokens`: comment-run splitting, end positions, the comment scanner and the reference
`lineCol` (C12).  Texts travel as lower-case hex of their UTF-8 bytes. -/
namespace VerylModel.Driver.TokenPos
open VerylModel.TokenPos VerylModel.Driver

def hexBytes? (s : String) : Option (List Nat) :=
  let rec go : List Char → List Nat → Option (List Nat)
    | [], acc => some acc.reverse
    | [_], _ => none
    | a :: b :: rest, acc =>
      match hexDigit? a, hexDigit? b with
      | some x, some y => go rest ((x * 16 + y) :: acc)
      | _, _ => none
  if s = "-" then some [] else go s.toList []

/-- UTF-8 decoding (well-formed input expected; anything else is rejected).
`need` continuation bytes are still due for the code point accumulated in `cp`. -/
def decodeGo : List Nat → Nat → Nat → List Nat → Option (List Nat)
  | [], 0, _, acc => some acc.reverse
  | [], _ + 1, _, _ => none
  | b :: rest, 0, _, acc =>
    if b < 0x80 then decodeGo rest 0 0 (b :: acc)
    else if 0xC0 ≤ b ∧ b < 0xE0 then decodeGo rest 1 (b - 0xC0) acc
    else if 0xE0 ≤ b ∧ b < 0xF0 then decodeGo rest 2 (b - 0xE0) acc
    else if 0xF0 ≤ b ∧ b < 0xF8 then decodeGo rest 3 (b - 0xF0) acc
    else none
  | b :: rest, n + 1, cp, acc =>
    if 0x80 ≤ b ∧ b < 0xC0 then
      let cp' := cp * 64 + (b - 0x80)
      if n = 0 then decodeGo rest 0 0 (cp' :: acc) else decodeGo rest n cp' acc
    else none

def decodeUtf8? (bs : List Nat) : Option (List Nat) := decodeGo bs 0 0 []

def encodeChar (c : Nat) : List Nat :=
  if c < 0x80 then [c]
  else if c < 0x800 then [0xC0 + c / 64, 0x80 + c % 64]
  else if c < 0x10000 then [0xE0 + c / 4096, 0x80 + c / 64 % 64, 0x80 + c % 64]
  else [0xF0 + c / 262144, 0x80 + c / 4096 % 64, 0x80 + c / 64 % 64, 0x80 + c % 64]

def encodeUtf8 (t : List Nat) : List Nat := t.flatMap encodeChar

def hex2 (b : Nat) : String :=
  let d := Nat.toDigits 16 b
  String.ofList (if d.length < 2 then '0' :: d else d)

def textHex (t : List Nat) : String :=
  let bs := encodeUtf8 t
  if bs.isEmpty then "-" else String.join (bs.map hex2)

def text? (s : String) : Option (List Nat) :=
  match hexBytes? s with
  | some bs => decodeUtf8? bs
  | none => none

def showTok (t : Tok) : String :=
  s!"{textHex t.text}:{toHex t.line}:{toHex t.col}:{toHex t.pos}:{toHex t.len}"

def showMatches (ps : List (List Nat × List Nat)) : String :=
  let rec go (off : Nat) : List (List Nat × List Nat) → List String
    | [] => []
    | (g, m) :: rest =>
      let o := off + utf8Len g
      s!"{toHex o}:{toHex (utf8Len m)}" :: go (o + utf8Len m) rest
  showList (go 0 ps)

def step (_ : Unit) (t : List String) : Unit × String :=
  match t with
  | ["split", run, line, col, pos] =>
    match text? run, parseHex? line, parseHex? col, parseHex? pos with
    | some r, some l, some c, some p => ((), showList ((splitCommentToken r l c p).map showTok))
    | _, _, _, _ => ((), "bad-op")
  | ["end", text, line, col] =>
    match text? text, parseHex? line, parseHex? col with
    | some x, some l, some c => ((), s!"{toHex (endLine x l)} {toHex (endColumn x c)}")
    | _, _, _ => ((), "bad-op")
  | ["scan", text] =>
    match text? text with
    | some x => ((), showMatches (scanComments x))
    | none => ((), "bad-op")
  | ["lc", src, pos] =>
    match text? src, parseHex? pos with
    | some s, some p => let r := lineCol s p; ((), s!"{toHex r.1} {toHex r.2}")
    | _, _ => ((), "bad-op")
  | _ => ((), "bad-op")

def run : IO Unit := runLines () step

end VerylModel.Driver.TokenPos
