import VerylModel.Core.Crash
import VerylModel.Driver.Util
/-! `vmodel crash`: the model's filesystem-step word for one run, given the decisions observed
from the outside (disk before/after).
Request (decimal ids; file id = index of the source in path order; a diagnostics blob of file f is 1000+f):
`steps <mode i|a> <pass1 [f|p<n>,..] (f: fragment blob of file f written; p<n>: damaged blob n removed by read_blob)> <outs [s<f>|m<f>,..]> <filelist 0|1> <diagblobs [n,..]> <manifest 0|1> <gc [n,..]> <info 0|1>`
Reply: the abstract event word of `Plan.blocks`, `,`-separated (see `blockWord`). -/
namespace VerylModel.Driver.Crash
open VerylModel.Crash VerylModel.Driver

def nat? (s : String) : Option Nat := s.toNat?

def parseNats (s : String) : Option (List Nat) :=
  (parseList s).foldr (fun t acc => match nat? t, acc with
    | some n, some l => some (n :: l)
    | _, _ => none) (some [])

def parseOut (t : String) : Option Path :=
  match t.toList with
  | 's' :: rest => (String.ofList rest).toNat?.map Path.sv
  | 'm' :: rest => (String.ofList rest).toNat?.map Path.map
  | _ => none

def parseOuts (s : String) : Option (List Path) :=
  (parseList s).foldr (fun t acc => match parseOut t, acc with
    | some p, some l => some (p :: l)
    | _, _ => none) (some [])

def parseP1 (t : String) : Option P1 :=
  match t.toList with
  | 'p' :: rest => (String.ofList rest).toNat?.map P1.purge
  | _ => t.toNat?.map (fun n => P1.blob n [])

def parseP1s (s : String) : Option (List P1) :=
  (parseList s).foldr (fun t acc => match parseP1 t, acc with
    | some p, some l => some (p :: l)
    | _, _ => none) (some [])

def flag? (s : String) : Option Bool :=
  if s == "1" then some true else if s == "0" then some false else none

def step (_ : Unit) (t : List String) : Unit × String :=
  match t with
  | ["steps", mode, blobs, outs, fl, dblobs, man, gc, info] =>
    let m : Option OutMode := if mode == "i" then some .inPlace else if mode == "a" then some .atomic else none
    match m, parseP1s blobs, parseOuts outs, flag? fl, parseNats dblobs, flag? man, parseNats gc, flag? info with
    | some mode, some bs, some os, some fl, some ds, some mn, some g, some inf =>
      let pl : Plan :=
        { pass1 := bs, outs := os.map (fun p => (p, [])),
          filelist := if fl then some [] else none, diagBlobs := ds.map (fun n => (n, [])),
          manifest := if mn then some (emptyMan 0) else none, gc := g,
          info := if inf then some [] else none }
      ((), ",".intercalate ((pl.blocks mode).flatMap blockWord))
    | _, _, _, _, _, _, _, _ => ((), "bad-op")
  | _ => ((), "bad-op")

def run : IO Unit := runLines () step
end VerylModel.Driver.Crash
