import VerylModel.Core.LL
import VerylModel.Gen.Grammar
import VerylModel.Driver.Util
/-!
`vmodel ll`: the deterministic LL(k) loop of M-LL over the generated production table.

Requests (numbers in lower-case hex):
* `cfg <start> <maxk> <nprods> <nnt> <nterm>` – constants of the linked parser; `ok` iff equal to Gen.
* `prod <idx> <lhs> <push 0|1> [n1f,t5,…]`   – one entry of the real `PRODUCTIONS` in its STORED
  (reversed) order; `ok` iff it equals the Gen entry (`rhs.reverse`).
* `dfa <nt> <prod0|-> <k> [from:term:to:prod|-,…]` – one real lookahead automaton; stored for `ll`;
  `ok` iff every production it can predict exists and has left-hand side `nt` (hypotheses
  `PredictOk` / `hidx` of `Props.C10.det_safe`).
* `ll [tok,tok,…]` – run `runDet` from the initial configuration on the token-type sequence:
  `accepted|reject|depth-exceeded:<d>|panic|out-of-fuel pushes=… consumed=… maxdepth=… hash=… [rest=…]`.
-/
namespace VerylModel.Driver.LL
open VerylModel.LL VerylModel.Driver VerylModel.Gen

structure St where
  dfas : Array (Option Dfa) := Array.replicate Grammar.numNonTerminals none

def prodsArr : Array Prod := Grammar.prodsArr

def machine : Machine := Grammar.configured

def parseSym? (s : String) : Option Sym :=
  match s.toList with
  | 'n' :: r => (parseHex? (String.ofList r)).map Sym.n
  | 't' :: r => (parseHex? (String.ofList r)).map Sym.t
  | _ => none

def parseAll? {α : Type} (f : String → Option α) (xs : List String) : Option (List α) :=
  xs.foldr (fun x acc => match f x, acc with
    | some v, some l => some (v :: l)
    | _, _ => none) (some [])

/-- `-` = INVALID_PROD (-1). -/
def parseProdIdx? (s : String) : Option Int :=
  if s = "-" then some (-1) else (parseHex? s).map Int.ofNat

def parseTrans? (s : String) : Option Trans :=
  match s.splitOn ":" with
  | [a, b, c, d] =>
    match parseHex? a, parseHex? b, parseHex? c, parseProdIdx? d with
    | some a, some b, some c, some d => some ⟨a, b, c, d⟩
    | _, _, _, _ => none
  | _ => none

def dfaOk (nt : Nat) (d : Dfa) : Bool :=
  let ok (p : Int) : Bool :=
    if p < 0 then true else
    match prodsArr[p.toNat]? with
    | some P => P.lhs == nt
    | none => false
  ok d.prod0 && d.trans.all (fun t => ok t.prod)

def predict (st : St) (A : Nat) (inp : List Nat) : Option Nat :=
  match st.dfas[A]? with
  | some (some d) => dfaEval Grammar.maxK d inp
  | _ => none

def showHalt : Halt → String
  | .accepted => "accepted"
  | .mismatch _ _ => "reject"
  | .predictFail _ => "reject"
  | .depthExceeded d => s!"depth-exceeded:{toHex d}"
  | .indexPanic => "panic"
  | .underflowPanic => "panic"

def fuel : Nat := 4000000000

def step (st : St) (t : List String) : St × String :=
  match t with
  | ["cfg", a, b, c, d, e] =>
    match parseHex? a, parseHex? b, parseHex? c, parseHex? d, parseHex? e with
    | some a, some b, some c, some d, some e =>
      (st, if a = Grammar.startSymbol ∧ b = Grammar.maxK ∧ c = Grammar.numProductions ∧
              c = prodsArr.size ∧ d = Grammar.numNonTerminals ∧ e = Grammar.numTerminals
           then "ok" else "differs")
    | _, _, _, _, _ => (st, "bad-op")
  | ["prod", i, l, p, rhs] =>
    match parseHex? i, parseHex? l, parseHex? p, parseAll? parseSym? (parseList rhs) with
    | some i, some l, some p, some rhs =>
      (st, match prodsArr[i]? with
        | some P => if P.lhs = l ∧ P.push = (p == 1) ∧ P.rhs.reverse = rhs then "ok" else "differs"
        | none => "differs")
    | _, _, _, _ => (st, "bad-op")
  | ["dfa", nt, p0, k, tr] =>
    match parseHex? nt, parseProdIdx? p0, parseHex? k, parseAll? parseTrans? (parseList tr) with
    | some nt, some p0, some k, some tr =>
      if nt < st.dfas.size then
        let d : Dfa := ⟨p0, tr, k⟩
        ({ st with dfas := st.dfas.set! nt (some d) }, if dfaOk nt d then "ok" else "bad-dfa")
      else (st, "bad-dfa")
    | _, _, _, _ => (st, "bad-op")
  | ["ll", toks] =>
    match parseAll? parseHex? (parseList toks) with
    | some inp =>
      if st.dfas.any Option.isNone then (st, "no-dfa") else
      match runDet machine (predict st) fuel (init Grammar.startSymbol inp) {} with
      | none => (st, "out-of-fuel")
      | some (h, c, s) =>
        let rest := match h with
          | .accepted => s!" rest={toHex c.input.length}"
          | _ => ""
        (st, s!"{showHalt h} pushes={toHex s.pushes} consumed={toHex s.consumed} " ++
             s!"maxdepth={toHex s.maxDepth} hash={toHex s.hash}{rest}")
    | none => (st, "bad-op")
  | _ => (st, "bad-op")

def run : IO Unit := runLines ({} : St) step

end VerylModel.Driver.LL
