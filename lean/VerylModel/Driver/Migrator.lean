import VerylModel.Core.Migrator
import VerylModel.Gen.MigratorConsts
import VerylModel.Driver.TokenPos
/-! `vmodel migrate`: the migrator's text reconstruction (C23).
`mig <rawhex> [texthex:line:col:keep,...]` -> hex of the output;
`decide <0|1>` -> `migrate=<0|1>`; the harness's bookkeeping lines (`case`, `annotation`, `positions`,
`parse`, `tokens`, `comments`, `reparse`) have no model reply (`?`). -/
namespace VerylModel.Driver.Migrator
open VerylModel.TokenPos VerylModel.Migrator VerylModel.Driver VerylModel.Driver.TokenPos

def tok? (s : String) : Option MTok :=
  match s.splitOn ":" with
  | [t, l, c, k] =>
    match text? t, parseHex? l, parseHex? c with
    | some t, some l, some c =>
      if k = "1" then some { text := t, line := l, col := c, keep := true }
      else if k = "0" then some { text := t, line := l, col := c, keep := false }
      else none
    | _, _, _ => none
  | _ => none

def toks? (s : String) : Option (List MTok) :=
  (parseList s).foldr (fun x acc => match tok? x, acc with
    | some t, some ts => some (t :: ts)
    | _, _ => none) (some [])

def step (_ : Unit) (t : List String) : Unit × String :=
  match t with
  | ["mig", raw, toks] =>
    match text? raw, toks? toks with
    | some r, some ts => ((), textHex (migrate r ts))
    | _, _ => ((), "bad-op")
  | ["decide", b] =>
    if b = "1" then ((), s!"migrate={if shouldMigrate VerylModel.Gen.migratable true then 1 else 0}")
    else if b = "0" then ((), s!"migrate={if shouldMigrate VerylModel.Gen.migratable false then 1 else 0}")
    else ((), "bad-op")
  | "case" :: _ => ((), "?")
  | ["annotation"] => ((), "?")
  | ["positions"] => ((), "?")
  | ["parse"] => ((), "?")
  | ["tokens"] => ((), "?")
  | ["comments"] => ((), "?")
  | "reparse" :: _ => ((), "?")
  | _ => ((), "bad-op")

def run : IO Unit := runLines () step

end VerylModel.Driver.Migrator
