import VerylModel.Core.ClockDomain
import VerylModel.Driver.Util
/-!
`vmodel cdc`: clock-domain checks of a design through M-ClockDomain.

Request: `d <env> <items>` (reply: every diagnostic `tag:lhs>rhs`, sorted) or `f <env> <items>`
(reply: the sorted set of module items, by index, that carry a diagnostic; `H` = an always_ff
header).
`env`   = `[dom,…]`, dom = `e<hex>` Explicit | `i<hex>` Inferred | `m` Implicit | `n` None.
`items` = item (`;` item)*, or `-` for none:
  item  = `a`U`(`dst`,`expr`)` | `k`U block | `f`U`(`clk`,`(rst|`-`)`)` block | `i`U`(`key`:`expr,…`)`
  block = `{` stmt* `}`
  stmt  = `A(`dst`,`expr`)` | `I(`expr`)` block arms block | `C(`expr`)[` block* `]` | `S` arms block
  arms  = `<` (`(`expr`)` block)* `>`
  expr  = `c` | `v`hex | `U(`e`)` | `B(`e`,`e`)` | `T(`e`,`e`,`e`)` | `N(`(`c`|`v`hex)(`,`e)*`)`
Domains in replies are printed by class: `n`, `m`, or the id in hex.
-/
namespace VerylModel.Driver.Cdc
open VerylModel.ClockDomain VerylModel.Driver

abbrev P (α : Type) := List Char → Option (α × List Char)

def isHex (c : Char) : Bool := ('0' ≤ c ∧ c ≤ '9') || ('a' ≤ c ∧ c ≤ 'f')

def pHex : P Nat := fun s =>
  let ds := s.takeWhile isHex
  if ds.isEmpty then none else
  match parseHex? (String.ofList ds) with
  | some n => some (n, s.dropWhile isHex)
  | none => none

def pChar (c : Char) : P Unit := fun s =>
  match s with
  | x :: r => if x = c then some ((), r) else none
  | [] => none

def pLeaf : P Leaf := fun s =>
  match s with
  | 'c' :: r => some (Leaf.const, r)
  | 'v' :: r => match pHex r with
    | some (n, r') => some (Leaf.var n, r')
    | none => none
  | _ => none

mutual
def pExpr : Nat → P (Expr Leaf)
  | 0, _ => none
  | n + 1, s =>
    match s with
    | 'U' :: '(' :: r =>
      match pExpr n r with
      | some (x, ')' :: r1) => some (Expr.unary x, r1)
      | _ => none
    | 'B' :: '(' :: r =>
      match pExpr n r with
      | some (x, ',' :: r1) =>
        match pExpr n r1 with
        | some (y, ')' :: r2) => some (Expr.binary x y, r2)
        | _ => none
      | _ => none
    | 'T' :: '(' :: r =>
      match pExpr n r with
      | some (x, ',' :: r1) =>
        match pExpr n r1 with
        | some (y, ',' :: r2) =>
          match pExpr n r2 with
          | some (z, ')' :: r3) => some (Expr.ternary x y z, r3)
          | _ => none
        | _ => none
      | _ => none
    | 'N' :: '(' :: r =>
      match pLeaf r with
      | some (l, r1) =>
        match pExprs n r1 with
        | some (es, ')' :: r2) => some (Expr.nary l es, r2)
        | _ => none
      | none => none
    | _ =>
      match pLeaf s with
      | some (l, r) => some (Expr.leaf l, r)
      | none => none
/-- (`,` expr)* -/
def pExprs : Nat → P (List (Expr Leaf))
  | 0, _ => none
  | n + 1, s =>
    match s with
    | ',' :: r =>
      match pExpr n r with
      | some (e, r1) =>
        match pExprs n r1 with
        | some (es, r2) => some (e :: es, r2)
        | none => none
      | none => none
    | _ => some ([], s)
end

mutual
def pStmt : Nat → P Stmt
  | 0, _ => none
  | n + 1, s =>
    match s with
    | 'A' :: '(' :: r =>
      match pHex r with
      | some (d, ',' :: r1) =>
        match pExpr (n + 1) r1 with
        | some (e, ')' :: r2) => some (Stmt.assign d e, r2)
        | _ => none
      | _ => none
    | 'I' :: '(' :: r =>
      match pExpr (n + 1) r with
      | some (c, ')' :: r1) =>
        match pBlock n r1 with
        | some (t, r2) =>
          match pArms n r2 with
          | some (a, r3) =>
            match pBlock n r3 with
            | some (e, r4) => some (Stmt.ifs c t a e, r4)
            | none => none
          | none => none
        | none => none
      | _ => none
    | 'C' :: '(' :: r =>
      match pExpr (n + 1) r with
      | some (c, ')' :: '[' :: r1) =>
        match pBlocks n r1 with
        | some (bs, ']' :: r2) => some (Stmt.case c bs, r2)
        | _ => none
      | _ => none
    | 'S' :: r =>
      match pArms n r with
      | some (a, r1) =>
        match pBlock n r1 with
        | some (d, r2) => some (Stmt.switch a d, r2)
        | none => none
      | none => none
    | _ => none
def pBlock : Nat → P Block
  | 0, _ => none
  | n + 1, s =>
    match s with
    | '{' :: r => pStmts n r
    | _ => none
/-- stmt* `}` -/
def pStmts : Nat → P Block
  | 0, _ => none
  | n + 1, s =>
    match s with
    | '}' :: r => some (Block.nil, r)
    | _ =>
      match pStmt n s with
      | some (st, r1) =>
        match pStmts n r1 with
        | some (b, r2) => some (Block.cons st b, r2)
        | none => none
      | none => none
def pArms : Nat → P Arms
  | 0, _ => none
  | n + 1, s =>
    match s with
    | '<' :: r => pArmList n r
    | _ => none
def pArmList : Nat → P Arms
  | 0, _ => none
  | n + 1, s =>
    match s with
    | '>' :: r => some (Arms.nil, r)
    | '(' :: r =>
      match pExpr (n + 1) r with
      | some (c, ')' :: r1) =>
        match pBlock n r1 with
        | some (b, r2) =>
          match pArmList n r2 with
          | some (a, r3) => some (Arms.cons c b a, r3)
          | none => none
        | none => none
      | _ => none
    | _ => none
/-- block* (stops before `]`) -/
def pBlocks : Nat → P Blocks
  | 0, _ => none
  | n + 1, s =>
    match s with
    | '{' :: _ =>
      match pBlock n s with
      | some (b, r1) =>
        match pBlocks n r1 with
        | some (bs, r2) => some (Blocks.cons b bs, r2)
        | none => none
      | none => none
    | _ => some (Blocks.nil, s)
end

def pFlag : P Bool := fun s =>
  match s with
  | '0' :: r => some (false, r)
  | '1' :: r => some (true, r)
  | _ => none

def pConns : Nat → P (List (Nat × Expr Leaf))
  | 0, _ => none
  | n + 1, s =>
    match pHex s with
    | some (k, ':' :: r) =>
      match pExpr (n + 1) r with
      | some (e, ',' :: r1) =>
        match pConns n r1 with
        | some (cs, r2) => some ((k, e) :: cs, r2)
        | none => none
      | some (e, ')' :: r1) => some ([(k, e)], r1)
      | _ => none
    | _ => none

def pItem (n : Nat) : P Item := fun s =>
  match s with
  | 'a' :: r =>
    match pFlag r with
    | some (u, '(' :: r1) =>
      match pHex r1 with
      | some (d, ',' :: r2) =>
        match pExpr n r2 with
        | some (e, ')' :: r3) => some (Item.assign u d e, r3)
        | _ => none
      | _ => none
    | _ => none
  | 'k' :: r =>
    match pFlag r with
    | some (u, r1) =>
      match pBlock n r1 with
      | some (b, r2) => some (Item.comb u b, r2)
      | none => none
    | none => none
  | 'f' :: r =>
    match pFlag r with
    | some (u, '(' :: r1) =>
      match pHex r1 with
      | some (c, ',' :: '-' :: ')' :: r2) =>
        match pBlock n r2 with
        | some (b, r3) => some (Item.ff u c none b, r3)
        | none => none
      | some (c, ',' :: r2) =>
        match pHex r2 with
        | some (rs, ')' :: r3) =>
          match pBlock n r3 with
          | some (b, r4) => some (Item.ff u c (some rs) b, r4)
          | none => none
        | _ => none
      | _ => none
    | _ => none
  | 'i' :: r =>
    match pFlag r with
    | some (u, '(' :: r1) =>
      match pConns n r1 with
      | some (cs, r2) => some (Item.inst u cs, r2)
      | none => none
    | _ => none
  | _ => none

def pItems : Nat → Nat → P (List Item)
  | 0, _, _ => none
  | k + 1, n, s =>
    match pItem n s with
    | some (it, ';' :: r) =>
      match pItems k n r with
      | some (its, r1) => some (it :: its, r1)
      | none => none
    | some (it, []) => some ([it], [])
    | _ => none

def parseItems (s : String) : Option (List Item) :=
  if s = "-" then some [] else
  let cs := s.toList
  match pItems (cs.length + 1) (cs.length + 1) cs with
  | some (its, []) => some its
  | _ => none

def parseDom (s : String) : Option Dom :=
  match s.toList with
  | ['m'] => some Dom.implicit
  | ['n'] => some Dom.none
  | 'e' :: r => (parseHex? (String.ofList r)).map Dom.explicit
  | 'i' :: r => (parseHex? (String.ofList r)).map Dom.inferred
  | _ => none

def parseEnv (s : String) : Option Env :=
  (parseList s).foldr (fun x acc => match parseDom x, acc with
    | some d, some l => some (d :: l)
    | _, _ => none) (some [])

def showCls : Dom → String
  | Dom.none => "n"
  | Dom.implicit => "m"
  | Dom.explicit id => toHex id
  | Dom.inferred id => toHex id

def hex4 (n : Nat) : String :=
  let s := toHex n
  String.ofList (List.replicate (4 - s.length) '0') ++ s

def insertSorted (x : String) : List String → List String
  | [] => [x]
  | y :: ys => if x ≤ y then x :: y :: ys else y :: insertSorted x ys

def sortStrings (xs : List String) : List String := xs.foldr insertSorted []

def dedupSorted : List String → List String
  | [] => []
  | [x] => [x]
  | x :: y :: r => if x = y then dedupSorted (y :: r) else x :: dedupSorted (y :: r)

/-- Module items (index, 4 hex digits) that carry a diagnostic; `H` for always_ff headers. -/
def itemFlags (env : Env) (items : List Item) : List String :=
  let rec go (w : Walk) (i : Nat) : List Item → List String
    | [] => if (defaultCheck w items).out.length > w.out.length then ["H"] else []
    | it :: rest =>
      let w' := itemWalk w it
      let new := w'.out.take (w'.out.length - w.out.length)
      let here := (if new.any (fun (t, _) => t != 0) then [hex4 i] else [])
        ++ (if new.any (fun (t, _) => t == 0) then ["H"] else [])
      here ++ go w' (i + 1) rest
  go { env := env, next := 1, out := [] } 0 items

def step (s : Unit) (t : List String) : Unit × String :=
  match t with
  | [op, envS, itemsS] =>
    match parseEnv envS, parseItems itemsS with
    | some env, some items =>
      let reps := designReports env items
      if op = "d" then
        (s, showList (sortStrings (reps.map (fun (tag, (l, r)) => s!"{hex4 tag}:{showCls l}>{showCls r}"))))
      else if op = "f" then
        (s, showList (dedupSorted (sortStrings (itemFlags env items))))
      else (s, "bad-op")
    | _, _ => (s, "bad-op")
  | _ => (s, "bad-op")

def run : IO Unit := runLines () step

end VerylModel.Driver.Cdc
