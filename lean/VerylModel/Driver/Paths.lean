import VerylModel.Core.Paths
import VerylModel.Driver.Util
/-! `vmodel paths`: path assignment and filelist order through M-Paths (see harness/src/dom_paths.rs). -/
namespace VerylModel.Driver.Paths
open VerylModel.Paths VerylModel.Driver

def comps (s : String) : List String := if s = "." then [] else s.splitOn "/"

def parseTarget (s : String) : Option (Target String) :=
  if s = "s" then some .source
  else if s.startsWith "d:" then some (.directory (comps (s.drop 2).toString))
  else if s.startsWith "b:" then some (.bundle (comps (s.drop 2).toString))
  else none

def parseMap (s : String) : Option (MapTarget String) :=
  if s = "t" then some .target
  else if s = "n" then some .none
  else if s.startsWith "d:" then some (.directory (comps (s.drop 2).toString))
  else none

def parseSrc (base rel : String) : Option (Src String) :=
  match (comps rel).reverse with
  | [] => none
  | stem :: rdirs => some ⟨comps base, rdirs.reverse, stem⟩

def showOut (o : Out String) : String :=
  "/".intercalate (o.dirs ++ [o.stem ++ (match o.ext with | .sv => ".sv" | .svMap => ".sv.map")])

def distinctB : List String → Bool
  | [] => true
  | x :: xs => !xs.contains x && distinctB xs

def parseSym (s : String) : Option Sym :=
  match s.splitOn ":" with
  | [i, f, c] =>
    match parseHex? i, (if f = "-" then some none else (parseHex? f).map some), c with
    | some i, some f, "1" => some ⟨i, f, true⟩
    | some i, some f, "0" => some ⟨i, f, false⟩
    | _, _, _ => none
  | _ => none

def step (s : Unit) (t : List String) : Unit × String :=
  match t with
  | ["path", tg, mp, base, rel] =>
    match parseTarget tg, parseMap mp, parseSrc base rel with
    | some tg, some mp, some src =>
      (s, s!"dst={showOut (dstOf "target" tg src)} map={showOut (mapOf "target" tg mp src)}")
    | _, _, _ => (s, "bad-op")
  | ["distinct", tg, mp, l] =>
    let srcs := (parseList l).mapM (fun (x : String) => match x.splitOn ":" with
      | [b, r] => parseSrc b r
      | _ => none)
    match parseTarget tg, parseMap mp, srcs with
    | some tg, some mp, some (src :: srcs) =>
      let all := src :: srcs
      let d := distinctB (all.map (fun x => showOut (dstOf "target" tg x)))
      let m := distinctB (all.map (fun x => showOut (mapOf "target" tg mp x)))
      (s, s!"dst={if d then "ok" else "dup"} map={if m then "ok" else "dup"}")
    | _, _, _ => (s, "bad-op")
  | [op, l] =>
    if op = "skip" then (s, "?")
    else if op = "deps" ∨ op = "depsdistinct" then
      let outs := (parseList l).mapM (fun (x : String) => match x.splitOn ":" with
        | [d, _prj, rel] =>
          match (comps rel).reverse with
          | [] => none
          | stem :: rdirs => some (depDst "dependencies" d rdirs.reverse stem, depMap "dependencies" d rdirs.reverse stem)
        | _ => none)
      match outs with
      | some (o :: os) =>
        let all := o :: os
        if op = "deps" then (s, showList (all.map (fun x => showOut x.1)))
        else (s, if distinctB (all.map (fun x => showOut x.1)) && distinctB (all.map (fun x => showOut x.2)) then "ok" else "dup")
      | _ => (s, "bad-op")
    else (s, "bad-op")
  | ["sort", ps, cs, ts] =>
    match (parseList ps).mapM parseHex?, (parseList cs).mapM parseSym, (parseList ts).mapM parseSym with
    | some ps, some cs, some ts => (s, showList ((sortFilelist ps cs ts).map toHex))
    | _, _, _ => (s, "bad-op")
  | "skip" :: _ => (s, "?")
  | _ => (s, "bad-op")

def run : IO Unit := runLines () step

end VerylModel.Driver.Paths
