import VerylModel.Core.EmitModel
import VerylModel.Driver.SV
/-! `vmodel emit`: `c <cfg> <tb> <stim> <sv> <vd> <names> <srchex> <tag>` →
`sv=<trace of SV.run on the parsed emitted module> vm=<trace of the Veryl-side model>
emit=<eq|ne: parsed module = emitModel design cfg>`; see `harness/src/dom_emit.rs`. -/
namespace VerylModel.Driver.EmitD
open VerylModel.SV VerylModel.Emit VerylModel.Driver VerylModel.Driver.SVP

mutual
def parseVRaw : Nat → List String → Option (VRaw × List String)
  | 0, _ => none
  | _, [] => none
  | fuel + 1, t :: rest =>
    match unOpOf t with
    | some op => (parseVRaw fuel rest).map fun (a, r) => (.un op a, r)
    | none =>
    if t = "chain" then
      match rest with
      | n :: rest1 =>
        match nat? n, parseVRaw fuel rest1 with
        | some n, some (f, r1) => (parseVRest fuel n r1).map fun (rs, r2) => (.chain f rs, r2)
        | _, _ => none
      | [] => none
    else if t = "par" then (parseVRaw fuel rest).map fun (a, r) => (.paren a, r)
    else if t = "ifx" then
      match parseVRaw fuel rest with
      | some (c, r1) =>
        match parseVRaw fuel r1 with
        | some (a, r2) => (parseVRaw fuel r2).map fun (b, r3) => (.ifx c a b, r3)
        | none => none
      | none => none
    else if t = "cat" then
      match parseVRaw fuel rest with
      | some (a, r1) => (parseVRaw fuel r1).map fun (b, r2) => (.cat a b, r2)
      | none => none
    else if t.startsWith "rep" then
      match nat? (after t 3), parseVRaw fuel rest with
      | some n, some (a, r) => some (.rep n a, r)
      | _, _ => none
    else if t.startsWith "asn" then
      match nat? (after t 3), parseVRaw fuel rest with
      | some n, some (a, r) => some (.asNum n a, r)
      | _, _ => none
    else if t.startsWith "asi" then
      match nat? (after t 3), parseVRaw fuel rest with
      | some n, some (a, r) => some (.asInt true n a, r)
      | _, _ => none
    else if t.startsWith "asu" then
      match nat? (after t 3), parseVRaw fuel rest with
      | some n, some (a, r) => some (.asInt false n a, r)
      | _, _ => none
    else if t.startsWith "ssg" then
      match parseSign (after t 3), parseVRaw fuel rest with
      | some s, some (a, r) => some (.sysSigned s a, r)
      | _, _ => none
    else
      match parseLeaf t with
      | some (.var id) => some (.var id, rest)
      | some (.bitsel id i) => some (.bitsel id i, rest)
      | some (.partsel id hi lo) => some (.partsel id hi lo, rest)
      | some (.lit w s v) => some (.lit w s v, rest)
      | some (.dec v) => some (.dec v, rest)
      | some (.fill b) => some (.fill b, rest)
      | none => none
def parseVRest : Nat → Nat → List String → Option (VRest × List String)
  | 0, _, _ => none
  | _, 0, ts => some (.nil, ts)
  | fuel + 1, n + 1, t :: rest =>
    match binOpOf t, parseVRaw fuel rest with
    | some op, some (e, r1) => (parseVRest fuel n r1).map fun (tl, r2) => (.cons op e tl, r2)
    | _, _ => none
  | _, _ + 1, [] => none
end

def parseVRaws : Nat → Nat → List String → Option (List VRaw × List String)
  | 0, _, _ => none
  | _, 0, ts => some ([], ts)
  | fuel + 1, n + 1, ts =>
    match parseVRaw fuel ts with
    | some (e, r1) => (parseVRaws fuel n r1).map fun (es, r2) => (e :: es, r2)
    | none => none

mutual
def parseVStmt : Nat → List String → Option (VStmt × List String)
  | 0, _ => none
  | _, [] => none
  | fuel + 1, t :: rest =>
    if t = "skip" then some (.skip, rest)
    else if t = "as" then
      match rest with
      | l :: rest1 =>
        match parseLHS l, parseVRaw fuel rest1 with
        | some l, some (e, r) => some (.assign l e, r)
        | _, _ => none
      | [] => none
    else if t = "seq" then
      match parseVStmt fuel rest with
      | some (a, r1) => (parseVStmt fuel r1).map fun (b, r2) => (.seq a b, r2)
      | none => none
    else if t = "if" then
      match parseVRaw fuel rest with
      | some (c, r1) =>
        match parseVStmt fuel r1 with
        | some (a, r2) => (parseVStmt fuel r2).map fun (b, r3) => (.ite c a b, r3)
        | none => none
      | none => none
    else if t = "case" then
      match parseVRaw fuel rest with
      | some (sel, n :: r1) =>
        match nat? n with
        | some n =>
          match parseVArms fuel n r1 with
          | some (arms, r2) => (parseVStmt fuel r2).map fun (d, r3) => (.case sel arms d, r3)
          | none => none
        | none => none
      | _ => none
    else none
def parseVArms : Nat → Nat → List String → Option (VArms × List String)
  | 0, _, _ => none
  | _, 0, ts => some (.nil, ts)
  | fuel + 1, n + 1, k :: rest =>
    match nat? k with
    | some k =>
      match parseVRaws fuel k rest with
      | some (labels, r1) =>
        match parseVStmt fuel r1 with
        | some (body, r2) => (parseVArms fuel n r2).map fun (tl, r3) => (.cons labels body tl, r3)
        | none => none
      | none => none
    | none => none
  | _, _ + 1, [] => none
end

def parseVItems (fuel : Nat) : Nat → List String → Option (List VItem × List String)
  | 0, ts => some ([], ts)
  | n + 1, "assign" :: l :: rest =>
    match parseLHS l, parseVRaw fuel rest with
    | some l, some (e, r1) => (parseVItems fuel n r1).map fun (is, r2) => (.assign l e :: is, r2)
    | _, _ => none
  | n + 1, "comb" :: rest =>
    match parseVStmt fuel rest with
    | some (s, r1) => (parseVItems fuel n r1).map fun (is, r2) => (.comb s :: is, r2)
    | none => none
  | n + 1, k :: "ifr" :: rest =>
    if k = "ff" ∨ k = "ffx" then
      match parseVStmt fuel rest with
      | some (r, r1) =>
        match parseVStmt fuel r1 with
        | some (b, r2) => (parseVItems fuel n r2).map fun (is, r3) => (.ff (k = "ffx") (some r) b :: is, r3)
        | none => none
      | none => none
    else none
  | n + 1, k :: rest =>
    if k = "ff" ∨ k = "ffx" then
      match parseVStmt fuel rest with
      | some (b, r1) => (parseVItems fuel n r1).map fun (is, r2) => (.ff (k = "ffx") none b :: is, r2)
      | none => none
    else none
  | _ + 1, [] => none

def parseClk : String → Option ClkKind
  | "c" => some .dflt | "cp" => some .pos | "cn" => some .neg | _ => none
def parseRst : String → Option RstKind
  | "r" => some .dflt | "rah" => some .asyncHigh | "ral" => some .asyncLow
  | "rsh" => some .syncHigh | "rsl" => some .syncLow | _ => none

-- identifiers in range
mutual
def vrawOk (n : Nat) : VRaw → Bool
  | .var id => id < n
  | .bitsel id _ => id < n
  | .partsel id _ _ => id < n
  | .lit _ _ _ | .dec _ | .fill _ => true
  | .un _ a => vrawOk n a
  | .chain f r => vrawOk n f && vrestOk n r
  | .paren a => vrawOk n a
  | .ifx c a b => vrawOk n c && vrawOk n a && vrawOk n b
  | .cat a b => vrawOk n a && vrawOk n b
  | .rep _ a => vrawOk n a
  | .asNum k a => 0 < k && vrawOk n a
  | .asInt _ _ a => vrawOk n a
  | .sysSigned _ a => vrawOk n a
def vrestOk (n : Nat) : VRest → Bool
  | .nil => true
  | .cons _ e tl => vrawOk n e && vrestOk n tl
end

mutual
def vstmtOk (n : Nat) : VStmt → Bool
  | .skip => true
  | .assign l e => l.id < n && vrawOk n e
  | .seq a b => vstmtOk n a && vstmtOk n b
  | .ite c t e => vrawOk n c && vstmtOk n t && vstmtOk n e
  | .case sel arms d => vrawOk n sel && varmsOk n arms && vstmtOk n d
def varmsOk (n : Nat) : VArms → Bool
  | .nil => true
  | .cons ls b tl => ls.all (vrawOk n) && vstmtOk n b && varmsOk n tl
end

def vitemOk (n : Nat) : VItem → Bool
  | .assign l e => l.id < n && vrawOk n e
  | .comb s => vstmtOk n s
  | .ff _ r b => vstmtOk n b && (match r with | some r => vstmtOk n r | none => true)

/-- `vmod,<ndecl>,decls…,<nin>,ids…,<nout>,ids…,<clk-kind>,<rst-kind>,<nitems>,items…`;
clock = identifier 0, reset = identifier 1 -/
def parseDesign (s : String) : Option VDesign :=
  let toks := s.splitOn ","
  let fuel := toks.length + 1
  match toks with
  | "vmod" :: nd :: rest =>
    match nat? nd with
    | some nd =>
      match parseDecls nd rest with
      | some (decls, ni :: r1) =>
        match nat? ni with
        | some ni =>
          match parseNats ni r1 with
          | some (ins, no :: r2) =>
            match nat? no with
            | some no =>
              match parseNats no r2 with
              | some (outs, ck :: rk :: nit :: r3) =>
                match parseClk ck, parseRst rk, nat? nit with
                | some ck, some rk, some nit =>
                  match parseVItems fuel nit r3 with
                  | some (items, []) =>
                    let n := decls.length
                    if 2 ≤ n && ins.all (· < n) && outs.all (· < n) && items.all (vitemOk n) then
                      some { decls := decls, inputs := ins, outputs := outs, clk := 0, clkKind := ck,
                             rst := 1, rstKind := rk, items := items }
                    else none
                  | _ => none
                | _, _, _ => none
              | _ => none
            | none => none
          | _ => none
        | none => none
      | _ => none
    | none => none
  | _ => none

def parseCfg : String → Option Cfg
  | "pal" => some ⟨.pos, false, false⟩ | "pah" => some ⟨.pos, true, false⟩
  | "psl" => some ⟨.pos, false, true⟩ | "psh" => some ⟨.pos, true, true⟩
  | "nal" => some ⟨.neg, false, false⟩ | "nah" => some ⟨.neg, true, false⟩
  | "nsl" => some ⟨.neg, false, true⟩ | "nsh" => some ⟨.neg, true, true⟩
  | _ => none

/-! structural equality of modules -/
mutual
def rawEq : Raw → Raw → Bool
  | .var a, .var b => a == b
  | .bitsel a i, .bitsel b j => a == b && i == j
  | .partsel a h l, .partsel b h' l' => a == b && h == h' && l == l'
  | .lit w s v, .lit w' s' v' => w == w' && s == s' && v == v'
  | .dec v, .dec v' => v == v'
  | .fill b, .fill b' => b == b'
  | .un o a, .un o' a' => o == o' && rawEq a a'
  | .chain f r, .chain f' r' => rawEq f f' && restEq r r'
  | .paren a, .paren a' => rawEq a a'
  | .cond c a b, .cond c' a' b' => rawEq c c' && rawEq a a' && rawEq b b'
  | .cat a b, .cat a' b' => rawEq a a' && rawEq b b'
  | .rep n a, .rep n' a' => n == n' && rawEq a a'
  | .sizeCast n a, .sizeCast n' a' => n == n' && rawEq a a'
  | .typeCast n a, .typeCast n' a' => n == n' && rawEq a a'
  | .signCast y s a, .signCast y' s' a' => y == y' && s == s' && rawEq a a'
  | _, _ => false
def restEq : Rest → Rest → Bool
  | .nil, .nil => true
  | .cons o e t, .cons o' e' t' => o == o' && rawEq e e' && restEq t t'
  | _, _ => false
end

def rawsEq : List Raw → List Raw → Bool
  | [], [] => true
  | a :: t, a' :: t' => rawEq a a' && rawsEq t t'
  | _, _ => false

mutual
def stmtEq : Stmt → Stmt → Bool
  | .skip, .skip => true
  | .assign n l e, .assign n' l' e' => n == n' && l == l' && rawEq e e'
  | .seq a b, .seq a' b' => stmtEq a a' && stmtEq b b'
  | .ite c t e, .ite c' t' e' => rawEq c c' && stmtEq t t' && stmtEq e e'
  | .case s a d, .case s' a' d' => rawEq s s' && armsEq a a' && stmtEq d d'
  | _, _ => false
def armsEq : Arms → Arms → Bool
  | .nil, .nil => true
  | .cons l b t, .cons l' b' t' => rawsEq l l' && stmtEq b b' && armsEq t t'
  | _, _ => false
end

def edgeEq (a b : Option (Edge × Nat)) : Bool :=
  match a, b with
  | none, none => true
  | some (e, i), some (e', i') => e == e' && i == i'
  | _, _ => false

def itemEq : Item → Item → Bool
  | .comb s, .comb s' => stmtEq s s'
  | .ff f, .ff f' => f.clkEdge == f'.clkEdge && f.clk == f'.clk && edgeEq f.rst f'.rst && stmtEq f.body f'.body
  | _, _ => false

def itemsEq : List Item → List Item → Bool
  | [], [] => true
  | a :: t, a' :: t' => itemEq a a' && itemsEq t t'
  | _, _ => false

/-- index of the first differing item (diagnostics) -/
def firstDiff : List Item → List Item → Nat → Nat
  | a :: t, a' :: t', k => if itemEq a a' then firstDiff t t' (k + 1) else k
  | _, _, k => k

def moduleEq (a b : Module) : Bool :=
  a.decls == b.decls && a.inputs == b.inputs && a.outputs == b.outputs && itemsEq a.items b.items

def reply (t : List String) : String :=
  match t with
  | ["c", cfg, tb, stim, svm, vd, _names, _src, _tag] =>
    match parseCfg cfg, parseTB tb, parseStim stim, parseModule svm with
    | some cfg, some tb, some stim, some m =>
      let svr := SVRun.svTrace tb stim m
      if vd = "-" then s!"sv={svr} vm=na emit=na" else
      match parseDesign vd with
      | some d =>
        let tb' := tbOf d cfg
        if tb'.clk ≠ tb.clk ∨ tb'.rst ≠ tb.rst ∨ tb'.clkActive ≠ tb.clkActive ∨ tb'.rstHigh ≠ tb.rstHigh then "bad-op"
        else
          let vm := if stim.any (fun c => c.length ≠ d.inputs.length) then "bad-op" else
            match simRun d cfg stim with
            | some tr => showTrace tr
            | none => "dc"
          let em := emitModel d cfg
          let eq := if moduleEq m em then "eq"
            else if m.decls == em.decls && m.inputs == em.inputs && m.outputs == em.outputs then
              s!"ne:item{firstDiff m.items em.items 0}" else "ne:header"
          s!"sv={svr} vm={vm} emit={eq}"
      | none => "bad-op"
    | _, _, _, _ => "bad-op"
  | _ => "bad-op"

/-- replies are flushed per line: the harness drives the model interactively while shrinking -/
partial def run : IO Unit := do
  let stdin ← IO.getStdin
  let stdout ← IO.getStdout
  let rec loop : IO Unit := do
    let line ← stdin.getLine
    if line.isEmpty then return ()
    stdout.putStrLn (reply (tokens line))
    stdout.flush
    loop
  loop

end VerylModel.Driver.EmitD
