import VerylModel.Core.Bits
import VerylModel.Driver.Util
/-!
`vmodel value`    : replies of the Impl model (correspondence with `hx value`'s impl.txt)
`vmodel valueref` : replies of the IEEE reference `Ref.*` (the oracle of C17), `?` where the
                    request is outside the domain the property speaks about.

Requests (all numbers lower-case hex, signedness 0/1):
  bin <Op> <w1> <s1> <p1> <m1> <w2> <s2> <p2> <m2> <ctxwidth> <ctxsigned>
  un  <Op> <w1> <s1> <p1> <m1> <ctxwidth> <ctxsigned>
  binrep / unrep: the same with both operands forced into the BigUint representation
  expand <w> <s> <p> <m> <neww> <use_sign>
  trunc  <w> <s> <p> <m> <neww>
  select <w> <s> <p> <m> <beg> <end>
  concat <w1> <s1> <p1> <m1> <w2> <s2> <p2> <m2>
  assign <w1> <s1> <p1> <m1> <w2> <s2> <p2> <m2> <beg> <end>
  shamt  <w> <s> <p> <m>
Replies: `w=<w> s=<0|1> p=<hex> m=<hex> r=<u|b>` (value), `w=<w> p=<hex> m=<hex>` (valueref),
`panic`, `none`/`some <hex>` (shamt), `bad-op`.
-/
namespace VerylModel.Driver.Value
open VerylModel.Bits VerylModel.Driver

def opOfString : String → Option Op
  | "Pow" => some .Pow | "Div" => some .Div | "Rem" => some .Rem | "Mul" => some .Mul
  | "Add" => some .Add | "Sub" => some .Sub | "ArithShiftL" => some .ArithShiftL
  | "ArithShiftR" => some .ArithShiftR | "LogicShiftL" => some .LogicShiftL
  | "LogicShiftR" => some .LogicShiftR | "LessEq" => some .LessEq | "GreaterEq" => some .GreaterEq
  | "Less" => some .Less | "Greater" => some .Greater | "Eq" => some .Eq
  | "EqWildcard" => some .EqWildcard | "Ne" => some .Ne | "NeWildcard" => some .NeWildcard
  | "LogicAnd" => some .LogicAnd | "LogicOr" => some .LogicOr | "LogicNot" => some .LogicNot
  | "BitAnd" => some .BitAnd | "BitOr" => some .BitOr | "BitXor" => some .BitXor
  | "BitXnor" => some .BitXnor | "BitNand" => some .BitNand | "BitNor" => some .BitNor
  | "BitNot" => some .BitNot | "As" => some .As | "Ternary" => some .Ternary
  | "Concatenation" => some .Concatenation | "ArrayLiteral" => some .ArrayLiteral
  | "Condition" => some .Condition | "Repeat" => some .Repeat
  | _ => none

def parseBool? : String → Option Bool
  | "0" => some false
  | "1" => some true
  | _ => none

def b01 (b : Bool) : String := if b then "1" else "0"

/-- `w s p m` → the four raw fields. -/
def parseV (w s p m : String) : Option V4 :=
  match parseHex? w, parseBool? s, parseHex? p, parseHex? m with
  | some w, some s, some p, some m => some ⟨w, p, m, s⟩
  | _, _, _, _ => none

def wire (v : V4) : Impl.Val := Impl.ofWire v.width v.signed v.payload v.mask

def showVal : Option Impl.Val → String
  | none => "panic"
  | some x =>
    let v := x.v
    s!"w={toHex v.width} s={b01 v.signed} p={toHex v.payload} m={toHex v.mask} r={if x.isBig then "b" else "u"}"

def showBV (b : BV) : String := s!"w={toHex b.width} p={toHex b.payload} m={toHex b.mask}"

def stepImpl (t : List String) : String :=
  match t with
  | ["bin", op, w1, s1, p1, m1, w2, s2, p2, m2, cw, cs] =>
    match opOfString op, parseV w1 s1 p1 m1, parseV w2 s2 p2 m2, parseHex? cw, parseBool? cs with
    | some op, some x, some y, some cw, some cs => showVal (Impl.evalBinary op (wire x) (wire y) cw cs)
    | _, _, _, _, _ => "bad-op"
  | ["un", op, w1, s1, p1, m1, cw, cs] =>
    match opOfString op, parseV w1 s1 p1 m1, parseHex? cw, parseBool? cs with
    | some op, some x, some cw, some cs => showVal (Impl.evalUnary op (wire x) cw cs)
    | _, _, _, _ => "bad-op"
  | ["binrep", op, w1, s1, p1, m1, w2, s2, p2, m2, cw, cs] =>
    match opOfString op, parseV w1 s1 p1 m1, parseV w2 s2 p2 m2, parseHex? cw, parseBool? cs with
    | some op, some x, some y, some cw, some cs => showVal (Impl.evalBinary op (.big x) (.big y) cw cs)
    | _, _, _, _, _ => "bad-op"
  | ["unrep", op, w1, s1, p1, m1, cw, cs] =>
    match opOfString op, parseV w1 s1 p1 m1, parseHex? cw, parseBool? cs with
    | some op, some x, some cw, some cs => showVal (Impl.evalUnary op (.big x) cw cs)
    | _, _, _, _ => "bad-op"
  | ["expand", w, s, p, m, nw, us] =>
    match parseV w s p m, parseHex? nw, parseBool? us with
    | some x, some nw, some us => showVal (Impl.expand (wire x) nw us)
    | _, _, _ => "bad-op"
  | ["trunc", w, s, p, m, nw] =>
    match parseV w s p m, parseHex? nw with
    | some x, some nw => showVal (Impl.trunc (wire x) nw)
    | _, _ => "bad-op"
  | ["select", w, s, p, m, b, e] =>
    match parseV w s p m, parseHex? b, parseHex? e with
    | some x, some b, some e => showVal (Impl.select (wire x) b e)
    | _, _, _ => "bad-op"
  | ["concat", w1, s1, p1, m1, w2, s2, p2, m2] =>
    match parseV w1 s1 p1 m1, parseV w2 s2 p2 m2 with
    | some x, some y => showVal (Impl.concat (wire x) (wire y))
    | _, _ => "bad-op"
  | ["assign", w1, s1, p1, m1, w2, s2, p2, m2, b, e] =>
    match parseV w1 s1 p1 m1, parseV w2 s2 p2 m2, parseHex? b, parseHex? e with
    | some x, some y, some b, some e => showVal (Impl.assign (wire x) (wire y) b e)
    | _, _, _, _ => "bad-op"
  | ["shamt", w, s, p, m] =>
    match parseV w s p m with
    | some x => (match Impl.toShiftAmount (wire x) with | none => "none" | some n => "some " ++ toHex n)
    | none => "bad-op"
  | _ => "bad-op"

/-- Operand as the property speaks about it: payload and mask within the width; width 0 only as
    the unsized (and unsigned) fill literal `'0 '1 'x 'z`. -/
def wfIn (v : V4) : Bool :=
  if v.width = 0 then v.payload ≤ 1 && v.mask ≤ 1 && !v.signed
  else v.payload < 2 ^ v.width && v.mask < 2 ^ v.width

/-- IEEE oracle for a binary operator, `none` = outside the property's domain. Caller invariants
    (established by the analyzer's context pass): context-determined operands are not wider than
    the context; self-determined operands are sized (width ≥ 1). -/
def refBinary (op : Op) (x y : V4) (cw : Nat) (cs : Bool) : Option BV :=
  if !(wfIn x && wfIn y) || cw = 0 then none else
  let ctx2 := x.width ≤ cw && y.width ≤ cw
  let sh := x.width ≤ cw && 1 ≤ y.width
  let cmp := 1 ≤ max x.width y.width
  let lg := 1 ≤ x.width && 1 ≤ y.width
  match op with
  | .Add => if ctx2 then some (Ref.add x y cw cs) else none
  | .Sub => if ctx2 then some (Ref.sub x y cw cs) else none
  | .Mul => if ctx2 then some (Ref.mul x y cw cs) else none
  | .Div => if ctx2 then some (Ref.div x y cw cs) else none
  | .Rem => if ctx2 then some (Ref.rem x y cw cs) else none
  | .BitAnd => if ctx2 then some (Ref.band x y cw cs) else none
  | .BitOr => if ctx2 then some (Ref.bor x y cw cs) else none
  | .BitXor => if ctx2 then some (Ref.bxor x y cw cs) else none
  | .BitXnor => if ctx2 then some (Ref.bxnor x y cw cs) else none
  | .Eq => if cmp then some (Ref.eq x y cw) else none
  | .Ne => if cmp then some (Ref.ne x y cw) else none
  | .EqWildcard => if cmp then some (Ref.eqw x y cw) else none
  | .NeWildcard => if cmp then some (Ref.new x y cw) else none
  | .Less => if cmp then some (Ref.lt x y cw cs) else none
  | .LessEq => if cmp then some (Ref.le x y cw cs) else none
  | .Greater => if cmp then some (Ref.gt x y cw cs) else none
  | .GreaterEq => if cmp then some (Ref.ge x y cw cs) else none
  | .LogicAnd => if lg then some (Ref.land x y cw) else none
  | .LogicOr => if lg then some (Ref.lor x y cw) else none
  | .LogicShiftL => if sh then some (Ref.shl x y cw cs) else none
  | .ArithShiftL => if sh then some (Ref.shl x y cw cs) else none
  | .LogicShiftR => if sh then some (Ref.lshr x y cw cs) else none
  | .ArithShiftR => if sh then some (Ref.ashr x y cw cs) else none
  | .Pow => if sh then some (Ref.pow x y cw cs) else none
  | _ => none

def refUnary (op : Op) (x : V4) (cw : Nat) (cs : Bool) : Option BV :=
  if !(wfIn x) || cw = 0 then none else
  let ctx := x.width ≤ cw
  let sd := 1 ≤ x.width
  match op with
  | .Add => if ctx then some (Ref.plus x cw cs) else none
  | .Sub => if ctx then some (Ref.minus x cw cs) else none
  | .BitNot => if ctx then some (Ref.bnot x cw cs) else none
  | .BitAnd => if sd then some (Ref.rand x cw) else none
  | .BitNand => if sd then some (Ref.rnand x cw) else none
  | .BitOr => if sd then some (Ref.ror x cw) else none
  | .BitNor => if sd then some (Ref.rnor x cw) else none
  | .BitXor => if sd then some (Ref.rxor x cw) else none
  | .BitXnor => if sd then some (Ref.rxnor x cw) else none
  | .LogicNot => if sd then some (Ref.lnot x cw) else none
  | _ => none

def showRef : Option BV → String
  | none => "?"
  | some b => showBV b

def stepRef (t : List String) : String :=
  match t with
  | ["bin", op, w1, s1, p1, m1, w2, s2, p2, m2, cw, cs] =>
    match opOfString op, parseV w1 s1 p1 m1, parseV w2 s2 p2 m2, parseHex? cw, parseBool? cs with
    | some op, some x, some y, some cw, some cs => showRef (refBinary op x y cw cs)
    | _, _, _, _, _ => "bad-op"
  | ["un", op, w1, s1, p1, m1, cw, cs] =>
    match opOfString op, parseV w1 s1 p1 m1, parseHex? cw, parseBool? cs with
    | some op, some x, some cw, some cs => showRef (refUnary op x cw cs)
    | _, _, _, _ => "bad-op"
  | ["binrep", op, w1, s1, p1, m1, w2, s2, p2, m2, cw, cs] =>
    match opOfString op, parseV w1 s1 p1 m1, parseV w2 s2 p2 m2, parseHex? cw, parseBool? cs with
    | some op, some x, some y, some cw, some cs => showRef (refBinary op x y cw cs)
    | _, _, _, _, _ => "bad-op"
  | ["unrep", op, w1, s1, p1, m1, cw, cs] =>
    match opOfString op, parseV w1 s1 p1 m1, parseHex? cw, parseBool? cs with
    | some op, some x, some cw, some cs => showRef (refUnary op x cw cs)
    | _, _, _, _ => "bad-op"
  | ["expand", w, s, p, m, nw, us] =>
    match parseV w s p m, parseHex? nw, parseBool? us with
    | some x, some nw, some us =>
      showRef (if wfIn x && x.width ≤ nw && 1 ≤ nw then some (Ref.ext x nw us) else none)
    | _, _, _ => "bad-op"
  | ["trunc", w, s, p, m, nw] =>
    match parseV w s p m, parseHex? nw with
    | some x, some nw => showRef (if wfIn x then some (Ref.trunc x nw) else none)
    | _, _ => "bad-op"
  | ["select", w, s, p, m, b, e] =>
    match parseV w s p m, parseHex? b, parseHex? e with
    | some x, some b, some e =>
      showRef (if wfIn x && 1 ≤ x.width then some (Ref.select x b e) else none)
    | _, _, _ => "bad-op"
  | ["concat", w1, s1, p1, m1, w2, s2, p2, m2] =>
    match parseV w1 s1 p1 m1, parseV w2 s2 p2 m2 with
    | some x, some y =>
      showRef (if x.wf && y.wf then some (Ref.concat x y) else none)
    | _, _ => "bad-op"
  | ["assign", w1, s1, p1, m1, w2, s2, p2, m2, b, e] =>
    match parseV w1 s1 p1 m1, parseV w2 s2 p2 m2, parseHex? b, parseHex? e with
    | some x, some y, some b, some e =>
      showRef (if x.wf && y.wf && e ≤ b && b < x.width then some (Ref.assign x y b e) else none)
    | _, _, _, _ => "bad-op"
  | ["shamt", w, s, p, m] =>
    match parseV w s p m with
    | some _ => "?"
    | none => "bad-op"
  | _ => "bad-op"

def run : IO Unit := runLines () (fun s t => (s, stepImpl t))
def runRef : IO Unit := runLines () (fun s t => (s, stepRef t))

end VerylModel.Driver.Value
