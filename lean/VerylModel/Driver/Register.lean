import VerylModel.Core.Register
import VerylModel.Driver.Util
/-! `vmodel order`: symbol registration of a file list in a given order (M-Register). -/
namespace VerylModel.Driver.Register
open VerylModel.Register VerylModel.Driver

/-- `ns.name` (hex) -/
def sym? (s : String) : Option Sym :=
  match s.splitOn "." with
  | [a, b] =>
    match parseHex? a, parseHex? b with
    | some a, some b => some { ns := [a], name := b, defctx := 0, payload := 0 }
    | _, _ => none
  | _ => none

/-- files separated by `;`, symbols by `,`; `-` = empty file. -/
def files? (s : String) : Option (List (List Sym)) :=
  (s.splitOn ";").foldr (fun f acc =>
    let syms := if f = "-" then some [] else
      (f.splitOn ",").foldr (fun x a => match sym? x, a with
        | some y, some l => some (y :: l)
        | _, _ => none) (some [])
    match syms, acc with
    | some x, some l => some (x :: l)
    | _, _ => none) (some [])

def keyLt (a b : Sym) : Bool :=
  match a.ns, b.ns with
  | [x], [y] => x < y || (x == y && a.name < b.name)
  | _, _ => a.name < b.name

def insSorted (x : Sym) : List Sym → List Sym
  | [] => [x]
  | y :: ys => if keyLt x y then x :: y :: ys else y :: insSorted x ys

def showSym (s : Sym) : String :=
  (match s.ns with | [a] => toHex a | _ => "?") ++ "." ++ toHex s.name

/-- comma list of decimals; `-` = empty set -/
def nats? (s : String) : Option (List Nat) :=
  if s = "-" then some [] else
    (s.splitOn ",").foldr (fun x a => match x.toNat?, a with
      | some y, some l => some (y :: l)
      | _, _ => none) (some [])

def bit (b : Bool) : String := if b then "1" else "0"

def step (s : Unit) (t : List String) : Unit × String :=
  (s, match t with
  | ["reg", fs] =>
    match files? fs with
    | some files =>
      let tbl := registerAll (fun _ _ => false) files
      let sorted := tbl.foldr insSorted []
      s!"n={sorted.length} " ++ showList (sorted.map showSym)
    | none => "bad-op"
  | ["excl", p, n, p', n'] =>
    match nats? p, nats? n, nats? p', nats? n' with
    | some p, some n, some p', some n' =>
      "ab=" ++ bit (exclusiveSets p n p' n') ++ " ba=" ++ bit (exclusiveSets p' n' p n)
    | _, _, _, _ => "bad-op"
  | "perm" :: _ => "?"
  | "twice" :: _ => "?"
  | ["reset"] => "ok"
  | _ => "bad-op")

def run : IO Unit := runLines () step

end VerylModel.Driver.Register
