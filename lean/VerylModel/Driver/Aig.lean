import VerylModel.Core.AigRewrite
import VerylModel.Driver.Util
/-! `vmodel npn|lib|aig|rewrite` (C21): replays the request lines of `hxaig` through the models of
`Core/Npn.lean` and `Core/Aig.lean`. -/
namespace VerylModel.Driver.Aig
open VerylModel.Gen.Npn VerylModel.Core.Npn VerylModel.Core.Aig VerylModel.Core.AigRewrite VerylModel.Driver

/-! ### parsing / printing -/

def parsePerm? (s : String) : Option (List Nat) :=
  let ds := s.toList.map fun c => if '0' ≤ c ∧ c ≤ '3' then some (c.toNat - '0'.toNat) else none
  if ds.length = 4 ∧ ds.all Option.isSome then some (ds.map fun d => d.getD 0) else none

def showPerm (p : List Nat) : String := String.join (p.map toString)

def parseEdge? (s : String) : Option PatEdge :=
  let neg := s.endsWith "n"
  let num := if neg then (s.dropEnd 1).toString else s
  (parseHex? num).map fun n => ⟨n, neg⟩

def showEdge (e : PatEdge) : String := toHex e.node ++ (if e.neg then "n" else "")

def allSome {α : Type} (l : List (Option α)) : Option (List α) :=
  l.foldr (fun x acc => match x, acc with | some a, some r => some (a :: r) | _, _ => none) (some [])

def parsePattern? (s : String) : Option Pattern :=
  if !s.startsWith "P" then none else
  match ((s.drop 1).toString.splitOn ":") with
  | [ands, out] =>
    let andsL := if ands.isEmpty then [] else ands.splitOn ","
    let parsed := allSome (andsL.map fun ab =>
      match ab.splitOn "-" with
      | [a, b] => match parseEdge? a, parseEdge? b with
        | some x, some y => some (x, y)
        | _, _ => none
      | _ => none)
    match parsed, parseEdge? out with
    | some as, some o => some ⟨as, o⟩
    | _, _ => none
  | _ => none

def showPattern (p : Pattern) : String :=
  "P" ++ ",".intercalate (p.ands.map fun ab => showEdge ab.1 ++ "-" ++ showEdge ab.2) ++ ":" ++ showEdge p.output

def showTransform (t : Transform) : String :=
  s!"{showPerm t.perm} {toHex t.inNeg} {if t.outNeg then 1 else 0}"

def tt16? (s : String) : Option Nat :=
  match parseHex? s with
  | some n => if n < 65536 then some n else none
  | none => none

def u8? (s : String) : Option Nat :=
  match parseHex? s with
  | some n => if n < 256 then some n else none
  | none => none

/-! ### `npn` / `lib` -/

def stepNpn (_ : Unit) (t : List String) : Unit × String :=
  ((), match t with
  | ["npn", tt] =>
    match tt16? tt with
    | some tt => let r := npnCanonical tt; s!"{toHex r.1} {showTransform r.2}"
    | none => "bad-op"
  | ["permtt", tt, perm] =>
    match tt16? tt, parsePerm? perm with
    | some tt, some p => toHex (permTt tt p)
    | _, _ => "bad-op"
  | ["flip", tt, mask] =>
    match tt16? tt, u8? mask with
    | some tt, some m => toHex (flipInputs tt m)
    | _, _ => "bad-op"
  | ["apply", tt, perm, n, o] =>
    match tt16? tt, parsePerm? perm, u8? n with
    | some tt, some p, some n =>
      if o = "0" ∨ o = "1" then toHex ((⟨p, n, o = "1"⟩ : Transform).apply tt) else "bad-op"
    | _, _, _ => "bad-op"
  | ["eval", pat, a, b, c, d] =>
    match parsePattern? pat, tt16? a, tt16? b, tt16? c, tt16? d with
    | some p, some a, some b, some c, some d => if p.wf then toHex (p.eval [a, b, c, d]) else "panic"
    | _, _, _, _, _ => "bad-op"
  | ["tpat", pat, perm, n, o] =>
    match parsePattern? pat, parsePerm? perm, u8? n with
    | some p, some pm, some n =>
      if o = "0" ∨ o = "1" then
        if p.wf then
          let q := transformPattern p ⟨pm, n, o = "1"⟩
          s!"{showPattern q} {toHex q.tt}"
        else "panic"
      else "bad-op"
    | _, _, _ => "bad-op"
  | ["lib", key, pat] =>
    match tt16? key, parsePattern? pat with
    | some k, some p =>
      if p.wf then s!"{toHex p.tt} {toHex p.size} {if (npnCanonical k).1 = k then 1 else 0}" else "panic"
    | _, _ => "bad-op"
  | _ => "bad-op")

def runNpn : IO Unit := runLines () stepNpn

/-! ### `aig`: constructor sequences -/

def showNodes (ns : List Node) : String :=
  "A" ++ ",".intercalate (ns.map fun n => match n with
    | .const => "c"
    | .input o => "i" ++ toHex o
    | .and a b => "a" ++ toHex a ++ "." ++ toHex b) ++ ";"

def inRange (g : Aig) (e : Nat) : Bool := eNode e < g.nodes.length

def stepAig1 (g : Aig) (t : List String) : Aig × String :=
  match t with
  | ["reset"] => (Aig.new, "ok")
  | ["in", o] =>
    match parseHex? o with
    | some o => if o < 4294967296 then let r := addInput g o; (r.1, toHex r.2) else (g, "bad-op")
    | none => (g, "bad-op")
  | "cell" :: kind :: nets =>
    match parseHex? kind, allSome (nets.map parseHex?) with
    | some k, some nets =>
      if nets.length = cellArity.getD k 0 ∧ k < cellArity.length ∧ nets.all (· ≤ 9) then
        -- `aigify` of a one-cell module: `lower_net` on the cell's inputs in order (constants are
        -- pre-seeded, every other net is an input port bit → `add_input`), then `lower_cell`
        let st := nets.foldl (fun (st : Aig × List Nat) n =>
          if n = 0 then (st.1, st.2 ++ [const0])
          else if n = 1 then (st.1, st.2 ++ [const1])
          else let r := addInput st.1 n; (r.1, st.2 ++ [r.2])) (Aig.new, [])
        match lowerCell st.1 k st.2 with
        | some r => (g, showNodes r.1.nodes ++ toHex r.2)
        | none => (g, "bad-op")
      else (g, "bad-op")
    | _, _ => (g, "bad-op")
  | [op, x, y] =>
    match parseHex? x, parseHex? y with
    | some x, some y =>
      if inRange g x && inRange g y then
        if op = "and" then let r := mkAnd g x y; (r.1, s!"{toHex r.2} {toHex r.1.nodes.length}")
        else if op = "or" then let r := mkOr g x y; (r.1, s!"{toHex r.2} {toHex r.1.nodes.length}")
        else if op = "xor" then let r := mkXor g x y; (r.1, s!"{toHex r.2} {toHex r.1.nodes.length}")
        else (g, "bad-op")
      else (g, "bad-op")
    | _, _ => (g, "bad-op")
  | ["mux", s, d0, d1] =>
    match parseHex? s, parseHex? d0, parseHex? d1 with
    | some s, some d0, some d1 =>
      if inRange g s && inRange g d0 && inRange g d1 then
        let r := mkMux g s d0 d1; (r.1, s!"{toHex r.2} {toHex r.1.nodes.length}")
      else (g, "bad-op")
    | _, _, _ => (g, "bad-op")
  | ["dump"] => (g, showNodes g.nodes)
  | _ => (g, "bad-op")


/-- State of `vmodel aig`: the graph under construction and the library entries received so far. -/
structure AigSt where
  g : Aig := Aig.new
  lib : List (Nat × Pattern) := []

def libLookup (lib : List (Nat × Pattern)) (k : Nat) : Option Pattern := (lib.find? fun e => e.1 == k).map (·.2)

def stepAig (s : AigSt) (t : List String) : AigSt × String :=
  match t with
  | ["libentry", key, pat] =>
    match tt16? key, parsePattern? pat with
    | some k, some p => if p.wf then ({ s with lib := s.lib ++ [(k, p)] }, "ok") else (s, "bad-op")
    | _, _ => (s, "bad-op")
  | ["sink", e] =>
    match parseHex? e with
    | some e =>
      if inRange s.g e then
        let g' := { s.g with sinks := s.g.sinks ++ [(s.g.sinks.length, e)] }
        ({ s with g := g' }, toHex g'.sinks.length)
      else (s, "bad-op")
    | none => (s, "bad-op")
  | ["rewrite"] =>
    if s.g.wf then
      let r := rewrite (libLookup s.lib) s.g
      (s, showNodes r.nodes ++ ",".intercalate (r.sinks.map fun k => toHex k.2))
    else (s, "bad-op")
  | _ => let r := stepAig1 s.g t; ({ s with g := r.1 }, r.2)

def runAig : IO Unit := runLines ({} : AigSt) stepAig

/-! ### `rewrite`: equivalence of two serialised circuits -/

inductive Circuit where
  | aig (nodes : List Node) (sinks : List Nat)
  | net (k : Nat) (cells : List (Nat × List Nat)) (sinks : List Nat)

def parseNode? (s : String) : Option Node :=
  if s = "c" then some .const
  else if s.startsWith "i" then (parseHex? (s.drop 1).toString).map .input
  else if s.startsWith "a" then
    match (s.drop 1).toString.splitOn "." with
    | [a, b] => match parseHex? a, parseHex? b with
      | some a, some b => some (.and a b)
      | _, _ => none
    | _ => none
  else none

def splitList (s : String) (sep : String) : List String := if s.isEmpty then [] else s.splitOn sep

def parseCircuit? (s : String) : Option Circuit :=
  if s.startsWith "A" then
    match (s.drop 1).toString.splitOn ";" with
    | [nodes, sinks] =>
      match allSome ((splitList nodes ",").map parseNode?), allSome ((splitList sinks ",").map parseHex?) with
      | some ns, some sk => some (.aig ns sk)
      | _, _ => none
    | _ => none
  else if s.startsWith "N" then
    match (s.drop 1).toString.splitOn ";" with
    | [k, cells, sinks] =>
      let cs := allSome ((splitList cells ",").map fun c =>
        match c.splitOn ":" with
        | [kind, ins] => match parseHex? kind, allSome ((splitList ins ".").map parseHex?) with
          | some kd, some is => some (kd, is)
          | _, _ => none
        | _ => none)
      match k.toNat?, cs, allSome ((splitList sinks ",").map parseHex?) with
      | some k, some cs, some sk => some (.net k cs sk)
      | _, _, _ => none
    | _ => none
  else none

/-- Structural sanity of a serialised netlist: known kinds, arity, inputs defined before use. -/
def cellsOk (n0 : Nat) (cells : List (Nat × List Nat)) : Bool :=
  (cells.foldl (fun (st : Nat × Bool) c =>
    (st.1 + 1, st.2 && decide (c.1 < cellArity.length) && decide (c.2.length = cellArity.getD c.1 0)
      && c.2.all (· < st.1))) (n0, true)).2

/-- Values of the sinks (one word per sink), `none` if the circuit is malformed. -/
def sinkWords (mask : Nat) (inputs : List Nat) : Circuit → Option (List Nat)
  | .aig nodes sinks =>
    if (nodes.head? == some Node.const) && wfFrom 0 nodes && sinks.all (fun e => eNode e < nodes.length) then
      let vals := evalNodesW mask (fun o => inputs.getD o 0) nodes
      some (sinks.map (edgeW mask vals))
    else none
  | .net k cells sinks =>
    if k = inputs.length ∧ cellsOk (2 + k) cells ∧ sinks.all (· < 2 + k + cells.length) then
      let vals := evalCellsW mask ([0, mask] ++ inputs.map (· &&& mask)) cells
      some (sinks.map fun s => vals.getD s 0)
    else none

/-- Exhaustive table of input `j` over `2^k` vectors: bit `v` = bit `j` of `v`. -/
def varWord (k j : Nat) : Nat :=
  let mask := 2 ^ (2 ^ k) - 1
  (mask / (2 ^ (2 ^ j) + 1)) <<< (2 ^ j)

def parseMode? (s : String) : Option (Nat × List Nat) :=     -- (number of vectors, input words)
  if s.startsWith "x" then
    match (s.drop 1).toString.toNat? with
    | some k => if k ≤ 16 then some (2 ^ k, (List.range k).map (varWord k)) else none
    | none => none
  else if s.startsWith "r" then
    match (s.drop 1).toString.splitOn ":" with
    | [k, nbits, ws] =>
      match k.toNat?, nbits.toNat?, allSome ((splitList ws ",").map parseHex?) with
      | some k, some nb, some ws => if ws.length = k ∧ 0 < nb then some (nb, ws) else none
      | _, _, _ => none
    | _ => none
  else none

def firstDiff (xs ys : List Nat) : Option (Nat × Nat) :=
  (xs.zip ys).zipIdx.foldl (fun acc p =>
    match acc with
    | some r => some r
    | none =>
      let d := p.1.1 ^^^ p.1.2
      if d = 0 then none else some (p.2, Nat.log2 (d ^^^ (d - 1)))) none

def stepRewrite (_ : Unit) (t : List String) : Unit × String :=
  ((), match t with
  | ["eqv", _, mode, x, y] =>
    match parseMode? mode, parseCircuit? x, parseCircuit? y with
    | some (nbits, inputs), some cx, some cy =>
      let mask := 2 ^ nbits - 1
      match sinkWords mask inputs cx, sinkWords mask inputs cy with
      | some vx, some vy =>
        if vx.length ≠ vy.length then "bad-circuit"
        else match firstDiff vx vy with
          | none => "eq"
          | some (s, v) => s!"ne {toHex s} {toHex v}"
      | _, _ => "bad-circuit"
    | _, _, _ => "bad-op"
  | "bad" :: _ => "?"          -- the harness could not even serialise (structure broken): oracle-only line
  | ["design", _] => "ok"       -- marker: the following lines belong to design number n
  | ["randaig", _] => "ok"
  | ["dangling", _, _] => "?"  -- structural observation of the real netlist: oracle-only line
  | _ => "bad-op")

def runRewrite : IO Unit := runLines () stepRewrite

end VerylModel.Driver.Aig
