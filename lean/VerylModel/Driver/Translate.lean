import VerylModel.Core.Translate
import VerylModel.Driver.Emit
/-! `vmodel translate`: `t <tb> <stim> <sv-original> <sv-reemitted|-> <names> <srchex> <tag>` →
`orig=<SV.run of the original> re=<SV.run of the re-emitted text|na> rt=<eq|ne|na: re-emitted module
= original module> tm=<ok|none: translateModel defined> vm=<trace of the model of the translated design>`. -/
namespace VerylModel.Driver.TranslateD
open VerylModel.SV VerylModel.Emit VerylModel.Translate VerylModel.Driver VerylModel.Driver.SVP

def reply (t : List String) : String :=
  match t with
  | ["t", tb, stim, svo, svr, _names, _src, _tag] =>
    match parseTB tb, parseStim stim, parseModule svo with
    | some tb, some stim, some m =>
      let o := SVRun.svTrace tb stim m
      let (re, rt) :=
        if svr = "-" then ("na", "na") else
        match parseModule svr with
        | some m2 => (SVRun.svTrace tb stim m2, if EmitD.moduleEq m m2 then "eq" else "ne")
        | none => ("bad-op", "na")
      let (tm, vm) :=
        match translateModel m tb.clk tb.rst with
        | some d =>
          ("ok", match simRun d ⟨.pos, false, false⟩ stim with
                 | some tr => showTrace tr
                 | none => "dc")
        | none => ("none", "na")
      s!"orig={o} re={re} rt={rt} tm={tm} vm={vm}"
    | _, _, _ => "bad-op"
  | _ => "bad-op"

partial def run : IO Unit := do
  let stdin ← IO.getStdin
  let stdout ← IO.getStdout
  let rec loop : IO Unit := do
    let line ← stdin.getLine
    if line.isEmpty then return ()
    stdout.putStrLn (reply (tokens line))
    stdout.flush
    loop
  loop

end VerylModel.Driver.TranslateD
