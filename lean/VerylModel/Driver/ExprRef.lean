import VerylModel.Core.ExprRef
import VerylModel.Driver.Util
/-! `vmodel exprref`: `x <stratum> <wo> <p0> <p1> <p2> <v0> <v1> <v2> <expr>` where `<pi>` is
`<width-decimal><s|u>`, values are hex, `<expr>` is comma-separated Polish notation
(`p<i>`, `l<width>:<s|u>:<hex>`, operator names). Reply: the IEEE 1800 value of `assign o = expr`
in hex, or `div0` (a divisor is zero: do not care). The reply is flushed per line so the harness can use the
driver interactively while shrinking. -/
namespace VerylModel.Driver.ExprRef
open VerylModel.ExprRef VerylModel.Driver

def unOpOf : String → Option UnOp
  | "pos" => some .plus | "neg" => some .neg | "not" => some .bnot | "lnot" => some .lnot
  | "rand" => some .rand | "ror" => some .ror | "rxor" => some .rxor | "rnand" => some .rnand
  | "rnor" => some .rnor | "rxnor" => some .rxnor | _ => none

def binOpOf : String → Option BinOp
  | "add" => some .add | "sub" => some .sub | "mul" => some .mul | "div" => some .div | "mod" => some .mod
  | "and" => some .band | "or" => some .bor | "xor" => some .bxor | "xnor" => some .bxnor
  | "eq" => some .eq | "ne" => some .ne | "lt" => some .lt | "le" => some .le | "gt" => some .gt | "ge" => some .ge
  | "shl" => some .shl | "shr" => some .shr | "ashl" => some .ashl | "ashr" => some .ashr
  | "land" => some .land | "lor" => some .lor | _ => none

def parseSign : String → Option Bool
  | "s" => some true | "u" => some false | _ => none

def parseLeaf (t : String) : Option Expr :=
  if t.startsWith "p" then (t.drop 1).toString.toNat?.map Expr.port
  else if t.startsWith "l" then
    match (t.drop 1).toString.splitOn ":" with
    | [w, s, v] =>
      match w.toNat?, parseSign s, parseHex? v with
      | some w, some s, some v => if v < 2 ^ w ∧ 0 < w then some (.lit w s v) else none
      | _, _, _ => none
    | _ => none
  else none

/-- Polish notation; `fuel` bounds the recursion depth (token count suffices). -/
def parseExpr : Nat → List String → Option (Expr × List String)
  | 0, _ => none
  | _, [] => none
  | fuel + 1, t :: rest =>
    match unOpOf t with
    | some op => (parseExpr fuel rest).map fun (a, r) => (.un op a, r)
    | none =>
    match binOpOf t with
    | some op =>
      match parseExpr fuel rest with
      | some (a, r1) => (parseExpr fuel r1).map fun (b, r2) => (.bin op a b, r2)
      | none => none
    | none =>
    if t = "cat" then
      match parseExpr fuel rest with
      | some (a, r1) => (parseExpr fuel r1).map fun (b, r2) => (.cat a b, r2)
      | none => none
    else if t = "ite" then
      match parseExpr fuel rest with
      | some (c, r1) =>
        match parseExpr fuel r1 with
        | some (a, r2) => (parseExpr fuel r2).map fun (b, r3) => (.ite c a b, r3)
        | none => none
      | none => none
    else (parseLeaf t).map fun e => (e, rest)

def parsePort (d v : String) : Option Port :=
  let sg := (d.drop (d.length - 1)).toString
  let w := (d.take (d.length - 1)).toString
  match w.toNat?, parseSign sg, parseHex? v with
  | some w, some s, some v => if 0 < w ∧ v < 2 ^ w then some { width := w, signed := s, value := v } else none
  | _, _, _ => none

/-- every `p<i>` refers to one of the three ports -/
def portsOk : Expr → Bool
  | .port i => i < 3
  | .lit _ _ _ => true
  | .un _ a => portsOk a
  | .bin _ a b => portsOk a && portsOk b
  | .ite c a b => portsOk c && portsOk a && portsOk b
  | .cat a b => portsOk a && portsOk b

def reply (t : List String) : String :=
  match t with
  | ["x", _stratum, wo, p0, p1, p2, v0, v1, v2, e] =>
    match wo.toNat?, parsePort p0 v0, parsePort p1 v1, parsePort p2 v2 with
    | some wo, some q0, some q1, some q2 =>
      let toks := e.splitOn ","
      match parseExpr (toks.length + 1) toks with
      | some (ex, []) =>
        if wo = 0 ∨ !portsOk ex then "bad-op" else
        match assign [q0, q1, q2] wo ex with
        | some v => toHex v
        | none => "div0"
      | _ => "bad-op"
    | _, _, _, _ => "bad-op"
  | _ => "bad-op"

partial def run : IO Unit := do
  let stdin ← IO.getStdin
  let stdout ← IO.getStdout
  let rec loop : IO Unit := do
    let line ← stdin.getLine
    if line.isEmpty then return ()
    stdout.putStrLn (reply (tokens line))
    stdout.flush
    loop
  loop

end VerylModel.Driver.ExprRef
