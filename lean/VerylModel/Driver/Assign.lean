import VerylModel.Core.AssignTable
import VerylModel.Driver.Util
/-!
`vmodel assign`   : the detector (fold of the coded table operations) of M-AssignTable.
`vmodel assignref`: the reference semantics (per-process write summaries, path enumeration).

Request `<op> <vars> <procs>`, op ∈ `M` (multiple assignment) | `U` (uncovered branch) |
`X` (unassigned, module-level rule) | `R` (read before assignment); reply: the variables (hex
indices) carrying the diagnostic. `assignref` answers `?` for `R`.
`vars`  = `[k:w:a,…]`  k ∈ `i`|`o`|`v`, width in hex, a = declared inside an always block.
`procs` = proc (`;` proc)* or `-`:  `k` block (always_comb / assign) | `f` block (always_ff) |
          `i(` outs `|` inputReads `)`,  outs/reads = `var:mask` (`,`-separated, hex)
block   = `{` stmt* `}`
stmt    = `A(` reads `;` dst `,` mask `,` dyn `)` | `I(` condReads `)` block block |
          `C(` condReads `;` exh `)[` block* `]` block
-/
namespace VerylModel.Driver.Assign
open VerylModel.AssignTable VerylModel.Driver

abbrev P (α : Type) := List Char → Option (α × List Char)

def isHex (c : Char) : Bool := ('0' ≤ c ∧ c ≤ '9') || ('a' ≤ c ∧ c ≤ 'f')

def pHex : P Nat := fun s =>
  let ds := s.takeWhile isHex
  if ds.isEmpty then none else
  match parseHex? (String.ofList ds) with
  | some n => some (n, s.dropWhile isHex)
  | none => none

/-- `var:mask` (`,` `var:mask`)*, possibly empty -/
def pReads : Nat → P (List (Nat × Nat))
  | 0, _ => none
  | n + 1, s =>
    match pHex s with
    | some (v, ':' :: r) =>
      match pHex r with
      | some (m, ',' :: r1) =>
        match pReads n r1 with
        | some (rs, r2) => some ((v, m) :: rs, r2)
        | none => none
      | some (m, r1) => some ([(v, m)], r1)
      | none => none
    | some _ => none
    | none => some ([], s)

def pFlag : P Bool := fun s =>
  match s with
  | '0' :: r => some (false, r)
  | '1' :: r => some (true, r)
  | _ => none

mutual
def pStmt : Nat → P Stmt
  | 0, _ => none
  | n + 1, s =>
    match s with
    | 'A' :: '(' :: r =>
      match pReads (n + 1) r with
      | some (rd, ';' :: r1) =>
        match pHex r1 with
        | some (d, ',' :: r2) =>
          match pHex r2 with
          | some (m, ',' :: r3) =>
            match pFlag r3 with
            | some (dy, ')' :: r4) => some (Stmt.assign rd { dst := d, mask := m, dyn := dy }, r4)
            | _ => none
          | _ => none
        | _ => none
      | _ => none
    | 'I' :: '(' :: r =>
      match pReads (n + 1) r with
      | some (rd, ')' :: r1) =>
        match pBlock n r1 with
        | some (t, r2) =>
          match pBlock n r2 with
          | some (e, r3) => some (Stmt.ifs rd t e, r3)
          | none => none
        | none => none
      | _ => none
    | 'C' :: '(' :: r =>
      match pReads (n + 1) r with
      | some (rd, ';' :: r1) =>
        match pFlag r1 with
        | some (exh, ')' :: '[' :: r2) =>
          match pBlocks n r2 with
          | some (arms, ']' :: r3) =>
            match pBlock n r3 with
            | some (d, r4) => some (Stmt.case rd arms d exh, r4)
            | none => none
          | _ => none
        | _ => none
      | _ => none
    | _ => none
def pBlock : Nat → P Block
  | 0, _ => none
  | n + 1, s =>
    match s with
    | '{' :: r => pStmts n r
    | _ => none
def pStmts : Nat → P Block
  | 0, _ => none
  | n + 1, s =>
    match s with
    | '}' :: r => some (Block.nil, r)
    | _ =>
      match pStmt n s with
      | some (st, r1) =>
        match pStmts n r1 with
        | some (b, r2) => some (Block.cons st b, r2)
        | none => none
      | none => none
def pBlocks : Nat → P Blocks
  | 0, _ => none
  | n + 1, s =>
    match s with
    | '{' :: _ =>
      match pBlock n s with
      | some (b, r1) =>
        match pBlocks n r1 with
        | some (bs, r2) => some (Blocks.cons b bs, r2)
        | none => none
      | none => none
    | _ => some (Blocks.nil, s)
end

def pProc (n : Nat) : P Proc := fun s =>
  match s with
  | 'k' :: r =>
    match pBlock n r with
    | some (b, r1) => some (Proc.comb b, r1)
    | none => none
  | 'f' :: r =>
    match pBlock n r with
    | some (b, r1) => some (Proc.ff b, r1)
    | none => none
  | 'i' :: '(' :: r =>
    match pReads n r with
    | some (outs, '|' :: r1) =>
      match pReads n r1 with
      | some (ins, ')' :: r2) => some (Proc.inst outs ins, r2)
      | _ => none
    | _ => none
  | _ => none

def pProcs : Nat → Nat → P (List Proc)
  | 0, _, _ => none
  | k + 1, n, s =>
    match pProc n s with
    | some (p, ';' :: r) =>
      match pProcs k n r with
      | some (ps, r1) => some (p :: ps, r1)
      | none => none
    | some (p, []) => some ([p], [])
    | _ => none

def parseProcs (s : String) : Option (List Proc) :=
  if s = "-" then some [] else
  let cs := s.toList
  match pProcs (cs.length + 1) (cs.length + 1) cs with
  | some (ps, []) => some ps
  | _ => none

def parseVar (s : String) : Option VarInfo :=
  match s.splitOn ":" with
  | [k, w, a] =>
    let kind := if k = "i" then some VarKind.input else if k = "o" then some VarKind.output
      else if k = "v" then some VarKind.variable else none
    let always := if a = "0" then some false else if a = "1" then some true else none
    match kind, parseHex? w, always with
    | some kind, some w, some always => some { width := w, kind := kind, always := always }
    | _, _, _ => none
  | _ => none

def parseVars (s : String) : Option (List VarInfo) :=
  (parseList s).foldr (fun x acc => match parseVar x, acc with
    | some d, some l => some (d :: l)
    | _, _ => none) (some [])

def indexed {α : Type} (l : List α) : List (Nat × α) :=
  (List.range l.length).zip l

def showVars (l : List Nat) : String := showList (l.map toHex)

def detector (op : String) (vars : List VarInfo) (procs : List Proc) : Option String :=
  let pick (f : Verdict → Bool) :=
    showVars ((indexed vars).filterMap (fun (v, info) => if f (verdict info v procs) then some v else none))
  if op = "M" then some (pick (·.multi))
  else if op = "U" then some (pick (·.uncovered))
  else if op = "X" then some (pick (·.unassigned))
  else if op = "R" then some (pick (·.readBefore))
  else none

def reference (op : String) (vars : List VarInfo) (procs : List Proc) : Option String :=
  let pick (f : Nat → VarInfo → Bool) :=
    showVars ((indexed vars).filterMap (fun (v, info) => if f v info then some v else none))
  if op = "M" then some (pick (fun v _ => refMulti v procs))
  else if op = "U" then some (pick (fun v info => !info.always && procs.any (fun p => match p with
    | Proc.comb body => refUncovered v body
    | _ => false)))
  else if op = "X" then some (pick (fun v info => refUnassigned info v procs))
  else if op = "R" then some "?"
  else none

def stepWith (f : String → List VarInfo → List Proc → Option String) (s : Unit) (t : List String) :
    Unit × String :=
  match t with
  | [op, varsS, procsS] =>
    match parseVars varsS, parseProcs procsS with
    | some vars, some procs =>
      match f op vars procs with
      | some r => (s, r)
      | none => (s, "bad-op")
    | _, _ => (s, "bad-op")
  | _ => (s, "bad-op")

def run : IO Unit := runLines () (stepWith detector)
def runRef : IO Unit := runLines () (stepWith reference)

end VerylModel.Driver.Assign
