import VerylModel.Core.Words
import VerylModel.Driver.Util
/-! `vmodel words`: values crossing the host/component boundary (M-Words). -/
namespace VerylModel.Driver.Words
open VerylModel.Svlv VerylModel.Words VerylModel.Driver

def parseNats? (s : String) : Option (List Nat) :=
  if ¬ (s.startsWith "[" ∧ s.endsWith "]") then none else
  (parseList s).foldr (fun x acc => match parseHex? x, acc with
    | some w, some l => if w < Words.two64 then some (w :: l) else none
    | _, _ => none) (some [])

def showNats (ws : List Nat) : String := showList (ws.map toHex)

def showVal (v : Val) : String :=
  let arm := match v.repr with | .u64 => "u" | .big => "b"
  s!"{arm} {toHex v.width} {toHex v.payload} {toHex v.mask}"

def parseVal? (arm w p m : String) : Option Val :=
  match parseHex? w, parseHex? p, parseHex? m with
  | some w, some p, some m =>
    match arm with
    | "u" => if p < Words.two64 ∧ m < Words.two64 then some ⟨.u64, p, m, w⟩ else none
    | "b" => some ⟨.big, p, m, w⟩
    | _ => none
  | _, _, _ => none

/-- `port`: stage into an input port, let the echo component read and write back (native
transport) with the accessor pair selected by `mode`:
0 = `read`/`write`, 1 = `read_u64`/`write_u64`, 2 = `read_words`/`write_words`. -/
def portEcho (width : Nat) (four : Bool) (mode : Nat) (words mask : List Nat) : String :=
  let p := newPort width
  let staged := if four then setInputMasked p words mask else setInput p words
  let n := wordsFor width
  let fin (seen : List Nat × List Nat) (q : Option Port) : String :=
    match q with
    | none => "panic"
    | some q => s!"seen={showNats seen.1}/{showNats seen.2} out={showNats q.words} dirty={if q.dirty then 1 else 0}"
  match staged with
  | none => "panic"
  | some p1 =>
    match mode with
    | 0 =>
      -- `SimCtx::read`: the mask buffer is only requested under four-state
      let rd := nativeReadInput p1 four
      let seen := fromBits rd.1 (rd.2.getD []) width
      let outW := toPortWords seen.1 width
      let outM := if four then some (toPortWords seen.2 width) else none
      fin seen (nativeWriteOutput (newPort width) outW outM)
    | 1 =>
      if width > 64 then "panic" else
      let v := readU64 p1
      fin ([v], [0]) (writeU64 (newPort width) v)
    | 2 =>
      let ws := readWords p1
      fin (ws, List.replicate n 0) (writeWords (newPort width) ws)
    | _ => "bad-op"

def step (_ : Unit) (t : List String) : Unit × String :=
  ((), match t with
  | ["v2w", arm, w, p] =>
    match parseVal? arm w p "0" with
    | some v => showNats (valueToWords v (wordsFor v.width)) ++ " w=" ++ toHex v.width
    | none => "bad-op"
  | ["w2v", w, ws] =>
    match parseHex? w, parseNats? ws with
    | some w, some ws => showVal (wordsToValueMasked ws [] w)
    | _, _ => "bad-op"
  | ["frombits", w, ws, ms] =>
    match parseHex? w, parseNats? ws, parseNats? ms with
    | some w, some ws, some ms =>
      let r := fromBits ws ms w
      showNats r.1 ++ " " ++ showNats r.2
    | _, _, _ => "bad-op"
  | ["port", w, four, mode, ws, ms] =>
    match parseHex? w, parseHex? mode, parseNats? ws, parseNats? ms with
    | some w, some mode, some ws, some ms =>
      if mode > 2 then "bad-op"
      else if four = "1" then portEcho w true mode ws ms
      else if four = "0" then portEcho w false mode ws ms
      else "bad-op"
    | _, _, _, _ => "bad-op"
  | _ => "bad-op")

def run : IO Unit := runLines () step

end VerylModel.Driver.Words
