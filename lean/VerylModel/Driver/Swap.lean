import VerylModel.Core.Swap
import VerylModel.Driver.Util
/-!
`vmodel swap` (C33).  Requests (numbers decimal in this domain):

* `sched k=<K|never> passes=<p> comb=<0|1> evc=<0|1> evr=<0|1> nd=<n> ops=<string over n s g c r>`
  → `att=[a0,a1,…] deg=<c><e>`: the dispatch-attempt counter after every API call and the two
  residency fall-back flags, computed by `VerylModel.Swap.opStep` with `hookGate`;
* `state <label> k=<K> ff=<eq|diff> loc=[off+len,…] diff=[off+len,…]` → `eq` / `diff`:
  `VerylModel.Swap.stateEqv` (equality outside the localised comb bytes);
* `case …`, `trace …` → `?` (oracle-only lines).
-/
namespace VerylModel.Driver.Swap
open VerylModel.Swap VerylModel.Driver

def kv (t : List String) (key : String) : Option String :=
  t.findSome? (fun x => if x.startsWith (key ++ "=") then some (x.drop (key.length + 1)).toString else none)

def parseOps (s : String) : Option (List Op) :=
  s.toList.foldr (fun ch acc => match acc, ch with
    | some l, 'n' => some (Op.new :: l)
    | some l, 's' => some (Op.set 0 :: l)
    | some l, 'g' => some (Op.get :: l)
    | some l, 'c' => some (Op.step :: l)
    | some l, 'r' => some (Op.stepReset :: l)
    | _, _ => none) (some [])

def parseBool : String → Option Bool
  | "0" => some false
  | "1" => some true
  | _ => none

/-- `[a+b,c+d]` -/
def parseRanges (s : String) : Option (List (Nat × Nat)) :=
  (parseList s).foldr (fun x acc => match acc, x.splitOn "+" with
    | some l, [a, b] => match a.toNat?, b.toNat? with
      | some a, some b => some ((a, b) :: l)
      | _, _ => none
    | _, _ => none) (some [])

def sched (t : List String) : String :=
  match kv t "k", (kv t "passes").bind String.toNat?, (kv t "comb").bind parseBool,
        (kv t "evc").bind parseBool, (kv t "evr").bind parseBool, (kv t "nd").bind String.toNat?,
        (kv t "ops").bind parseOps with
  | some k, some passes, some comb, some evc, some evr, some nd, some ops =>
    let k? : Option (Option Nat) := if k = "never" then some none else (k.toNat?).map some
    match k? with
    | none => "bad-op"
    | some k =>
      if nd ≠ 0 then "unsupported" else
      let c : Cfg := { passes := passes, comb := comb, ev := fun e => if e = 0 then evc else evr }
      let ds := dispRun (hookGate k) c ops {}
      let last : DSt := ds.getLast?.getD {}
      let b (x : Bool) := if x then "1" else "0"
      s!"att={showList (ds.map (fun d => toString d.att))} deg={b last.fbComb}{b last.fbEv}"
  | _, _, _, _, _, _, _ => "bad-op"

def state (t : List String) : String :=
  match kv t "ff", (kv t "loc").bind parseRanges, (kv t "diff").bind parseRanges with
  | some ff, some loc, some diff =>
    if ff ≠ "eq" ∧ ff ≠ "diff" then "bad-op"
    else if stateEqv (ff == "eq") loc diff then "eq" else "diff"
  | _, _, _ => "bad-op"

def step (_ : Unit) (t : List String) : Unit × String :=
  match t with
  | "sched" :: rest => ((), sched rest)
  | "state" :: rest => ((), state rest)
  | "case" :: _ => ((), "?")
  | "trace" :: _ => ((), "?")
  | _ => ((), "bad-op")

def run : IO Unit := runLines () step

end VerylModel.Driver.Swap
