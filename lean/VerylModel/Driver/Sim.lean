import VerylModel.Core.Sim
import VerylModel.Lemmas.SimAcyclic
import VerylModel.Driver.Util
/-! `vmodel sim`: `e S<k> <vars> <decls> <stim>` (format: harness/src/dom_engines.rs) →
`r2=<trace> r4=<trace>`: `Sim.run` in the 2-state domain (values hex, `dc` = don't care) and in
the 4-state domain (`payload[.mask]`). `assign` declarations that drive parts of one variable are
merged into one combinational unit. With an X/Z stimulus only `r4` is printed. `wf=1`: the
combinational part passes `checkDesign` (the hypothesis of `Props/C02.settle_order_indep`) with the
variable ranking computed here. Replies are
flushed per line (the harness asks interactively while shrinking). -/
namespace VerylModel.Driver.Sim
open VerylModel.ExprRef VerylModel.Sim VerylModel.Driver

structure VarDecl where
  kind : Char
  width : Nat
  signed : Bool

def unOpOf : String → Option UnOp
  | "pos" => some .plus | "neg" => some .neg | "not" => some .bnot | "lnot" => some .lnot
  | "rand" => some .rand | "ror" => some .ror | "rxor" => some .rxor | "rnand" => some .rnand
  | "rnor" => some .rnor | "rxnor" => some .rxnor | _ => none

def binOpOf : String → Option BinOp
  | "add" => some .add | "sub" => some .sub | "mul" => some .mul | "div" => some .div | "mod" => some .mod
  | "and" => some .band | "or" => some .bor | "xor" => some .bxor | "xnor" => some .bxnor
  | "eq" => some .eq | "ne" => some .ne | "lt" => some .lt | "le" => some .le | "gt" => some .gt | "ge" => some .ge
  | "shl" => some .shl | "shr" => some .shr | "ashl" => some .ashl | "ashr" => some .ashr
  | "land" => some .land | "lor" => some .lor | _ => none

def parseSign : String → Option Bool
  | "s" => some true | "u" => some false | _ => none

def parseVar (t : String) : Option VarDecl :=
  let k := t.toList.headD ' '
  let sg := (t.drop (t.length - 1)).toString
  let w := ((t.drop 1).toString.dropEnd 1).toString
  if k ∈ ['x', 'y', 'q', 'w', 'r', 'l'] then
    match w.toNat?, parseSign sg with
    | some w, some s => if 0 < w ∧ w ≤ 4096 then some { kind := k, width := w, signed := s } else none
    | _, _ => none
  else none

/-- a leaf token; returns the expression and the extended leaf table -/
def parseLeaf (vars : List VarDecl) (t : String) (ls : List Leaf) : Option (Expr × List Leaf) :=
  if t.startsWith "v" then
    match (t.drop 1).toString.toNat? with
    | some i =>
      match vars[i]? with
      | some d => some (.port ls.length, ls ++ [{ var := i, lo := 0, width := d.width, signed := d.signed }])
      | none => none
    | none => none
  else if t.startsWith "s" then
    match (t.drop 1).toString.splitOn ":" with
    | [i, lo, w] =>
      match i.toNat?, lo.toNat?, w.toNat? with
      | some i, some lo, some w =>
        match vars[i]? with
        | some d => if 0 < w ∧ lo + w ≤ d.width then some (.port ls.length, ls ++ [{ var := i, lo := lo, width := w, signed := false }]) else none
        | none => none
      | _, _, _ => none
    | _ => none
  else if t.startsWith "l" then
    match (t.drop 1).toString.splitOn ":" with
    | [w, s, v] =>
      match w.toNat?, parseSign s, parseHex? v with
      | some w, some s, some v => if v < 2 ^ w ∧ 0 < w then some (.lit w s v, ls) else none
      | _, _, _ => none
    | _ => none
  else none

def parseExpr (vars : List VarDecl) : Nat → List String → List Leaf → Option (Expr × List String × List Leaf)
  | 0, _, _ => none
  | _, [], _ => none
  | fuel + 1, t :: rest, ls =>
    match unOpOf t with
    | some op => (parseExpr vars fuel rest ls).map fun (a, r, l) => (.un op a, r, l)
    | none =>
    match binOpOf t with
    | some op =>
      match parseExpr vars fuel rest ls with
      | some (a, r1, l1) => (parseExpr vars fuel r1 l1).map fun (b, r2, l2) => (.bin op a b, r2, l2)
      | none => none
    | none =>
    if t = "cat" then
      match parseExpr vars fuel rest ls with
      | some (a, r1, l1) => (parseExpr vars fuel r1 l1).map fun (b, r2, l2) => (.cat a b, r2, l2)
      | none => none
    else if t = "ite" then
      match parseExpr vars fuel rest ls with
      | some (c, r1, l1) =>
        match parseExpr vars fuel r1 l1 with
        | some (a, r2, l2) => (parseExpr vars fuel r2 l2).map fun (b, r3, l3) => (.ite c a b, r3, l3)
        | none => none
      | none => none
    else (parseLeaf vars t ls).map fun (e, l) => (e, rest, l)

def parseRhs (vars : List VarDecl) (toks : List String) : Option (Rhs × List String) :=
  (parseExpr vars (toks.length + 1) toks []).map fun (e, r, l) => ({ leaves := l, body := e }, r)

def parseLhs (vars : List VarDecl) : List String → Option (Lhs × List String)
  | v :: lo :: w :: rest =>
    match v.toNat?, lo.toNat?, w.toNat? with
    | some v, some lo, some w =>
      match vars[v]? with
      | some d =>
        if 0 < w ∧ lo + w ≤ d.width then some ({ var := v, lo := lo, width := w, full := lo == 0 && w == d.width }, rest) else none
      | none => none
    | _, _, _ => none
  | _ => none

def parseRhsList (vars : List VarDecl) : Nat → List String → Option (List Rhs × List String)
  | 0, toks => some ([], toks)
  | n + 1, toks =>
    match parseRhs vars toks with
    | some (r, rest) => (parseRhsList vars n rest).map fun (rs, rest') => (r :: rs, rest')
    | none => none

mutual
def parseStmt (vars : List VarDecl) : Nat → List String → Option (Stmt × List String)
  | 0, _ => none
  | _, [] => none
  | fuel + 1, t :: rest =>
    if t = "set" then
      match parseLhs vars rest with
      | some (l, r1) => (parseRhs vars r1).map fun (r, r2) => (.set l r, r2)
      | none => none
    else if t = "setd" then
      -- `setd,<var>,<w>,<index expr>,<expr>`: var[idx*w +: w] = expr
      match rest with
      | v :: w :: r0 =>
        match v.toNat?, w.toNat? with
        | some v, some w =>
          match vars[v]? with
          | some d =>
            if 0 < w ∧ w ≤ d.width then
              match parseRhs vars r0 with
              | some (idx, r1) => (parseRhs vars r1).map fun (r, r2) => (.setDyn v d.width w idx r, r2)
              | none => none
            else none
          | none => none
        | _, _ => none
      | _ => none
    else if t = "if" then
      match parseRhs vars rest with
      | some (c, r1) =>
        match parseCounted vars fuel r1 with
        | some (a, r2) => (parseCounted vars fuel r2).map fun (b, r3) => (.ite c a b, r3)
        | none => none
      | none => none
    else if t = "case" then
      match parseRhs vars rest with
      | some (sel, n :: r1) =>
        match n.toNat? with
        | some n =>
          match parseArms vars fuel n r1 with
          | some (arms, r2) => (parseCounted vars fuel r2).map fun (d, r3) => (.case sel arms d, r3)
          | none => none
        | none => none
      | _ => none
    else if t = "disp" then
      match rest with
      | id :: n :: r1 =>
        match id.toNat?, n.toNat? with
        | some id, some n => (parseRhsList vars n r1).map fun (args, r2) => (.disp id args, r2)
        | _, _ => none
      | _ => none
    else none
/-- `<n>,<stmt>*n` -/
def parseCounted (vars : List VarDecl) : Nat → List String → Option (Stmts × List String)
  | 0, _ => none
  | _, [] => none
  | fuel + 1, n :: rest =>
    match n.toNat? with
    | some n => parseN vars fuel n rest
    | none => none
def parseN (vars : List VarDecl) : Nat → Nat → List String → Option (Stmts × List String)
  | 0, _, _ => none
  | _, 0, toks => some (.nil, toks)
  | fuel + 1, n + 1, toks =>
    match parseStmt vars fuel toks with
    | some (s, rest) => (parseN vars fuel n rest).map fun (ss, rest') => (.cons s ss, rest')
    | none => none
def parseArms (vars : List VarDecl) : Nat → Nat → List String → Option (Arms × List String)
  | 0, _, _ => none
  | _, 0, toks => some (.nil, toks)
  | fuel + 1, n + 1, toks =>
    -- the label is a literal `l<w>:u:<hex>`
    match toks with
    | l :: r0 =>
      match parseLeaf vars l [] with
      | some (.lit lw _ lv, _) =>
        match parseCounted vars fuel r0 with
        | some (b, r1) => (parseArms vars fuel n r1).map fun (arms, r2) => (.cons lw lv b arms, r2)
        | none => none
      | _ => none
    | [] => none
end

/-- a parsed declaration: `assign` keeps its target so that parts of one variable can be merged -/
inductive PDecl where
  | assign (l : Lhs) (r : Rhs)
  | other (d : Decl)

def parseDecls (vars : List VarDecl) : Nat → List String → Option (List PDecl)
  | 0, _ => none
  | _, [] => some []
  | fuel + 1, t :: rest =>
    if t = "assign" then
      match parseLhs vars rest with
      | some (l, r1) =>
        match parseRhs vars r1 with
        | some (r, r2) => (parseDecls vars fuel r2).map fun ds => PDecl.assign l r :: ds
        | none => none
      | none => none
    else if t = "comb" then
      match parseCounted vars (rest.length + 1) rest with
      | some (b, r1) => (parseDecls vars fuel r1).map fun ds => PDecl.other (.comb b) :: ds
      | none => none
    else if t = "ff" then
      match rest with
      | h :: r0 =>
        match parseCounted vars (r0.length + 1) r0 with
        | some (rs, r1) =>
          match parseCounted vars (r1.length + 1) r1 with
          | some (b, r2) =>
            if h = "0" ∨ h = "1" then (parseDecls vars fuel r2).map fun ds => PDecl.other (.ff (h == "1") rs b) :: ds else none
          | none => none
        | none => none
      | [] => none
    else none

def stmtsOfList : List Stmt → Stmts
  | [] => .nil
  | s :: ss => .cons s (stmtsOfList ss)

/-- all `assign`s on variable `v`, in order -/
def assignsOn (v : Nat) : List PDecl → List Stmt
  | [] => []
  | .assign l r :: ds => if l.var = v then .set l r :: assignsOn v ds else assignsOn v ds
  | .other _ :: ds => assignsOn v ds

/-- merge the `assign`s per target variable (placed at the first one) -/
def mergeDecls (all : List PDecl) : List PDecl → List Nat → List Decl
  | [], _ => []
  | .other d :: ds, seen => d :: mergeDecls all ds seen
  | .assign l _ :: ds, seen =>
    if l.var ∈ seen then mergeDecls all ds seen
    else .comb (stmtsOfList (assignsOn l.var all)) :: mergeDecls all ds (l.var :: seen)

def indicesOf (vars : List VarDecl) (p : Char → Bool) : List Nat :=
  (List.range vars.length).filter fun i => match vars[i]? with | some d => p d.kind | none => false

/-- `p` or `p.m` -/
def parseVal (t : String) (w : Nat) : Option (Nat × Nat) :=
  match t.splitOn "." with
  | [p] => (parseHex? p).bind fun p => if p < 2 ^ w then some (p, 0) else none
  | [p, m] =>
    match parseHex? p, parseHex? m with
    | some p, some m => if p < 2 ^ w ∧ m < 2 ^ w then some (p, m) else none
    | _, _ => none
  | _ => none

def parseVals : List String → List Nat → Option (List (Nat × Nat))
  | [], [] => some []
  | t :: ts, w :: ws =>
    match parseVal t w, parseVals ts ws with
    | some v, some vs => some (v :: vs)
    | _, _ => none
  | _, _ => none

def parseCycle (t : String) (widths : List Nat) : Option (Bool × List (Nat × Nat)) :=
  match t.splitOn ":" with
  | k :: vals =>
    if k = "r" ∨ k = "s" then (parseVals vals widths).map fun vs => (k == "r", vs) else none
  | [] => none

def parseCycles : List String → List Nat → Option (List (Bool × List (Nat × Nat)))
  | [], _ => some []
  | t :: ts, ws =>
    match parseCycle t ws, parseCycles ts ws with
    | some c, some cs => some (c :: cs)
    | _, _ => none

def parseVars : List String → Option (List VarDecl)
  | [] => some []
  | t :: ts =>
    match parseVar t, parseVars ts with
    | some v, some vs => some (v :: vs)
    | _, _ => none

/-! ### printing -/

def padHex (w v : Nat) : String :=
  let d := Nat.toDigits 16 v
  let n := (w + 3) / 4
  String.ofList (List.replicate (n - d.length) '0' ++ d)

/-- hex digits of a 4-state value; a digit with an X/Z bit prints `x` -/
def padHex4 (w : Nat) (x : Nat × Nat) : String :=
  let n := (w + 3) / 4
  String.ofList ((List.range n).reverse.map fun k =>
    if (x.2 / 16 ^ k) % 16 ≠ 0 then 'x' else (Nat.toDigits 16 ((x.1 / 16 ^ k) % 16)).headD '0')

def show2 : Option Nat → String
  | some v => toHex v
  | none => "dc"

def show4 (x : Nat × Nat) : String := if x.2 = 0 then toHex x.1 else toHex x.1 ++ "." ++ toHex x.2

def dispLine2 (id : Nat) (args : List (Nat × Option Nat)) : Option String :=
  args.foldl (fun acc a => match acc, a.2 with
    | some s, some v => some (s ++ "_" ++ padHex a.1 v)
    | _, _ => none) (some ("d" ++ toString id))

/-- the `$display` text of one cycle; `dc` if any record is a don't-care -/
def disp2 : List (Ev (Option Nat)) → Option String
  | [] => some ""
  | .disp id args :: rest =>
    match dispLine2 id args, disp2 rest with
    | some l, some r => some (l ++ ";" ++ r)
    | _, _ => none
  | .dispDc :: _ => none
  | _ :: rest => disp2 rest

def disp4 : List (Ev (Nat × Nat)) → String
  | [] => ""
  | .disp id args :: rest =>
    args.foldl (fun s a => s ++ "_" ++ padHex4 a.1 a.2) ("d" ++ toString id) ++ ";" ++ disp4 rest
  | .dispDc :: rest => "dx;" ++ disp4 rest
  | _ :: rest => disp4 rest

def cycle2 (c : List (Option Nat) × List (Ev (Option Nat))) : String :=
  let vals := ":".intercalate (c.1.map show2)
  match disp2 c.2 with
  | some "" => vals
  | some d => vals ++ "~" ++ d
  | none => vals ++ "~dc"

def cycle4 (c : List (Nat × Nat) × List (Ev (Nat × Nat))) : String :=
  let vals := ":".intercalate (c.1.map show4)
  let d := disp4 c.2
  if d = "" then vals else vals ++ "~" ++ d

/-- one relaxation round of the variable ranking: a unit is ranked above every driven variable it reads -/
def rankRound (bs : List Stmts) (all : List Nat) (vr : List Nat) : List Nat :=
  bs.foldl (fun vr b =>
    let r := (extReads b).foldl (fun acc x => if all.contains x then max acc (vr.getD x 0 + 1) else acc) 0
    (targetsSs b).foldl (fun vr w => vr.set w r) vr) vr

def computeRanks (bs : List Stmts) (nvars : Nat) : List Nat :=
  (List.range bs.length).foldl (fun vr _ => rankRound bs (allTargets bs) vr) (List.replicate nvars 0)

/-- does any variable (observed or not) carry an X/Z bit after some step? -/
def anyX4 (dsg : Design) : List (Nat × Nat) → List (Bool × List (Nat × Nat)) → Bool
  | _, [] => false
  | tbl, (reset, ins) :: rest =>
    let r := step D4 dsg tbl reset ins
    r.1.any (fun v => v.2 != 0) || anyX4 dsg r.1 rest

def reply (t : List String) : String :=
  match t with
  | ["e", _stratum, vs, ds, st] =>
    match parseVars (vs.splitOn ",") with
    | some vars =>
      let toks := if ds = "none" then [] else ds.splitOn ","
      match parseDecls vars (toks.length + 1) toks with
      | some pds =>
        let ins := indicesOf vars (· == 'x')
        let widths := ins.map fun i => match vars[i]? with | some d => d.width | none => 1
        match parseCycles (st.splitOn "/") widths with
        | some cycles =>
          let dsg : Design := { nvars := vars.length, inputs := ins,
                                observed := indicesOf vars (fun k => k == 'y' || k == 'q'), decls := mergeDecls pds pds [] }
          let xstim := cycles.any fun c => c.2.any fun v => v.2 ≠ 0
          let init4 : List (Nat × Nat) := vars.map fun d => (0, 2 ^ d.width - 1)
          let r4 := "/".intercalate ((run D4 dsg init4 cycles).map cycle4)
          let bs := bodiesOf dsg.decls
          let wf := (if checkDesign bs (computeRanks bs vars.length) then " wf=1" else " wf=0") ++
            (if anyX4 dsg init4 cycles then " x4=1" else " x4=0")
          if xstim then "r4=" ++ r4 ++ wf
          else
            let c2 : List (Bool × List (Option Nat)) := cycles.map fun c => (c.1, c.2.map fun v => some v.1)
            let init2 : List (Option Nat) := vars.map fun _ => some 0
            let r2 := "/".intercalate ((run D2 dsg init2 c2).map cycle2)
            "r2=" ++ r2 ++ " r4=" ++ r4 ++ wf
        | none => "bad-op"
      | none => "bad-op"
    | none => "bad-op"
  | _ => "bad-op"

partial def run : IO Unit := do
  let stdin ← IO.getStdin
  let stdout ← IO.getStdout
  let rec loop : IO Unit := do
    let line ← stdin.getLine
    if line.isEmpty then return ()
    stdout.putStrLn (reply (tokens line))
    stdout.flush
    loop
  loop

end VerylModel.Driver.Sim
