import VerylModel.Core.Svlv
import VerylModel.Driver.Util
/-! `vmodel svlv`: the svLogicVecVal conversions and the per-bit waveform characters of M-Svlv. -/
namespace VerylModel.Driver.Svlv
open VerylModel.Svlv VerylModel.Driver

def showWord (w : Word) : String := toHex w.aval ++ ":" ++ toHex w.bval

def parseWord? (s : String) : Option Word :=
  match s.splitOn ":" with
  | [a, b] =>
    match parseHex? a, parseHex? b with
    | some a, some b => if a < two32 ∧ b < two32 then some ⟨a, b⟩ else none
    | _, _ => none
  | _ => none

def parseWords? (s : String) : Option (List Word) :=
  if ¬ (s.startsWith "[" ∧ s.endsWith "]") then none else
  (parseList s).foldr (fun x acc => match parseWord? x, acc with
    | some w, some l => some (w :: l)
    | _, _ => none) (some [])

def showVal (v : Val) : String :=
  let arm := match v.repr with | .u64 => "u" | .big => "b"
  s!"{arm} {toHex v.width} {toHex v.payload} {toHex v.mask}"

def parseVal? (arm w p m : String) : Option Val :=
  match parseHex? w, parseHex? p, parseHex? m with
  | some w, some p, some m =>
    match arm with
    | "u" => if p < two64 ∧ m < two64 then some ⟨.u64, p, m, w⟩ else none
    | "b" => some ⟨.big, p, m, w⟩
    | "n" => if w ≤ 64 ∧ ¬ (p < two64 ∧ m < two64) then none else some (mkVal p m w)
    | _ => none
  | _, _, _ => none

def showBits (bs : List Bit4) : String :=
  if bs.isEmpty then "-" else String.ofList (bs.map Bit4.toChar)

def step (_ : Unit) (t : List String) : Unit × String :=
  ((), match t with
  | ["to", arm, w, p, m] =>
    match parseVal? arm w p m with
    | some v => showList ((toWords v).map showWord)
    | none => "bad-op"
  | ["from", ws] =>
    match parseWords? ws with
    | some ws => showVal (fromWords ws)
    | none => "bad-op"
  | ["rt", arm, w, p, m] =>
    match parseVal? arm w p m with
    | some v => showVal (fromWords (toWords v))
    | none => "bad-op"
  | ["win", arm, w, p, m] =>
    match parseVal? arm w p m with
    | some v => showList ((cosimWindow (toWords v)).map showWord)
    | none => "bad-op"
  | ["cosim", w, four, ws] =>
    -- cosim_set: From<&[SvLogicVecVal]> (128 bits), Simulator::set truncates to the port width;
    -- `assign b = a`; cosim_get: From<&Value> for Vec<SvLogicVecVal>, four-word window.
    -- A two-state simulation stores no mask.
    match parseHex? w, parseWords? ws with
    | some w, some ws =>
      if ws.length ≠ 4 ∨ (four ≠ "0" ∧ four ≠ "1") then "bad-op" else
      let v := fromWords ws
      let m := if four = "1" then v.mask else 0
      showList ((cosimWindow (toWords (mkVal (v.payload % 2 ^ w) (m % 2 ^ w) w))).map showWord)
    | _, _ => "bad-op"
  | ["vcd", arm, w, p, m] =>
    match parseVal? arm w p m with
    | some v => showBits (vcdBits v)
    | none => "bad-op"
  | _ => "bad-op")

def run : IO Unit := runLines () step

end VerylModel.Driver.Svlv
