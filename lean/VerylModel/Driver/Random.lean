import VerylModel.Core.Random
import VerylModel.Gen.Fnv
import VerylModel.Driver.Util
/-! `vmodel random`: `random_table` (`reset`, `seed_handle`, `get_seed_handle`, `get`, `get_range`).
The RNG is external: each draw request carries the value the harness's replica generator produced
for the bounds computed by the harness's own oracle; the model applies it as its sampler and
answers `bad-sample` if that value is not inside the bounds the *model* computes. -/
namespace VerylModel.Driver.Random
open VerylModel.Random VerylModel.Driver

structure St where
  base : Nat := 0
  seeds : List (String × Nat) := []

def parseBytes? (s : String) : Option (List Nat) :=
  if s = "-" then some [] else
  let cs := s.toList
  if cs.length % 2 ≠ 0 then none else
  let rec go : List Char → Option (List Nat)
    | a :: b :: rest =>
      match hexDigit? a, hexDigit? b, go rest with
      | some x, some y, some l => some ((x * 16 + y) :: l)
      | _, _, _ => none
    | [] => some []
    | [_] => none
  go cs

def seedOf (s : St) (name : String) : Option (St × Nat) :=
  match s.seeds.lookup name with
  | some x => some (s, x)
  | none =>
    match parseBytes? name with
    | some bytes =>
      let x := deriveSeed VerylModel.Gen.fnvOffsetDerive VerylModel.Gen.fnvPrimeDerive s.base bytes
      some ({ s with seeds := (name, x) :: s.seeds }, x)
    | none => none

def parseBool? (s : String) : Option Bool :=
  if s = "0" then some false else if s = "1" then some true else none

def showValue (raw width : Nat) (signed : Bool) : String :=
  s!"p={toHex raw} w={toHex width} s={if signed then 1 else 0}"

def step (s : St) (t : List String) : St × String :=
  match t with
  | ["reset"] => ({}, "ok")
  | ["base", b] =>
    match parseHex? b with
    | some b => if b < two64 then ({ base := b, seeds := [] }, "ok") else (s, "bad-op")
    | none => (s, "bad-op")
  | ["setseed", name, x] =>
    match parseHex? x, parseBytes? name with
    | some x, some _ =>
      if x < two64 then ({ s with seeds := (name, x) :: s.seeds.filter (fun p => p.1 ≠ name) }, "ok") else (s, "bad-op")
    | _, _ => (s, "bad-op")
  | ["seedof", name] =>
    match seedOf s name with
    | some (s', x) => (s', toHex x)
    | none => (s, "bad-op")
  | ["par", b, name, k] =>
    match parseHex? b, parseBytes? name, parseHex? k with
    | some b, some _, some _ => if b < two64 then ({ base := b, seeds := [] }, "same") else (s, "bad-op")
    | _, _, _ => (s, "bad-op")
  | ["get", name, w, sg, smp] =>
    match seedOf s name, parseHex? w, parseBool? sg, parseHex? smp with
    | some (s', _), some w, some sg, some smp =>
      if smp ≥ two64 then (s, "bad-op") else
      if smp ≤ mask w then (s', showValue (get (fun _ _ => smp) w) w sg) else (s', "bad-sample")
    | _, _, _, _ => (s, "bad-op")
  | ["range", name, w, sg, mn, mx, smp] =>
    match seedOf s name, parseHex? w, parseBool? sg, parseHex? mn, parseHex? mx, parseHex? smp with
    | some (s', _), some w, some sg, some mn, some mx, some smp =>
      if mn ≥ two64 ∨ mx ≥ two64 ∨ smp ≥ two64 then (s, "bad-op") else
      let b := rangeBounds mn mx w sg
      let si : Int := if sg then asI64 smp else (smp : Int)
      if b.1 ≤ si ∧ si ≤ b.2 then
        (s', showValue (getRange (fun _ _ => smp) (fun _ _ => si) mn mx w sg) w sg)
      else (s', "bad-sample")
    | _, _, _, _, _, _ => (s, "bad-op")
  | _ => (s, "bad-op")

def run : IO Unit := runLines ({} : St) step

end VerylModel.Driver.Random
