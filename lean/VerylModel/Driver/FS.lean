import VerylModel.Core.FS
import VerylModel.Driver.Util
/-! `vmodel fs`: trace inclusion for C30.  The check abstracts an `strace` of one real process to
M-FS trace events and streams them here; the acceptor `Mon.step` of `Core/FS.lean` says whether the
word is a word of the modelled process programs.

Requests (one per line, decimal numbers):
* `begin cli|ls <prj>`              → `ok`
* one event                          → `ok` | `bad` (first event that does not fit) | `skip` (after a `bad`)
  - `mk:<cls>:<prj>:<idx>`  mkdir          - `lk:<lock>` / `ul:<lock>`  flock EX / UN (or close)
  - `tl:<lock>:<0|1>`       try-lock       - `tr:<cls>:<prj>:<idx>`     open O_TRUNC
  - `wr:<cls>:<prj>:<idx>`  write          - `tc:<t>:<dircls>:<prj>`    temp file created (O_EXCL)
  - `tw:<t>`                write to temp  - `rn:<t>:<cls>:<prj>:<idx>` rename temp → path
  - `rd:<cls>:<prj>:<idx>`  open for read  - `un:<cls>:<prj>:<idx>`     unlink
  - `ex:<cls>:<prj>:<idx>:<0|1>` existence test
  locks: `build.<prj>` `cache.<prj>` `cacheLs.<prj>` `std` `deps` `resolve`
* `end`                              → `ok` | `bad-end` (locks or temp files left over)
* `model <name>`                     → `ok <n>` if all `n` words of the named model program are
                                        accepted, else `bad <word index> <event index>`
-/
namespace VerylModel.Driver.FS
open VerylModel.FS VerylModel.Driver

def cls? : String → Option Cls
  | "src" => some .src | "toml" => some .toml | "lockfile" => some .lockfile
  | "dotBuild" => some .dotBuild | "info" => some .info | "out" => some .out
  | "cacheDir" => some .cacheDir | "manifest" => some .manifest | "frag" => some .frag
  | "lsCacheDir" => some .lsCacheDir | "lsManifest" => some .lsManifest | "lsFrag" => some .lsFrag
  | "stdDir" => some .stdDir | "stdFile" => some .stdFile | "depsDir" => some .depsDir
  | "depDir" => some .depDir | "depFile" => some .depFile | "other" => some .other
  | "resDir" => some .resDir | "resFile" => some .resFile
  | _ => none

def lock? (s : String) : Option LockId :=
  match s.splitOn "." with
  | ["build", j] => j.toNat?.map .build
  | ["cache", j] => j.toNat?.map .cache
  | ["cacheLs", j] => j.toNat?.map .cacheLs
  | ["std"] => some .std
  | ["deps"] => some .deps
  | ["resolve"] => some .resolve
  | _ => none

def path? (c j i : String) : Option Path := do
  let c ← cls? c
  let j ← j.toNat?
  let i ← i.toNat?
  pure ⟨c, j, i⟩

def bool? : String → Option Bool
  | "0" => some false
  | "1" => some true
  | _ => none

def ev? (tok : String) : Option TEv :=
  match tok.splitOn ":" with
  | ["mk", c, j, i] => (path? c j i).map .mkdir
  | ["lk", l] => (lock? l).map .lock
  | ["ul", l] => (lock? l).map .unlock
  | ["tl", l, b] => do pure (.tryLock (← lock? l) (← bool? b))
  | ["tr", c, j, i] => (path? c j i).map .trunc
  | ["wr", c, j, i] => (path? c j i).map .write
  | ["tc", t, c, j] => do pure (.tmpCreate (← t.toNat?) (← cls? c) (← j.toNat?))
  | ["tw", t] => t.toNat?.map .tmpWrite
  | ["rn", t, c, j, i] => do pure (.rename (← t.toNat?) (← path? c j i))
  | ["rd", c, j, i] => (path? c j i).map .read
  | ["un", c, j, i] => (path? c j i).map .unlink
  | ["ex", c, j, i, b] => do pure (.exist (← path? c j i) (← bool? b))
  | _ => none

/-- Model programs by name (the instances whose words the acceptor must contain). -/
def modelProg : String → Option (Role × Prog)
  | "cli" => some (.cli 1, modelCli)
  | "dep" => some (.cli 1, modelDep)
  | "ls" => some (.ls 1, modelLs)
  | _ => none

structure St where
  mon : Option Mon := none      -- none: no word open, or a `bad` was reported
  failed : Bool := false

def firstBad (r : Role) (ws : List (List TEv)) : Option (Nat × Nat) :=
  let rec go (i : Nat) : List (List TEv) → Option (Nat × Nat)
    | [] => none
    | w :: ws => match accept r w with
      | some k => some (i, k)
      | none => go (i + 1) ws
  go 0 ws

def step (st : St) (t : List String) : St × String :=
  match t with
  | ["begin", "cli", j] => match j.toNat? with
    | some j => ({ mon := some { role := .cli j }, failed := false }, "ok")
    | none => (st, "bad-op")
  | ["begin", "ls", j] => match j.toNat? with
    | some j => ({ mon := some { role := .ls j }, failed := false }, "ok")
    | none => (st, "bad-op")
  | ["end"] => match st.mon with
    | some m => ({}, if m.final then "ok" else "bad-end")
    | none => ({}, if st.failed then "skip" else "bad-op")
  | ["model", name] => match modelProg name with
    | some (r, p) =>
      let ws := p.words 0
      match firstBad r ws with
      | none => (st, s!"ok {ws.length}")
      | some (i, k) => (st, s!"bad {i} {k}")
    | none => (st, "bad-op")
  | [tok] => match ev? tok with
    | none => (st, "bad-op")
    | some e => match st.mon with
      | none => (st, if st.failed then "skip" else "bad-op")
      | some m => match m.step e with
        | some m' => ({ st with mon := some m' }, "ok")
        | none => ({ mon := none, failed := true }, "bad")
  | _ => (st, "bad-op")

def run : IO Unit := runLines ({} : St) step
end VerylModel.Driver.FS
