import VerylModel.Core.Resolve
import VerylModel.Driver.Util
/-! `vmodel resolve`: replays dependency-resolution scenarios through M-Resolve.

Requests (numbers in hex):
* `reset`
* `meta <i> [dep,…]`      dep = `<name>~g<url>.<proj>.<reqIdx>.<v+v+…|z>` | `<name>~p<target>` | `<name>~b`,
                          name = `3` or `3_0_1`; the list is the canonical (sorted) order
* `head <url> <proj> <path> <-|[v.r,…]>`   HEAD of a repository: project directory and Veryl.pub
* `rmeta <url> <path> <rev> <metaIdx>`     Veryl.toml of (url, path) at a revision
* `pmeta <p> <metaIdx>`                    Veryl.toml of a local directory
* `new [m:i.j.k,…]`        `Lockfile::new` on meta 0, iterating meta `m` in the order `i.j.k`
* `update <0|1> [ord]`     `Lockfile::update(force)`
* `unmodified`             the `modified` flag of the last successful `update` (`na` if none)
* `reload`                 save + load, `same` when the lock table is reproduced
* `names`                  `distinct` when all lock names differ
* `best`                   oracle-only line (model replies `?`)
-/
namespace VerylModel.Driver.Resolve
open VerylModel.Resolve VerylModel.Driver

abbrev Req := List Nat
abbrev D := Dep Req

structure St where
  metas : List (Nat × List D) := []
  heads : List ((Nat × Nat) × (Nat × Option (List Release))) := []
  rmetas : List ((Nat × Nat × Nat) × Nat) := []
  pmetas : List (Nat × Nat) := []
  table : Table := []
  lastMod : Option Bool := none

def assoc {α β : Type} [BEq α] (l : List (α × β)) (k : α) : Option β :=
  match l with
  | [] => none
  | (a, b) :: rest => if a == k then some b else assoc rest k

def parseName (s : String) : Option Name := (s.splitOn "_").mapM parseHex?

def showName (n : Name) : String := "_".intercalate (n.map toHex)

def parseDep (s : String) : Option D :=
  match s.splitOn "~" with
  | [n, k] =>
    match parseName n with
    | none => none
    | some name =>
      if k = "b" then some ⟨name, .bad⟩
      else if k.startsWith "p" then
        (parseHex? (k.drop 1).toString).map (fun t => ⟨name, .path t⟩)
      else if k.startsWith "g" then
        match (k.drop 1).toString.splitOn "." with
        | [u, pr, _reqIdx, ms] =>
          match parseHex? u, parseHex? pr, (if ms = "z" then some [] else (ms.splitOn "+").mapM parseHex?) with
          | some u, some pr, some ms => some ⟨name, .git u pr ms⟩
          | _, _, _ => none
        | _ => none
      else none
  | _ => none

def parseRels (s : String) : Option (Option (List Release)) :=
  if s = "-" then some none
  else
    ((parseList s).mapM (fun (x : String) => match x.splitOn "." with
      | [v, r] => match parseHex? v, parseHex? r with
        | some v, some r => some (⟨v, r⟩ : Release)
        | _, _ => none
      | _ => none)).map some

def parseOrd (s : String) : Option (List (Nat × List Nat)) :=
  (parseList s).mapM (fun (x : String) => match x.splitOn ":" with
    | [m, p] => match parseHex? m, (if p = "" then some [] else (p.splitOn ".").mapM parseHex?) with
      | some m, some p => some (m, p)
      | _, _ => none
    | _ => none)

def metaOf (s : St) (ord : List (Nat × List Nat)) (i : Nat) : Option (Meta Req) :=
  match assoc s.metas i with
  | none => none
  | some deps =>
    match assoc ord i with
    | none => some ⟨deps⟩
    | some perm => some ⟨perm.filterMap (fun j => deps[j]?)⟩

def world (s : St) (ord : List (Nat × List Nat)) : World Req :=
  { mt := fun r v => r.contains v,
    head := fun u p => assoc s.heads (u, p),
    repoMeta := fun u p r => (assoc s.rmetas (u, p, r)).bind (metaOf s ord),
    pathMeta := fun p => (assoc s.pmetas p).bind (metaOf s ord) }

def rootDeps (s : St) (ord : List (Nat × List Nat)) : List D :=
  match metaOf s ord 0 with
  | some m => m.deps
  | none => []

def showSrc : Src → String
  | .repo u p pr v r => s!"g{toHex u}.{toHex p}.{toHex pr}.{toHex v}.{toHex r}"
  | .path p => s!"p{toHex p}"

def showLock (l : Lock) : String :=
  let deps := "&".intercalate (l.deps.map (fun d => showName d.name ++ "@" ++ showSrc d.src))
  s!"{showName l.name}@{showSrc l.src}({deps}){if l.visible then "V" else "H"}"

def keyLe (a b : Key × List Lock) : Bool :=
  match a.1, b.1 with
  | .url x, .url y => x ≤ y
  | .url _, .path _ => true
  | .path _, .url _ => false
  | .path x, .path y => x ≤ y

def showKey : Key → String
  | .url u => s!"U{toHex u}"
  | .path p => s!"P{toHex p}"

def showTable (t : Table) : String :=
  if t.isEmpty then "-" else
  ";".intercalate ((t.mergeSort keyLe).map (fun kv => showKey kv.1 ++ "=" ++ "/".intercalate (kv.2.map showLock)))

def fuel : Nat := 64

def namesDistinct : List Name → Bool
  | [] => true
  | n :: ns => !ns.contains n && namesDistinct ns

def step (s : St) (t : List String) : St × String :=
  match t with
  | ["reset"] => ({}, "ok")
  | ["meta", i, l] =>
    match parseHex? i, (parseList l).mapM parseDep with
    | some i, some deps => ({ s with metas := (i, deps) :: s.metas }, "ok")
    | _, _ => (s, "bad-op")
  | ["head", u, pr, p, rels] =>
    match parseHex? u, parseHex? pr, parseHex? p, parseRels rels with
    | some u, some pr, some p, some rels => ({ s with heads := ((u, pr), (p, rels)) :: s.heads }, "ok")
    | _, _, _, _ => (s, "bad-op")
  | ["rmeta", u, p, r, m] =>
    match parseHex? u, parseHex? p, parseHex? r, parseHex? m with
    | some u, some p, some r, some m => ({ s with rmetas := ((u, p, r), m) :: s.rmetas }, "ok")
    | _, _, _, _ => (s, "bad-op")
  | ["pmeta", p, m] =>
    match parseHex? p, parseHex? m with
    | some p, some m => ({ s with pmetas := (p, m) :: s.pmetas }, "ok")
    | _, _ => (s, "bad-op")
  | ["new", o] =>
    match parseOrd o with
    | none => (s, "bad-op")
    | some ord =>
      match newLockfile (world s ord) fuel (rootDeps s ord) with
      | .error _ => ({ s with lastMod := none }, "err")
      | .ok tb => ({ s with table := tb, lastMod := none }, "ok " ++ showTable tb)
  | ["update", f, o] =>
    match parseOrd o, (if f = "0" then some false else if f = "1" then some true else none) with
    | some ord, some force =>
      match update (world s ord) fuel s.table force (rootDeps s ord) with
      | .error _ => ({ s with lastMod := none }, "err")
      | .ok (tb, m) => ({ s with table := tb, lastMod := some m }, s!"ok mod={if m then 1 else 0} " ++ showTable tb)
    | _, _ => (s, "bad-op")
  | ["unmodified"] =>
    (s, match s.lastMod with | some m => s!"mod={if m then 1 else 0}" | none => "na")
  | ["reload"] =>
    let roots := (rootDeps s []).map (·.name)
    let tb := loadTable roots (saveProjects s.table)
    ({ s with table := tb }, if showTable tb = showTable s.table then "same" else "diff")
  | ["names"] =>
    (s, if namesDistinct (s.table.locks.map (·.name)) then "distinct" else "dup")
  | ["best"] => (s, "?")
  | _ => (s, "bad-op")

def run : IO Unit := runLines ({} : St) step

end VerylModel.Driver.Resolve
