import VerylModel.Core.Incremental
import VerylModel.Driver.Util
/-! `vmodel incr`: predicts the miss set / restored count of `Incremental::open` from the manifest,
current hashes and output freshness that the check read from the real project directory.
Request: `miss <emit 0|1> <files [f,..]> <hashes [f:h,..]> <fresh [f,..]> <manifest [f:h:frag:test:d1;d2,..]>` (decimal). -/
namespace VerylModel.Driver.Incr
open VerylModel.Incremental VerylModel.Driver

def nat (s : String) : Nat := s.toNat?.getD 0

def parsePairs (s : String) : List (Nat × Nat) :=
  (parseList s).filterMap (fun t => match t.splitOn ":" with
    | [a, b] => some (nat a, nat b)
    | _ => none)

def parseMan (s : String) : List (File × Entry) :=
  (parseList s).filterMap (fun t => match t.splitOn ":" with
    | [f, h, fr, te, ds] =>
      some (nat f, { hash := nat h, frag := fr == "1", hasTest := te == "1",
                     dependents := (ds.splitOn ";").filter (· ≠ "") |>.map nat })
    | _ => none)

def insertSorted (x : Nat) : List Nat → List Nat
  | [] => [x]
  | y :: ys => if x < y then x :: y :: ys else if x = y then y :: ys else y :: insertSorted x ys

def sortDedup (xs : List Nat) : List Nat := xs.foldl (fun acc x => insertSorted x acc) []

def step (_ : Unit) (t : List String) : Unit × String :=
  match t with
  | ["miss", emit, files, hashes, fresh, man] =>
    let fs := (parseList files).map nat
    let hp := parsePairs hashes
    let hash : File → Nat := fun f => ((hp.find? (·.1 == f)).map (·.2)).getD 0
    let fr := (parseList fresh).map nat
    let m := parseMan man
    let ms := missSet m hash (fun f => fr.contains f) (emit == "1") fs
    let inFiles := sortDedup (ms.filter (fun f => fs.contains f))
    let k := restoredCount m hash (fun f => fr.contains f) (emit == "1") fs
    ((), s!"restored={k} miss={showList (inFiles.map toString)}")
  | _ => ((), "bad-op")

def run : IO Unit := runLines () step
end VerylModel.Driver.Incr
