import VerylModel.Core.Pretty
import VerylModel.Driver.Util
/-!
`vmodel pretty`: renders serialised `Doc`s with M-Pretty.

Request  `render <max_width> <indent_width> <newline-hex> <strip 0|1> <doc>`
         `prop   <max_width> <indent_width> <newline-hex> <strip 0|1> <doc>`   (reply `?`: the property
         verdicts of the model are theorems of Props/C28; the harness evaluates them on the real output)
         `hyp    <max_width> <indent_width> <newline-hex> <strip 0|1> <doc>`   which hypotheses of the theorems
         hold for this input: `nlws= nlok= friendly= neutral= nlfree=` (NlWs, NlOK, AnchorFriendly,
         LayoutNeutral, all nlFreeNode)
Reply    `<hex of text>|[l:c:sl:sc:hex,…]`  (numbers lower-case hex, texts hex-encoded UTF-8)

`<doc>` is one token, an S-expression with `,` as separator:
  (n) (t,HEX) (c,D,…) (i,[-]N,D) (g,D) (f,D) (l,HEX) (h) (dh,N) (cm,K,…) (ib,HEX) (ibp,N) (p,N)
  (ifp,N) (a,HEX,SL,SC)      comment K = (k,HEX,leading_newlines,is_line 0|1,SL,SC)
-/
namespace VerylModel.Driver.Pretty
open VerylModel.Pretty VerylModel.Driver

/-- hex string → bytes. -/
def hexBytes? (s : String) : Option ByteArray :=
  let rec go : List Char → ByteArray → Option ByteArray
    | [], acc => some acc
    | [_], _ => none
    | a :: b :: rest, acc =>
      match hexDigit? a, hexDigit? b with
      | some x, some y => go rest (acc.push (UInt8.ofNat (x * 16 + y)))
      | _, _ => none
  go s.toList ByteArray.empty

/-- hex-encoded UTF-8 → chars. -/
def hexText? (s : String) : Option (List Char) :=
  if s = "-" then some [] else
  match hexBytes? s with
  | none => none
  | some b => match String.fromUTF8? b with
    | none => none
    | some str => some str.toList

def hexNibble (n : Nat) : Char :=
  if n < 10 then Char.ofNat (48 + n) else Char.ofNat (87 + n)

def textHex (t : List Char) : String :=
  let b := (String.ofList t).toUTF8
  String.ofList (b.toList.foldr (fun x acc => hexNibble (x.toNat / 16) :: hexNibble (x.toNat % 16) :: acc) [])

inductive Tok where
  | lp | rp
  | atom (s : String)

/-- Tokenise the S-expression. `cur = some cs` while an atom is being read (reversed chars). -/
def tokenize (s : String) : Option (List Tok) :=
  let step (st : Option (List Tok × Option (List Char))) (c : Char) :=
    match st with
    | none => none
    | some (acc, cur) =>
      if c = '(' then
        match cur with
        | some (_ :: _) => none
        | _ => some (Tok.lp :: acc, some [])
      else if c = ')' then
        match cur with
        | some cs => some (Tok.rp :: Tok.atom (String.ofList cs.reverse) :: acc, none)
        | none => some (Tok.rp :: acc, none)
      else if c = ',' then
        match cur with
        | some cs => some (Tok.atom (String.ofList cs.reverse) :: acc, some [])
        | none => some (acc, some [])
      else
        match cur with
        | some cs => some (acc, some (c :: cs))
        | none => none
  match s.toList.foldl step (some ([], none)) with
  | some (acc, none) => some acc.reverse
  | _ => none

inductive Item where
  | atom (s : String)
  | doc (d : Doc)
  | cmt (c : CommentDoc)

def parseInt? (s : String) : Option Int :=
  if s.startsWith "-" then (parseHex? (s.drop 1).toString).map (fun n => - (n : Int))
  else (parseHex? s).map (fun n => (n : Int))

def allDocs : List Item → Option (List Doc)
  | [] => some []
  | .doc d :: r => (allDocs r).map (d :: ·)
  | _ :: _ => none

def allCmts : List Item → Option (List CommentDoc)
  | [] => some []
  | .cmt c :: r => (allCmts r).map (c :: ·)
  | _ :: _ => none

/-- Build a node from the items between one pair of parentheses. -/
def build : List Item → Option Item
  | [.atom "n"] => some (.doc .nil)
  | [.atom "t", .atom h] => (hexText? h).map (fun t => .doc (.text t))
  | .atom "c" :: r => (allDocs r).map (fun ds => .doc (.concat ds))
  | [.atom "i", .atom n, .doc d] => (parseInt? n).map (fun k => .doc (.indent k d))
  | [.atom "g", .doc d] => some (.doc (.group d))
  | [.atom "f", .doc d] => some (.doc (.forceFlat d))
  | [.atom "l", .atom h] => (hexText? h).map (fun t => .doc (.line t))
  | [.atom "h"] => some (.doc .hardline)
  | [.atom "dh", .atom n] => (parseHex? n).map (fun k => .doc (.dedentHardline k))
  | .atom "cm" :: r => (allCmts r).map (fun cs => .doc (.comments cs))
  | [.atom "ib", .atom h] => (hexText? h).map (fun t => .doc (.ifBreak t))
  | [.atom "ibp", .atom n] => (parseHex? n).map (fun k => .doc (.ifBreakPad k))
  | [.atom "p", .atom n] => (parseHex? n).map (fun k => .doc (.pad k))
  | [.atom "ifp", .atom n] => (parseHex? n).map (fun k => .doc (.ifFlatPad k))
  | [.atom "a", .atom h, .atom sl, .atom sc] =>
    match hexText? h, parseHex? sl, parseHex? sc with
    | some t, some l, some c => some (.doc (.anchored t l c))
    | _, _, _ => none
  | [.atom "k", .atom h, .atom ln, .atom il, .atom sl, .atom sc] =>
    match hexText? h, parseHex? ln, parseHex? il, parseHex? sl, parseHex? sc with
    | some t, some n, some i, some l, some c =>
      if i ≤ 1 then
        some (.cmt { text := t, leadingNewlines := n, isLine := i == 1, srcLine := l, srcCol := c })
      else none
    | _, _, _, _, _ => none
  | _ => none

/-- Shift-reduce over the tokens: a stack of open lists (items reversed). -/
def parseDoc? (s : String) : Option Doc :=
  let step (st : Option (List (List Item))) (t : Tok) : Option (List (List Item)) :=
    match st, t with
    | none, _ => none
    | some stack, .lp => some ([] :: stack)
    | some (top :: stack), .atom a => some ((.atom a :: top) :: stack)
    | some (top :: below :: stack), .rp =>
      match build top.reverse with
      | some it => some ((it :: below) :: stack)
      | none => none
    | _, _ => none
  match tokenize s with
  | none => none
  | some toks =>
    match toks.foldl step (some [[]]) with
    | some [[.doc d]] => some d
    | _ => none

def showAnchor (a : Anchor) : String :=
  s!"{toHex a.dstLine}:{toHex a.dstCol}:{toHex a.srcLine}:{toHex a.srcCol}:{textHex a.text}"

def showRendered (r : Rendered) : String :=
  textHex r.text ++ "|" ++ showList (r.anchors.map showAnchor)

def parseOpts? (mw iw nl st : String) : Option Opts :=
  match parseHex? mw, parseHex? iw, hexText? nl, st with
  | some m, some i, some n, "0" => some { maxWidth := m, indentWidth := i, newline := n, strip := false }
  | some m, some i, some n, "1" => some { maxWidth := m, indentWidth := i, newline := n, strip := true }
  | _, _, _, _ => none

def step (_ : Unit) (t : List String) : Unit × String :=
  match t with
  | ["render", mw, iw, nl, st, doc] =>
    match parseOpts? mw iw nl st, parseDoc? doc with
    | some o, some d => ((), showRendered (render o d))
    | _, _ => ((), "bad-op")
  | ["prop", mw, iw, nl, st, doc] =>
    match parseOpts? mw iw nl st, parseDoc? doc with
    | some _, some _ => ((), "?")
    | _, _ => ((), "bad-op")
  | ["hyp", mw, iw, nl, st, doc] =>
    match parseOpts? mw iw nl st, parseDoc? doc with
    | some o, some d =>
      let b (x : Bool) : String := if x then "1" else "0"
      ((), s!"nlws={b (nlWsB o)} nlok={b (nlOkB o)} friendly={b (d.all anchorNodeOK)} neutral={b (d.all layoutNeutralNode)} nlfree={b (d.all nlFreeNode)}")
    | _, _ => ((), "bad-op")
  | _ => ((), "bad-op")

def run : IO Unit := runLines () step

end VerylModel.Driver.Pretty
