/-
Line-protocol plumbing shared by all `vmodel <domain>` drivers: one request per line on stdin,
one reply per line on stdout. No imports beyond core (the driver is linked as a `lean_exe`).
-/
namespace VerylModel.Driver

def tokens (line : String) : List String :=
  (line.trimAscii.toString.splitOn " ").filter (· ≠ "")

/-- `[a,b,c]` → `["a","b","c"]`; `[]` → `[]`. -/
def parseList (s : String) : List String :=
  let inner := ((s.drop 1).toString.dropEnd 1).toString
  if inner.isEmpty then [] else inner.splitOn ","

def showList (xs : List String) : String := "[" ++ ",".intercalate xs ++ "]"

def hexDigit? (c : Char) : Option Nat :=
  if '0' ≤ c ∧ c ≤ '9' then some (c.toNat - '0'.toNat)
  else if 'a' ≤ c ∧ c ≤ 'f' then some (c.toNat - 'a'.toNat + 10)
  else if 'A' ≤ c ∧ c ≤ 'F' then some (c.toNat - 'A'.toNat + 10)
  else none

def parseHex? (s : String) : Option Nat :=
  if s.isEmpty then none else
  s.toList.foldl (fun acc c => match acc, hexDigit? c with
    | some a, some d => some (a * 16 + d)
    | _, _ => none) (some 0)

def toHex (n : Nat) : String := String.ofList (Nat.toDigits 16 n)

partial def runLines {σ : Type} (init : σ) (step : σ → List String → σ × String) : IO Unit := do
  let stdin ← IO.getStdin
  let stdout ← IO.getStdout
  let rec loop (s : σ) : IO Unit := do
    let line ← stdin.getLine
    if line.isEmpty then return ()
    let (s', out) := step s (tokens line)
    stdout.putStrLn out
    loop s'
  loop init
  stdout.flush

end VerylModel.Driver
