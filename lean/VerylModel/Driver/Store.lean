import VerylModel.Core.Store
import VerylModel.Gen.StoreConsts
import VerylModel.Driver.Util
/-! `vmodel store`: replays store operation sequences through M-Store. -/
namespace VerylModel.Driver.Store
open VerylModel.Store VerylModel.Driver

def consts : Consts :=
  { schemaVersion := VerylModel.Gen.schemaVersion,
    header := VerylModel.Gen.blobMagic ++ "#" ++ toString VerylModel.Gen.schemaVersion ++ "#" }

structure St where
  disk : Disk := { manifest := none, blobs := [] }
  mem : Option Mem := none

/-- `load` then `load_diagnostics` (the harness's order); the second read sees the disk the first
    one left (`read_blob` removes a file that fails its content hash). -/
def showEntry (d : Disk) (e : Entry) : String :=
  let r1 := load consts d e
  let r2 := loadDiagnostics consts r1.1 e
  let ld := match r1.2 with | none => "-" | some x => "=" ++ x
  let dg := match r2.2 with | none => "-" | some x => "=" ++ x
  s!"hash={e.hash} frag={ld} deps={showList e.dependents} tests={showList e.tests} diag={dg}"

/-- Request line → operation of the verified state machine (`Core/Store.lean`, `Op`). -/
def parseOp : List String → Option Op
  | ["open", key] => some (.open key)
  | ["drop"] => some .drop
  | ["put", p, h, b] => some (.put p h (if b = "-" then none else some b))
  | ["setdiag", p, b] => some (.setDiagnostics p b)
  | ["keep", p] => some (.keep p)
  | ["inval", p] => some (.invalidate p)
  | ["deps", p, l] => some (.setDependents p (parseList l))
  | ["tests", p, l] => some (.setTests p (parseList l))
  | ["save"] => some .save
  | _ => none

/-- `open`/`drop` are always possible; every other operation is a method of an open store. -/
def needsStore : Op → Bool
  | .open _ => false
  | .drop => false
  | _ => true

/-- Observations (`entry`, `blobs`) are answered here; every state change (including the possible
    file removal by the reads behind `entry`) goes through `VerylModel.Store.step`, the function
    the C29 theorems are about. -/
def step (s : St) (t : List String) : St × String :=
  match t, s.mem with
  | ["reset"], _ => ({}, "ok")
  | ["blobs"], _ =>
    (s, s!"blobs={s.disk.blobs.length} manifest={if s.disk.manifest.isSome then 1 else 0}")
  | ["entry", p], some m =>
    let s1 := VerylModel.Store.step consts (s.disk, s.mem) (.load p)
    let s2 := VerylModel.Store.step consts s1 (.loadDiagnostics p)
    ({ disk := s2.1, mem := s2.2 },
     match entry m p with | none => "none" | some e => showEntry s.disk e)
  | _, _ =>
    match parseOp t with
    | none => (s, "bad-op")
    | some o =>
      if needsStore o && s.mem.isNone then (s, "bad-op")
      else
        let r := VerylModel.Store.step consts (s.disk, s.mem) o
        ({ disk := r.1, mem := r.2 }, "ok")

def run : IO Unit := runLines ({} : St) step

end VerylModel.Driver.Store
