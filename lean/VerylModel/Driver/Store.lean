import VerylModel.Core.Store
import VerylModel.Gen.StoreConsts
import VerylModel.Driver.Util
/-! `vmodel store`: replays store operation sequences through M-Store. -/
namespace VerylModel.Driver.Store
open VerylModel.Store VerylModel.Driver

def consts : Consts :=
  { schemaVersion := VerylModel.Gen.schemaVersion,
    header := VerylModel.Gen.blobMagic ++ "#" ++ toString VerylModel.Gen.schemaVersion ++ "#" }

structure St where
  disk : Disk := { manifest := none, blobs := [] }
  mem : Option Mem := none

def showEntry (d : Disk) (e : Entry) : String :=
  let ld := match load consts d e with | none => "-" | some x => "=" ++ x
  let dg := match loadDiagnostics consts d e with | none => "-" | some x => "=" ++ x
  s!"hash={e.hash} frag={ld} deps={showList e.dependents} tests={showList e.tests} diag={dg}"

def step (s : St) (t : List String) : St × String :=
  match t, s.mem with
  | ["reset"], _ => ({}, "ok")
  | ["open", key], _ => ({ s with mem := some (openStore consts s.disk key) }, "ok")
  | ["drop"], _ => ({ s with mem := none }, "ok")
  | ["blobs"], _ =>
    (s, s!"blobs={s.disk.blobs.length} manifest={if s.disk.manifest.isSome then 1 else 0}")
  | ["entry", p], some m =>
    (s, match entry m p with | none => "none" | some e => showEntry s.disk e)
  | ["put", p, h, b], some m =>
    let blob := if b = "-" then none else some b
    let (d', m') := put consts s.disk m p h blob
    ({ disk := d', mem := some m' }, "ok")
  | ["setdiag", p, b], some m =>
    let (d', m') := setDiagnostics consts s.disk m p b
    ({ disk := d', mem := some m' }, "ok")
  | ["keep", p], some m => ({ s with mem := some (keep m p) }, "ok")
  | ["inval", p], some m => ({ s with mem := some (invalidate m p) }, "ok")
  | ["deps", p, l], some m => ({ s with mem := some (setDependents m p (parseList l)) }, "ok")
  | ["tests", p, l], some m => ({ s with mem := some (setTests m p (parseList l)) }, "ok")
  | ["save"], some m =>
    let (d', m') := save consts s.disk m
    ({ disk := d', mem := some m' }, "ok")
  | _, _ => (s, "bad-op")

def run : IO Unit := runLines ({} : St) step

end VerylModel.Driver.Store
