import VerylModel.Core.CheckModes
import VerylModel.Driver.Util
/-! `vmodel checkmodes`: predictions of M-CheckModes for project states observed by checks/c27.py.

* `fmt [s,s,…]` — one state per source file in processing order: `f` formatted, `u` unformatted,
  `x` does not parse, `m` unreadable → `check=<pass|nopass> writes=<n>` (hex)
* `build <bundle 0|1> <maps 0|1> [std:dst:map,…] <filelist> <bundle>` — dst/map/filelist/bundle states
  `c` current, `s` different content, `m` missing (`e`: missing and the emitted text is empty),
  std `1` for `$std` outputs → `check=<pass|nopass> cwrites=<n> writes=<n>` (cwrites: files written by the check mode itself)
-/
namespace VerylModel.Driver.CheckModes
open VerylModel.CheckModes VerylModel.Driver

def format (c : Content) : Option Content := if c = [9] then none else some (c.filter (· ≠ 0))

def fmtState (s : String) : Option (Option Content) :=
  if s = "f" then some (some [1, 2]) else if s = "u" then some (some [0, 1, 2])
  else if s = "x" then some (some [9]) else if s = "m" then some none else none

/-- Content on disk for an output whose emitted text is `text`. -/
def outState (s : String) (text : Content) : Option (Option Content) :=
  if s = "c" then some (some text) else if s = "s" then some (some (5 :: text))
  else if s = "m" ∨ s = "e" then some none else none

def setFs (fs : FS) (p : Path) (c : Option Content) : FS := fun q => if q = p then c else fs q

def pass (b : Bool) : String := if b then "pass" else "nopass"

def step (s : Unit) (t : List String) : Unit × String :=
  match t with
  | ["fmt", l] =>
    match (parseList l).mapM fmtState with
    | none => (s, "bad-op")
    | some sts =>
      let idx := List.range sts.length
      let fs : FS := (idx.zip sts).foldl (fun fs pc => setFs fs pc.1 pc.2) (fun _ => none)
      let chk := fmtRun format true idx fs
      let wr := fmtRun format false idx fs
      (s, s!"check={pass (chk.outcome == .done true)} cwrites={toHex chk.writes} writes={toHex wr.writes}")
  | ["build", b, m, l, fl, bs] =>
    let files := (parseList l).mapM (fun (x : String) => match x.splitOn ":" with
      | [sd, d, mp] => some (sd, d, mp)
      | _ => none)
    match files, decide (b = "0" ∨ b = "1"), decide (m = "0" ∨ m = "1") with
    | some files, true, true =>
      let cfg : BCfg := { bundle := if b = "1" then some 1 else none, maps := m = "1", filelist := 0,
                          listText := [3], bundleText := [4] }
      let mk := fun (acc : Option (List BFile × FS × Nat)) (x : String × String × String) =>
        match acc with
        | none => none
        | some (bf, fs, n) =>
          let text : Content := if x.2.1 = "e" then [] else [6, n]
          match outState x.2.1 text, outState x.2.2 [7, n] with
          | some d, some mp =>
            let f : BFile := { dst := 2 * n + 2, map := 2 * n + 3, std := x.1 = "1", text := text, mapText := [7, n] }
            some (bf ++ [f], setFs (setFs fs f.dst d) f.map mp, n + 1)
          | _, _ => none
      match files.foldl mk (some ([], (fun _ => none), 0)), outState fl cfg.listText, outState bs cfg.bundleText with
      | some (bf, fs, _), some fls, some bss =>
        let fs := setFs (setFs fs 0 fls) 1 (if b = "1" then bss else none)
        let chk := buildCheckRun cfg bf fs
        (s, s!"check={pass chk.1} cwrites={toHex chk.2.2} writes={toHex (buildWrite cfg bf fs).2}")
      | _, _, _ => (s, "bad-op")
    | _, _, _ => (s, "bad-op")
  | _ => (s, "bad-op")

def run : IO Unit := runLines () step

end VerylModel.Driver.CheckModes
