import VerylModel.Core.CombLoop
import VerylModel.Driver.Util
/-!
`vmodel combloop`: one design per line, as an S-expression without blanks
(`(` `)` delimit lists, `,` separates items, numbers are lower-case hex):

```
design (D,(C,<mod>…),<mod>,(N,<inst>…))
<mod>  ::= (M,(I,<var>…),(O,<var>…),(X,<var>…),(W,<width>…),<stmt>…)   -- every <stmt> is one block;
                                                       -- X = inout ports, W = widths (both unused here)
<stmt> ::= (=,<acc>,<acc>…) | (?,(<acc>…),<stmt>,<stmt>) | (;,<stmt>…)
         | (r,<acc>,<acc>…)                            -- assignment through a recursive function
<acc>  ::= <var>.<msb>.<lsb>
<inst> ::= (U,<child>|sv,(i|o|x,<port>,<acc>)…)       -- x = inout connection, sv = black box
```

Reply `det=<0|1> ref=<0|1> detd=<0|1> fp=<0|1> lo=<0|1>`: detector model verdict (SSA), bit-level
reference verdict, detector model with `liveIn` instead of SSA, the verified signature of
the port-level feedthrough false-positive class, and the reference verdict when recursive
function calls are opaque (`det`/`ref` let their result depend on the arguments).  Opaque
constructs (`sv`, `x`) add no edges in either graph.
-/
namespace VerylModel.Driver.CombLoop
open VerylModel.CombLoop VerylModel.Driver

inductive SExp where
  | atom (s : String)
  | list (xs : List SExp)
deriving Inhabited

/-- Stack machine: `none` on unbalanced parentheses. -/
def parseSExp (s : String) : Option SExp :=
  let flush (cur : List Char) (st : List (List SExp)) : List (List SExp) :=
    if cur.isEmpty then st else
      match st with
      | top :: rest => (SExp.atom (String.ofList cur.reverse) :: top) :: rest
      | [] => [[SExp.atom (String.ofList cur.reverse)]]
  let step (acc : Option (List Char × List (List SExp))) (c : Char) :
      Option (List Char × List (List SExp)) :=
    match acc with
    | none => none
    | some (cur, st) =>
      if c = '(' then some ([], [] :: flush cur st)
      else if c = ',' then some ([], flush cur st)
      else if c = ')' then
        match flush cur st with
        | top :: parent :: rest => some ([], (SExp.list top.reverse :: parent) :: rest)
        | _ => none
      else some (c :: cur, st)
  match s.toList.foldl step (some ([], [[]])) with
  | some ([], [[e]]) => some e
  | _ => none

def mapM? {α β} (f : α → Option β) : List α → Option (List β)
  | [] => some []
  | x :: xs => match f x, mapM? f xs with
    | some y, some ys => some (y :: ys)
    | _, _ => none

def num? : SExp → Option Nat
  | .atom s => parseHex? s
  | _ => none

def acc? : SExp → Option Acc
  | .atom s =>
    match s.splitOn "." with
    | [v, m, l] =>
      match parseHex? v, parseHex? m, parseHex? l with
      | some v, some m, some l => if l ≤ m then some ⟨v, l, m + 1⟩ else none
      | _, _, _ => none
    | _ => none
  | _ => none

def seqOf : List Stmt → Stmt
  | [] => .skip
  | [s] => s
  | s :: ss => .seq s (seqOf ss)

/-- `opq`: treat calls of recursive functions (`r`) as opaque (no dependency on the arguments). -/
def stmt? (opq : Bool) : Nat → SExp → Option Stmt
  | 0, _ => none
  | _ + 1, .list (.atom "=" :: d :: rs) =>
    match acc? d, mapM? acc? rs with
    | some d, some rs => some (.assign d rs)
    | _, _ => none
  | _ + 1, .list (.atom "r" :: d :: rs) =>
    match acc? d, mapM? acc? rs with
    | some d, some rs => some (.assign d (if opq then [] else rs))
    | _, _ => none
  | f + 1, .list [.atom "?", .list c, t, e] =>
    match mapM? acc? c, stmt? opq f t, stmt? opq f e with
    | some c, some t, some e => some (.ite c t e)
    | _, _, _ => none
  | f + 1, .list (.atom ";" :: ss) =>
    match mapM? (stmt? opq f) ss with
    | some ss => some (seqOf ss)
    | none => none
  | _, _ => none

def mod? (opq : Bool) (fuel : Nat) : SExp → Option Flat
  | .list (.atom "M" :: .list (.atom "I" :: is) :: .list (.atom "O" :: os) ::
      .list (.atom "X" :: xs) :: .list (.atom "W" :: ws) :: bs) =>
    match mapM? num? is, mapM? num? os, mapM? num? xs, mapM? num? ws, mapM? (stmt? opq fuel) bs with
    | some is, some os, some _, some _, some bs => some ⟨is, os, bs⟩
    | _, _, _, _, _ => none
  | _ => none

/-- `none` = malformed; `some none` = opaque instance (SystemVerilog black box): dropped. -/
def inst? : SExp → Option (Option Inst)
  | .list (.atom "U" :: .atom ch :: conns) =>
    let conn? (e : SExp) : Option (String × Nat × Acc) :=
      match e with
      | .list [.atom k, p, a] =>
        match num? p, acc? a with
        | some p, some a => if k = "i" ∨ k = "o" ∨ k = "x" then some (k, p, a) else none
        | _, _ => none
      | _ => none
    match mapM? conn? conns with
    | none => none
    | some cs =>
      if ch = "sv" then some none else
      match parseHex? ch with
      | none => none
      | some c =>
        some (some ⟨c, (cs.filter (·.1 = "i")).map (·.2), (cs.filter (·.1 = "o")).map (·.2)⟩)
  | _ => none

def design? (opq : Bool) (fuel : Nat) : SExp → Option Design
  | .list [.atom "D", .list (.atom "C" :: cs), t, .list (.atom "N" :: is)] =>
    match mapM? (mod? opq fuel) cs, mod? opq fuel t, mapM? inst? is with
    | some cs, some t, some is => some ⟨cs, t, is.filterMap id⟩
    | _, _, _ => none
  | _ => none

/-- Bits of input port `p` × bits of output port `q` of child `c` that are wired in `i`, where the
child has no bit-level path although its summary lists `(p, q)`: the port-level summary is a
strict over-approximation for this instance. -/
def imprecise (d : Design) (i : Inst) : Bool :=
  match d.children[i.child]? with
  | none => false
  | some c =>
    let g := flatBitGraph c
    let sm := summaryOf c (flatRangeGraph c)
    i.ins.any (fun pa => i.outs.any (fun qd =>
      decide ((pa.1, qd.1) ∈ sm) &&
      (List.range (width pa.2)).any (fun k =>
        let R := closure g (g.length + 1) [(pa.1, k)]
        (List.range (width qd.2)).any (fun k' => decide ((qd.1, k') ∉ R)))))

/-- Signature of the known false-positive class `comb_loop:port-level-feedthrough`: no bit-level
cycle anywhere, every child and the top's own blocks are loop-free for the detector too, the
detector model reports a loop once the port-level summary edges are added, and some instance's
summary is a strict over-approximation of its child's bit-level feedthrough. -/
def fpSignature (d : Design) : Bool :=
  !refVerdict d && detVerdict d &&
  !(d.children.any (fun c => hasCycle (flatRangeGraph c))) &&
  !(hasCycle (d.top.blocks.flatMap (ssaEdges (atomsOf d.topCuts)))) &&
  d.insts.any (imprecise d)

def b (x : Bool) : String := if x then "1" else "0"

def step (_ : Unit) (t : List String) : Unit × String :=
  match t with
  | ["design", s] =>
    match parseSExp s with
    | none => ((), "bad-op")
    | some e =>
      match design? false (s.length + 1) e, design? true (s.length + 1) e with
      | some d, some dlo =>
        ((), s!"det={b (detVerdict d)} ref={b (refVerdict d)} detd={b (detVerdictD d)} fp={b (fpSignature d)} lo={b (refVerdict dlo)}")
      | _, _ => ((), "bad-op")
  | _ => ((), "bad-op")

def run : IO Unit := runLines () step

end VerylModel.Driver.CombLoop
