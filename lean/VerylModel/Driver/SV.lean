import VerylModel.Core.SV
import VerylModel.Driver.Util
/-! Parsers for the comma-separated Polish notation of `harness/src/svparse.rs` (`module_polish`),
shared by the `emit` and `translate` drivers. Every parser takes a `fuel` (the token count
suffices) and returns the remaining tokens. -/
namespace VerylModel.Driver.SVP
open VerylModel.SV VerylModel.Driver

def unOpOf : String → Option UnOp
  | "pos" => some .plus | "neg" => some .neg | "not" => some .bnot | "lnot" => some .lnot
  | "rand" => some .rand | "ror" => some .ror | "rxor" => some .rxor | "rnand" => some .rnand
  | "rnor" => some .rnor | "rxnor" => some .rxnor | _ => none

def binOpOf : String → Option BinOp
  | "pow" => some .pow | "mul" => some .mul | "div" => some .div | "mod" => some .mod
  | "add" => some .add | "sub" => some .sub
  | "shl" => some .shl | "shr" => some .shr | "ashl" => some .ashl | "ashr" => some .ashr
  | "lt" => some .lt | "le" => some .le | "gt" => some .gt | "ge" => some .ge
  | "eq" => some .eq | "ne" => some .ne
  | "and" => some .band | "xor" => some .bxor | "xnor" => some .bxnor | "or" => some .bor
  | "land" => some .land | "lor" => some .lor | _ => none

def parseSign : String → Option Bool
  | "s" => some true | "u" => some false | _ => none

def nat? (s : String) : Option Nat := if s.isEmpty then none else s.toNat?

def after (t : String) (n : Nat) : String := (t.drop n).toString

/-- `a:b:c` after dropping `n` prefix characters, as decimal numbers -/
def natFields (t : String) (n : Nat) : Option (List Nat) :=
  ((after t n).splitOn ":").mapM nat?

inductive Leaf
  | var (id : Nat) | bitsel (id i : Nat) | partsel (id hi lo : Nat)
  | lit (w : Nat) (s : Bool) (v : Nat) | dec (v : Nat) | fill (b : Bool)

def parseLeaf (t : String) : Option Leaf :=
  if t.startsWith "v" then (nat? (after t 1)).map Leaf.var
  else if t.startsWith "b" then
    match natFields t 1 with
    | some [id, i] => some (.bitsel id i)
    | _ => none
  else if t.startsWith "s" ∧ ¬ t.startsWith "sg" ∧ ¬ t.startsWith "sz" ∧ ¬ t.startsWith "ssg" ∧ t ≠ "skip" ∧ t ≠ "seq" then
    match natFields t 1 with
    | some [id, hi, lo] => if lo ≤ hi then some (.partsel id hi lo) else none
    | _ => none
  else if t.startsWith "l" ∧ t ≠ "lnot" then
    match (after t 1).splitOn ":" with
    | [w, s, v] =>
      match nat? w, parseSign s, parseHex? v with
      | some w, some s, some v => if v < 2 ^ w ∧ 0 < w then some (.lit w s v) else none
      | _, _, _ => none
    | _ => none
  else if t.startsWith "d" then
    match parseHex? (after t 1) with
    | some v => if v < 2 ^ 32 then some (.dec v) else none
    | none => none
  else if t = "f0" then some (.fill false)
  else if t = "f1" then some (.fill true)
  else none

def Leaf.toRaw : Leaf → Raw
  | .var id => .var id | .bitsel id i => .bitsel id i | .partsel id hi lo => .partsel id hi lo
  | .lit w s v => .lit w s v | .dec v => .dec v | .fill b => .fill b

mutual
def parseRaw : Nat → List String → Option (Raw × List String)
  | 0, _ => none
  | _, [] => none
  | fuel + 1, t :: rest =>
    match unOpOf t with
    | some op => (parseRaw fuel rest).map fun (a, r) => (.un op a, r)
    | none =>
    if t = "chain" then
      match rest with
      | n :: rest1 =>
        match nat? n, parseRaw fuel rest1 with
        | some n, some (f, r1) => (parseRest fuel n r1).map fun (rs, r2) => (.chain f rs, r2)
        | _, _ => none
      | [] => none
    else if t = "par" then (parseRaw fuel rest).map fun (a, r) => (.paren a, r)
    else if t = "cond" then
      match parseRaw fuel rest with
      | some (c, r1) =>
        match parseRaw fuel r1 with
        | some (a, r2) => (parseRaw fuel r2).map fun (b, r3) => (.cond c a b, r3)
        | none => none
      | none => none
    else if t = "cat" then
      match parseRaw fuel rest with
      | some (a, r1) => (parseRaw fuel r1).map fun (b, r2) => (.cat a b, r2)
      | none => none
    else if t.startsWith "rep" then
      match nat? (after t 3), parseRaw fuel rest with
      | some n, some (a, r) => some (.rep n a, r)
      | _, _ => none
    else if t.startsWith "sz" then
      match nat? (after t 2), parseRaw fuel rest with
      | some n, some (a, r) => some (.sizeCast n a, r)
      | _, _ => none
    else if t.startsWith "ty" then
      match nat? (after t 2), parseRaw fuel rest with
      | some n, some (a, r) => some (.typeCast n a, r)
      | _, _ => none
    else if t.startsWith "sg" then
      match parseSign (after t 2), parseRaw fuel rest with
      | some s, some (a, r) => some (.signCast false s a, r)
      | _, _ => none
    else if t.startsWith "ssg" then
      match parseSign (after t 3), parseRaw fuel rest with
      | some s, some (a, r) => some (.signCast true s a, r)
      | _, _ => none
    else (parseLeaf t).map fun l => (l.toRaw, rest)
def parseRest : Nat → Nat → List String → Option (Rest × List String)
  | 0, _, _ => none
  | _, 0, ts => some (.nil, ts)
  | fuel + 1, n + 1, t :: rest =>
    match binOpOf t, parseRaw fuel rest with
    | some op, some (e, r1) => (parseRest fuel n r1).map fun (tl, r2) => (.cons op e tl, r2)
    | _, _ => none
  | _, _ + 1, [] => none
end

def parseLHS (t : String) : Option LHS :=
  match parseLeaf t with
  | some (.var id) => some (.var id)
  | some (.bitsel id i) => some (.bitsel id i)
  | some (.partsel id hi lo) => some (.partsel id hi lo)
  | _ => none

def parseRaws : Nat → Nat → List String → Option (List Raw × List String)
  | 0, _, _ => none
  | _, 0, ts => some ([], ts)
  | fuel + 1, n + 1, ts =>
    match parseRaw fuel ts with
    | some (e, r1) => (parseRaws fuel n r1).map fun (es, r2) => (e :: es, r2)
    | none => none

mutual
def parseStmt : Nat → List String → Option (Stmt × List String)
  | 0, _ => none
  | _, [] => none
  | fuel + 1, t :: rest =>
    if t = "skip" then some (.skip, rest)
    else if t = "ba" ∨ t = "nba" then
      match rest with
      | l :: rest1 =>
        match parseLHS l, parseRaw fuel rest1 with
        | some l, some (e, r) => some (.assign (t = "nba") l e, r)
        | _, _ => none
      | [] => none
    else if t = "seq" then
      match parseStmt fuel rest with
      | some (a, r1) => (parseStmt fuel r1).map fun (b, r2) => (.seq a b, r2)
      | none => none
    else if t = "if" then
      match parseRaw fuel rest with
      | some (c, r1) =>
        match parseStmt fuel r1 with
        | some (a, r2) => (parseStmt fuel r2).map fun (b, r3) => (.ite c a b, r3)
        | none => none
      | none => none
    else if t = "case" then
      match parseRaw fuel rest with
      | some (sel, n :: r1) =>
        match nat? n with
        | some n =>
          match parseArms fuel n r1 with
          | some (arms, r2) => (parseStmt fuel r2).map fun (d, r3) => (.case sel arms d, r3)
          | none => none
        | none => none
      | _ => none
    else none
def parseArms : Nat → Nat → List String → Option (Arms × List String)
  | 0, _, _ => none
  | _, 0, ts => some (.nil, ts)
  | fuel + 1, n + 1, k :: rest =>
    match nat? k with
    | some k =>
      match parseRaws fuel k rest with
      | some (labels, r1) =>
        match parseStmt fuel r1 with
        | some (body, r2) => (parseArms fuel n r2).map fun (tl, r3) => (.cons labels body tl, r3)
        | none => none
      | none => none
    | none => none
  | _, _ + 1, [] => none
end

def parseDecl (t : String) : Option Decl :=
  let sg := (t.drop (t.length - 1)).toString
  let w := (t.take (t.length - 1)).toString
  match nat? w, parseSign sg with
  | some w, some s => if 0 < w then some { width := w, signed := s } else none
  | _, _ => none

def parseNats : Nat → List String → Option (List Nat × List String)
  | 0, ts => some ([], ts)
  | n + 1, t :: rest =>
    match nat? t with
    | some v => (parseNats n rest).map fun (vs, r) => (v :: vs, r)
    | none => none
  | _ + 1, [] => none

def parseDecls : Nat → List String → Option (List Decl × List String)
  | 0, ts => some ([], ts)
  | n + 1, t :: rest =>
    match parseDecl t with
    | some d => (parseDecls n rest).map fun (ds, r) => (d :: ds, r)
    | none => none
  | _ + 1, [] => none

def parseEdge : String → Option Edge
  | "p" => some .pos | "n" => some .neg | _ => none

def parseItems (fuel : Nat) : Nat → List String → Option (List Item × List String)
  | 0, ts => some ([], ts)
  | n + 1, "comb" :: rest =>
    match parseStmt fuel rest with
    | some (s, r1) => (parseItems fuel n r1).map fun (is, r2) => (.comb s :: is, r2)
    | none => none
  | n + 1, "ff" :: ce :: clk :: "-" :: rest =>
    match parseEdge ce, nat? clk, parseStmt fuel rest with
    | some ce, some clk, some (s, r1) =>
      (parseItems fuel n r1).map fun (is, r2) => (.ff { clkEdge := ce, clk := clk, rst := none, body := s } :: is, r2)
    | _, _, _ => none
  | n + 1, "ff" :: ce :: clk :: re :: rst :: rest =>
    match parseEdge ce, nat? clk, parseEdge re, nat? rst, parseStmt fuel rest with
    | some ce, some clk, some re, some rst, some (s, r1) =>
      (parseItems fuel n r1).map fun (is, r2) =>
        (.ff { clkEdge := ce, clk := clk, rst := some (re, rst), body := s } :: is, r2)
    | _, _, _, _, _ => none
  | _ + 1, _ => none

-- identifiers used by an expression are declared
mutual
def rawOk (n : Nat) : Raw → Bool
  | .var id => id < n
  | .bitsel id _ => id < n
  | .partsel id _ _ => id < n
  | .lit _ _ _ | .dec _ | .fill _ => true
  | .un _ a => rawOk n a
  | .chain f r => rawOk n f && restOk n r
  | .paren a => rawOk n a
  | .cond c a b => rawOk n c && rawOk n a && rawOk n b
  | .cat a b => rawOk n a && rawOk n b
  | .rep _ a => rawOk n a
  | .sizeCast k a => 0 < k && rawOk n a
  | .typeCast _ a => rawOk n a
  | .signCast _ _ a => rawOk n a
def restOk (n : Nat) : Rest → Bool
  | .nil => true
  | .cons _ e tl => rawOk n e && restOk n tl
end

mutual
def stmtOk (n : Nat) : Stmt → Bool
  | .skip => true
  | .assign _ l e => l.id < n && rawOk n e
  | .seq a b => stmtOk n a && stmtOk n b
  | .ite c t e => rawOk n c && stmtOk n t && stmtOk n e
  | .case sel arms d => rawOk n sel && armsOk n arms && stmtOk n d
def armsOk (n : Nat) : Arms → Bool
  | .nil => true
  | .cons ls b tl => ls.all (rawOk n) && stmtOk n b && armsOk n tl
end

def itemOk (n : Nat) : Item → Bool
  | .comb s => stmtOk n s
  | .ff f => f.clk < n && stmtOk n f.body && (match f.rst with | some (_, r) => r < n | none => true)

/-- `mod,<ndecl>,decls…,<nin>,ids…,<nout>,ids…,<nitems>,items…` -/
def parseModule (s : String) : Option Module :=
  let toks := s.splitOn ","
  let fuel := toks.length + 1
  match toks with
  | "mod" :: nd :: rest =>
    match nat? nd with
    | some nd =>
      match parseDecls nd rest with
      | some (decls, ni :: r1) =>
        match nat? ni with
        | some ni =>
          match parseNats ni r1 with
          | some (ins, no :: r2) =>
            match nat? no with
            | some no =>
              match parseNats no r2 with
              | some (outs, nit :: r3) =>
                match nat? nit with
                | some nit =>
                  match parseItems fuel nit r3 with
                  | some (items, []) =>
                    let n := decls.length
                    if ins.all (· < n) && outs.all (· < n) && items.all (itemOk n) then
                      some { decls := decls, inputs := ins, outputs := outs, items := items }
                    else none
                  | _ => none
                | none => none
              | _ => none
            | none => none
          | _ => none
        | none => none
      | _ => none
    | none => none
  | _ => none

/-- stimulus `a:b:c/a:b:c/…` (hex), `-` = no cycles -/
def parseStim (s : String) : Option (List (List Nat)) :=
  if s = "-" then some [] else
  (s.splitOn "/").mapM fun cyc => if cyc = "_" then some [] else (cyc.splitOn ":").mapM parseHex?

def showTrace (tr : List (List Nat)) : String :=
  if tr.isEmpty then "-" else
  "/".intercalate (tr.map fun c => if c.isEmpty then "_" else ":".intercalate (c.map toHex))

/-- `<clk-id>:<rst-id>:<p|n>:<h|l>` -/
def parseTB (s : String) : Option TB :=
  match s.splitOn ":" with
  | [c, r, e, l] =>
    match nat? c, nat? r, parseEdge e, (if l = "h" then some true else if l = "l" then some false else none) with
    | some c, some r, some e, some l => some { clk := c, rst := r, clkActive := e, rstHigh := l }
    | _, _, _, _ => none
  | _ => none

end VerylModel.Driver.SVP

/-! `vmodel sv`: `run <tb> <stim> <module>` → output trace of `SV.run`, `dc` (an x value was
needed / not stable), or `bad-op`. -/
namespace VerylModel.Driver.SVRun
open VerylModel.SV VerylModel.Driver VerylModel.Driver.SVP

def svTrace (tb : TB) (stim : List (List Nat)) (m : Module) : String :=
  if tb.clk ≥ m.decls.length ∨ tb.rst ≥ m.decls.length ∨ stim.any (fun c => c.length ≠ m.inputs.length) then "bad-op"
  else
    -- both protocols must agree: a process sensitive to the inactive edge shows up as `edge`
    -- (an x that only the complemented inputs produce is not a verdict)
    match SV.runStrict m tb stim, SV.run m tb stim with
    | some tr, some tr' => if tr == tr' then showTrace tr else "edge:" ++ showTrace tr
    | none, some tr' => showTrace tr'
    | _, none => "dc"

def reply (t : List String) : String :=
  match t with
  | ["run", tb, stim, m] =>
    match parseTB tb, parseStim stim, parseModule m with
    | some tb, some stim, some m => svTrace tb stim m
    | _, _, _ => "bad-op"
  | _ => "bad-op"

def run : IO Unit := runLines () fun _ t => ((), reply t)

end VerylModel.Driver.SVRun
