import VerylModel.Core.Reloc
import VerylModel.Driver.Util
/-!
`vmodel reuse` (C34).  Requests (numbers decimal in this domain):

* `reloc A=[k:off:nb,…] ffB=<o> combB=<o>` (`k` = `f`/`c`) → the table of the second instance as
  `relocate_entry` predicts it: every offset of `A` moved by one ff delta / one comb delta
  (`VerylModel.Reloc.relocTable`);
* `suite …`, `test …`, `layout …`, `twin …` → `?` (oracle-only lines).
-/
namespace VerylModel.Driver.Reloc
open VerylModel.Reloc VerylModel.Driver

def kv (t : List String) (key : String) : Option String :=
  t.findSome? (fun x => if x.startsWith (key ++ "=") then some (x.drop (key.length + 1)).toString else none)

def parseEnt (s : String) : Option VarEnt :=
  match s.splitOn ":" with
  | [k, o, n] =>
    match (if k = "f" then some true else if k = "c" then some false else none), o.toInt?, n.toNat? with
    | some k, some o, some n => some (k, o, n)
    | _, _, _ => none
  | _ => none

def parseTable (s : String) : Option (List VarEnt) :=
  (parseList s).foldr (fun x acc => match acc, parseEnt x with
    | some l, some e => some (e :: l)
    | _, _ => none) (some [])

def showEnt (e : VarEnt) : String := s!"{if e.1 then "f" else "c"}:{e.2.1}:{e.2.2}"

def reloc (t : List String) : String :=
  match (kv t "A").bind parseTable, (kv t "ffB").bind String.toInt?, (kv t "combB").bind String.toInt? with
  | some a, some f, some c => showList ((relocTable a f c).map showEnt)
  | _, _, _ => "bad-op"

def step (_ : Unit) (t : List String) : Unit × String :=
  match t with
  | "reloc" :: rest => ((), reloc rest)
  | "suite" :: _ => ((), "?")
  | "test" :: _ => ((), "?")
  | "layout" :: _ => ((), "?")
  | "twin" :: _ => ((), "?")
  | _ => ((), "bad-op")

def run : IO Unit := runLines () step

end VerylModel.Driver.Reloc
