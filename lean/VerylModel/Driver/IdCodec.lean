import VerylModel.Core.IdCodec
import VerylModel.Driver.Util
/-! `vmodel fragment`: codec, dictionary and canon requests answered by M-Codec. -/
namespace VerylModel.Driver.IdCodec
open VerylModel.IdCodec VerylModel.Driver

def showRes : Res → String
  | .ok n => "ok " ++ toHex n
  | .err => "err"
  | .panic => "panic"

def hexList? (s : String) : Option (List Nat) :=
  (parseList s).foldr (fun x acc => match parseHex? x, acc with
    | some n, some l => some (n :: l)
    | _, _ => none) (some [])

def showHexList (xs : List Nat) : String := showList (xs.map toHex)

/-- `k:v` pairs. -/
def idList? (s : String) : Option (List (Tok Unit)) :=
  (parseList s).foldr (fun x acc =>
    match x.splitOn ":", acc with
    | [k, v], some l =>
      match parseHex? k, parseHex? v with
      | some k, some v => some (Tok.id k v :: l)
      | _, _ => none
    | _, _ => none) (some [])

def showToks (t : List (Tok Unit)) : String :=
  showList (t.map fun
    | .lit _ => "-"
    | .id k n => toHex k ++ ":" ++ toHex n)

/-- Fresh-thread table holding `vals` interned in order. -/
def tableOf (vals : List Nat) : Table Nat := (internAll Table.empty vals).1

def dictReply (encVals ids decVals : List Nat) : String :=
  match encodeAll (tableOf encVals) EncSession.empty ids with
  | none => "err"
  | some (s, locals) =>
    let (_, strs) := internAll (tableOf decVals) s.dict
    let decoded := locals.map (fun l => match decodeDict strs l with | some i => toHex i | none => "x")
    s!"ok {showHexList s.dict} {showHexList locals} {showList decoded}"

def step (s : Unit) (t : List String) : Unit × String :=
  let h := parseHex?
  (s, match t with
  | ["count", a, b] =>
    match h a, h b with
    | some a, some b => showRes (IdWindow.count ⟨a, b⟩)
    | _, _ => "bad-op"
  | ["enc", a, b, i] =>
    match h a, h b, h i with
    | some a, some b, some i => showRes (IdWindow.encode ⟨a, b⟩ i)
    | _, _, _ => "bad-op"
  | ["dec", b, c, l] =>
    match h b, h c, h l with
    | some b, some c, some l => showRes (IdRebase.decode ⟨b, c⟩ l)
    | _, _, _ => "bad-op"
  | ["encd", a, b, i] =>
    match h a, h b, h i with
    | some a, some b, some i => showRes (encodeSentinel ⟨a, b⟩ i)
    | _, _, _ => "bad-op"
  | ["decd", b, c, v] =>
    match h b, h c, h v with
    | some b, some c, some v => showRes (decodeSentinel ⟨b, c⟩ v)
    | _, _, _ => "bad-op"
  | ["rtx", a, b, base, i] =>
    match h a, h b, h base, h i with
    | some a, some b, some base, some i => showRes (roundtrip base ⟨a, b⟩ i)
    | _, _, _, _ => "bad-op"
  | ["rtd", a, b, base, i] =>
    match h a, h b, h base, h i with
    | some a, some b, some base, some i => showRes (roundtripS base ⟨a, b⟩ i)
    | _, _, _, _ => "bad-op"
  | ["encs", a, b, i] =>
    match h a, h b, h i with
    | some a, some b, some i => showRes (encodeSentinel ⟨a, b⟩ i)
    | _, _, _ => "bad-op"
  | ["decs", b, c, v] =>
    match h b, h c, h v with
    | some b, some c, some v => showRes (decodeSentinel ⟨b, c⟩ v)
    | _, _, _ => "bad-op"
  | ["rt", a, b, base, i] =>
    match h a, h b, h base, h i with
    | some a, some b, some base, some i => showRes (roundtrip base ⟨a, b⟩ i)
    | _, _, _, _ => "bad-op"
  | ["rts", a, b, base, i] =>
    match h a, h b, h base, h i with
    | some a, some b, some base, some i => showRes (roundtripS base ⟨a, b⟩ i)
    | _, _, _, _ => "bad-op"
  | ["dict", e, i, d] =>
    match hexList? e, hexList? i, hexList? d with
    | some e, some i, some d => dictReply e i d
    | _, _, _ => "bad-op"
  | ["dictp", e, i, d] =>
    match hexList? e, hexList? i, hexList? d with
    | some e, some i, some d => dictReply e i d
    | _, _, _ => "bad-op"
  | ["canon", l] =>
    match idList? l with
    | some t => showToks (canon t)
    | none => "bad-op"
  | ["canoneq", a, b] =>
    match idList? a, idList? b with
    | some x, some y => if canon x = canon y then "eq" else "ne"
    | _, _ => "bad-op"
  -- whole-pipeline comparisons: the model has no opinion (oracle = fresh run)
  | "restore" :: _ => "?"
  | "refuse" :: _ => "?"
  | ["reset"] => "ok"
  | _ => "bad-op")

def run : IO Unit := runLines () step

end VerylModel.Driver.IdCodec
