import VerylModel.Core.Aligner
import VerylModel.Core.SourceMap
import VerylModel.Core.Inside
import VerylModel.Core.DocOps
import VerylModel.Gen.AlignerConsts
import VerylModel.Driver.Pretty
/-!
`vmodel fmt` / `vmodel smap` / `vmodel emitopts` (C08, C09, C13, C26): one handler.

Requests answered by a model:
  `align <trace>`                 M-Aligner: run the call trace on `Aligner::new()` (COUNT kinds from Gen/AlignerConsts).
                                  `<trace>` = `[tok,tok,…]`, tokens as recorded by harness/align_shim (see there).
                                  Reply `<additions>|<any_enabled 0|1>|<last_location of every Align>` or `panic`;
                                  additions sorted by key: `[line.col.len.src.dup:width:a|b|f,…]`.
  `render|prop|hyp <opts> <doc>`  M-Pretty (Driver/Pretty.lean).
  `rstrip <opts> <doc>`           M-Pretty on the document with every `Comments` node deleted (C26): hex of the
                                  non-whitespace stream of the text.
  `dflags <doc>`                  decidable side conditions of the C09/C13/C26 theorems on a real document:
                                  `ifbcomma= noifb= linews= srcok= nlfree=`.
  `shift <dl> <dc> <sl> <sc>`     M-SourceMap `SourceMap::add`: `dl:dc:sl:sc` (0-based) or `panic`.
  `inside <w> <x> <items>`        M-Inside: `normal=<0|1> expanded=<0|1>`; items `[v.C,r.A.B.<0|1 inclusive>,…]`.
Every other request kind (`idem`, `layout`, `tie`, `smap`, `opts`, … — verdicts the harness computes on the
real tools, with an oracle) is answered `?`.
-/
namespace VerylModel.Driver.Fmt
open VerylModel.Aligner VerylModel.Driver

def splitOn1 (s : String) (c : String) : List String := s.splitOn c

def parseDup? (s : String) : Option (Option Nat) :=
  if s = "-" then some none else (parseHex? s).map some

/-- `line.col.len.src.dup`. -/
def parseLoc? (s : String) : Option Loc :=
  match s.splitOn "." with
  | [l, c, n, src, d] =>
    match parseHex? l, parseHex? c, parseHex? n, parseHex? src, parseDup? d with
    | some l, some c, some n, some src, some d => some { line := l, col := c, len := n, src := src, dup := d }
    | _, _, _, _, _ => none
  | _ => none

def parsePk? (s : String) : Option PadKind :=
  if s = "a" then some .always else if s = "b" then some .ifBreak else if s = "f" then some .ifFlat else none

def parseOp? (t : String) : Option Op :=
  match t.splitOn ":" with
  | [h] =>
    match h.splitOn "." with
    | ["s", k] => (parseHex? k).map (fun k => .start k .always)
    | ["sb", k] => (parseHex? k).map (fun k => .start k .ifBreak)
    | ["sf", k] => (parseHex? k).map (fun k => .start k .ifFlat)
    | ["f", k] => (parseHex? k).map .finishItemK
    | ["F"] => some .finishItem
    | ["G"] => some .finishGroup
    | ["g", k] => (parseHex? k).map .finishGroupFor
    | ["c"] => some .clearHad
    | ["c", k] => (parseHex? k).map .clearHadK
    | ["e"] => some .noteEnd
    | ["e", k, line] => match parseHex? k, parseHex? line with
      | some k, some l => some (.noteEndK k l)
      | _, _ => none
    | ["p", n] => (parseHex? n).map .space
    | ["w", k, n] => match parseHex? k, parseHex? n with
      | some k, some n => some (.addWidthK k n)
      | _, _ => none
    | ["x", k] => (parseHex? k).map (fun k => .autoK k true)
    | ["y", k] => (parseHex? k).map (fun k => .autoK k false)
    | ["X"] => some (.auto true)
    | ["Y"] => some (.auto false)
    | ["A"] => some .gather
    | _ => none
  | [h, loc] =>
    match parseLoc? loc with
    | none => none
    | some loc =>
      match h.splitOn "." with
      | ["t"] => some (.token loc)
      | ["d"] => some (.token loc)
      | ["D", k] => (parseHex? k).map (fun k => .tokenK k loc)
      | ["dl", k] => (parseHex? k).map (fun k => .dummyK k loc)
      | ["dt", k] => (parseHex? k).map (fun k => .dummyK k loc)
      | _ => none
  | ["a", loc, w, pk] =>
    match parseLoc? loc, parseHex? w, parsePk? pk with
    | some loc, some w, some pk => some (.direct loc w pk)
    | _, _, _ => none
  | _ => none

def parseOps? : List String → Option (List Op)
  | [] => some []
  | t :: ts =>
    match parseOp? t, parseOps? ts with
    | some o, some os => some (o :: os)
    | _, _ => none

def showDup : Option Nat → String
  | none => "-"
  | some i => toHex i

def showLoc (l : Loc) : String :=
  s!"{toHex l.line}.{toHex l.col}.{toHex l.len}.{toHex l.src}.{showDup l.dup}"

def showPk : PadKind → String
  | .always => "a"
  | .ifBreak => "b"
  | .ifFlat => "f"

def dupKey : Option Nat → Nat
  | none => 0
  | some i => i + 1

def locLe (a b : Loc) : Bool :=
  let ka := [a.line, a.col, a.len, a.src, dupKey a.dup]
  let kb := [b.line, b.col, b.len, b.src, dupKey b.dup]
  decide (ka ≤ kb)

def showAdds (m : Adds) : String :=
  let es := m.canon.mergeSort (fun x y => locLe x.1 y.1)
  showList (es.map (fun e => s!"{showLoc e.1}:{toHex e.2.1}:{showPk e.2.2}"))

def showAligner (g : Aligner) : String :=
  let ll := g.aligns.map (fun a => match a.lastLoc with | none => "-" | some l => showLoc l)
  s!"{showAdds g.additions}|{if g.anyEnabled then "1" else "0"}|{showList ll}"

def parseItem? (s : String) : Option Inside.Item :=
  match s.splitOn "." with
  | ["v", c] => (parseHex? c).map .value
  | ["r", a, b, i] => match parseHex? a, parseHex? b, i with
    | some a, some b, "1" => some (.range a b true)
    | some a, some b, "0" => some (.range a b false)
    | _, _, _ => none
  | _ => none

def parseItems? : List String → Option (List Inside.Item)
  | [] => some []
  | t :: ts =>
    match parseItem? t, parseItems? ts with
    | some o, some os => some (o :: os)
    | _, _ => none

def b01 (x : Bool) : String := if x then "1" else "0"

def step (_ : Unit) (t : List String) : Unit × String :=
  match t with
  | ["align", trace] =>
    match parseOps? (parseList trace) with
    | none => ((), "bad-op")
    | some ops =>
      match (Aligner.new VerylModel.Gen.alignKindCount).run ops with
      | none => ((), "panic")
      | some g => ((), showAligner g)
  | ["rstrip", mw, iw, nl, st, doc] =>
    match Pretty.parseOpts? mw iw nl st, Pretty.parseDoc? doc with
    | some o, some d =>
      let t := (VerylModel.Pretty.render o (VerylModel.Pretty.stripComments d)).text
      ((), Pretty.textHex (t.filter (fun c => !VerylModel.Pretty.isWs c)))
    | _, _ => ((), "bad-op")
  | ["dflags", doc] =>
    match Pretty.parseDoc? doc with
    | some d =>
      ((), s!"ifbcomma={b01 (d.all VerylModel.Pretty.ifbCommaNode)} noifb={b01 (d.all VerylModel.Pretty.noIfbNode)} linews={b01 (d.all VerylModel.Pretty.lineWsNode)} srcok={b01 (d.all VerylModel.Pretty.srcOkNode)} nlfree={b01 (d.all VerylModel.Pretty.nlFreeNode)}")
    | none => ((), "bad-op")
  | ["shift", dl, dc, sl, sc] =>
    match parseHex? dl, parseHex? dc, parseHex? sl, parseHex? sc with
    | some dl, some dc, some sl, some sc =>
      match SourceMap.add dl dc sl sc with
      | some e => ((), s!"{toHex e.dstLine}:{toHex e.dstCol}:{toHex e.srcLine}:{toHex e.srcCol}")
      | none => ((), "panic")
    | _, _, _, _ => ((), "bad-op")
  | ["inside", w, x, items] =>
    match parseHex? w, parseHex? x, parseItems? (parseList items) with
    | some w, some x, some is =>
      ((), s!"normal={b01 (Inside.normal w x is)} expanded={b01 (Inside.expanded x is)}")
    | _, _, _ => ((), "bad-op")
  | "render" :: _ => Pretty.step () t
  | "prop" :: _ => Pretty.step () t
  | "hyp" :: _ => Pretty.step () t
  | k :: _ =>
    if k ∈ ["idem", "layout", "tie", "smap", "opts", "case"] then ((), "?") else ((), "bad-op")
  | [] => ((), "bad-op")

def run : IO Unit := runLines () step

end VerylModel.Driver.Fmt
