import VerylModel.Core.Wide
import VerylModel.Driver.Util
/-! `vmodel wide`: one `wide_*` call per line (numbers in hex, buffers as `[w0,w1,…]` little-endian
64-bit words); the reply is the destination buffer after the call, or the returned `i64` in decimal. -/
namespace VerylModel.Driver.Wide
open VerylModel.Wide VerylModel.Driver

def parseWords (s : String) : Option (List Nat) :=
  if ¬ (s.startsWith "[" ∧ s.endsWith "]") then none else
  (parseList s).foldr (fun x acc => match parseHex? x, acc with
    | some v, some l => if v < W then some (v :: l) else none
    | _, _ => none) (some [])

def showWords (ws : List Nat) : String := showList (ws.map toHex)

def showInt (i : Int) : String := toString i

/-- The callers' contract of wide_ops.rs ("pointers are valid and nb matches the buffer sizes"):
a request whose buffers are smaller than what the real code would touch is rejected (`bad-op`) by
both sides — the harness cannot execute it on raw pointers. -/
def guard (c : Bool) (s : String) : String := if c then s else "bad-op"

def u32 (x : Nat) : Bool := x < 4294967296
/-- words needed to hold `width` bits. -/
def need (width : Nat) : Nat := (width + 63) / 64

def bin3 (f : Nat → List Nat → List Nat → List Nat) (nb d a b : String) : String :=
  match parseHex? nb, parseWords d, parseWords a, parseWords b with
  | some nb, some d, some a, some b =>
    guard (u32 nb && nw nb ≤ d.length && nw nb ≤ a.length && nw nb ≤ b.length) (showWords (store d (f (nw nb) a b)))
  | _, _, _, _ => "bad-op"

def un2 (f : Nat → List Nat → List Nat) (nb d a : String) : String :=
  match parseHex? nb, parseWords d, parseWords a with
  | some nb, some d, some a => guard (u32 nb && nw nb ≤ d.length && nw nb ≤ a.length) (showWords (store d (f (nw nb) a)))
  | _, _, _ => "bad-op"

def cmp2 (f : Nat → List Nat → List Nat → Int) (nb a b : String) : String :=
  match parseHex? nb, parseWords a, parseWords b with
  | some nb, some a, some b => guard (u32 nb && nw nb ≤ a.length && nw nb ≤ b.length) (showInt (f (nw nb) a b))
  | _, _, _ => "bad-op"

def step (_ : Unit) (t : List String) : Unit × String :=
  ((), match t with
  | ["pack", nb, w] =>
    (match parseHex? nb, parseHex? w with
     | some nb, some w => (match packNbWidth nb w with | some p => toHex p | none => "panic")
     | _, _ => "bad-op")
  | ["band", nb, d, a, b] => bin3 band nb d a b
  | ["bor", nb, d, a, b] => bin3 bor nb d a b
  | ["bxor", nb, d, a, b] => bin3 bxor nb d a b
  | ["bxor_not", nb, d, a, b] => bin3 bxorNot nb d a b
  | ["band_not", nb, d, a, b] => bin3 bandNot nb d a b
  | ["add", nb, d, a, b] => bin3 add nb d a b
  | ["sub", nb, d, a, b] => bin3 sub nb d a b
  | ["mul", nb, d, a, b] => bin3 mul nb d a b
  | ["bnot", nb, d, a] => un2 bnot nb d a
  | ["negate", nb, d, a] => un2 negate nb d a
  | ["copy", nb, d, a] => un2 copy nb d a
  | ["eq", nb, a, b] => cmp2 eqLoop nb a b
  | ["ne", nb, a, b] => cmp2 neLoop nb a b
  | ["ucmp", nb, a, b] => cmp2 ucmp nb a b
  | ["scmp", p, a, b] =>
    (match parseHex? p, parseWords a, parseWords b with
     | some p, some a, some b =>
       let (nb, wd) := (unpackNb p, unpackWidth p)
       guard (u32 p && (wd = 0 || nb = 0 || (max (nw nb) (need wd) ≤ a.length && max (nw nb) (need wd) ≤ b.length)))
         (showInt (scmp a b p))
     | _, _, _ => "bad-op")
  | ["scmp_asym", pa, pb, a, b] =>
    (match parseHex? pa, parseHex? pb, parseWords a, parseWords b with
     | some pa, some pb, some a, some b =>
       let (anb, aw, bnb, bw) := (unpackNb pa, unpackWidth pa, unpackNb pb, unpackWidth pb)
       guard (u32 pa && u32 pb && (aw = 0 || bw = 0 || anb = 0 || bnb = 0 || (need aw ≤ a.length && need bw ≤ b.length)))
         (showInt (scmpAsym a b pa pb))
     | _, _, _, _ => "bad-op")
  | ["shl", nb, amt, d, a] =>
    (match parseHex? nb, parseHex? amt, parseWords d, parseWords a with
     | some nb, some amt, some d, some a =>
       guard (u32 nb && amt < W && nw nb ≤ d.length && nw nb ≤ a.length) (showWords (store d (shl (nw nb) a amt)))
     | _, _, _, _ => "bad-op")
  | ["lshr", nb, amt, d, a] =>
    (match parseHex? nb, parseHex? amt, parseWords d, parseWords a with
     | some nb, some amt, some d, some a =>
       guard (u32 nb && amt < W && nw nb ≤ d.length && nw nb ≤ a.length) (showWords (store d (lshr (nw nb) a amt)))
     | _, _, _, _ => "bad-op")
  | ["ashr", p, amt, d, a] =>
    (match parseHex? p, parseHex? amt, parseWords d, parseWords a with
     | some p, some amt, some d, some a =>
       let (nb, wd) := (unpackNb p, unpackWidth p)
       guard (u32 p && amt < W && (wd = 0 || nb = 0 || (max (nw nb) (need wd) ≤ a.length && nw nb ≤ d.length)))
         (showWords (ashr d a amt p))
     | _, _, _, _ => "bad-op")
  | ["is_nonzero", nb, a] =>
    (match parseHex? nb, parseWords a with
     | some nb, some a => guard (u32 nb && nw nb ≤ a.length) (showInt (isNonzeroLoop (nw nb) a))
     | _, _ => "bad-op")
  | ["is_all_ones", p, a] =>
    (match parseHex? p, parseWords a with
     | some p, some a => guard (u32 p && need (unpackWidth p) ≤ a.length) (showInt (isAllOnes a p))
     | _, _ => "bad-op")
  | ["popcnt_parity", nb, a] =>
    (match parseHex? nb, parseWords a with
     | some nb, some a => guard (u32 nb && nw nb ≤ a.length) (showInt (popcntParity (nw nb) a))
     | _, _ => "bad-op")
  | ["apply_mask", p, d] =>
    (match parseHex? p, parseWords d with
     | some p, some d => guard (u32 p && nw (unpackNb p) ≤ d.length) (showWords (applyMask d p))
     | _, _ => "bad-op")
  | ["fill_ones", p, d] =>
    (match parseHex? p, parseWords d with
     | some p, some d => guard (u32 p && nw (unpackNb p) ≤ d.length) (showWords (fillOnes d p))
     | _, _ => "bad-op")
  | ["resize", info, dnb, d, s] =>
    (match parseHex? info, parseHex? dnb, parseWords d, parseWords s with
     | some info, some dnb, some d, some s =>
       guard (info < W && u32 dnb && nw dnb ≤ d.length && need (unpackWidth (info % 4294967296)) ≤ s.length)
         (showWords (store d (resize s info dnb)))
     | _, _, _, _ => "bad-op")
  | _ => "bad-op")

def run : IO Unit := runLines () step

end VerylModel.Driver.Wide
