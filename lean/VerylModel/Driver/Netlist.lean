import VerylModel.Core.Netlist
import VerylModel.Driver.Util
/-! `vmodel netlist`: the REAL `GateModule` of every request (serialised by `hx synth`) is rebuilt
as a `Netlist.Module`; the reply carries `Netlist.wf`, `Netlist.run` on the stimulus, and
`Netlist.report` / `Netlist.area` for the requested cell library (exact scaled naturals). -/
namespace VerylModel.Driver.Netlist
open VerylModel.Netlist VerylModel.Gen VerylModel.Driver

def hexes (s : String) : Option (List Nat) :=
  if s = "-" then some [] else (s.splitOn ".").mapM parseHex?

def field (toks : List String) (k : String) : Option String :=
  toks.findSome? (fun t => if t.startsWith (k ++ "=") then some (t.drop (k.length + 1)).toString else none)

def parseDriver (s : String) : Option Driver :=
  match s.toList with
  | ['c', '0'] => some (.const false)
  | ['c', '1'] => some (.const true)
  | ['p'] => some .portInput
  | ['u'] => some .undriven
  | 'C' :: rest => (parseHex? (String.ofList rest)).map Driver.cell
  | 'F' :: rest => (parseHex? (String.ofList rest)).map Driver.ffQ
  | 'R' :: rest =>
    match hexes (String.ofList rest) with
    | some [r, p, b] => some (.ramRead r p b)
    | _ => none
  | _ => none

def parsePort (s : String) : Option Port :=
  match s.splitOn ":" with
  | [d, ns] =>
    match (if d = "i" then some Dir.input else if d = "o" then some Dir.output else if d = "b" then some Dir.inout else none),
          hexes ns with
    | some dir, some nets => some { dir := dir, nets := nets }
    | _, _ => none
  | _ => none

def parseCell (s : String) : Option Cell :=
  match hexes s with
  | some (k :: o :: ins) => (CellKind.ofCode k).map (fun kind => { kind := kind, inputs := ins, output := o })
  | _ => none

def parseEdge (s : String) : Option Edge :=
  if s = "p" then some .posedge else if s = "n" then some .negedge else none

def parseReset (s : String) : Option (Option ResetSpec) :=
  if s = "-" then some none else
  match s.splitOn "." with
  | [n, pol, sy] =>
    match parseHex? n with
    | some net =>
      if (pol = "h" || pol = "l") && (sy = "s" || sy = "a") then
        some (some { net := net, activeHigh := pol = "h", sync := sy = "s" })
      else none
    | none => none
  | _ => none

def parseFf (s : String) : Option Ff :=
  match s.splitOn ":" with
  | [main, rs] =>
    match main.splitOn ".", parseReset rs with
    | [c, e, d, q, rv], some reset =>
      match parseHex? c, parseEdge e, parseHex? d, parseHex? q with
      | some clock, some edge, some dn, some qn =>
        if rv = "0" || rv = "1" then
          some { clock := clock, edge := edge, reset := reset, d := dn, q := qn, resetValue := rv = "1" }
        else none
      | _, _, _, _ => none
    | _, _ => none
  | _ => none

/-- `depth.width.clk.edge.acc/R:…/W:…` → RAM block and its access delay. -/
def parseRam (s : String) : Option (Ram × Nat) :=
  match s.splitOn "/" with
  | hd :: portsS =>
    match hd.splitOn "." with
    | [dp, w, c, e, acc] =>
      match parseHex? dp, parseHex? w, parseHex? c, parseEdge e, parseHex? acc with
      | some depth, some width, some clock, some edge, some a =>
        let step (acc : Option (List ReadPort × List WritePort)) (p : String) :=
          match acc with
          | none => none
          | some (rs, ws) =>
            match p.splitOn ":" with
            | ["R", sy, ad, da] =>
              match hexes ad, hexes da with
              | some addr, some data =>
                if sy = "s" || sy = "a" then some (rs ++ [{ addr := addr, data := data, sync := sy = "s" }], ws) else none
              | _, _ => none
            | ["W", en, ad, da, mk] =>
              match parseHex? en, hexes ad, hexes da, (if mk = "n" then some none else (hexes mk).map some) with
              | some enable, some addr, some data, some mask =>
                some (rs, ws ++ [{ addr := addr, data := data, enable := enable, mask := mask }])
              | _, _, _, _ => none
            | _ => none
        match portsS.foldl step (some ([], [])) with
        | some (rs, ws) =>
          some ({ depth := depth, width := width, clock := clock, edge := edge, reads := rs, writes := ws }, a)
        | none => none
      | _, _, _, _, _ => none
    | _ => none
  | [] => none

structure Req where
  m : Module
  lib : CellLib
  access : List Nat
  inmap : List Nat
  clk : Option Nat
  rst : Option (Nat × Bool)
  ep : Option Nat
  stim : List (List Nat)

def parseOptHex (s : String) : Option (Option Nat) :=
  if s = "-" then some none else (parseHex? s).map some

def parseReq (toks : List String) : Option Req := do
  let lib ← (field toks "lib" >>= parseHex?) >>= libraryOfCode
  let drv ← (field toks "drv").bind (fun s => (parseList s).mapM parseDriver)
  let ports ← (field toks "ports").bind (fun s => (parseList s).mapM parsePort)
  let cells ← (field toks "cells").bind (fun s => (parseList s).mapM parseCell)
  let ffs ← (field toks "ffs").bind (fun s => (parseList s).mapM parseFf)
  let rams ← (field toks "rams").bind (fun s => (parseList s).mapM parseRam)
  let inmap ← (field toks "inmap").bind (fun s => (parseList s).mapM parseHex?)
  let clk ← (field toks "clkn").bind parseOptHex
  let ep ← (field toks "ep").bind parseOptHex
  let rstS ← field toks "rstn"
  let rst ← (if rstS = "-" then some none else
    match rstS.splitOn "." with
    | [n, h] => (parseHex? n).map (fun x => some (x, decide (h = "h")))
    | _ => none)
  let stim ← (field toks "stim").bind (fun s =>
    (parseList s).mapM (fun c => if c = "-" then some [] else (c.splitOn ":").mapM parseHex?))
  let nn ← field toks "nn" >>= parseHex?
  if nn ≠ drv.length then none else
  some { m := { drivers := drv.toArray, ports := ports, cells := cells, ffs := ffs, rams := rams.map (·.1) },
         lib := lib, access := rams.map (·.2), inmap := inmap, clk := clk, rst := rst, ep := ep, stim := stim }

/-- `(net, value)` pairs of one cycle: every data input by `inmap`, then the reset pin (asserted in
    cycle 0 only). -/
def cycleInputs (r : Req) (ci : Nat) (vals : List Nat) : List (Nat × Bool) :=
  let data := (List.zip r.inmap vals).flatMap (fun (pi, v) =>
    match r.m.ports[pi]? with
    | some p => wordPins v 0 p.nets
    | none => [])
  match r.rst with
  | some (n, high) => data ++ [(n, (ci == 0) == high)]
  | none => data

def stimInputs (r : Req) : Nat → List (List Nat) → List (List (Nat × Bool))
  | _, [] => []
  | ci, v :: rest => cycleInputs r ci v :: stimInputs r (ci + 1) rest

def showOuts : Option (List Nat) → String
  | some vs => ":".intercalate (vs.map toHex)
  | none => "err-unsettled"

def wfWhy (m : Module) : String :=
  let parts :=
    (if 2 ≤ m.nNets then [] else ["no-const-nets"])
    ++ (if inRangeOk m then [] else ["net-out-of-range"])
    ++ (if arityOk m then [] else ["arity"])
    ++ (if driversOk m then [] else ["drivers"])
    ++ (if m.rams.all ramShapeOk then [] else ["ram-shape"])
    ++ (if tableOk m then [] else ["driver-table"])
    ++ (if acyclicCheck m then [] else ["combinational-cycle"])
  if parts.isEmpty then "-" else "+".intercalate parts

def reply (r : Req) : String :=
  let m := r.m
  let ok := wf m
  let p : TParams := { delay := r.lib.delay, access := fun ri => r.access.getD ri 0 }
  let outs := if ok then (VerylModel.Netlist.run m r.clk (initState m) (stimInputs r 0 r.stim)).map showOuts else []
  let timing :=
    if !ok then "delay=- depth=- end=- epa=- epd=-" else
    match sweep p m, report p m with
    | some st, some rep =>
      let e := match rep.endNet with | some n => toHex n | none => "-"
      let (epa, epd) := match r.ep with
        | some n => (toString (aget st.arrival n), toHex (aget st.depth n))
        | none => ("-", "-")
      s!"delay={rep.delay} depth={toHex rep.depth} end={e} epa={epa} epd={epd}"
    | _, _ => "delay=unsettled depth=- end=- epa=- epd=-"
  let a := area r.lib m
  let kinds := a.byKind.map (fun (k, c, ar) => s!"{k.symbol}:{toHex c}:{ar}")
  s!"wf={if ok then 1 else 0} why={wfWhy m} out={showList outs} {timing} area={a.total} comb={a.combinational} seq={a.sequential} mem={a.memory} ff={toHex a.ffCount} bits={toHex a.ramBits} kinds={showList kinds}"

def step (_ : Unit) (t : List String) : Unit × String :=
  match t with
  | "net" :: rest =>
    match parseReq rest with
    | some r => ((), reply r)
    | none => ((), "bad-op")
  | _ => ((), "bad-op")

def run : IO Unit := runLines () step

end VerylModel.Driver.Netlist
