import VerylModel.Lemmas.CrashClosed
/-!
C05 — crashes and cache damage never leave a build wrong.

* `atomic_files_whole` (full strength): a file written only through `atomic_write` (manifest,
  blobs) is, after EVERY prefix of a run's steps, as it was / absent / complete.
* `read_blob_exact`, `damage_is_miss`, `diag_damage_is_miss` (full strength, unconditional on the
  decoders since commits 7005a14 / 1f0da8d): whatever replaces a fragment or diagnostics blob, the
  file is a miss or the blob is byte-identical to the original (BLAKE3 = `name`, no second preimage);
  `manifest_damage_is_miss`: the store opens empty unless toml accepts the bytes as a manifest with
  the right key.
* `C05_truncated_output_survives` (NEGATION of the recovery statement for the code as it is):
  build; delete `b.sv`; next build killed between `open(O_TRUNC)` and `write` of `b.sv`; next
  build restores `b` from the cache and leaves `b.sv` empty.
* `C05_atomic_write_alone_leaves_map` (NEGATION for the "write outputs through atomic_write"
  repair alone): `dst_is_stale` never looks at the `.sv.map`.
* `C05_revert_keeps_crashed_output` (NEGATION, even with atomic output writes): an edit undone with its
  old mtime after the crash makes the crashed run's complete-but-unrecorded output a "fresh" hit.
* `no_stamp_is_stale`, `no_stamp_is_miss`, `lost_info_recovery`: `dst_is_stale` requires a recorded stamp, so a
  lost / truncated / never written `info.toml` makes every file re-emit — also when `veryl check` has already
  moved the manifest ahead of the outputs.
* `old_blob_payload_not_verified`, `old_diag_blob_damage_drops_warnings`: the two repaired defects, as
  negations about the `…Old` definitions.
* `recovery_partial`: what does hold for the code as it is; `recovery_fixed`: the repair (staleness test
  also compares the outputs' own mtimes with the recorded stamp) for which the statement holds at every
  crash point and for every edit history (`recovery_fixed_closed`: the statement negated above, proved
  for that test with no hypothesis on the analyzer); `damage_recovery`: damage under `.build` with
  intact outputs.
-/
namespace VerylModel.Props.C05
open VerylModel.Incremental VerylModel.Crash VerylModel.Props

/-! ## T1 -/

theorem atomic_files_whole (now : Nat) (bs : List Block) (p : Path) (hp : p.isTmp = false)
    (h : ∀ b ∈ bs, b.target = p → (∃ k cs, b = .atomic k p cs) ∨ b = .unlink p) (fs : FS) (n : Nat) :
    crash now fs (stepsOf bs) n p = fs p ∨ crash now fs (stepsOf bs) n p = none ∨
    ∃ k cs, Block.atomic k p cs ∈ bs ∧ crash now fs (stepsOf bs) n p = some ⟨joinC cs, now⟩ := by
  induction bs generalizing fs n with
  | nil => left; simp [stepsOf, crash, run]
  | cons b bs ih =>
    rw [stepsOf_cons, crash_append]
    rcases ih (fun c hc => h c (List.mem_cons_of_mem _ hc)) (crash now fs b.steps n) (n - b.steps.length) with h1 | h1 | ⟨k, cs, hm, h1⟩
    · rw [h1]
      by_cases ht : b.target = p
      · rcases h b (List.mem_cons_self ..) ht with ⟨k, cs, rfl⟩ | rfl
        · simp only [Block.steps, crash_atomic k p cs fs p hp n]
          split
          · exact Or.inr (Or.inr ⟨k, cs, List.mem_cons_self .., rfl⟩)
          · exact Or.inl rfl
        · cases n with
          | zero => left; simp [crash_zero]
          | succ n =>
            right; left
            rw [crash_ge _ _ _ (by simp [Block.steps])]
            simp [Block.steps, run_cons, run_nil, exec, set_same]
      · exact Or.inl (crash_block_other b fs p hp ht n)
    · exact Or.inr (Or.inl h1)
    · exact Or.inr (Or.inr ⟨k, cs, List.mem_cons_of_mem _ hm, h1⟩)


/-- T1 for the steps of a run: `manifest.toml` and every blob are, after every prefix, as they were,
    absent (gc), or complete with exactly the planned content — in either output mode. -/
theorem plan_atomic_files_whole (now : Nat) (mode : OutMode) (pl : Plan) (hwf : pl.wf) (p : Path)
    (hp : p = .manifest ∨ ∃ b, p = .blob b) (fs : FS) (n : Nat) :
    crash now fs (pl.steps mode) n p = fs p ∨ crash now fs (pl.steps mode) n p = none ∨
    ∃ c, crash now fs (pl.steps mode) n p = some ⟨c, now⟩ ∧
      ((p = .manifest ∧ pl.manifest = some (match c with | .man m => m | _ => emptyMan 0) ∧ ∃ m, c = .man m) ∨
       (∃ b d, p = .blob b ∧ (P1.blob b d ∈ pl.pass1 ∨ (b, d) ∈ pl.diagBlobs) ∧ c = .raw d)) := by
  simp only [Plan.steps]
  have hreal : p.isTmp = false := by rcases hp with rfl | ⟨b, rfl⟩ <;> rfl
  have hnot : ¬ IsOut p := by rcases hp with rfl | ⟨b, rfl⟩ <;> (rintro ⟨f, h | h⟩ <;> cases h)
  have hpf : p ≠ .filelist := by rcases hp with rfl | ⟨b, rfl⟩ <;> simp
  have hpi : p ≠ .info := by rcases hp with rfl | ⟨b, rfl⟩ <;> simp
  have hpl : ∀ i, p ≠ .lock i := by intro i; rcases hp with rfl | ⟨b, rfl⟩ <;> simp
  -- every block about `p` is an atomic write or an unlink, and atomic ones carry planned content
  have key : ∀ b ∈ pl.blocks mode, b.target = p →
      ((∃ k cs, b = .atomic k p cs ∧
          ((p = .manifest ∧ ∃ m, pl.manifest = some m ∧ cs = [.man m]) ∨
           (∃ n d, p = .blob n ∧ (P1.blob n d ∈ pl.pass1 ∨ (n, d) ∈ pl.diagBlobs) ∧ cs = [.raw d]))) ∨ b = .unlink p) := by
    intro b hb ht
    simp only [Plan.blocks, Plan.pre, Plan.pre0, Plan.pre1, Plan.outBlocks, Plan.mid, Plan.post, List.mem_append,
      List.mem_map, List.mem_cons, List.mem_nil_iff, or_false] at hb
    rcases hb with (((((rfl | rfl) | ⟨x, hx, rfl⟩) | ⟨o, ho, rfl⟩) | (hb | ⟨x, hx, rfl⟩)) | hb) | (⟨x, hx, rfl⟩ | hb)
    · exact absurd ht.symm (hpl 0)
    · exact absurd ht.symm (hpl 1)
    · cases x with
      | purge n => right; simp only [P1.block, Block.target] at ht; subst ht; rfl
      | blob n d =>
        left; simp only [P1.block, Block.target] at ht; subst ht
        exact ⟨_, _, rfl, Or.inr ⟨n, d, rfl, Or.inl hx, rfl⟩⟩
    · rw [target_writeFile] at ht; subst ht; exact absurd (hwf o ho) hnot
    · cases hf : pl.filelist with
      | none => simp [hf] at hb
      | some d => simp only [hf, List.mem_singleton] at hb; subst hb; rw [target_writeFile] at ht; exact absurd ht.symm hpf
    · left; simp only [Block.target] at ht; subst ht
      exact ⟨_, _, rfl, Or.inr ⟨x.1, x.2, rfl, Or.inr hx, rfl⟩⟩
    · cases hm : pl.manifest with
      | none => simp [hm] at hb
      | some m =>
        simp only [hm, List.mem_singleton] at hb; subst hb
        simp only [Block.target] at ht; subst ht
        left; exact ⟨_, _, rfl, Or.inl ⟨rfl, m, rfl, rfl⟩⟩
    · right; simp only [Block.target] at ht; subst ht; rfl
    · cases hi : pl.info with
      | none => simp [hi] at hb
      | some g => simp only [hi, List.mem_singleton] at hb; subst hb; exact absurd ht.symm hpi
  have := atomic_files_whole now (pl.blocks mode) p hreal
    (fun b hb ht => (key b hb ht).imp (fun ⟨k, cs, h, _⟩ => ⟨k, cs, h⟩) id) fs n
  rcases this with h | h | ⟨k, cs, hm, h⟩
  · exact Or.inl h
  · exact Or.inr (Or.inl h)
  · right; right
    rcases key _ hm rfl with ⟨k', cs', he, hc⟩ | he
    · cases he
      rcases hc with ⟨hpm, m, hmm, rfl⟩ | ⟨b, d, hpb, hmem, rfl⟩
      · exact ⟨.man m, by rw [h, joinC_single], Or.inl ⟨hpm, by simpa using hmm, m, rfl⟩⟩
      · exact ⟨.raw d, by rw [h, joinC_single], Or.inr ⟨b, d, hpb, hmem, rfl⟩⟩
    · cases he

/-! ## T2: damage -/

/-- The header check alone (`read_blob` before commit 7005a14, and the second half of it since):
    a payload is returned exactly when the file is `MAGIC ++ VERSION ++ payload`. -/
theorem read_blob_old_exact (magic ver d pl : Bytes) (hv : ver.length = 4) :
    readBlobOld magic ver d = some pl ↔ d = magic ++ ver ++ pl := by
  unfold readBlobOld
  by_cases hpre : magic.isPrefixOf d = true
  · obtain ⟨t, rfl⟩ := List.isPrefixOf_iff_prefix.mp hpre
    simp only [hpre, if_true, List.drop_left]
    by_cases hl : t.length < 4
    · simp only [hl, if_true]
      constructor
      · intro h; cases h
      · intro h
        have : t = ver ++ pl := by simpa [List.append_assoc] using h
        subst this
        simp [hv] at hl
        omega
    · simp only [hl, if_false]
      by_cases ht : t.take 4 = ver
      · simp only [ht, if_true, Option.some.injEq]
        constructor
        · intro h
          have : t = t.take 4 ++ t.drop 4 := (List.take_append_drop 4 t).symm
          rw [this, ht, h, List.append_assoc]
        · intro h
          have : t = ver ++ pl := by simpa [List.append_assoc] using h
          subst this
          rw [← hv, List.drop_left]
      · simp only [ht, if_false]
        constructor
        · intro h; cases h
        · intro h
          have : t = ver ++ pl := by simpa [List.append_assoc] using h
          subst this
          exact absurd (by rw [← hv, List.take_left]) ht
  · simp only [hpre]
    constructor
    · intro h; cases h
    · intro h
      subst h
      exact absurd (List.isPrefixOf_iff_prefix.mpr ⟨ver ++ pl, by simp [List.append_assoc]⟩) hpre

/-- `read_blob` (current code) returns a payload exactly when the bytes hash to the file's name AND
    the file is `MAGIC ++ VERSION ++ payload`. -/
theorem read_blob_exact (name : Bytes → Nat) (magic ver : Bytes) (n : Nat) (d pl : Bytes) (hv : ver.length = 4) :
    readBlob name magic ver n d = some pl ↔ name d = n ∧ d = magic ++ ver ++ pl := by
  unfold readBlob
  by_cases hn : name d = n
  · simp [hn, read_blob_old_exact magic ver d pl hv]
  · simp [hn]

/-- Truncating a blob below its 8-byte header is a miss (already by the header check). -/
theorem truncated_header_is_miss (name : Bytes → Nat) (magic ver : Bytes) (n : Nat) (d : Bytes)
    (hv : ver.length = 4) (h : d.length < magic.length + 4) :
    readBlob name magic ver n d = none := by
  cases hr : readBlob name magic ver n d with
  | none => rfl
  | some pl =>
    have := ((read_blob_exact name magic ver n d pl hv).mp hr).2
    subst this
    simp [hv] at h
    omega

/-- `damage_is_miss`, fragment blob — unconditional on the decoder: whatever replaces the fragment
    blob of `f` (any cell, or deletion), `try_restore` fails (a miss) or the file is byte-identical to
    the original.  `hname`: no other byte string hashes to the blob's name (BLAKE3, trusted). -/
theorem damage_is_miss (E : Env) (m : Man) (fs : FS) (f : File) (n : Nat)
    (hn : lookupNat m.blobOf f = some n) (orig : Bytes) (hname : ∀ d, E.name d = n → d = blobData E orig)
    (x : Option Cell) :
    restoreOk E m (fs.set (.blob n) x) f = false ∨ content x = some (.raw (blobData E orig)) := by
  unfold restoreOk loadBlob
  simp only [hn, set_same]
  cases x with
  | none => left; rfl
  | some cell =>
    obtain ⟨c, t⟩ := cell
    cases c with
    | raw d =>
      by_cases hd : E.name d = n
      · right; rw [hname d hd]; rfl
      · left; simp [readBlob, hd]
    | man _ => left; rfl
    | inf _ => left; rfl

/-- The same from injectivity of the naming function. -/
theorem damage_is_miss_of_injective (E : Env) (hinj : ∀ a b, E.name a = E.name b → a = b) (m : Man) (fs : FS)
    (f : File) (orig : Bytes) (hn : lookupNat m.blobOf f = some (E.name (blobData E orig))) (x : Option Cell) :
    restoreOk E m (fs.set (.blob (E.name (blobData E orig))) x) f = false ∨
    content x = some (.raw (blobData E orig)) :=
  damage_is_miss E m fs f _ hn orig (fun _ hd => hinj _ _ hd) x

/-- `read_blob` removes only files it rejects: a blob it deletes could not have been loaded. -/
theorem purged_blob_was_a_miss (E : Env) (fs : FS) (n : Nat) (h : purges E fs n = true) :
    loadBlob E fs n = none := by
  unfold purges at h
  unfold loadBlob
  cases hc : fs (.blob n) with
  | none => rfl
  | some cell =>
    obtain ⟨c, t⟩ := cell
    cases c with
    | raw d =>
      have : ¬ E.name d = n := by simpa [hc] using h
      simp [readBlob, this]
    | man _ => rfl
    | inf _ => rfl

/-- `damage_is_miss`, diagnostics blob (commit 1f0da8d): whatever replaces the blob an entry names as
    `diagnostics`, the file is a miss or the blob is byte-identical to the original. -/
theorem diag_damage_is_miss (E : Env) (m : Man) (fs : FS) (f : File) (k : Nat)
    (hk : lookupNat m.diagOf f = some k) (orig : Bytes) (hname : ∀ d, E.name d = k → d = blobData E orig)
    (x : Option Cell) :
    restoreOk E m (fs.set (.blob k) x) f = false ∨ content x = some (.raw (blobData E orig)) := by
  have hdiag : diagOk E m (fs.set (.blob k) x) f = false ∨ content x = some (.raw (blobData E orig)) := by
    unfold diagOk loadBlob
    simp only [hk, set_same]
    cases x with
    | none => left; rfl
    | some cell =>
      obtain ⟨c, t⟩ := cell
      cases c with
      | raw d =>
        by_cases hd : E.name d = k
        · right; rw [hname d hd]; rfl
        · left; simp [readBlob, hd]
      | man _ => left; rfl
      | inf _ => left; rfl
  rcases hdiag with hd | hd
  · left
    unfold restoreOk
    cases hb : lookupNat m.blobOf f with
    | none => rfl
    | some n =>
      cases hl : loadBlob E (fs.set (.blob k) x) n with
      | none => simp [hl]
      | some pl => simp [hl, hd]
  · exact Or.inr hd

/-- A restored file replays exactly what its intact diagnostics blob holds: `restoreOk` implies the
    blob loaded (so nothing is dropped silently any more). -/
theorem restored_diagnostics_loaded (E : Env) (m : Man) (fs : FS) (f : File) (k : Nat)
    (hk : lookupNat m.diagOf f = some k) (h : restoreOk E m fs f = true) :
    ∃ pl, loadBlob E fs k = some pl ∧ E.decodeDiag pl = true := by
  unfold restoreOk at h
  cases hb : lookupNat m.blobOf f with
  | none => simp [hb] at h
  | some n =>
    cases hl : loadBlob E fs n with
    | none => simp [hb, hl] at h
    | some pl =>
      simp only [hb, hl, Bool.and_eq_true] at h
      have hd := h.1
      unfold diagOk at hd
      simp only [hk] at hd
      cases hl2 : loadBlob E fs k with
      | none => simp [hl2] at hd
      | some pl2 => exact ⟨pl2, rfl, by simpa [hl2] using hd⟩

/-- Whatever replaces `manifest.toml`: the store opens empty — unless toml parses the bytes as a
    manifest carrying the current global key (`H_parse`). -/
theorem manifest_damage_is_miss (key : Nat) (fs : FS) (x : Option Cell) :
    openMan key (fs.set .manifest x) = emptyMan key ∨
    ∃ m t, x = some ⟨.man m, t⟩ ∧ m.key = key ∧ openMan key (fs.set .manifest x) = m := by
  unfold openMan
  simp only [set_same]
  cases x with
  | none => left; rfl
  | some cell =>
    obtain ⟨c, t⟩ := cell
    cases c with
    | raw _ => left; rfl
    | inf _ => left; rfl
    | man m =>
      by_cases hk : m.key = key
      · right; exact ⟨m, t, rfl, hk, by simp [hk]⟩
      · left; simp [hk]

/-- An empty store makes every file a miss. -/
theorem empty_manifest_all_miss (pol : Policy) (E : Env) (w : World) (mt : File → Nat) (emit : Bool) (fs : FS)
    (h : openMan E.key fs = emptyMan E.key) : ∀ f ∈ w.files, f ∈ missFinal pol E w mt emit fs := by
  intro f hf
  unfold missFinal
  simp only [h, List.mem_append]
  left
  unfold missSet
  simp only [List.mem_append]
  left
  simp [miss0, hf, isHit, emptyMan, lookup]


/-! ## T3: recovery -/

/-- The recovery statement in its weakest useful form — no source is edited at all:
    clean build at `t1`; the user deletes some emitted files; a build at `t2` dies after `n` steps;
    a build at `t3` completes.  Then every source's `.sv` and `.sv.map` are the clean ones. -/
def RecoveryStmt (pol : Policy) (mode : OutMode) : Prop :=
  ∀ (E : Env) (w : World) (mt : File → Nat) (t1 t2 t3 : Nat) (del : List Path) (n : Nat),
    w.files.Nodup → (∀ f, mt f ≤ t1) → t1 < t2 → t2 < t3 → (∀ p ∈ del, IsOut p) →
    ∀ f ∈ w.files,
      OutputsOk E w
        (build pol mode E w mt t3 true
          (crash t2 (del.foldl (fun fs p => fs.set p none) (build pol mode E w mt t1 true emptyFS))
            ((mkPlan pol E w mt t2 true
              (del.foldl (fun fs p => fs.set p none) (build pol mode E w mt t1 true emptyFS))).steps mode) n)) f

/-- Witness: two sources `a` = 0, `b` = 1, nothing cached is unreadable, every payload decodes. -/
def wE : Env :=
  { an := fun _ f => [10 + f, 1, 2], anMap := fun _ f => [20 + f], flist := fun _ => [0, 1],
    frag := fun _ f => [f], diag := fun _ _ => none, cach := fun _ _ => true,
    deps := fun _ _ => [], decode := fun _ => true, magic := [86, 70, 82, 71], ver := [2, 0, 0, 0], key := 1,
    name := fun d => d.getLastD 0 }
def wW : World := { files := [0, 1], hash := fun _ => 7 }
def wMt : File → Nat := fun _ => 5

/-- DESIGN §5 #12.  Build (t=10); delete `b.sv`; the build at t=20 is killed after its 3rd step
    (`lock`, `lock`, `open(b.sv, O_TRUNC)` — before the `write`); the build at t=30 finds the
    manifest entry of `b` matching, `b.sv` existing and `generated_files[b.sv] = 10 ≥ mtime(b.veryl)`:
    a hit, nothing is emitted, `b.sv` stays empty. -/
theorem C05_truncated_output_survives : ¬ RecoveryStmt .code .inPlace := by
  intro h
  have := (h wE wW wMt 10 20 30 [.sv 1] 3 (by decide) (by intro f; simp [wMt]) (by decide) (by decide)
    (by intro p hp; simp at hp; subst hp; exact ⟨1, Or.inl rfl⟩) 1 (by decide)).1
  revert this
  decide

/-- Writing outputs through `atomic_write` is not enough by itself: delete `b.sv` and `b.sv.map`;
    the build at t=20 dies after renaming the new `b.sv` into place (6 steps) and before writing the
    map; the next build sees `b.sv` — `dst_is_stale` never looks at the map — and `b.sv.map` stays absent. -/
theorem C05_atomic_write_alone_leaves_map : ¬ RecoveryStmt .code .atomic := by
  intro h
  have := (h wE wW wMt 10 20 30 [.sv 1, .map 1] 6 (by decide) (by intro f; simp [wMt]) (by decide) (by decide)
    (by intro p hp; simp at hp; rcases hp with rfl | rfl; exact ⟨1, Or.inl rfl⟩; exact ⟨1, Or.inr rfl⟩) 1 (by decide)).2
  revert this
  decide

/-- `recovery_partial` — what holds for the code as it is (either output mode, either staleness
    test): `w` = world of the manifest on disk, `w1` = world of the run that dies after `n` steps,
    `w2` = world of the next, complete run.  If every file the dying run was (re)emitting differs, in
    `w2`, from what the surviving manifest recorded for it (in particular: the dying run's misses all
    had changed source hashes and nothing was reverted), the next run's outputs are the clean ones.
    `DepSound`/`NoDeletedDep` are C04's hypotheses on the opaque analyzer. -/
theorem recovery_partial (pol : Policy) (mode : OutMode) (E : Env) (w w1 w2 : World) (mt1 mt2 : File → Nat)
    (t2 t3 : Nat) (fs1 : FS) (n : Nat)
    (hg : Good pol E fs1 w (fun _ => True))
    (hs1 : C04.DepSound (an' E) E.deps w w1) (hd1 : C04.NoDeletedDep E.deps w w1)
    (hs2 : C04.DepSound (an' E) E.deps w w2) (hd2 : C04.NoDeletedDep E.deps w w2)
    (hs3 : C04.DepSound (an' E) E.deps w1 w2) (hd3 : C04.NoDeletedDep E.deps w1 w2)
    (hchanged : ∀ f ∈ emitted pol E w1 mt1 true fs1, f ∈ w.files → w2.hash f ≠ w.hash f) :
    ∀ f ∈ w2.files, OutputsOk E w2
      (build pol mode E w2 mt2 t3 true (crash t2 fs1 ((mkPlan pol E w1 mt1 t2 true fs1).steps mode) n)) f := by
  rcases crash_good pol mode E w w1 w2 mt1 t2 fs1 n hg hs1 hd1 (Or.inr hchanged) with h | h
  · exact build_correct pol mode E w2 mt2 _ w h hs2 hd2
  · exact build_correct pol mode E w2 mt2 _ w1 h hs3 hd3

/-- `recovery_fixed` — with the repaired staleness test (`Policy.fixed`: the `.sv` and the `.sv.map`
    must exist and must not be newer than the recorded stamp) the statement holds for EVERY crash
    point, every edit before and after the crash, in either output mode, as soon as the dying run's
    clock is later than every recorded stamp. -/
theorem recovery_fixed (mode : OutMode) (E : Env) (w w1 w2 : World) (mt1 mt2 : File → Nat)
    (t2 t3 : Nat) (fs1 : FS) (n : Nat)
    (hg : Good .fixed E fs1 w (fun _ => True))
    (hs1 : C04.DepSound (an' E) E.deps w w1) (hd1 : C04.NoDeletedDep E.deps w w1)
    (hs2 : C04.DepSound (an' E) E.deps w w2) (hd2 : C04.NoDeletedDep E.deps w w2)
    (hs3 : C04.DepSound (an' E) E.deps w1 w2) (hd3 : C04.NoDeletedDep E.deps w1 w2)
    (hclock : ∀ f st, stampOf fs1 f = some st → st < t2) :
    ∀ f ∈ w2.files, OutputsOk E w2
      (build .fixed mode E w2 mt2 t3 true (crash t2 fs1 ((mkPlan .fixed E w1 mt1 t2 true fs1).steps mode) n)) f := by
  rcases crash_good .fixed mode E w w1 w2 mt1 t2 fs1 n hg hs1 hd1 (Or.inl ⟨rfl, hclock⟩) with h | h
  · exact build_correct .fixed mode E w2 mt2 _ w h hs2 hd2
  · exact build_correct .fixed mode E w2 mt2 _ w1 h hs3 hd3

/-- The recovery statement that is FALSE for the code (`C05_truncated_output_survives`) and for
    atomic output writes alone (`C05_atomic_write_alone_leaves_map`) HOLDS, without any hypothesis on
    the opaque analyzer, for the repaired staleness test — in either output mode. -/
theorem recovery_fixed_closed (mode : OutMode) : RecoveryStmt .fixed mode := by
  intro E w mt t1 t2 t3 del n _ _ h12 _ hdel
  have hg0 : Good .fixed E (build .fixed mode E w mt t1 true emptyFS) w (fun _ => True) :=
    build_good .fixed mode E w mt emptyFS (empty_manifest_all_miss .fixed E w mt true emptyFS rfl)
  have hg1 := good_delAll E _ w del hdel hg0
  have hclock : ∀ f st, stampOf (delAll (build .fixed mode E w mt t1 true emptyFS) del) f = some st → st < t2 := by
    intro f st h
    have hinfo := delAll_other (build .fixed mode E w mt t1 true emptyFS) del hdel .info
      (by rintro ⟨g, h' | h'⟩ <;> cases h')
    rw [stampOf_congr hinfo] at h
    unfold stampOf at h
    rw [build_info] at h
    have : st = t1 := lookupNat_const (l := emitted .fixed E w mt true emptyFS) (by simpa [newInfo, oldInfo, emptyFS] using h)
    omega
  exact recovery_fixed mode E w w w mt mt t2 t3 _ n hg1
    (fun _ _ _ _ _ => rfl) (fun _ hg hng => absurd hg hng)
    (fun _ _ _ _ _ => rfl) (fun _ hg hng => absurd hg hng)
    (fun _ _ _ _ _ => rfl) (fun _ hg hng => absurd hg hng) hclock

/-- Damage under `.build` with intact outputs: whatever is in `info.toml`, in the blobs, and whether
    the manifest is the saved one or opens empty, the next build is clean. -/
theorem damage_recovery (pol : Policy) (mode : OutMode) (E : Env) (wm w2 : World) (mt2 : File → Nat) (t3 : Nat) (fs : FS)
    (hman : ManOf E fs wm ∨ openMan E.key fs = emptyMan E.key)
    (houts : ∀ f ∈ wm.files, (fs (.sv f)).isSome → OutputsOk E wm fs f)
    (hs : C04.DepSound (an' E) E.deps wm w2) (hd : C04.NoDeletedDep E.deps wm w2) :
    ∀ f ∈ w2.files, OutputsOk E w2 (build pol mode E w2 mt2 t3 true fs) f := by
  have fresh_exists : ∀ mt f, fresh pol fs mt f = true → (fs (.sv f)).isSome := by
    intro mt f h
    unfold fresh at h
    cases hst : stampOf fs f with
    | none => simp [hst] at h
    | some st =>
      cases hsv : fs (.sv f) with
      | none => simp [hst, hsv] at h
      | some o => rfl
  rcases hman with hm | hm
  · exact build_correct pol mode E w2 mt2 fs wm ⟨hm, fun f hf _ mt hfr => houts f hf (fresh_exists mt f hfr)⟩ hs hd
  · exact build_correct pol mode E w2 mt2 fs ⟨[], fun _ => 0⟩
      ⟨by unfold ManOf; rw [hm]; rfl, fun f hf => by simp at hf⟩
      (fun f hf => by simp at hf) (fun g hg => by simp at hg)


/-! ## `info.toml` lost, truncated or never written -/

/-- `dst_is_stale` REQUIRES a recorded stamp: an output without an entry in `generated_files` is stale
    (`let Some(generated) = … else { return true }`), whatever is on disk and whichever staleness test. -/
theorem no_stamp_is_stale (pol : Policy) (fs : FS) (mt : File → Nat) (f : File) (h : stampOf fs f = none) :
    fresh pol fs mt f = false := by
  unfold fresh; rw [h]

/-- …so an emitting run re-emits it even when the manifest already records the current source hash
    (e.g. after edit + `veryl check`, which saves the manifest and emits nothing). -/
theorem no_stamp_is_miss (pol : Policy) (E : Env) (w : World) (mt : File → Nat) (fs : FS) (f : File)
    (hf : f ∈ w.files) (h : stampOf fs f = none) : f ∈ missFinal pol E w mt true fs := by
  unfold missFinal
  simp only [List.mem_append]
  left
  apply C04.mem_missSet_of_miss0
  unfold miss0
  simp only [List.mem_filter, hf, true_and, Bool.not_eq_true']
  unfold isHit
  cases lookup (openMan E.key fs).files f with
  | none => rfl
  | some e => simp [no_stamp_is_stale pol fs mt f h]

/-- `info.toml` absent, unparsable, or without a stamp for any output (deleted, truncated, garbage, or the
    last build SIGKILLed at its final write): whatever the manifest, the blobs and the outputs on disk are
    — in particular a manifest that `veryl check` moved ahead of the outputs — the next build is clean.
    No hypothesis on the analyzer. -/
theorem lost_info_recovery (pol : Policy) (mode : OutMode) (E : Env) (w : World) (mt : File → Nat) (t : Nat) (fs : FS)
    (hinfo : ∀ f ∈ w.files, stampOf fs f = none) :
    ∀ f ∈ w.files, OutputsOk E w (build pol mode E w mt t true fs) f := by
  intro f hf
  unfold OutputsOk
  rw [build_out_eq pol mode E w mt true fs (.sv f) ⟨f, Or.inl rfl⟩,
      build_out_eq pol mode E w mt true fs (.map f) ⟨f, Or.inr rfl⟩]
  exact (pre_outputs (now := t) pol mode E w mt fs f).1
    (mem_emitted.mpr ⟨hf, no_stamp_is_miss pol E w mt fs f hf (hinfo f hf)⟩)

/-- Every unreadable `info.toml` gives no stamp at all (`Metadata::load` ignores the file). -/
theorem unreadable_info_no_stamp (fs : FS) (h : ∀ g t, fs .info ≠ some ⟨.inf g, t⟩) (f : File) : stampOf fs f = none := by
  unfold stampOf
  cases hc : fs .info with
  | none => rfl
  | some cell =>
    obtain ⟨c, t⟩ := cell
    cases c with
    | raw _ => rfl
    | man _ => rfl
    | inf g => exact absurd hc (h g t)

/-- The recovery statement with an edit that is undone: clean build of `w` at `t1`; sources edited to
    `w1` (mtimes `mt1`); the build at `t2` dies after `n` steps; the edit is undone so that contents AND
    mtimes are those of `w` again (`mv` of a kept copy, a restored backup); the build at `t3` completes. -/
def RevertStmt (pol : Policy) (mode : OutMode) : Prop :=
  ∀ (E : Env) (w w1 : World) (mt mt1 : File → Nat) (t1 t2 t3 : Nat) (n : Nat),
    w.files.Nodup → (∀ f, mt f ≤ t1) → t1 < t2 → t2 < t3 →
    ∀ f ∈ w.files,
      OutputsOk E w
        (build pol mode E w mt t3 true
          (crash t2 (build pol mode E w mt t1 true emptyFS)
            ((mkPlan pol E w1 mt1 t2 true (build pol mode E w mt t1 true emptyFS)).steps mode) n)) f

/-- like `wE`, but the emitted text depends on the source's content hash -/
def wE2 : Env := { wE with an := fun w f => [10 + f, w.hash f] }

/-- Even with outputs written through `atomic_write`: `b` is edited (hash 7 → 8, mtime 15), the build at
    t=20 dies after renaming the NEW `b.sv` into place (two locks + the 4 steps of its `atomic_write`) and before saving
    manifest and `info.toml`; `b.veryl` is put back (hash 7, mtime 5).  The build at t=30 finds hash,
    fragment, `b.sv` and stamp 10 ≥ 5 all in order: a hit, and `b.sv` keeps the text of the undone edit. -/
theorem C05_revert_keeps_crashed_output : ¬ RevertStmt .code .atomic := by
  intro h
  have := (h wE2 wW { files := [0, 1], hash := fun f => if f = 1 then 8 else 7 } wMt
    (fun f => if f = 1 then 15 else 5) 10 20 30 6
    (by decide) (by intro f; simp [wMt]) (by decide) (by decide) 1 (by decide)).1
  revert this
  decide

/-! ### the hypotheses are satisfiable: the witness project, `b` edited before the dying run -/

def wW2 : World := { files := [0, 1], hash := fun f => if f = 1 then 8 else 7 }

theorem wE_depSound (a b : World) : C04.DepSound (an' wE) wE.deps a b := by
  intro f _ _ _ _; rfl

theorem wE_noDeleted (a b : World) : C04.NoDeletedDep wE.deps a b := by
  intro g _ _ f hf; simp [wE] at hf

/-- the state after a successful build is `Good` (both staleness tests) -/
example : Good .code wE (build .code .inPlace wE wW wMt 10 true emptyFS) wW (fun _ => True) := by
  refine ⟨by unfold ManOf; decide, ?_⟩
  intro f hf _ mt _
  have : f = 0 ∨ f = 1 := by simpa [wW] using hf
  rcases this with rfl | rfl <;> exact ⟨by decide, by decide⟩

theorem wGood_fixed : Good .fixed wE (build .fixed .inPlace wE wW wMt 10 true emptyFS) wW (fun _ => True) := by
  refine ⟨by unfold ManOf; decide, ?_⟩
  intro f hf _ mt _
  have : f = 0 ∨ f = 1 := by simpa [wW] using hf
  rcases this with rfl | rfl <;> exact ⟨by decide, by decide⟩

/-- `recovery_partial` instantiated: `b` edited (hash 7 → 8), the build dies after ANY number of
    steps, the next build is clean. -/
example (n : Nat) : ∀ f ∈ wW2.files, OutputsOk wE wW2
    (build .code .inPlace wE wW2 wMt 30 true
      (crash 20 (build .code .inPlace wE wW wMt 10 true emptyFS)
        ((mkPlan .code wE wW2 wMt 20 true (build .code .inPlace wE wW wMt 10 true emptyFS)).steps .inPlace) n)) f := by
  apply recovery_partial .code .inPlace wE wW wW2 wW2 wMt wMt 20 30 _ n _ (wE_depSound _ _) (wE_noDeleted _ _)
    (wE_depSound _ _) (wE_noDeleted _ _) (wE_depSound _ _) (wE_noDeleted _ _)
  · decide
  · refine ⟨by unfold ManOf; decide, ?_⟩
    intro f hf _ mt _
    have : f = 0 ∨ f = 1 := by simpa [wW] using hf
    rcases this with rfl | rfl <;> exact ⟨by decide, by decide⟩

/-- `recovery_fixed` instantiated on the history of `C05_truncated_output_survives`'s kind (no edit,
    any crash point): with the repaired staleness test the next build is clean. -/
example (n : Nat) : ∀ f ∈ wW.files, OutputsOk wE wW
    (build .fixed .inPlace wE wW wMt 30 true
      (crash 20 (build .fixed .inPlace wE wW wMt 10 true emptyFS)
        ((mkPlan .fixed wE wW wMt 20 true (build .fixed .inPlace wE wW wMt 10 true emptyFS)).steps .inPlace) n)) f := by
  apply recovery_fixed .inPlace wE wW wW wW wMt wMt 20 30 _ n wGood_fixed (wE_depSound _ _) (wE_noDeleted _ _)
    (wE_depSound _ _) (wE_noDeleted _ _) (wE_depSound _ _) (wE_noDeleted _ _)
  intro f st h
  have hi : (build .fixed .inPlace wE wW wMt 10 true emptyFS) .info = some ⟨.inf [(0, 10), (1, 10)], 10⟩ := by decide
  simp only [stampOf, hi, lookupNat] at h
  split at h
  · cases h; decide
  · split at h
    · cases h; decide
    · cases h

/-! ## the code before commits 7005a14 / 1f0da8d (kept as `old_…` witnesses about the `…Old` definitions) -/

def wManD : Man :=
  { key := 1, files := [(1, { hash := 7, frag := true, dependents := [] })], blobOf := [(1, 1)], diagOf := [(1, 9)] }
def wFsD : FS :=
  (emptyFS.set (.blob 1) (some ⟨.raw [86, 70, 82, 71, 2, 0, 0, 0, 1], 10⟩)).set (.blob 9)
    (some ⟨.raw [86, 70, 82, 71, 2, 0, 0, 0, 9], 10⟩)

/-- "Whatever replaces a fragment blob, the file is a miss or the blob is byte-identical to the original",
    for the old `read_blob`. -/
def BlobDamageStmtOld : Prop :=
  ∀ (E : Env) (m : Man) (fs : FS) (f : File) (n : Nat) (orig : Bytes) (x : Option Cell),
    E.ver.length = 4 → lookupNat m.blobOf f = some n → fs (.blob n) = some ⟨.raw (blobData E orig), 10⟩ →
    restoreOkOld E m (fs.set (.blob n) x) f = false ∨ content x = some (.raw (blobData E orig))

/-- The old `read_blob` compared magic and version only: a blob whose payload bytes changed was restored
    whenever the decoder accepted them (findings F5/F6, repaired by 7005a14; now `damage_is_miss`). -/
theorem old_blob_payload_not_verified : ¬ BlobDamageStmtOld := by
  intro h
  have := h wE wManD wFsD 1 1 [1] (some ⟨.raw [86, 70, 82, 71, 2, 0, 0, 0, 3], 10⟩) (by decide) (by decide) (by decide)
  revert this
  decide

/-- …and the current `restoreOk` rejects that very blob. -/
example : restoreOk wE wManD (wFsD.set (.blob 1) (some ⟨.raw [86, 70, 82, 71, 2, 0, 0, 0, 3], 10⟩)) 1 = false := by
  decide

/-- "Damaging the diagnostics blob of a file makes the file a miss or changes nothing it replays",
    for the old `try_restore`. -/
def DiagDamageStmtOld : Prop :=
  ∀ (E : Env) (dd : Bytes → Option (List Nat)) (m : Man) (fs : FS) (f : File) (n : Nat) (x : Option Cell),
    lookupNat m.diagOf f = some n → lookupNat m.blobOf f ≠ some n →
    restoreOkOld E m (fs.set (.blob n) x) f = false ∨
    replayedOld E dd m (fs.set (.blob n) x) f = replayedOld E dd m fs f

/-- The old `try_restore`: `load_diagnostics` failing gave `None`, the file was restored all the same and
    replayed nothing (finding F3, repaired by 1f0da8d; now `diag_damage_is_miss`). -/
theorem old_diag_blob_damage_drops_warnings : ¬ DiagDamageStmtOld := by
  intro h
  have := h wE (fun _ => some [42]) wManD wFsD 1 9 none (by decide) (by decide)
  revert this
  decide

/-- …and the current `restoreOk` makes that file a miss. -/
example : restoreOk wE wManD (wFsD.set (.blob 9) none) 1 = false := by decide

/-- non-vacuity of `damage_is_miss` / `diag_damage_is_miss`: the intact witness store restores file 1 -/
example : restoreOk wE wManD wFsD 1 = true := by decide

end VerylModel.Props.C05
