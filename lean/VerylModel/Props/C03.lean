import VerylModel.Lemmas.Passes
import VerylModel.Lemmas.SimSettle
import VerylModel.Lemmas.SimRefineStmt
import VerylModel.Gen.Toggles
/-!
C03 — switching any simulator optimisation pass on or off never changes behaviour.

The passes are validated black-box (one harness process per toggle set, `checks/c03.py`). What is
PROVED here is the specification of each pass: over the generic ordered statement language of
`Lemmas/Passes.lean` (full / partial stores of `f(reads)`, guards, sequential blocks; canonical
storage), the rewrite each pass documents — under the side conditions its module documentation
states — preserves the store (or every offset that is still observable). They are theorems about
models of the passes' specifications, not about the Rust implementations.
-/
namespace VerylModel.Props.C03
open VerylModel.Passes
open VerylModel.Sim (updF updF_same updF_other splice CombUnit UnitOk)

variable (wd : Nat → Nat)

/-! ### dead-variable DCE (`ir/opt/dead_var_dce.rs`) -/

-- the offsets read by expressions (a partial store's read-modify-write of its own destination
-- is not a consumer of the value)
mutual
def exprReadsS : PStmt → List Nat
  | .assign _ e => e.reads
  | .part _ _ _ e => e.reads
  | .ite c t e => c.reads ++ exprReadsSs t ++ exprReadsSs e
def exprReadsSs : PStmts → List Nat
  | .nil => []
  | .cons s ss => exprReadsS s ++ exprReadsSs ss
end

-- drop every FULL-WIDTH store to a dead offset (partial stores are kept, as the pass does)
mutual
def dropDeadS (dead : Nat → Bool) : PStmt → PStmts
  | .assign d e => if dead d then .nil else single (.assign d e)
  | .part d lo w e => single (.part d lo w e)
  | .ite c t e => single (.ite c (dropDeadSs dead t) (dropDeadSs dead e))
def dropDeadSs (dead : Nat → Bool) : PStmts → PStmts
  | .nil => .nil
  | .cons s ss => dropDeadS dead s ++ dropDeadSs dead ss
end

mutual
theorem dce_dead_S (dead : Nat → Bool) : ∀ (s : PStmt) (σ σ' : St), AgreeOff (fun x => dead x = true) σ σ' →
    (∀ x ∈ exprReadsS s, dead x = false) →
    AgreeOff (fun x => dead x = true) (exec wd (dropDeadS dead s) σ) (execS wd s σ')
  | .assign d e, σ, σ', h, hr => by
    have he : e.eval σ = e.eval σ' := agreeOff_eval h e (fun x hx => by simp [hr x hx])
    simp only [dropDeadS]
    cases hd : dead d with
    | true =>
      simp only [if_true, exec, execS]
      intro x hx
      have : x ≠ d := fun e => hx (e ▸ hd)
      rw [updF_other _ _ _ _ this]
      exact h x hx
    | false =>
      simp only [Bool.false_eq_true, if_false, exec_single, execS, he]
      exact agreeOff_upd h d _
  | .part d lo w e, σ, σ', h, hr => by
    have he : e.eval σ = e.eval σ' := agreeOff_eval h e (fun x hx => by simp [hr x hx])
    simp only [dropDeadS, exec_single, execS, he]
    intro x hx
    by_cases hxd : x = d
    · subst hxd
      rw [updF_same, updF_same, h x hx]
    · rw [updF_other _ _ _ _ hxd, updF_other _ _ _ _ hxd]
      exact h x hx
  | .ite c t e, σ, σ', h, hr => by
    simp only [exprReadsS, List.mem_append] at hr
    have hc : c.eval σ = c.eval σ' := agreeOff_eval h c (fun x hx => by simp [hr x (Or.inl (Or.inl hx))])
    simp only [dropDeadS, exec_single, execS, hc]
    split
    · exact dce_dead_Ss dead t σ σ' h (fun x hx => hr x (Or.inl (Or.inr hx)))
    · exact dce_dead_Ss dead e σ σ' h (fun x hx => hr x (Or.inr hx))
theorem dce_dead_Ss (dead : Nat → Bool) : ∀ (ss : PStmts) (σ σ' : St), AgreeOff (fun x => dead x = true) σ σ' →
    (∀ x ∈ exprReadsSs ss, dead x = false) →
    AgreeOff (fun x => dead x = true) (exec wd (dropDeadSs dead ss) σ) (exec wd ss σ')
  | .nil, _, _, h, _ => h
  | .cons s ss, σ, σ', h, hr => by
    simp only [exprReadsSs, List.mem_append] at hr
    simp only [dropDeadSs, exec_append, exec]
    exact dce_dead_Ss dead ss _ _ (dce_dead_S dead s σ σ' h (fun x hx => hr x (Or.inl hx))) (fun x hx => hr x (Or.inr hx))
end

/-- `dce_dead_var`: if no expression of the program reads a dead offset, dropping the full-width
stores to dead offsets preserves every other offset. -/
theorem dce_dead_var (dead : Nat → Bool) (ss : PStmts) (σ : St) (hr : ∀ x ∈ exprReadsSs ss, dead x = false) :
    ∀ x, dead x = false → exec wd (dropDeadSs dead ss) σ x = exec wd ss σ x := by
  intro x hx
  exact dce_dead_Ss wd dead ss σ σ (fun _ _ => rfl) hr x (by simp [hx])

/-! ### duplicate-assign DCE (`ir/opt/dup_assign_dce.rs`): last write wins -/

/-- `dce_dup_assign`: a full-width store to `d` that is overwritten by a later full-width store to
`d`, with no read of `d` in between (the later right-hand side included), is unobservable. -/
theorem dce_dup_assign (d : Nat) (e1 e2 : PExpr) (mid rest : PStmts) (σ : St)
    (hmid : d ∉ readsSs mid) (he2 : d ∉ e2.reads) :
    exec wd (.cons (.assign d e1) (mid ++ .cons (.assign d e2) rest)) σ =
      exec wd (mid ++ .cons (.assign d e2) rest) σ := by
  simp only [exec, exec_append, execS]
  congr 1
  generalize e1.eval σ % 2 ^ wd d = v1
  have h0 : AgreeOff (fun x => x = d) (updF σ d v1) σ := by
    intro x hx
    exact updF_other _ _ _ _ hx
  have h1 := agreeOff_execSs wd mid h0 (fun x hx e => hmid (e ▸ hx))
  have h2 : e2.eval (exec wd mid (updF σ d v1)) = e2.eval (exec wd mid σ) :=
    agreeOff_eval h1 e2 (fun x hx e => he2 (e ▸ hx))
  funext x
  rw [h2]
  by_cases hx : x = d
  · subst hx
    rw [updF_same, updF_same]
  · rw [updF_other _ _ _ _ hx, updF_other _ _ _ _ hx]
    exact h1 x hx

/-! ### cone gating (`ir/opt/cone_gate.rs`) -/

/-- `cone_gate_skip`: a segment whose result depends only on its compare set `R` (inputs it does
not itself produce) and which is the identity outside its outputs `W`. If the storage still holds
the segment's last result on `W` and the compare set is byte-equal to what the segment consumed
last time (`τ` agrees with `u.run σ` on `R ∪ W`), re-running the segment is the identity — so it
can be skipped. -/
theorem cone_gate_skip {V : Type} (u : CombUnit V) (ok : UnitOk u) (hRW : ∀ x ∈ u.R, x ∉ u.W) (σ τ : Nat → V)
    (hR : ∀ x ∈ u.R, τ x = u.run σ x) (hW : ∀ x ∈ u.W, τ x = u.run σ x) : u.run τ = τ := by
  funext x
  by_cases hx : x ∈ u.W
  · have h1 : u.run τ x = u.run (u.run σ) x := ok.dep _ _ hR x hx
    have h2 : u.run (u.run σ) x = u.run σ x := by
      apply ok.dep _ _ _ x hx
      intro y hy
      exact ok.frame σ y (hRW y hy)
    rw [h1, h2, hW x hx]
  · exact ok.frame τ x hx

/-! ### comb layout (`ir/comb_layout.rs`): a permutation of storage -/

def renE (π : Nat → Nat) (e : PExpr) : PExpr where
  reads := e.reads.map π
  eval := fun τ => e.eval (fun x => τ (π x))
  loc := by
    intro τ τ' h
    apply e.loc
    intro x hx
    exact h (π x) (List.mem_map.mpr ⟨x, hx, rfl⟩)

mutual
def renS (π : Nat → Nat) : PStmt → PStmt
  | .assign d e => .assign (π d) (renE π e)
  | .part d lo w e => .part (π d) lo w (renE π e)
  | .ite c t e => .ite (renE π c) (renSs π t) (renSs π e)
def renSs (π : Nat → Nat) : PStmts → PStmts
  | .nil => .nil
  | .cons s ss => .cons (renS π s) (renSs π ss)
end

theorem upd_comp_inj (π : Nat → Nat) (hinj : ∀ a b, π a = π b → a = b) (τ : St) (d v : Nat) :
    (fun x => updF τ (π d) v (π x)) = updF (fun x => τ (π x)) d v := by
  funext x
  by_cases hx : x = d
  · subst hx
    rw [updF_same, updF_same]
  · rw [updF_other _ _ _ _ hx, updF_other _ _ _ _ (fun e => hx (hinj _ _ e))]

mutual
theorem layout_S (π : Nat → Nat) (hinj : ∀ a b, π a = π b → a = b) (hw : ∀ d, wd (π d) = wd d) : ∀ (s : PStmt) (τ : St),
    (fun x => execS wd (renS π s) τ (π x)) = execS wd s (fun x => τ (π x))
  | .assign d e, τ => by
    simp only [renS, execS, renE, hw]
    exact upd_comp_inj π hinj τ d _
  | .part d lo w e, τ => by
    simp only [renS, execS, renE]
    exact upd_comp_inj π hinj τ d _
  | .ite c t e, τ => by
    simp only [renS, execS, renE]
    split
    · exact layout_Ss π hinj hw t τ
    · exact layout_Ss π hinj hw e τ
theorem layout_Ss (π : Nat → Nat) (hinj : ∀ a b, π a = π b → a = b) (hw : ∀ d, wd (π d) = wd d) : ∀ (ss : PStmts) (τ : St),
    (fun x => exec wd (renSs π ss) τ (π x)) = exec wd ss (fun x => τ (π x))
  | .nil, _ => rfl
  | .cons s ss, τ => by
    simp only [renSs, exec]
    rw [layout_Ss π hinj hw ss, layout_S π hinj hw s]
end

/-- `layout_perm`: the semantics is equivariant under an injective relocation `π` of the storage
units (widths travel with the units): running the relocated program on a relocated store and
reading unit `x` at its new place `π x` is running the original program. -/
theorem layout_perm (π : Nat → Nat) (hinj : ∀ a b, π a = π b → a = b) (hw : ∀ d, wd (π d) = wd d) (ss : PStmts) (τ : St) (x : Nat) :
    exec wd (renSs π ss) τ (π x) = exec wd ss (fun y => τ (π y)) x :=
  congrFun (layout_Ss wd π hinj hw ss τ) x

/-! ### conditional hoisting (`ir/module.rs` cond-hoist transform) -/

def varE (t : Nat) : PExpr where
  reads := [t]
  eval := fun σ => σ t
  loc := fun _ _ h => h t (by simp)

def boolE (c : PExpr) : PExpr where
  reads := c.reads
  eval := fun σ => if c.eval σ ≠ 0 then 1 else 0
  loc := by
    intro σ σ' h
    simp only [c.loc σ σ' h]

theorem execS_ite_pos (c : PExpr) (t e : PStmts) (σ : St) (h : c.eval σ ≠ 0) : execS wd (.ite c t e) σ = exec wd t σ := by
  simp only [execS, if_pos h]

theorem execS_ite_neg (c : PExpr) (t e : PStmts) (σ : St) (h : ¬ c.eval σ ≠ 0) : execS wd (.ite c t e) σ = exec wd e σ := by
  simp only [execS, if_neg h]

/-- `cond_hoist`: `if c {t} else {e}` ⇒ `tmp = c ? 1 : 0; if tmp {t} else {e}` with a fresh one-bit
`tmp` (not mentioned by `c`, `t`, `e`): every offset other than `tmp` ends up the same. -/
theorem cond_hoist (tmp : Nat) (c : PExpr) (t e : PStmts) (σ : St) (hw : 0 < wd tmp)
    (ht : tmp ∉ readsSs t) (he : tmp ∉ readsSs e) :
    ∀ x, x ≠ tmp → exec wd (.cons (.assign tmp (boolE c)) (single (.ite (varE tmp) t e))) σ x =
      execS wd (.ite c t e) σ x := by
  intro x hx
  rw [exec, exec_single]
  have hb : (boolE c).eval σ % 2 ^ wd tmp = (boolE c).eval σ := by
    apply Nat.mod_eq_of_lt
    have : 2 ≤ 2 ^ wd tmp := by
      calc 2 = 2 ^ 1 := rfl
        _ ≤ 2 ^ wd tmp := Nat.pow_le_pow_right (by decide) hw
    simp only [boolE]
    split <;> omega
  have h0 : AgreeOff (fun y => y = tmp) (execS wd (.assign tmp (boolE c)) σ) σ := by
    intro y hy
    simp only [execS]
    exact updF_other _ _ _ _ hy
  have hv : (varE tmp).eval (execS wd (.assign tmp (boolE c)) σ) = (boolE c).eval σ := by
    simp only [varE, execS, updF_same, hb]
  by_cases hc : c.eval σ ≠ 0
  · have h1 : (varE tmp).eval (execS wd (.assign tmp (boolE c)) σ) ≠ 0 := by
      rw [hv]
      simp [boolE, hc]
    rw [execS_ite_pos wd _ t e _ h1, execS_ite_pos wd c t e σ hc]
    exact agreeOff_execSs wd t h0 (fun y hy e' => ht (e' ▸ hy)) x hx
  · have h1 : ¬ (varE tmp).eval (execS wd (.assign tmp (boolE c)) σ) ≠ 0 := by
      rw [hv]
      simp [boolE, hc]
    rw [execS_ite_neg wd _ t e _ h1, execS_ite_neg wd c t e σ hc]
    exact agreeOff_execSs wd e h0 (fun y hy e' => he (e' ▸ hy)) x hx

/-! ### version splitting (`ir/opt/version_split.rs`): base write + guarded overrides = one select chain -/

theorem updF_updF {α : Type} (σ : Nat → α) (d : Nat) (a b : α) : updF (updF σ d a) d b = updF σ d b := by
  funext x
  by_cases hx : x = d
  · subst hx
    rw [updF_same, updF_same]
  · rw [updF_other _ _ _ _ hx, updF_other _ _ _ _ hx, updF_other _ _ _ _ hx]

/-- `if c { d = e }` -/
def overrideS (d : Nat) (ce : PExpr × PExpr) : PStmt := .ite ce.1 (single (.assign d ce.2)) .nil

def overrides (d : Nat) : List (PExpr × PExpr) → PStmts
  | [] => .nil
  | ce :: rest => .cons (overrideS d ce) (overrides d rest)

/-- the value of `d` after the overrides, as a function of the pre-state and of the accumulated
value `v` (guards and values that read `d` see the accumulated value — the pass substitutes it) -/
def chainVal (d : Nat) : Nat → List (PExpr × PExpr) → St → Nat
  | v, [], _ => v
  | v, ce :: rest, σ =>
    chainVal d (if ce.1.eval (updF σ d v) ≠ 0 then ce.2.eval (updF σ d v) % 2 ^ wd d else v) rest σ

theorem overrides_exec (d : Nat) : ∀ (os : List (PExpr × PExpr)) (v : Nat) (σ : St),
    exec wd (overrides d os) (updF σ d v) = updF σ d (chainVal wd d v os σ)
  | [], _, _ => rfl
  | ce :: rest, v, σ => by
    simp only [overrides, exec, chainVal]
    by_cases hc : ce.1.eval (updF σ d v) ≠ 0
    · rw [overrideS, execS_ite_pos wd _ _ _ _ hc, if_pos hc, exec_single]
      simp only [execS, updF_updF]
      exact overrides_exec d rest _ σ
    · rw [overrideS, execS_ite_neg wd _ _ _ _ hc, if_neg hc]
      simp only [exec]
      exact overrides_exec d rest _ σ

/-- `version_split_select`: an unconditional full-width base write of `d` followed by guarded
full-width overrides is one write of the select chain (all operands are total, so evaluating a
guarded value unconditionally is harmless). -/
theorem version_split_select (d : Nat) (e0 : PExpr) (os : List (PExpr × PExpr)) (σ : St) :
    exec wd (.cons (.assign d e0) (overrides d os)) σ = updF σ d (chainVal wd d (e0.eval σ % 2 ^ wd d) os σ) := by
  simp only [exec, execS]
  exact overrides_exec wd d os _ σ

/-- the select chain is a legitimate expression `f(reads)` over the reads of its parts -/
theorem chainVal_local (d : Nat) : ∀ (os : List (PExpr × PExpr)) (v : Nat) (σ σ' : St),
    (∀ ce ∈ os, ∀ x, (x ∈ ce.1.reads ∨ x ∈ ce.2.reads) → x ≠ d → σ x = σ' x) →
    chainVal wd d v os σ = chainVal wd d v os σ'
  | [], _, _, _, _ => rfl
  | ce :: rest, v, σ, σ', h => by
    have h1 : ce.1.eval (updF σ d v) = ce.1.eval (updF σ' d v) := by
      apply ce.1.loc
      intro x hx
      by_cases hxd : x = d
      · subst hxd
        rw [updF_same, updF_same]
      · rw [updF_other _ _ _ _ hxd, updF_other _ _ _ _ hxd]
        exact h ce (List.mem_cons_self ..) x (Or.inl hx) hxd
    have h2 : ce.2.eval (updF σ d v) = ce.2.eval (updF σ' d v) := by
      apply ce.2.loc
      intro x hx
      by_cases hxd : x = d
      · subst hxd
        rw [updF_same, updF_same]
      · rw [updF_other _ _ _ _ hxd, updF_other _ _ _ _ hxd]
        exact h ce (List.mem_cons_self ..) x (Or.inr hx) hxd
    simp only [chainVal, h1, h2]
    exact chainVal_local d rest _ σ σ' (fun ce' hce => h ce' (List.mem_cons_of_mem _ hce))

/-! ### comb fusion (`ir/opt/comb_fusion.rs`): inlining a single-reader definition -/

/-- `r` with the value of the definition `t := e` (masked to the declared width of `t`, as storage
would hold it) substituted for the read of `t` -/
def substE (t : Nat) (e r : PExpr) : PExpr where
  reads := e.reads ++ r.reads.filter (fun x => x != t)
  eval := fun σ => r.eval (updF σ t (e.eval σ % 2 ^ wd t))
  loc := by
    intro σ σ' h
    have he : e.eval σ = e.eval σ' := e.loc σ σ' (fun x hx => h x (List.mem_append_left _ hx))
    apply r.loc
    intro x hx
    by_cases hxt : x = t
    · subst hxt
      rw [updF_same, updF_same, he]
    · rw [updF_other _ _ _ _ hxt, updF_other _ _ _ _ hxt]
      apply h
      apply List.mem_append_right
      simp [hx, hxt]

/-- `inline_single_reader`: the definition `t := e` is read by exactly one later statement, here a
full-width store `r := er` (`r ≠ t`). If, between the definition and the reader, no statement
reads `t`, rewrites `t`, or rewrites an input of `e` (the value is position independent over that
span), `e` does not read `t` itself, and nothing after the reader reads `t` (`t` is not externally
visible), then deleting the definition and substituting `e` into the reader preserves every
offset other than `t`. -/
theorem inline_single_reader (t r : Nat) (e er : PExpr) (mid post : PStmts) (σ : St)
    (hrt : r ≠ t) (hmid_r : t ∉ readsSs mid) (hmid_w : t ∉ writesSs mid)
    (he_w : ∀ x ∈ e.reads, x ∉ writesSs mid) (hpost : t ∉ readsSs post) :
    ∀ x, x ≠ t →
      exec wd (.cons (.assign t e) (mid ++ .cons (.assign r er) post)) σ x =
      exec wd (mid ++ .cons (.assign r (substE wd t e er)) post) σ x := by
  intro x hx
  simp only [exec, exec_append]
  -- after the definition and `mid`
  have h0 : AgreeOff (fun y => y = t) (execS wd (.assign t e) σ) σ := by
    intro y hy
    simp only [execS]
    exact updF_other _ _ _ _ hy
  have h1 := agreeOff_execSs wd mid h0 (fun y hy e' => hmid_r (e' ▸ hy))
  have ht1 : exec wd mid (execS wd (.assign t e) σ) t = e.eval σ % 2 ^ wd t := by
    rw [exec_frame wd t mid _ hmid_w]
    simp only [execS, updF_same]
  have he0 : e.eval (exec wd mid σ) = e.eval σ := by
    apply e.loc
    intro y hy
    exact exec_frame wd y mid σ (he_w y hy)
  -- the reader sees the same value on both sides
  have hval : er.eval (exec wd mid (execS wd (.assign t e) σ)) = (substE wd t e er).eval (exec wd mid σ) := by
    simp only [substE]
    apply er.loc
    intro y _
    by_cases hyt : y = t
    · subst hyt
      rw [updF_same, ht1, he0]
    · rw [updF_other _ _ _ _ hyt]
      exact h1 y hyt
  have h2 : AgreeOff (fun y => y = t) (execS wd (.assign r er) (exec wd mid (execS wd (.assign t e) σ)))
      (execS wd (.assign r (substE wd t e er)) (exec wd mid σ)) := by
    simp only [execS] at hval ⊢
    rw [hval]
    exact agreeOff_upd h1 r _
  exact agreeOff_execSs wd post h2 (fun y hy e' => hpost (e' ▸ hy)) x hx

/-! ### lane vectorisation (`ir/opt/lane_vector.rs`): merging bit lanes of a bitwise operator -/

inductive BitOp where
  | and | or | xor

def BitOp.word : BitOp → Nat → Nat → Nat
  | .and, x, y => x &&& y
  | .or, x, y => x ||| y
  | .xor, x, y => x ^^^ y

def BitOp.bit : BitOp → Bool → Bool → Bool
  | .and, a, b => a && b
  | .or, a, b => a || b
  | .xor, a, b => a != b

/-- bit `j` of the merged (word-wide) bitwise expression is exactly lane `j` -/
theorem lane_bit (op : BitOp) (x y j : Nat) : (op.word x y).testBit j = op.bit (x.testBit j) (y.testBit j) := by
  cases op
  · simp [BitOp.word, BitOp.bit]
  · simp [BitOp.word, BitOp.bit]
  · simp [BitOp.word, BitOp.bit]

/-- `lane_merge_bitwise`: a `W`-bit word assembled from `W` one-bit lane results
`lane j = f(x[j], y[j])` (and nothing above bit `W`) is the word-wide operator applied to the
`W`-bit operands. -/
theorem lane_merge_bitwise (op : BitOp) (W x y w : Nat) (hx : x < 2 ^ W) (hy : y < 2 ^ W) (hw : w < 2 ^ W)
    (hl : ∀ j < W, w.testBit j = op.bit (x.testBit j) (y.testBit j)) : w = op.word x y := by
  apply Nat.eq_of_testBit_eq
  intro j
  rw [lane_bit]
  by_cases hj : j < W
  · exact hl j hj
  · have hpow : 2 ^ W ≤ 2 ^ j := Nat.pow_le_pow_right (by decide) (Nat.le_of_not_lt hj)
    rw [Nat.testBit_lt_two_pow (Nat.lt_of_lt_of_le hw hpow), Nat.testBit_lt_two_pow (Nat.lt_of_lt_of_le hx hpow),
      Nat.testBit_lt_two_pow (Nat.lt_of_lt_of_le hy hpow)]
    cases op <;> rfl

/-! ### switch lowering (`backend/cranelift/statement.rs`): `case` ⇄ if-chain -/

section SwitchLower
open VerylModel.Sim

/-- the nested `if sel == l₁ {b₁} else if sel == l₂ {b₂} … else {default}` -/
def ifChain (sel : Rhs) : Arms → Stmts → Stmts
  | .nil, d => d
  | .cons lw lv b rest, d => .cons (.ite (eqLabel sel lw lv) b (ifChain sel rest d)) .nil

theorem mem_targets_ifChain (sel : Rhs) (d : Stmts) (x : Nat) : ∀ (arms : Arms),
    x ∈ targetsSs (ifChain sel arms d) ↔ x ∈ targetsArms arms ∨ x ∈ targetsSs d
  | .nil => by simp [ifChain, targetsArms]
  | .cons lw lv b rest => by
    simp only [ifChain, targetsSs, targetsS, targetsArms, List.append_nil, List.mem_append, mem_targets_ifChain sel d x rest]
    constructor
    · rintro (h | h | h)
      · exact Or.inl (Or.inl h)
      · exact Or.inl (Or.inr h)
      · exact Or.inr h
    · rintro ((h | h) | h)
      · exact Or.inl h
      · exact Or.inr (Or.inl h)
      · exact Or.inr (Or.inr h)

theorem poisonList_congr (D : Dom) (L L' : List Nat) (h : ∀ x, x ∈ L ↔ x ∈ L') (σ : Store D) :
    poisonList D L σ = poisonList D L' σ := by
  apply Store.ext'
  intro x
  by_cases hx : x ∈ L
  · rw [poisonList_in D L σ x hx, poisonList_in D L' σ x ((h x).mp hx)]
  · rw [poisonList_notin D L σ x hx, poisonList_notin D L' σ x (fun h' => hx ((h x).mpr h'))]

/-- `switch_lower`: in a domain where an arm test is the condition `sel == label` (both reference
domains), a `case` statement — first matching arm wins, otherwise the default — is the nested
if-chain. -/
theorem switch_lower (D : Dom) (hArm : ∀ σ sel lw lv, D.arm σ sel lw lv = D.cond σ (eqLabel sel lw lv))
    (sel : Rhs) (d : Stmts) : ∀ (arms : Arms) (σ : Store D),
    Sim.execS D (.case sel arms d) σ = execSs D (ifChain sel arms d) σ
  | .nil, σ => by
    simp only [Sim.execS, execArms, ifChain]
  | .cons lw lv b rest, σ => by
    have ih := switch_lower D hArm sel d rest σ
    simp only [Sim.execS] at ih
    simp only [Sim.execS, execArms, ifChain, execSs, hArm]
    cases hc : D.cond σ.get (eqLabel sel lw lv) with
    | none =>
      simp only []
      apply poisonList_congr
      intro x
      simp only [List.mem_append, mem_targets_ifChain sel d x rest]
      constructor
      · rintro ((h | h) | h)
        · exact Or.inl h
        · exact Or.inr (Or.inl h)
        · exact Or.inr (Or.inr h)
      · rintro (h | h | h)
        · exact Or.inl (Or.inl h)
        · exact Or.inl (Or.inr h)
        · exact Or.inr h
    | some c =>
      cases c with
      | true => simp only []
      | false =>
        simp only []
        exact ih

theorem switch_lower_D2 (sel : Rhs) (d : Stmts) (arms : Arms) (σ : Store D2) :
    Sim.execS D2 (.case sel arms d) σ = execSs D2 (ifChain sel arms d) σ :=
  switch_lower D2 (fun _ _ _ _ => rfl) sel d arms σ

theorem switch_lower_D4 (sel : Rhs) (d : Stmts) (arms : Arms) (σ : Store D4) :
    Sim.execS D4 (.case sel arms d) σ = execSs D4 (ifChain sel arms d) σ :=
  switch_lower D4 (fun _ _ _ _ => rfl) sel d arms σ

end SwitchLower

/-! ### non-vacuity: concrete instances of the side conditions -/

section Examples

def constE (v : Nat) : PExpr where
  reads := []
  eval := fun _ => v
  loc := fun _ _ _ => rfl

def seq2 (a b : PStmt) : PStmts := .cons a (.cons b .nil)

/-- `x5 = 1` is dead, `x1 = x0` reads a live offset -/
example : ∀ x ∈ exprReadsSs (seq2 (.assign 5 (constE 1)) (.assign 1 (varE 0))), (fun x => x == 5) x = false := by decide

example : exec (fun _ => 8) (dropDeadSs (fun x => x == 5) (seq2 (.assign 5 (constE 1)) (.assign 1 (varE 0)))) (fun _ => 7) 1 = 7 := by
  decide

/-- `x1 = 1; x2 = x0; x1 = x0`: the first store to `x1` is dead -/
example : 1 ∉ readsSs (single (.assign 2 (varE 0))) ∧ 1 ∉ (varE 0).reads := by decide

/-- `x2 = x0; x4 = x1; x3 = x2` ⇒ `x4 = x1; x3 = x0` -/
example : (3 : Nat) ≠ 2 ∧ 2 ∉ readsSs (single (.assign 4 (varE 1))) ∧ 2 ∉ writesSs (single (.assign 4 (varE 1))) ∧
    (∀ x ∈ (varE 0).reads, x ∉ writesSs (single (.assign 4 (varE 1)))) ∧ 2 ∉ readsSs .nil := by decide

/-- a one-statement segment `x1 = x0` with compare set `{x0}` -/
example : UnitOk ({ run := fun σ => updF σ 1 (σ 0), W := [1], R := [0] } : CombUnit Nat) := by
  constructor
  · intro σ x hx
    simp only [List.mem_singleton] at hx
    show updF σ 1 (σ 0) x = σ x
    exact updF_other _ _ _ _ hx
  · intro σ σ' h x hx
    simp only [List.mem_singleton] at hx
    subst hx
    show updF σ 1 (σ 0) 1 = updF σ' 1 (σ' 0) 1
    rw [updF_same, updF_same]
    exact h 0 (by simp)

/-- shifting the whole storage by one unit is an injective relocation -/
example : (∀ a b : Nat, a + 1 = b + 1 → a = b) ∧ (∀ d : Nat, (fun _ : Nat => 8) (d + 1) = (fun _ : Nat => 8) d) :=
  ⟨fun _ _ h => by omega, fun _ => rfl⟩

/-- hoisting `if x0 { x1 = x0 }` through the fresh one-bit temporary `x9` -/
example : 0 < (fun _ : Nat => 8) 9 ∧ 9 ∉ readsSs (single (.assign 1 (varE 0))) ∧ 9 ∉ readsSs .nil := by decide

/-- four one-bit lanes of `5 & 3` -/
example : ∀ j < 4, (1 : Nat).testBit j = BitOp.and.bit ((5 : Nat).testBit j) ((3 : Nat).testBit j) := by decide

end Examples

/-! ### the toggles the check drives -/

open VerylModel.Gen in
/-- hand-written: the toggles `checks/c03.py` switches (on/off switches and numeric knobs of the
passes named by the property: comb fusion and its sub-stages, cone gating, dead-variable DCE,
version splitting + LUT mode, lane vectorisation, comb layout, conditional hoisting, switch
lowering, load caching / look-ahead, and the chunking / SCC / wide-value code-generation knobs) -/
def drivenToggles : List Toggle := [
  .VERYL_COMB_FUSION, .VERYL_COMB_FUSION_CHEAP, .VERYL_COMB_FUSION_CHEAP_KEEP, .VERYL_COMB_FUSION_COALESCE,
  .VERYL_COMB_FUSION_CSE, .VERYL_COMB_FUSION_LIMIT, .VERYL_COMB_FUSION_LIMIT_DUP, .VERYL_COMB_FUSION_WORD_COALESCE,
  .VERYL_CONE_GATE, .VERYL_DEAD_VAR_DCE, .VERYL_DEAD_VAR_DCE_MULTI,
  .VERYL_VSPLIT, .VERYL_VSPLIT_LUT, .VERYL_VSPLIT_LUT_MAX, .VERYL_VSPLIT_MAX_NODES,
  .VERYL_LANE_VECTOR, .VERYL_LANE_FOLD, .VERYL_LANE_MERGE, .VERYL_LANE_MERGE_MIN_OPS,
  .VERYL_COMB_LAYOUT, .VERYL_COND_HOIST_DISABLE, .VERYL_SWITCH_LOWER_DISABLE,
  .VERYL_FORCE_DISABLE_LOAD_CACHE, .VERYL_STAGE7_LOOKAHEAD, .VERYL_STAGE7_LOOKAHEAD_CAP,
  .VERYL_JIT_CHUNK_SIZE, .VERYL_EVENT_CHUNK_SIZE, .VERYL_SCC_NARROW, .VERYL_SCC_BITAWARE,
  .VERYL_WIDE_DYNSEL, .VERYL_WIDE_MASK_ELIDE, .VERYL_COLD_IF_TRUE]

open VerylModel.Gen in
/-- hand-written: toggles that only print diagnostics / dumps / profiling maps -/
def diagnosticToggles : List Toggle := [
  .VERYL_AOT_C_DIAG, .VERYL_AOT_C_EVENT_DIAG, .VERYL_COMB_FUSION_DIAG, .VERYL_COMB_LAYOUT_DIAG, .VERYL_COND_HOIST_VERBOSE,
  .VERYL_CONE_GATE_DIAG, .VERYL_DEAD_VAR_DCE_DIAG, .VERYL_FF_MULTI_WRITE_DIAG, .VERYL_FUSION_CENSUS,
  .VERYL_INST_LAYOUT_DIAG, .VERYL_INTERP_DIAG, .VERYL_JIT_PERFMAP, .VERYL_LANE_VECTOR_DIAG, .VERYL_PASS_DIAG,
  .VERYL_SCC_DIAG, .VERYL_SCC_TRACE, .VERYL_SITE_TABLE_DIAG, .VERYL_STMT_ORDER_DUMP, .VERYL_VSPLIT_LUT_DIAG,
  .VERYL_VSPLIT_LUT_DUMP]

/-- `toggles_covered`: every `VERYL_*` toggle found in the source (`Gen/Toggles.lean`, regenerated
on every run) is either driven by the check or a known diagnostic-only switch. A toggle added to
the source makes this fail. -/
theorem toggles_covered : ∀ t ∈ VerylModel.Gen.allToggles, t ∈ drivenToggles ∨ t ∈ diagnosticToggles := by
  decide

/-- the two hand-written lists do not overlap -/
theorem toggles_disjoint : ∀ t ∈ drivenToggles, t ∉ diagnosticToggles := by decide

end VerylModel.Props.C03
