import VerylModel.Lemmas.Words
import VerylModel.Lemmas.CompTiming
/-!
C35 — user components: values and timing on every transport.

"A user-defined component reads the pre-edge values of its inputs in its clock hook, and the
outputs it writes become visible together with flip-flop updates. Values cross the host/component
boundary with every bit and every X/Z mask bit intact at every width. A component gives identical
results whether it is loaded as a native library or as WebAssembly."
-/
namespace VerylModel.Props.C35
open VerylModel.Svlv VerylModel.Words VerylModel.CompTiming

/-- A simulator value: no bit at or above `width`, and a `U64` arm really holds `u64`s. -/
def Canon (v : Val) : Prop :=
  v.payload < 2 ^ v.width ∧ v.mask < 2 ^ v.width ∧ (v.repr = .u64 → v.payload < Words.two64 ∧ v.mask < Words.two64)

/-- value → payload/mask words → value is the identity, at every width (≤ 64 and > 64), on either
arm, for every payload and X/Z mask. -/
theorem words_roundtrip (v : Val) (hc : Canon v) :
    wordsToValueMasked (valueToWords v (wordsFor v.width)) (valueToMaskWords v (wordsFor v.width)) v.width =
      mkVal v.payload v.mask v.width := by
  obtain ⟨hp, hm, hu⟩ := hc
  have hn := wordsFor_pos v.width
  have hP := valueToWords_value v _ hn (Nat.lt_of_lt_of_le hp (pow_width_le _))
  have hM := valueToMaskWords_value v _ hn (Nat.lt_of_lt_of_le hm (pow_width_le _))
  have gP := valueToWords_good v (wordsFor v.width) (fun h => (hu h).1)
  have gM := valueToMaskWords_good v (wordsFor v.width) (fun h => (hu h).2)
  unfold wordsToValueMasked mkVal
  by_cases hw : v.width ≤ 64
  · have h1 := wordsFor_small _ hw
    simp only [hw, if_true]
    rw [headD_eq_wordsValue _ (h1 ▸ gP.1), headD_eq_wordsValue _ (h1 ▸ gM.1), hP, hM]
  · simp only [hw, if_false, hP, hM]

/-- words → value → words is the identity on port-sized `u64` word lists (payload and mask). -/
theorem words_roundtrip_back (ws ms : List Nat) (width : Nat)
    (hw : Good ws (wordsFor width)) (hm : Good ms (wordsFor width)) :
    valueToWords (wordsToValueMasked ws ms width) (wordsFor width) = ws ∧
    valueToMaskWords (wordsToValueMasked ws ms width) (wordsFor width) = ms := by
  unfold wordsToValueMasked
  by_cases h : width ≤ 64
  · have h1 := wordsFor_small _ h
    simp only [h, if_true, valueToWords, valueToMaskWords, h1]
    have l1 : ws.length = 1 := h1 ▸ hw.1
    have l2 : ms.length = 1 := h1 ▸ hm.1
    match ws, ms, l1, l2 with
    | [a], [b], _, _ => simp [resize]
  · simp only [h, if_false, valueToWords, valueToMaskWords]
    constructor
    · have := resize_digits_wordsValue ws hw.2
      rwa [hw.1] at this
    · have := resize_digits_wordsValue ms hm.2
      rwa [hm.1] at this

/-- Across the boundary and back (native transport, four-state): staging a canonical value into an
input port, `SimCtx::read` in the component, `SimCtx::write` of the same value to an output port of
the same width and `apply_outputs` deliver exactly `(payload, mask_xz)` — every bit and every X/Z
mask bit, at every width. -/
theorem boundary_echo (v : Val) (hc : Canon v) :
    ∃ p1, stageInput (newPort v.width) v true = some p1 ∧
      wordsValue (fromBits p1.words p1.mask v.width).1 = v.payload ∧
      wordsValue (fromBits p1.words p1.mask v.width).2 = v.mask ∧
      ∃ q2, nativeWriteOutput (newPort v.width)
              (toPortWords (fromBits p1.words p1.mask v.width).1 v.width)
              (some (toPortWords (fromBits p1.words p1.mask v.width).2 v.width)) = some q2 ∧
        q2.dirty = true ∧ applyOutput q2 true = (v.payload, v.mask) := by
  obtain ⟨hp, hm, hu⟩ := hc
  have hn := wordsFor_pos v.width
  have hP := valueToWords_value v _ hn (Nat.lt_of_lt_of_le hp (pow_width_le _))
  have hM := valueToMaskWords_value v _ hn (Nat.lt_of_lt_of_le hm (pow_width_le _))
  have gP := valueToWords_good v (wordsFor v.width) (fun h => (hu h).1)
  have gM := valueToMaskWords_good v (wordsFor v.width) (fun h => (hu h).2)
  generalize hW : valueToWords v (wordsFor v.width) = W at *
  generalize hMk : valueToMaskWords v (wordsFor v.width) = M at *
  generalize hN : wordsFor v.width = n at *
  -- staging
  have hstage : stageInput (newPort v.width) v true = some ⟨v.width, W, M, false⟩ := by
    simp only [stageInput, hN, hW, hMk, if_true, setInputMasked, newPort, List.length_replicate, gP.1, gM.1,
      Nat.lt_irrefl, or_self, if_false]
    rw [List.take_of_length_le (Nat.le_of_eq gP.1), List.take_of_length_le (Nat.le_of_eq gM.1)]
  refine ⟨_, hstage, ?_⟩
  -- component side: from_bits
  have hfb : fromBits W M v.width = (maskTopWord W v.width, maskTopWord M v.width) := by
    simp only [fromBits, hN]
    rw [← gP.1, resize_self, gP.1, ← gM.1, resize_self]
  have sW := maskTopWord_spec W v.width (hN ▸ gP)
  have sM := maskTopWord_spec M v.width (hN ▸ gM)
  rw [hN] at sW sM
  simp only [hfb]
  generalize hW1 : maskTopWord W v.width = W1 at *
  generalize hM1 : maskTopWord M v.width = M1 at *
  have vW1 : wordsValue W1 = v.payload := by rw [sW.2, hP]; exact Nat.mod_eq_of_lt hp
  have vM1 : wordsValue M1 = v.mask := by rw [sM.2, hM]; exact Nat.mod_eq_of_lt hm
  refine ⟨vW1, vM1, ?_⟩
  -- component write: to_port_words
  have tW : toPortWords W1 v.width = maskTopWord W1 v.width := by
    simp only [toPortWords, hN]; rw [← sW.1.1, resize_self]
  have tM : toPortWords M1 v.width = maskTopWord M1 v.width := by
    simp only [toPortWords, hN]; rw [← sM.1.1, resize_self]
  have sW2 := maskTopWord_spec W1 v.width (hN ▸ sW.1)
  have sM2 := maskTopWord_spec M1 v.width (hN ▸ sM.1)
  rw [hN] at sW2 sM2
  rw [tW, tM]
  generalize hW2 : maskTopWord W1 v.width = W2 at *
  generalize hM2 : maskTopWord M1 v.width = M2 at *
  have vW2 : wordsValue W2 = v.payload := by rw [sW2.2, vW1]; exact Nat.mod_eq_of_lt hp
  have vM2 : wordsValue M2 = v.mask := by rw [sM2.2, vM1]; exact Nat.mod_eq_of_lt hm
  refine ⟨⟨v.width, W2, M2, true⟩, ?_, rfl, ?_⟩
  · simp only [nativeWriteOutput, newPort, List.length_replicate, hN, Option.map_some, svcWriteOutput]
    rw [List.take_of_length_le (Nat.le_of_eq sW2.1.1), List.take_of_length_le (Nat.le_of_eq sM2.1.1)]
    simp [sW2.1.1, sM2.1.1]
  · unfold applyOutput
    by_cases hw : v.width ≤ 64
    · have h1 : n = 1 := by rw [← hN]; exact wordsFor_small _ hw
      simp only [hw, if_true]
      rw [headD_eq_wordsValue W2 (h1 ▸ sW2.1.1), headD_eq_wordsValue M2 (h1 ▸ sM2.1.1), vW2, vM2,
        and_widthMask _ _ hw, and_widthMask _ _ hw, Nat.mod_eq_of_lt hp, Nat.mod_eq_of_lt hm]
    · simp only [hw, if_false, if_true, vW2, vM2]

/-- `SimCtx::write_words` on a port of ANY width (also exact multiples of 64, where the top word
must be kept whole): the port receives exactly the low `width` bits of the words, a cleared X/Z
mask and the dirty flag — the same buffer `SimCtx::write` (`to_port_words`) produces. -/
theorem write_words_spec (ws : List Nat) (width : Nat) (hg : Good ws (wordsFor width)) :
    ∃ q, writeWords (newPort width) ws = some q ∧ q.dirty = true ∧
      q.mask = List.replicate (wordsFor width) 0 ∧
      q.words = toPortWords ws width ∧
      Good q.words (wordsFor width) ∧ wordsValue q.words = wordsValue ws % 2 ^ width := by
  have hs := maskTopWord_spec ws width hg
  have he := writeWordsBuf_eq_maskTopWord ws width hg
  have ht : toPortWords ws width = maskTopWord ws width := by
    simp only [toPortWords]; rw [← hg.1, resize_self]
  refine ⟨{ newPort width with words := writeWordsBuf ws width, mask := List.replicate (wordsFor width) 0, dirty := true }, ?_, rfl, rfl, ?_, ?_, ?_⟩
  · simp [writeWords, newPort, hg.1]
  · simp only [he, ht]
  · simp only [he]; exact hs.1
  · simp only [he]; exact hs.2

/-- `SimCtx::write_u64` on a scalar port (1..64 bits): the word is the value modulo `2^width`
(the whole value at width 64), the mask word is cleared. -/
theorem write_u64_spec (width value : Nat) (h0 : 0 < width) (hw : width ≤ 64) (hv : value < Words.two64) :
    writeU64 (newPort width) value =
      some { newPort width with words := [value % 2 ^ width], mask := [0], dirty := true } := by
  have hn : wordsFor width = 1 := wordsFor_small _ hw
  have h0' : width ≠ 0 := by omega
  simp only [writeU64, newPort, hn, h0', if_false, List.replicate]
  by_cases h64 : width ≥ 64
  · have : width = 64 := by omega
    subst this
    have e : value % 2 ^ 64 = value := Nat.mod_eq_of_lt (by rw [← two64_eq]; exact hv)
    simp [e]
  · have hs := shift_mask width h0 (by omega)
    simp only [h64, if_false, hs, Nat.and_two_pow_sub_one_eq_mod]

/-- wasm transport: `u64` words written to linear memory as little-endian bytes and read back
(`words_to_bytes` → `Memory::write` → `guest_bytes` → `bytes_to_words`) come back unchanged. -/
theorem wasm_memory_roundtrip (mem : List Nat) (ptr : Nat) (ws mem' : List Nat)
    (hws : ∀ w ∈ ws, w < Words.two64) (h : memWrite mem ptr (wordsToBytes ws) = some mem') :
    (memRead mem' ptr (ws.length * 8)).map bytesToWords = some ws := by
  have := (mem_read_after_write mem ptr _ mem' h).2
  rw [wordsToBytes_length] at this
  rw [this]
  simp [bytes_roundtrip ws hws]

/-- The two transports agree whenever the guest supplies both buffers: the wasm `write_output`
import on memory holding the words and the mask performs the same `svc_write_output` as the native
adapter given the same slices. -/
theorem transport_agree_masked (mem : List Nat) (p : Port) (wp mp : Nat) (ws ms : List Nat)
    (hw : Good ws p.words.length) (hm : Good ms p.words.length)
    (h1 : memRead mem wp (p.words.length * 8) = some (wordsToBytes ws))
    (h2 : memRead mem mp (p.words.length * 8) = some (wordsToBytes ms)) :
    wasmWriteOutput mem p wp mp = nativeWriteOutput p ws (some ms) := by
  unfold wasmWriteOutput nativeWriteOutput
  simp only [h1, h2, bytes_roundtrip ws hw.2, bytes_roundtrip ms hm.2, Option.map_some]
  rw [List.take_of_length_le (Nat.le_of_eq hw.1), List.take_of_length_le (Nat.le_of_eq hm.1)]

/-- … but not when the guest passes a null mask pointer (`read_u64`, `write_u64`, `read_words`,
`write_words`, and `read`/`write` under a two-state run): the native adapter treats null as "no
X/Z", the wasm import handlers dereference guest address 0.  Full-strength transport independence
is false: -/
theorem transport_null_mask_full_false :
    ¬ (∀ (mem : List Nat) (p : Port) (wp : Nat) (ws : List Nat), Good ws p.words.length →
        memRead mem wp (p.words.length * 8) = some (wordsToBytes ws) →
        wasmWriteOutput mem p wp 0 = nativeWriteOutput p ws none) := by
  intro h
  have hw : Good [5] (newPort 8).words.length := ⟨by decide, by intro w hw; simp at hw; subst hw; decide⟩
  have hm : Good [1] (newPort 8).words.length := ⟨by decide, by intro w hw; simp at hw; subst hw; decide⟩
  have r1 : memRead (wordsToBytes [1] ++ wordsToBytes [5]) 8 ((newPort 8).words.length * 8) = some (wordsToBytes [5]) := by decide
  have r2 : memRead (wordsToBytes [1] ++ wordsToBytes [5]) 0 ((newPort 8).words.length * 8) = some (wordsToBytes [1]) := by decide
  have a := h (wordsToBytes [1] ++ wordsToBytes [5]) (newPort 8) 8 [5] hw r1
  rw [transport_agree_masked _ _ 8 0 [5] [1] hw hm r1 r2] at a
  revert a
  decide

/-- The leak end to end: after a wasm `read_input` with a null mask pointer, the input's X/Z mask
sits at guest address 0, and a following `write_output` with a null mask pointer drives it onto the
output port (natively that output has no X/Z). -/
theorem wasm_null_mask_leak (mem mem1 : List Nat) (p q : Port) (wp : Nat)
    (hpw : Good p.words q.words.length) (hpm : Good p.mask q.words.length)
    (hsep : q.words.length * 8 ≤ wp)
    (h : wasmReadInput mem p wp 0 = some mem1) :
    wasmWriteOutput mem1 q wp 0 = svcWriteOutput q p.words (some p.mask) := by
  unfold wasmReadInput at h
  cases hm0 : memWrite mem wp (wordsToBytes p.words) with
  | none => simp [hm0] at h
  | some mem0 =>
    simp only [hm0] at h
    have a := mem_read_after_write mem wp _ mem0 hm0
    have b := mem_read_after_write mem0 0 _ mem1 h
    have lw : (wordsToBytes p.words).length = q.words.length * 8 := by rw [wordsToBytes_length, hpw.1]
    have lm : (wordsToBytes p.mask).length = q.words.length * 8 := by rw [wordsToBytes_length, hpm.1]
    have c := mem_read_other mem0 0 (wordsToBytes p.mask) mem1 wp (q.words.length * 8) h (Or.inr (by omega))
    rw [lw] at a
    rw [lm] at b
    have h1 : memRead mem1 wp (q.words.length * 8) = some (wordsToBytes p.words) := by rw [c]; exact a.2
    have := transport_agree_masked mem1 q wp 0 p.words p.mask hpw hpm h1 b.2
    rw [this]
    unfold nativeWriteOutput
    rw [List.take_of_length_le (Nat.le_of_eq hpw.1)]
    simp only [Option.map_some]
    rw [List.take_of_length_le (Nat.le_of_eq hpm.1)]

/-- Pre-edge inputs: on an edge, the hook of every listening component runs on inputs staged from
the settled *pre-edge* storage `s` — whatever the RTL writes on this edge (`rtl`) and whatever the
components fired before it (`pre`) write.  Stated through the component's post-edge private state. -/
theorem pre_edge_inputs {κ : Type} (rtl : Store → List (Nat × Nat)) (s : Store)
    (pre post : List (Comp κ)) (c : Comp κ) (hl : c.listens = true) :
    (stepEvent rtl s (pre ++ c :: post)).2[pre.length]? =
      some { c with staged := stagedOf c s, state := (c.hook c.state (stagedOf c s)).1 } := by
  unfold stepEvent
  simp only [stageAll_append, fireAll_append_snd]
  have hlen : (fireAll (applyWrites s (rtl s)) (stageAll s pre)).2.length = pre.length := by
    rw [fireAll_length]; simp [stageAll]
  rw [List.getElem?_append_right (by omega), hlen, Nat.sub_self]
  simp [stageAll, fireAll, hl]

/-- Outputs commit with the flip-flops, part 1: the RTL of this edge is evaluated on the pre-edge
storage — it observes the components' *previous* outputs, never the ones written on this edge — and
a variable that no component drives ends the step with exactly the committed write-log value. -/
theorem outputs_with_ffs_rtl {κ : Type} (rtl : Store → List (Nat × Nat)) (s : Store) (cs : List (Comp κ))
    (v : Nat) (hv : ∀ c ∈ cs, c.drives v = none) :
    (stepEvent rtl s cs).1 v = applyWrites s (rtl s) v := by
  unfold stepEvent
  exact fireAll_undriven v _ _ (stageAll_drives s cs v hv)

/-- Outputs commit with the flip-flops, part 2: a variable driven by output port `idx` of a
listening component (its only driver — `OutputRtlConflict` / `OutputComponentConflict` reject
anything else) ends the same step holding the value the hook wrote, computed from pre-edge inputs;
so the next settle sees flip-flop updates (part 1) and component outputs together. -/
theorem outputs_with_ffs {κ : Type} (rtl : Store → List (Nat × Nat)) (s : Store)
    (pre post : List (Comp κ)) (c : Comp κ) (hl : c.listens = true) (v idx x : Nat)
    (hd : c.drives v = some idx)
    (hpre : ∀ c' ∈ pre, c'.drives v = none) (hpost : ∀ c' ∈ post, c'.drives v = none)
    (hx : (c.hook c.state (stagedOf c s)).2 idx = some x) :
    (stepEvent rtl s (pre ++ c :: post)).1 v = x := by
  unfold stepEvent
  simp only [stageAll_append, fireAll_append_fst]
  have hc : stageAll s (c :: post) = { c with staged := stagedOf c s } :: stageAll s post := by
    simp [stageAll, hl]
  rw [hc]
  simp only [fireAll, hl, if_true]
  rw [fireAll_undriven v _ _ (stageAll_drives s post v hpost)]
  simp [applyOutputs, hd, hx]

/-- An untouched (non-dirty) output keeps the value the variable had after the commit. -/
theorem outputs_untouched {κ : Type} (rtl : Store → List (Nat × Nat)) (s : Store)
    (pre post : List (Comp κ)) (c : Comp κ) (hl : c.listens = true) (v idx : Nat)
    (hd : c.drives v = some idx)
    (hpre : ∀ c' ∈ pre, c'.drives v = none) (hpost : ∀ c' ∈ post, c'.drives v = none)
    (hx : (c.hook c.state (stagedOf c s)).2 idx = none) :
    (stepEvent rtl s (pre ++ c :: post)).1 v = applyWrites s (rtl s) v := by
  unfold stepEvent
  simp only [stageAll_append, fireAll_append_fst]
  have hc : stageAll s (c :: post) = { c with staged := stagedOf c s } :: stageAll s post := by
    simp [stageAll, hl]
  rw [hc]
  simp only [fireAll, hl, if_true]
  rw [fireAll_undriven v _ _ (stageAll_drives s post v hpost)]
  simp only [applyOutputs, hd, hx]
  exact fireAll_undriven v _ _ (stageAll_drives s pre v hpre)

/- Non-vacuity. -/
example : Canon ⟨.big, 2 ^ 99 + 5, 2 ^ 98 + 1, 100⟩ := by
  refine ⟨by decide, by decide, ?_⟩; intro h; cases h
example : Canon ⟨.u64, 5, 6, 3⟩ := ⟨by decide, by decide, fun _ => ⟨by decide, by decide⟩⟩
/-- A 128-bit port (exact multiple of 64) with the top word fully set. -/
example : Good [5, 18446744073709551615] (wordsFor 128) := ⟨by decide, by intro w hw; simp at hw; rcases hw with rfl | rfl <;> decide⟩
example : Good [1, 2] (wordsFor 100) := ⟨by decide, by intro w hw; simp at hw; rcases hw with rfl | rfl <;> decide⟩

end VerylModel.Props.C35
