import VerylModel.Props.C17
import VerylModel.Lemmas.BitsTotal
/-!
C11 (a), theorem T1: panic-freedom of the arithmetic core in Rust's CHECKED semantics.
`Impl.*` (Core/Bits.lean) returns `none` exactly where the debug-profile Rust panics; the theorems
below say that inside the caller invariant it returns `some _`. The one place where it did not
(unary minus at width 64, DESIGN §5 finding #20) was repaired by /repo commit c18109e; the old arm
is kept as `U64.negOld` with `old_unary_minus_width64_panics`.
-/
set_option linter.unusedSimpArgs false
set_option linter.unusedVariables false
namespace VerylModel.Props.C11
open VerylModel.Bits VerylModel.Bits.Ref VerylModel.Bits.Impl VerylModel.Props.C17

/-- Caller invariant of `Op::eval_value_binary` (what `gather_context`/`apply_context` establish
    before `eval_value` runs): canonical `Value`s; the context is at least as wide as every
    context-determined operand; self-determined operands are sized. -/
def binInv (op : Op) (x y : Val) (w : Nat) : Prop :=
  x.canon ∧ y.canon ∧ 0 < w ∧ w < 2 ^ 64 ∧
  match op with
  | .Add | .Sub | .Mul | .Div | .Rem | .BitAnd | .BitOr | .BitXor | .BitXnor => x.width ≤ w ∧ y.width ≤ w
  | .LogicShiftL | .LogicShiftR | .ArithShiftL | .ArithShiftR | .Pow => x.width ≤ w ∧ 0 < y.width
  | .Eq | .Ne | .EqWildcard | .NeWildcard | .Less | .LessEq | .Greater | .GreaterEq =>
      0 < max x.width y.width
  | .LogicAnd | .LogicOr => 0 < x.width ∧ 0 < y.width
  | .As => True
  | _ => False

def unInv (op : Op) (x : Val) (w : Nat) : Prop :=
  x.canon ∧ 0 < w ∧
  match op with
  | .Add | .Sub | .BitNot => x.width ≤ w
  | .BitAnd | .BitNand | .BitOr | .BitNor | .LogicNot | .BitXor | .BitXnor => 0 < x.width
  | _ => False

/-- C11-T1 (binary operators): inside the caller invariant `Op::eval_value_binary` never reaches
    a panic site — no shift ≥ 64, no `64 - width`/`width - 1` underflow, no `unwrap` on `None`,
    no `unreachable!()` representation mismatch — for every operator it implements. -/
theorem value_ops_total (op : Op) (x y : Val) (w : Nat) (s : Bool) (h : binInv op x y w) :
    ∃ v, evalBinary op x y w s = some v := by
  obtain ⟨hx, hy, hw0, hw64, hop⟩ := h
  cases op <;> simp only at hop
  case Add => obtain ⟨v, h, _⟩ := C17_add x y w s hx hy hop.1 hop.2 hw0; exact ⟨v, h⟩
  case Sub => obtain ⟨v, h, _⟩ := C17_sub x y w s hx hy hop.1 hop.2 hw0; exact ⟨v, h⟩
  case Mul => obtain ⟨v, h, _⟩ := C17_mul x y w s hx hy hop.1 hop.2 hw0; exact ⟨v, h⟩
  case Div => obtain ⟨v, h, _⟩ := C17_div x y w s hx hy hop.1 hop.2 hw0; exact ⟨v, h⟩
  case Rem => obtain ⟨v, h, _⟩ := C17_rem x y w s hx hy hop.1 hop.2 hw0; exact ⟨v, h⟩
  case BitAnd => obtain ⟨v, h, _⟩ := C17_band x y w s hx hy hop.1 hop.2 hw0; exact ⟨v, h⟩
  case BitOr => obtain ⟨v, h, _⟩ := C17_bor x y w s hx hy hop.1 hop.2 hw0; exact ⟨v, h⟩
  case BitXor => obtain ⟨v, h, _⟩ := C17_bxor x y w s hx hy hop.1 hop.2 hw0; exact ⟨v, h⟩
  case BitXnor => obtain ⟨v, h, _⟩ := C17_bxnor x y w s hx hy hop.1 hop.2 hw0; exact ⟨v, h⟩
  case LogicShiftL => obtain ⟨v, h, _⟩ := C17_shl x y w s hx hy hop.1 hop.2 hw0 hw64; exact ⟨v, h⟩
  case ArithShiftL => obtain ⟨v, h, _⟩ := C17_ashl x y w s hx hy hop.1 hop.2 hw0 hw64; exact ⟨v, h⟩
  case LogicShiftR => obtain ⟨v, h, _⟩ := C17_lshr x y w s hx hy hop.1 hop.2 hw0 hw64; exact ⟨v, h⟩
  case ArithShiftR => obtain ⟨v, h, _⟩ := C17_ashr x y w s hx hy hop.1 hop.2 hw0 hw64; exact ⟨v, h⟩
  case Pow => exact pow_total x y w s hx hy hop.1 hop.2 hw0
  case Eq => exact cmpArm_total x y w _ _ _ _ hx hy hop hw0 (mk0x_total w hw0)
  case Ne => exact cmpArm_total x y w _ _ _ _ hx hy hop hw0 (mk1x_total w hw0)
  case EqWildcard => obtain ⟨v, h, _⟩ := C17_eqw x y w s hx hy hop hw0; exact ⟨v, h⟩
  case NeWildcard => obtain ⟨v, h, _⟩ := C17_new x y w s hx hy hop hw0; exact ⟨v, h⟩
  case Less => obtain ⟨v, h, _⟩ := C17_lt x y w s hx hy hop hw0; exact ⟨v, h⟩
  case LessEq => obtain ⟨v, h, _⟩ := C17_le x y w s hx hy hop hw0; exact ⟨v, h⟩
  case Greater => obtain ⟨v, h, _⟩ := C17_gt x y w s hx hy hop hw0; exact ⟨v, h⟩
  case GreaterEq => obtain ⟨v, h, _⟩ := C17_ge x y w s hx hy hop hw0; exact ⟨v, h⟩
  case LogicAnd =>
    exact cmpArm_total x y w _ _ _ _ hx hy (by omega) hw0 (mk1x_total w hw0)
  case LogicOr => obtain ⟨v, h, _⟩ := C17_lor x y w s hx hy hop.1 hop.2 hw0; exact ⟨v, h⟩
  case As => exact ⟨x, rfl⟩

/-- C11-T1 (unary operators): total inside the caller invariant (unary minus included since
    /repo commit c18109e). -/
theorem value_ops_total_unary (op : Op) (x : Val) (w : Nat) (s : Bool) (h : unInv op x w) :
    ∃ v, evalUnary op x w s = some v := by
  obtain ⟨hx, hw0, hop⟩ := h
  cases op <;> simp only at hop
  case Add => obtain ⟨v, h, _⟩ := C17_plus x w s hx hop hw0; exact ⟨v, h⟩
  case Sub => obtain ⟨v, h, _⟩ := C17_neg x w s hx hop hw0; exact ⟨v, h⟩
  case BitNot => obtain ⟨v, h, _⟩ := C17_bnot x w s hx hop hw0; exact ⟨v, h⟩
  case BitAnd => obtain ⟨v, h, _⟩ := C17_rand x w s hx hop hw0; exact ⟨v, h⟩
  case BitNand => obtain ⟨v, h, _⟩ := C17_rnand x w s hx hop hw0; exact ⟨v, h⟩
  case BitOr => obtain ⟨v, h, _⟩ := C17_ror x w s hx hop hw0; exact ⟨v, h⟩
  case BitNor => obtain ⟨v, h, _⟩ := C17_rnor x w s hx hop hw0; exact ⟨v, h⟩
  case LogicNot => obtain ⟨v, h, _⟩ := C17_lnot x w s hx hop hw0; exact ⟨v, h⟩
  case BitXor =>
    simp only [evalUnary]
    split
    · exact finishBit_total _ w (by decide) rfl hw0
    · split <;> exact finishBit_total _ w (by decide) rfl hw0
  case BitXnor =>
    simp only [evalUnary]
    split
    · exact finishBit_total _ w (by decide) rfl hw0
    · split <;> exact finishBit_total _ w (by decide) rfl hw0

/-- The repaired defect (finding #20, fixed by /repo commit c18109e), about the OLD arm
    `U64.negOld` (`ret.payload += 1`): inside the invariant it reached the overflow panic. -/
theorem old_unary_minus_width64_panics :
    unInv .Sub (.u64 ⟨64, 0, 0, false⟩) 64 ∧ U64.negOld ⟨64, 0, 0, false⟩ 64 = none := by
  refine ⟨⟨⟨by decide, ?_⟩, by decide, by decide⟩, by decide⟩
  simp only [V4.wfIn]; decide

/-- The current arm on the same inputs (also through a widened 63-bit operand): no panic, value 0. -/
theorem unary_minus_width64_ok :
    evalUnary .Sub (.u64 ⟨64, 0, 0, false⟩) 64 false = some (.u64 ⟨64, 0, 0, false⟩) ∧
    evalUnary .Sub (.u64 ⟨63, 0, 0, false⟩) 64 false = some (.u64 ⟨64, 0, 0, false⟩) := by decide

/-- `Value::{expand, trunc, select, concat, assign}` never panic on canonical values with sizes
    below `usize::MAX`. -/
theorem value_struct_total (x y : Val) (w beg end_ : Nat) (us : Bool) (hx : x.canon) (hy : y.canon)
    (hxw : x.v.wf) (hyw : y.v.wf) :
    (x.width ≤ w → 0 < w → ∃ v, expand x w us = some v) ∧
    (∃ v, Impl.trunc x w = some v) ∧
    (end_ ≤ beg → beg < x.width → x.width < 2 ^ 64 → ∃ v, Impl.select x beg end_ = some v) ∧
    (x.width + y.width < 2 ^ 64 → ∃ v, Impl.concat x y = some v) := by
  refine ⟨?_, ?_, ?_, ?_⟩
  · intro h1 h2; obtain ⟨v, h, _⟩ := expand_spec x w us hx h1 h2; exact ⟨v, h⟩
  · obtain ⟨v, h, _⟩ := trunc_spec x w hx; exact ⟨v, h⟩
  · intro h1 h2 h3; obtain ⟨v, h, _⟩ := select_spec x beg end_ hx h1 h2 h3; exact ⟨v, h⟩
  · intro h1; obtain ⟨v, h, _⟩ := concat_spec x y hx hy hxw hyw h1; exact ⟨v, h⟩

example : binInv .Div (.u64 ⟨8, 0x80, 0, true⟩) (.u64 ⟨8, 0xff, 0, true⟩) 8 := by
  refine ⟨⟨by decide, ?_⟩, ⟨by decide, ?_⟩, by decide, by decide, by decide, by decide⟩ <;>
    (simp only [V4.wfIn]; decide)

end VerylModel.Props.C11
