import VerylModel.Lemmas.ClockDomainProofs
/-!
C16 — Clock-domain crossings are always caught.

Theorems about `Core/ClockDomain.lean` (the lattice and the check sites exactly as coded):

* `root_is_merge_of_leaves`   the domain an expression carries is the in-order merge of its leaves;
* `expr_check_exact`          outside `unsafe (cdc)` some node reports iff two leaves are incompatible;
* `expr_no_launder`           no report ⇒ the root is compatible with `c` iff every leaf is
                              (and the root is `None` iff every leaf is);
* `explicit_inferred_alike`   relabelling leaves within their class (`Explicit id` ↔ `Inferred id`)
                              changes neither the number nor the classes of the diagnostics;
* `assign_exact`              statement-level checks of one assignment;
* `assign_crossing_exact`     a whole assignment (destination with a domain) is clean iff destination,
                              RHS leaves, always_ff clock and enclosing conditions are pairwise compatible;
* `assign_alike`              the same relabelling invariance for whole assignments;
* `single_domain_clean`, `single_domain_design_clean`, `unsafe_design_clean`;
* `C16_none_destination_launders`  a destination whose domain is `None` (a variable declared inside
                              an always block or function) is never inferred and passes every check:
                              the full-strength "every crossing is rejected" is FALSE of the model;
* `C16_inference_order_false_negative` / `_false_positive`  inference of `Implicit` destinations
                              depends on statement order.
-/
namespace VerylModel.Props.C16
open VerylModel.ClockDomain

/-! ### Expressions -/

/-- The domain carried by an expression is the merge of its leaf domains in source order,
whether or not it sits inside `unsafe (cdc)`. -/
theorem root_is_merge_of_leaves (u : Bool) (e : Expr Dom) : (e.eval u).1 = mergeAll e.leaves :=
  VerylModel.ClockDomain.root_is_merge_of_leaves u e

/-- T1. Outside `unsafe (cdc)`, some check site inside the expression reports **iff** two of its
leaves carry incompatible domains (every expression shape: unary, binary, ternary, concatenation /
struct / array literal, indexed factor; any depth, any arity). -/
theorem expr_check_exact (e : Expr Dom) :
    (e.eval false).2 ≠ [] ↔ ∃ a ∈ e.leaves, ∃ b ∈ e.leaves, a.compatible b = false :=
  VerylModel.ClockDomain.expr_check_exact e

/-- T1'. "merge never launders a concrete domain": if no check site reports, the domain the
expression carries is compatible with any `c` exactly when every leaf is. -/
theorem expr_no_launder (e : Expr Dom) (h : (e.eval false).2 = []) (c : Dom) :
    (e.eval false).1.compatible c = e.leaves.all (fun d => d.compatible c) :=
  VerylModel.ClockDomain.expr_no_launder e h c

/-- … and (always) it is `None` exactly when every leaf is `None`. -/
theorem expr_root_none_iff (u : Bool) (e : Expr Dom) :
    (e.eval u).1 = Dom.none ↔ ∀ d ∈ e.leaves, d = Dom.none :=
  VerylModel.ClockDomain.expr_root_none_iff u e

example : (Expr.eval false (.binary (.leaf (.explicit 1)) (.nary .none [.leaf (.inferred 1), .leaf .none]))).2 = [] := by
  decide
example : (Expr.eval false (.ternary (.leaf .none) (.leaf (.explicit 1)) (.leaf (.explicit 2)))).2
    = [(.explicit 1, .explicit 2)] := by decide

/-! ### Explicit and inferred alike -/

/-- T2. Take any expression and, leaf by leaf, any two labellings that agree up to
`Explicit id` ↔ `Inferred id` (same class). Then the carried domain has the same class and the
diagnostics are the same in number, order and classes — in particular one labelling is flagged
iff the other is. -/
theorem explicit_inferred_alike (u : Bool) (e : Expr (Dom × Dom))
    (h : ∀ p ∈ e.leaves, p.1.cls = p.2.cls) :
    ((e.map Prod.fst).eval u).1.cls = ((e.map Prod.snd).eval u).1.cls ∧
    ((e.map Prod.fst).eval u).2.map clsReport = ((e.map Prod.snd).eval u).2.map clsReport :=
  VerylModel.ClockDomain.explicit_inferred_alike u e h

theorem explicit_inferred_same_verdict (u : Bool) (e : Expr (Dom × Dom))
    (h : ∀ p ∈ e.leaves, p.1.cls = p.2.cls) :
    ((e.map Prod.fst).eval u).2 = [] ↔ ((e.map Prod.snd).eval u).2 = [] :=
  VerylModel.ClockDomain.explicit_inferred_same_verdict u e h

example : ∀ p ∈ (Expr.binary (.leaf (Dom.explicit 3, Dom.inferred 3)) (.leaf (Dom.implicit, Dom.implicit))).leaves,
    p.1.cls = p.2.cls := by decide

/-! ### Assignments -/

/-- T3. The statement-level checks of one assignment (`check_assign_clock_domain`) report iff the
statement is not inside `unsafe (cdc)` and the (inferred) destination domain is incompatible with
the RHS domain, the always_ff clock, or some enclosing condition. -/
theorem assign_exact (u : Bool) (dst rhs : Dom) (ffClock : Option Dom) (conds : List Dom) :
    assignChecks u dst rhs ffClock conds ≠ [] ↔
      (u = false ∧ (dst.compatible rhs = false ∨ (∃ c, ffClock = some c ∧ dst.compatible c = false)
        ∨ ∃ c ∈ conds, dst.compatible c = false)) :=
  VerylModel.ClockDomain.assign_exact u dst rhs ffClock conds

example : assignChecks false (.explicit 2) (.explicit 1) none [] ≠ [] := by decide

/-- T3'. A whole assignment outside `unsafe (cdc)` whose destination carries a domain after
inference (`≠ None`): the RHS-internal checks and the statement-level checks together stay silent
**iff** the destination, every RHS leaf, the always_ff clock and every enclosing condition are
pairwise compatible. So every crossing into such a destination is rejected and nothing else is. -/
theorem assign_crossing_exact (dst : Dom) (rhs : Expr Dom) (ffClock : Option Dom) (conds : List Dom)
    (hd : (assignEval false dst rhs ffClock conds).1 ≠ Dom.none) :
    (assignEval false dst rhs ffClock conds).2 = [] ↔
      Consistent ((assignEval false dst rhs ffClock conds).1 :: (rhs.leaves ++ (ffClock.toList ++ conds))) :=
  VerylModel.ClockDomain.assign_crossing_exact dst rhs ffClock conds hd

example : (assignEval false .implicit (.binary (.leaf (.explicit 1)) (.leaf .none)) none []).1 ≠ Dom.none := by
  decide

/-- T2 for whole assignments: relabelling destination, RHS leaves, clock and conditions within
their classes changes neither the class of the inferred destination nor the diagnostics' count,
order and classes. -/
theorem assign_alike (u : Bool) (d d' : Dom) (e : Expr (Dom × Dom)) (k k' : Option Dom)
    (cs : List (Dom × Dom))
    (hd : d.cls = d'.cls) (he : ∀ p ∈ e.leaves, p.1.cls = p.2.cls)
    (hk : k.map Dom.cls = k'.map Dom.cls) (hc : ∀ p ∈ cs, p.1.cls = p.2.cls) :
    (assignEval u d (e.map Prod.fst) k (cs.map Prod.fst)).1.cls
      = (assignEval u d' (e.map Prod.snd) k' (cs.map Prod.snd)).1.cls ∧
    (assignEval u d (e.map Prod.fst) k (cs.map Prod.fst)).2.map clsReport
      = (assignEval u d' (e.map Prod.snd) k' (cs.map Prod.snd)).2.map clsReport :=
  VerylModel.ClockDomain.assign_alike u d d' e k k' cs hd he hk hc

/-! ### Single-domain designs and all-unsafe designs are clean -/

/-- T4 (expressions). If all leaves lie in one clock domain (one class, constants allowed),
no check site reports — inside or outside `unsafe (cdc)`. -/
theorem single_domain_clean (K : Option Nat) (u : Bool) (e : Expr Dom)
    (h : ∀ d ∈ e.leaves, InClass K d) : (e.eval u).2 = [] :=
  VerylModel.ClockDomain.single_domain_clean K u e h

example : ∀ d ∈ (Expr.binary (.leaf (Dom.explicit 3)) (.nary (Dom.inferred 3) [.leaf Dom.none])).leaves,
    InClass (some 3) d := by
  simp [Expr.leaves, Expr.leavesList, InClass, Dom.cls]

/-- T4 (designs). A design all of whose variables lie in one clock domain (class `K`; variables
without a domain allowed) gets no clock-domain diagnostic, whatever its statements are
(assign / always_comb / always_ff, if / else-if / case / switch at any depth, instances). -/
theorem single_domain_design_clean (K : Option Nat) (env : Env) (items : List Item) (h : EnvIn K env) :
    designReports env items = [] :=
  VerylModel.ClockDomain.single_domain_design_clean K env items h

example : EnvIn (some 7) [Dom.explicit 7, Dom.inferred 7, Dom.none] := by simp [EnvIn, InClass, Dom.cls]
example : EnvIn Option.none [Dom.implicit, Dom.none] := by simp [EnvIn, InClass, Dom.cls]

/-- A design whose every item sits inside `unsafe (cdc)` gets no clock-domain diagnostic from its
items; the only check left is the module-level default-clock / default-reset one (`hd`: it is
silent, e.g. because the module does not have exactly one clock and one reset port). -/
theorem unsafe_design_clean (env : Env) (items : List Item) (h : ∀ it ∈ items, it.isUnsafe = true)
    (hd : ∀ w, w.out = [] → (defaultCheck w items).out = []) :
    designReports env items = [] :=
  VerylModel.ClockDomain.unsafe_design_clean env items h hd

example : ∀ w : Walk, w.out = [] → (defaultCheck w [.ff true 0 Option.none .nil]).out = [] := by
  intro w hw; simpa [defaultCheck, clockVars, resetVars, List.eraseDups] using hw

/-- The default-clock / default-reset check is made at the `module` token and cannot be put inside
`unsafe (cdc)`: a module with one 'a clock and one 'b reset is rejected even if its only
always_ff is unsafe. -/
theorem C16_default_clock_reset_not_unsafeable :
    designReports [.explicit 1, .explicit 2] [.ff true 0 (some 1) .nil]
      = [(0, (.explicit 1, .explicit 2))] := by
  decide


/-! ### The full-strength statement is false of the code

Each witness below was replayed on the real analyzer (`hx cdc`, see `checks/c16.py`). Variables:
`'a` = id 1, `'b` = id 2. -/

/-- `env`: v0 ∈ 'a, v1 declared inside the always block (`var t: logic;` ⇒ `None`), v2 ∈ 'b.
`always_comb { t = v0; v2 = t; }` moves data from 'a to 'b and nothing reports: a `None`
destination is never inferred and is compatible with everything. -/
theorem C16_none_destination_launders :
    designReports [.explicit 1, .none, .explicit 2]
      [.comb false (.cons (.assign 1 (.leaf (.var 0))) (.cons (.assign 2 (.leaf (.var 1))) .nil))] = [] := by
  decide

/-- Same data flow with an `Implicit` (module-level, un-annotated) intermediate: caught. -/
theorem C16_implicit_destination_caught :
    designReports [.explicit 1, .implicit, .explicit 2]
      [.comb false (.cons (.assign 1 (.leaf (.var 0))) (.cons (.assign 2 (.leaf (.var 1))) .nil))]
      = [(2, (.explicit 2, .inferred 1))] := by
  decide

/-- Inference depends on statement order (false negative). v0 ∈ 'a, v1 ∈ 'b; x (v2), y (v3),
x2 (v4), y2 (v5), o (v6) un-annotated. `y = x; x = v0; y2 = x2; x2 = v1; o = y & y2;` mixes data
of both domains and nothing reports, because `y`/`y2` were still `Implicit` when assigned … -/
theorem C16_inference_order_false_negative :
    designReports [.explicit 1, .explicit 2, .implicit, .implicit, .implicit, .implicit, .implicit]
      [.assign false 3 (.leaf (.var 2)), .assign false 2 (.leaf (.var 0)),
       .assign false 5 (.leaf (.var 4)), .assign false 4 (.leaf (.var 1)),
       .assign false 6 (.binary (.leaf (.var 3)) (.leaf (.var 5)))] = [] := by
  decide

/-- … while the same assignments in data-flow order are rejected. -/
theorem C16_inference_order_caught :
    designReports [.explicit 1, .explicit 2, .implicit, .implicit, .implicit, .implicit, .implicit]
      [.assign false 2 (.leaf (.var 0)), .assign false 3 (.leaf (.var 2)),
       .assign false 4 (.leaf (.var 1)), .assign false 5 (.leaf (.var 4)),
       .assign false 6 (.binary (.leaf (.var 3)) (.leaf (.var 5)))]
      = [(5, (.inferred 1, .inferred 2))] := by
  decide

/-- Inference depends on statement order (false positive): everything is in 'a (v0 and v3
explicit, x = v1 and y = v2 un-annotated); `y = x; x = v0; v3 = y;` is rejected although
`x = v0; y = x; v3 = y;` is accepted. -/
theorem C16_inference_order_false_positive :
    designReports [.explicit 1, .implicit, .implicit, .explicit 1]
      [.assign false 2 (.leaf (.var 1)), .assign false 1 (.leaf (.var 0)),
       .assign false 3 (.leaf (.var 2))] = [(3, (.explicit 1, .implicit))] ∧
    designReports [.explicit 1, .implicit, .implicit, .explicit 1]
      [.assign false 1 (.leaf (.var 0)), .assign false 2 (.leaf (.var 1)),
       .assign false 3 (.leaf (.var 2))] = [] := by
  decide

/-- A write under `else if` / `else` is gated by *every* earlier condition of the chain, but only
the branch's own condition (for `else`: the first one) is on the condition stack.
v0 ∈ 'a (condition), v1 ∈ 'b (condition), v2 ∈ 'b (destination):
`if v0 {} else if v1 { v2 = 1; }` is accepted although `v0 ∈ 'a` selects whether `v2 ∈ 'b` is
written; the equivalent nesting `if v0 {} else { if v1 { v2 = 1; } }` is rejected. -/
theorem C16_else_if_gating_unchecked :
    designReports [.explicit 1, .explicit 2, .explicit 2]
      [.comb false (.cons (.ifs (.leaf (.var 0)) .nil
          (.cons (.leaf (.var 1)) (.cons (.assign 2 (.leaf .const)) .nil) .nil) .nil) .nil)] = [] ∧
    designReports [.explicit 1, .explicit 2, .explicit 2]
      [.comb false (.cons (.ifs (.leaf (.var 0)) .nil .nil
          (.cons (.ifs (.leaf (.var 1)) (.cons (.assign 2 (.leaf .const)) .nil) .nil .nil) .nil)) .nil)]
      = [(3, (.explicit 2, .explicit 1))] := by
  decide

/-- Same for `switch`: arm 2 runs only if arm 1's condition (v0 ∈ 'a) is false. -/
theorem C16_switch_gating_unchecked :
    designReports [.explicit 1, .explicit 2, .explicit 2]
      [.comb false (.cons (.switch (.cons (.leaf (.var 0)) .nil
          (.cons (.leaf (.var 1)) (.cons (.assign 2 (.leaf .const)) .nil) .nil)) .nil) .nil)] = [] := by
  decide

/-- Instance connections are checked only against the *first* expression connected to a port of
the same sub-module domain. If that is a constant (domain `None`), the others are not compared:
`inst u: Sub (i0: 1'b0, i1: v0, o: v1)` with v0 ∈ 'a, v1 ∈ 'b is accepted, while
`inst u: Sub (i0: v0, i1: 1'b0, o: v1)` is rejected. -/
theorem C16_inst_constant_first_launders :
    designReports [.explicit 1, .explicit 2]
      [.inst false [(0, .leaf .const), (0, .leaf (.var 0)), (0, .leaf (.var 1))]] = [] ∧
    designReports [.explicit 1, .explicit 2]
      [.inst false [(0, .leaf (.var 0)), (0, .leaf .const), (0, .leaf (.var 1))]]
      = [(3, (.explicit 1, .explicit 2))] := by
  decide


end VerylModel.Props.C16
