import VerylModel.Core.Incremental
/-!
C04 — incremental builds produce exactly what a clean build produces.

The analyzer is opaque (`an`).  What the protocol needs from it is stated as the hypothesis
`DepSound`: a file's result can change only if the file itself or a file it was recorded to depend
on changed.  `NoDeletedDep` is the hypothesis the proof FORCES for deleted sources (their recorded
dependents are not added to the miss set by `Incremental::open`); `deleted_source_false` shows the
statement is false without it.
-/
namespace VerylModel.Props.C04
open VerylModel.Incremental

variable {α : Type}

/-- `out w' f` can differ from `out w f` only if `f` changed or some recorded dependency of `f`
    changed or disappeared.  (`deps g` = recorded dependents of `g`, transitively closed.) -/
def DepSound (an : World → File → α) (deps : World → File → List File) (w w' : World) : Prop :=
  ∀ f, f ∈ w.files → f ∈ w'.files → w'.hash f = w.hash f →
    (∀ g, g ∈ w.files → f ∈ deps w g → g ∈ w'.files ∧ w'.hash g = w.hash g) →
    an w' f = an w f

/-- No deleted source had a surviving dependent. -/
def NoDeletedDep (deps : World → File → List File) (w w' : World) : Prop :=
  ∀ g, g ∈ w.files → g ∉ w'.files → ∀ f, f ∈ deps w g → f ∉ w'.files

theorem lookup_saveManifest (w : World) (c : File → Bool) (d : File → List File) (f : File) :
    lookup (saveManifest w c d) f =
      if f ∈ w.files then some { hash := w.hash f, frag := c f, dependents := d f } else none := by
  unfold saveManifest
  induction w.files with
  | nil => simp [lookup]
  | cons x xs ih =>
    simp only [List.map_cons, lookup, List.mem_cons]
    by_cases hx : x = f
    · subst hx; simp
    · have : ¬ f = x := fun h => hx h.symm
      simp [hx, this, ih]

theorem mem_missSet_of_miss0 {man hash fresh emit files f}
    (h : f ∈ miss0 man hash fresh emit files) : f ∈ missSet man hash fresh emit files := by
  unfold missSet; simp [h]

theorem mem_missSet_of_dep {man hash fresh emit files g f e}
    (hg : g ∈ miss0 man hash fresh emit files) (he : lookup man g = some e) (hf : f ∈ e.dependents) :
    f ∈ missSet man hash fresh emit files := by
  unfold missSet missDeps
  simp only [List.mem_append, List.mem_flatMap]
  right
  exact ⟨g, hg, by simp [he, hf]⟩

/-- T2 `miss_superset`: every file whose result under the new state can differ from the recorded
    one is in the miss set; equivalently a file outside the miss set is a sound hit. -/
theorem miss_superset (an : World → File → α) (deps : World → File → List File)
    (w w' : World) (cach : File → Bool) (fresh : File → Bool) (emit : Bool)
    (hs : DepSound an deps w w') (hd : NoDeletedDep deps w w')
    (f : File) (hf : f ∈ w'.files)
    (hm : f ∉ missSet (saveManifest w cach (deps w)) w'.hash fresh emit w'.files) :
    f ∈ w.files ∧ an w' f = an w f ∧ (emit = true → fresh f = true) := by
  have h0 : f ∉ miss0 (saveManifest w cach (deps w)) w'.hash fresh emit w'.files :=
    fun h => hm (mem_missSet_of_miss0 h)
  have hhit : isHit (saveManifest w cach (deps w)) w'.hash fresh emit f = true := by
    unfold miss0 at h0
    simp only [List.mem_filter, hf, true_and, Bool.not_eq_true', Bool.not_eq_false] at h0
    cases h : isHit (saveManifest w cach (deps w)) w'.hash fresh emit f with
    | true => rfl
    | false => simp [h] at h0
  unfold isHit at hhit
  rw [lookup_saveManifest] at hhit
  by_cases hfw : f ∈ w.files
  · simp only [hfw, if_true, Bool.and_eq_true, beq_iff_eq, Bool.not_eq_true', Bool.or_eq_true] at hhit
    obtain ⟨⟨⟨hh, _⟩, hfr⟩, _⟩ := hhit
    refine ⟨hfw, ?_, ?_⟩
    · apply hs f hfw hf hh.symm
      intro g hg hfg
      by_cases hgw : g ∈ w'.files
      · refine ⟨hgw, ?_⟩
        -- if g's hash changed, g misses and drags f into the miss set
        apply Classical.byContradiction
        intro hne
        have hgm : g ∈ miss0 (saveManifest w cach (deps w)) w'.hash fresh emit w'.files := by
          unfold miss0
          simp only [List.mem_filter, hgw, true_and, Bool.not_eq_true', isHit, lookup_saveManifest, hg, if_true]
          have : (w.hash g == w'.hash g) = false := by
            simp only [beq_eq_false_iff_ne, ne_eq]; exact fun h => hne h.symm
          simp [this]
        have hl : lookup (saveManifest w cach (deps w)) g
            = some { hash := w.hash g, frag := cach g, dependents := deps w g } := by
          rw [lookup_saveManifest]; simp [hg]
        exact hm (mem_missSet_of_dep hgm hl hfg)
      · exact absurd hf (hd g hg hgw f hfg)
    · intro he
      cases hfr with
      | inl h => simp [he] at h
      | inr h => exact h
  · simp [hfw] at hhit

/-- T1 `inc_eq_clean` (one step): after a successful build of `w` (manifest saved, every result
    right), any edit to `w'`, arbitrary damage to outputs (`old` may be wrong wherever `fresh`
    says stale), the incremental build of `w'` produces exactly the clean build's results. -/
theorem inc_eq_clean (an : World → File → α) (deps : World → File → List File)
    (w w' : World) (cach : File → Bool) (fresh : File → Bool)
    (old : Results α)
    (hold : ∀ f, f ∈ w.files → fresh f = true → old f = some (an w f))
    (hs : DepSound an deps w w') (hd : NoDeletedDep deps w w') :
    incBuild an w' (missSet (saveManifest w cach (deps w)) w'.hash fresh true w'.files) old
      = cleanBuild an w' := by
  funext f
  unfold incBuild cleanBuild
  by_cases hf : f ∈ w'.files
  · simp only [List.contains_eq_mem, hf, decide_true, if_true]
    by_cases hm : f ∈ missSet (saveManifest w cach (deps w)) w'.hash fresh true w'.files
    · simp [hm]
    · obtain ⟨hfw, he, hfr⟩ := miss_superset an deps w w' cach fresh true hs hd f hf hm
      simp [hm, hold f hfw (hfr rfl), he]
  · simp [hf]

/-- The whole history: a sequence of project states, each built incrementally on the cache and
    outputs left by the previous build, always equals the clean build of the last state. -/
def runHistory (an : World → File → α) (deps : World → File → List File) (cach : World → File → Bool) :
    World → Results α → List World → World × Results α
  | w, r, [] => (w, r)
  | w, r, w' :: ws =>
    runHistory an deps cach w'
      (incBuild an w' (missSet (saveManifest w (cach w) (deps w)) w'.hash (fun _ => true) true w'.files) r) ws

theorem history_eq_clean (an : World → File → α) (deps : World → File → List File) (cach : World → File → Bool)
    (w0 : World) (ws : List World)
    (hs : ∀ w w', DepSound an deps w w') (hd : ∀ w w', NoDeletedDep deps w w') :
    (runHistory an deps cach w0 (cleanBuild an w0) ws).2
      = cleanBuild an (runHistory an deps cach w0 (cleanBuild an w0) ws).1 := by
  induction ws generalizing w0 with
  | nil => rfl
  | cons w' ws ih =>
    simp only [runHistory]
    rw [inc_eq_clean an deps w0 w' (cach w0) (fun _ => true) (cleanBuild an w0) _ (hs w0 w') (hd w0 w')]
    · exact ih w'
    · intro f hf _
      simp [cleanBuild, hf]

/-- T4: without `NoDeletedDep` the statement is false — deleting a source leaves its dependents as
    cache hits.  Files: 0 = leaf, 1 = mid (depends on leaf).  `an w 1` records whether leaf exists. -/
def wOld : World := { files := [0, 1], hash := fun _ => 7 }
def wDel : World := { files := [1], hash := fun _ => 7 }
def anW (w : World) (f : File) : Nat := if f = 1 then (if w.files.contains 0 then 1 else 0) else 5
def depsW (_ : World) (g : File) : List File := if g = 0 then [1] else []

theorem deleted_source_false :
    incBuild anW wDel (missSet (saveManifest wOld (fun _ => true) (depsW wOld)) wDel.hash (fun _ => true) true wDel.files)
      (cleanBuild anW wOld) 1 ≠ cleanBuild anW wDel 1 := by
  decide

/-- …and the witness satisfies `DepSound` (so only `NoDeletedDep` is missing). -/
example : DepSound anW depsW wOld wDel := by
  intro f hf hf' _ hdep
  have : f = 1 := by simpa [wDel] using hf'
  subst this
  have := hdep 0 (by simp [wOld]) (by simp [depsW])
  simp [wDel] at this

/-- non-vacuity of `inc_eq_clean`: an edited state with a surviving dependency chain. -/
def wEdit : World := { files := [0, 1], hash := fun f => if f = 0 then 8 else 7 }
example : NoDeletedDep depsW wOld wEdit := by
  intro g _ hg; simp [wEdit] at hg ⊢
  intro f hf; rcases (by simpa [wOld] using ‹g ∈ wOld.files›) with h | h <;> simp_all

/-- T3 `warnings_once`: replaying cached diagnostics and dropping those re-derived fresh reports
    every diagnostic key exactly once (given each source lists a key once) and loses none. -/
theorem warnings_once (fresh cached : List Nat) (hf : fresh.Nodup) (hc : cached.Nodup) :
    (report fresh cached).Nodup ∧ ∀ k, k ∈ report fresh cached ↔ (k ∈ fresh ∨ k ∈ cached) := by
  unfold report
  constructor
  · rw [List.nodup_append]
    refine ⟨hf, hc.filter _, ?_⟩
    intro a ha b hb hab
    subst hab
    simp only [List.mem_filter, Bool.not_eq_true', List.contains_eq_mem, decide_eq_false_iff_not] at hb
    exact hb.2 ha
  · intro k
    simp only [List.mem_append, List.mem_filter, Bool.not_eq_true', List.contains_eq_mem, decide_eq_false_iff_not]
    constructor
    · rintro (h | ⟨h, _⟩)
      · exact Or.inl h
      · exact Or.inr h
    · rintro (h | h)
      · exact Or.inl h
      · by_cases hk : k ∈ fresh
        · exact Or.inl hk
        · exact Or.inr ⟨h, hk⟩

/-- A second warm run of an unchanged project re-reports exactly what the first warm run reported:
    the blob saved for a restored file is the full reported set, so the global post-pass re-deriving
    part of it (`fresh`) loses nothing. -/
theorem warm_replay_stable (fresh cached : List Nat) :
    ∀ k, k ∈ report fresh (savedDiags fresh cached) ↔ k ∈ report fresh cached := by
  intro k
  unfold savedDiags report
  simp only [List.mem_append, List.mem_filter, Bool.not_eq_true', List.contains_eq_mem, decide_eq_false_iff_not]
  constructor
  · rintro (h | ⟨h | ⟨h, h'⟩, _⟩)
    · exact Or.inl h
    · exact Or.inl h
    · exact Or.inr ⟨h, h'⟩
  · rintro (h | ⟨h, h'⟩)
    · exact Or.inl h
    · exact Or.inr ⟨Or.inr ⟨h, h'⟩, h'⟩

/-- The defect repaired by the `fix:` commit (found by this check): storing only the fresh subset
    drops a restored file's other cached warnings from the next warm run.
    Keys: 1 = `unused_variable` (re-derived by the global post-pass), 2 = `unassign_variable`. -/
theorem old_save_loses_warning :
    ¬ (∀ k, k ∈ report [1] (savedDiagsOld [1] [1, 2]) ↔ k ∈ report [1] [1, 2]) := by
  intro h
  have := (h 2).2 (by decide)
  revert this
  decide

end VerylModel.Props.C04
