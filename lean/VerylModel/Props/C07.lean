import VerylModel.Core.LsState
import VerylModel.Lemmas.LsState
/-!
# C07 — language-server diagnostics depend only on the current buffers  (partial)

"After any sequence of open, change, save, rename and close notifications on any set of files, the
diagnostics veryl-ls publishes for a file are the same as a freshly started server publishes for
the same buffer contents once background analysis is complete. Re-analysing a file after an edit
never leaves behind symbols, references or errors from its earlier contents."

What is proved (model `Core/LsState.lean`; every analyzer `ana`, every history, no size bound):

* `tables_classified` — every `thread_local!` table extracted from the source
  (`Gen/DropTables.lean`, regenerated on every run) has exactly one class; every table classed
  `dropped` is on the call graph of `Analyzer::drop_file` as extracted. A new table, or a table
  removed from `drop_file`, breaks this theorem (or the build, if an identifier disappears).
* `table_function_of_buffers` — per table: if the table is not `leaky`, what a diagnostic pass can
  see of it after ANY history is the analysis of the final buffers.
* `state_function_of_buffers` — if no table is leaky, any two histories that leave the same buffers
  (in particular a history and a fresh server opened on its final buffers) are indistinguishable.
* `state_function_of_buffers_false` — the full-strength statement (no hypothesis on classes) is
  FALSE: one leaky table and the history `open f c₁; change f c₂` suffice.
* `real_leaky_tables`, `leaky_accounted` — the real classification has 16 leaky tables; 4 are
  observable (`doc_comment_leak`, `wildcard_leak`, `generic_index_leak`, `pending_queue_leak` are
  faithful miniatures; checks/c07.py replays them on the real `veryl-ls`), 12 are argued
  unobservable (reason strings in `LsState.reasons`).
* `real_partial` — what does hold for the real classification: the 28 non-leaky tables are
  functions of the buffers after every history.

Not covered by a theorem (tested on the real server by checks/c07.py):
* that each real table behaves as its class says (the classification is a per-table assumption
  with a reason string);
* the server's own state. The specification side `bufsOf` reads `close` the way the server does
  (the document stays, with its last buffer): backend.rs has no didClose handler and
  `document_map` is never shrunk, so "the buffer of a closed file is its disk content" is NOT what
  the model states — on the real server this is finding `ls:didclose-ignored`; likewise
  `Server.latest_change` (replayed after every scan even for a uri that has been renamed away) is
  not an analyzer table — finding `ls:removed-file-reanalysed-by-latest-change`;
* interleavings inside a background scan other than the one of `pending_queue_leak`.
-/
namespace VerylModel.Props.C07
open VerylModel.LsState
open VerylModel.Gen.DropTables

/-! ## T2 — translator tie -/

/-- Every extracted table has exactly one class, every classified id is an extracted table, every
    table has a reason string, and `dropped` ⇒ cleared on the call graph of `drop_file`. -/
theorem tables_classified :
    (∀ t ∈ tableIds, (classification.filter (fun e => e.1 == t)).length = 1) ∧
    (∀ e ∈ classification, e.1 < numTables) ∧
    classification.map (·.1) = reasons.map (·.1) ∧
    (∀ t ∈ tableIds, clsOf t = some .dropped → t ∈ droppedByDropFile) := by
  decide

/-- The leaky tables of the real classification. -/
theorem real_leaky_tables :
    tableIds.filter (fun t => realCls t == .leaky) =
      [T.analyzer_comb_loop_detect_procedure_FUNCTION_BARRIER_EVALUATIONS,
       T.analyzer_comb_loop_detect_procedure_FUNCTION_EVALUATIONS,
       T.analyzer_comb_loop_detect_procedure_FUNCTION_RESULT_REGION_PROBES,
       T.analyzer_comb_loop_detect_procedure_FUNCTION_RESULT_VERSIONS,
       T.analyzer_comb_loop_detect_procedure_MODULE_CONTEXT_ENTRIES,
       T.analyzer_ir_comb_to_ff_hoist_GLOBAL_APPLIED,
       T.analyzer_ir_comb_to_ff_hoist_GLOBAL_LIMIT,
       T.analyzer_ir_comb_to_ff_hoist_GLOBAL_SEEN,
       T.analyzer_ir_comb_to_ff_hoist_GLOBAL_SKIP,
       T.analyzer_ir_comb_to_ff_hoist_LIMIT_READ,
       T.analyzer_reference_table_REFERENCE_TABLE,
       T.analyzer_scope_SCOPE_ARENA,
       T.analyzer_stopwatch_STOPWATCH_TABLE,
       T.analyzer_symbol_table_GENERIC_INSTANCE_INDEX,
       T.analyzer_type_dag_TYPE_DAG,
       T.parser_doc_comment_table_DOC_COMMENT_TABLE] := by
  decide

/-- Every leaky table is accounted for exactly once (observable with a witness, or argued
    unobservable), and only leaky tables are. -/
theorem leaky_accounted :
    leakStatus.map (·.1) = tableIds.filter (fun t => realCls t == .leaky) ∧
    (leakStatus.filter (fun e => e.2 == .observable)).map (·.1) =
      [T.analyzer_reference_table_REFERENCE_TABLE, T.analyzer_scope_SCOPE_ARENA,
       T.analyzer_symbol_table_GENERIC_INSTANCE_INDEX, T.parser_doc_comment_table_DOC_COMMENT_TABLE] := by
  decide

/-! ## T1 — a non-leaky table is a function of the buffers -/

/-- Per table, for every analyzer, class assignment and history: a table that is dropped,
    recomputed or fresh-keyed shows for every file exactly the analysis of the file's final
    buffer (nothing of its earlier contents, nothing if the file is gone). -/
theorem table_function_of_buffers (cfg : Cfg) (hist : List Note) (t f : Nat) (h : cfg.cls t ≠ .leaky) :
    obs cfg (run cfg init hist) t f = expected cfg (bufsOf noBufs hist) t f := by
  rw [obs_of_inv (inv_run (inv_init cfg) hist) t f h]
  exact expectedCur_eq (agree_run agree_init hist) t f

/-- If every table is dropped, recomputed or fresh-keyed, two histories that leave the same buffers
    leave the same observable table state. -/
theorem state_function_of_buffers (cfg : Cfg) (hcls : ∀ t, cfg.cls t ≠ .leaky) (h₁ h₂ : List Note)
    (hb : ∀ f, bufsOf noBufs h₁ f = bufsOf noBufs h₂ f) (t f : Nat) :
    obs cfg (run cfg init h₁) t f = obs cfg (run cfg init h₂) t f := by
  rw [table_function_of_buffers cfg h₁ t f (hcls t), table_function_of_buffers cfg h₂ t f (hcls t)]
  unfold expected
  rw [hb f]

/-- …in particular a long-lived server and a fresh server opened on the final buffers `fs`. -/
theorem fresh_server_agrees (cfg : Cfg) (hcls : ∀ t, cfg.cls t ≠ .leaky) (hist : List Note)
    (fs : List (Nat × Nat)) (hb : ∀ f, bufsOf noBufs hist f = bufsOf noBufs (freshHist fs) f) (t f : Nat) :
    obs cfg (run cfg init hist) t f = obs cfg (run cfg init (freshHist fs)) t f :=
  state_function_of_buffers cfg hcls hist (freshHist fs) hb t f

/-- A concrete instance of the hypotheses: three table classes, a history with a syntax-breaking
    edit (content 9), a rename and a delete, against a fresh server on the two surviving files. -/
example :
    let cfg : Cfg := { cls := fun t => if t = 0 then .dropped else if t = 1 then .recomputed else .freshKeyed,
                       ana := fun t f c => [t + f + c, c] }
    let hist := [Note.opn 1 5, .opn 2 6, .change 1 9, .save 1, .change 1 7, .close 2, .rename 2 3 6, .opn 4 1, .delete 4]
    (∀ t, cfg.cls t ≠ .leaky) ∧
    (∀ f ∈ [0, 1, 2, 3, 4, 5], bufsOf noBufs hist f = bufsOf noBufs (freshHist [(3, 6), (1, 7)]) f) ∧
    obs cfg (run cfg init hist) 0 1 = [8, 7] ∧ obs cfg (run cfg init hist) 2 2 = [] := by
  refine ⟨?_, by decide, by decide, by decide⟩
  intro t; by_cases h0 : t = 0 <;> by_cases h1 : t = 1 <;> simp [h0, h1]

/-! ## the full-strength statement is false of a server with a leaky table -/

/-- Without the hypothesis on the classes the statement fails: table 0 leaky, `open 1 5` then
    `change 1 7` — the table still shows the entries of content 5. -/
theorem state_function_of_buffers_false :
    ¬ (∀ (cfg : Cfg) (hist : List Note) (t f : Nat),
        obs cfg (run cfg init hist) t f = expected cfg (bufsOf noBufs hist) t f) := by
  intro h
  have := h { cls := fun _ => .leaky, ana := fun _ _ c => [c] } [.opn 1 5, .change 1 7] 0 1
  revert this
  decide

/-- What holds of the real classification: each of its non-leaky tables is a function of the
    buffers, whatever the other tables do. -/
theorem real_partial (ana : Ana) (hist : List Note) (t f : Nat) (h : realCls t ≠ .leaky) :
    obs { cls := realCls, ana := ana } (run { cls := realCls, ana := ana } init hist) t f =
      expected { cls := realCls, ana := ana } (bufsOf noBufs hist) t f :=
  table_function_of_buffers { cls := realCls, ana := ana } hist t f h

/-- 28 of the 44 tables are covered by `real_partial`. -/
theorem real_nonleaky_count : (tableIds.filter (fun t => realCls t != .leaky)).length = 28 := by
  decide

/-! ## the three observable leaks, in miniature (replayed on the real server by checks/c07.py) -/

open Leaks in
/-- `DOC_COMMENT_TABLE`: buffer 1 has `///` lines 1–3 above a module on line 4; buffer 2 replaces
    them by `//` lines. The long-lived table still returns the comment of line 3 (which
    `create_doc_comment` attaches to the module, and `check_wavedrom` checks); a fresh one does not. -/
theorem doc_comment_leak :
    docGet (docParse (docParse [] 0 [(1, 11), (2, 12), (3, 13)]) 0 []) 0 3 = some 13 ∧
    docGet (docParse [] 0 []) 0 3 = none := by
  decide

open Leaks in
/-- `Scope.wildcards`: buffer 1 of a package has `import P::*;` (package 7), buffer 2 has not. The
    long-lived scope still sees `P`'s members; a fresh one does not. -/
theorem wildcard_leak :
    seesPackage (wildcardsAfter [[7], []]) 7 = true ∧ seesPackage (wildcardsAfter [[]]) 7 = false := by
  decide

open Leaks in
/-- `GENERIC_INSTANCE_INDEX`: analysing the instantiating file twice inserts the same key with two
    SymbolIds (524, 531): the second insert fails the `debug_assert_eq!`; a fresh server inserts once. -/
theorem generic_index_leak :
    genIndexHistory [] 1 [524, 531] = none ∧ (genIndexHistory [] 1 [531]).isSome = true := by
  decide

open Leaks in
/-- `REFERENCE_TABLE.candidates`: a background scan runs pass1 on file 1 (tokens 10, 11); before the
    scan's post-pass the file is opened: `drop_file 1`, pass1 again (tokens 20, 21), post-pass →
    the stale candidates 10, 11 have no token scope: `unwrap()` panics. A fresh server that gets the
    same buffer without the interleaved scan applies cleanly. -/
theorem pending_queue_leak :
    pqApply (pqPass1 (pqDrop (pqPass1 ⟨[], []⟩ 1 [10, 11]) 1) 1 [20, 21]) = none ∧
    (pqApply (pqPass1 ⟨[], []⟩ 1 [20, 21])).isSome = true := by
  decide

end VerylModel.Props.C07
