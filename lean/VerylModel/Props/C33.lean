import VerylModel.Core.Swap
import VerylModel.Lemmas.Swap
/-!
# C33 — switching to the compiled C backend mid-run is invisible

"With the asynchronous C backend, the simulation trace is the same whichever cycle the compiled
code takes over from the JIT, including never."

`≈` (`R` below; `Eqv loc` on byte memories) is equality on all non-localised state.

* `swap_invisible*` — the generic statement: two step functions that agree up to `≈`, the reference
  one being a congruence for `≈`; every hybrid run (ANY schedule `Nat → Bool`: swap once, never,
  back and forth) is `≈` to the reference run after every step, hence has the same observable
  trace.  (Only the reference engine's congruence is needed.)
* `swap_invisible_dispatch` — the same at the granularity the code really has: the dispatcher
  (`settle` = `Ir::settle_comb`, `event` = `Simulator::eval_event_stmts`, `opStep` = the
  `comb_dirty` discipline of `Simulator::{set,get,step,step_reset}`) asks an ARBITRARY gate
  `Nat → Bool` at every whole-module dispatch attempt (the constant cone, every comb pass, every
  event), so one settle can mix engines.  For every API-call sequence the hybrid machine is `≈`
  to the JIT-only machine — except across the *first-settle gap* `FirstSettleGap`.
* `const_cone_once` — running the constant cone at the first C settle only equals evaluating the
  constant statements in every settle.
* `first_settle_gap_false` — the full-strength dispatch statement (no side condition) is false:
  when the very first dispatch attempt of a run (the constant cone's) is refused and the second
  (the main function's) is served, the C main function runs before anything has evaluated the
  constant statements.  With the hook this is `set_ready_at(1)`; in production it needs the
  background compile to publish the module between two consecutive `cell.get()` calls of the
  first settle.
* `dispatch_*` — facts about the dispatcher whose replies the harness compares with the
  measured attempt counter (`vmodel swap`).
-/
namespace VerylModel.Props.C33
open VerylModel.Swap

/-! ## Generic hybrid runs -/

/-- Every hybrid run is `R`-related to the reference run (for every input list, hence after every
    prefix: step for step). -/
theorem swap_invisible {σ ι : Type} (R : σ → σ → Prop)
    (htrans : ∀ a b c, R a b → R b c → R a c)
    (f g : ι → σ → σ)
    (agree : ∀ i s, R (g i s) (f i s))
    (cf : ∀ i s t, R s t → R (f i s) (f i t))
    (sched : Nat → Bool) (ins : List ι) (s t : σ) (h : R s t) :
    R (hrun f g sched 0 ins s) (run f ins t) :=
  hrun_rel R htrans f g agree cf sched ins 0 s t h

/-- The same for the whole state trace: equal length, related position by position. -/
theorem swap_invisible_trace {σ ι : Type} (R : σ → σ → Prop)
    (htrans : ∀ a b c, R a b → R b c → R a c)
    (f g : ι → σ → σ)
    (agree : ∀ i s, R (g i s) (f i s))
    (cf : ∀ i s t, R s t → R (f i s) (f i t))
    (sched : Nat → Bool) (ins : List ι) (s t : σ) (h : R s t) :
    (htrace f g sched 0 ins s).length = (trace f ins t).length ∧
    ∀ p ∈ (htrace f g sched 0 ins s).zip (trace f ins t), R p.1 p.2 :=
  htrace_rel R htrans f g agree cf sched ins 0 s t h

/-- Observations that do not look at what `R` ignores (the ports) are EQUAL, cycle by cycle. -/
theorem swap_invisible_ports {σ ι ο : Type} (R : σ → σ → Prop)
    (htrans : ∀ a b c, R a b → R b c → R a c)
    (f g : ι → σ → σ)
    (agree : ∀ i s, R (g i s) (f i s))
    (cf : ∀ i s t, R s t → R (f i s) (f i t))
    (obs : σ → ο) (hobs : ∀ s t, R s t → obs s = obs t)
    (sched : Nat → Bool) (ins : List ι) (s t : σ) (h : R s t) :
    (htrace f g sched 0 ins s).map obs = (trace f ins t).map obs :=
  htrace_obs R htrans f g agree cf obs hobs sched ins 0 s t h

/-- The byte-level `≈`: memories as address → byte, `loc` the localised addresses
    (`localized_comb_bytes`). -/
theorem swap_invisible_bytes {ι : Type} (loc : Nat → Bool)
    (f g : ι → (Nat → Nat) → (Nat → Nat))
    (agree : ∀ i s, Eqv loc (g i s) (f i s))
    (cf : ∀ i s t, Eqv loc s t → Eqv loc (f i s) (f i t))
    (sched : Nat → Bool) (ins : List ι) (s : Nat → Nat) :
    ∀ a, loc a = false → hrun f g sched 0 ins s a = run f ins s a :=
  swap_invisible (Eqv loc) (fun _ _ _ h1 h2 => Eqv.trans h1 h2) f g agree cf sched ins s s
    (Eqv.refl loc s)

/-- Non-trivial instance: a two-byte memory; byte 1 is a localised intermediate that the C engine
    leaves stale, byte 0 accumulates the inputs.  Alternating engines. -/
example :
    let f : Nat → (Nat → Nat) → (Nat → Nat) := fun i s a => if a = 0 then s 0 + i else if a = 1 then i else s a
    let g : Nat → (Nat → Nat) → (Nat → Nat) := fun i s a => if a = 0 then s 0 + i else s a
    hrun f g (fun n => n % 2 == 0) 0 [3, 4, 5] (fun _ => 0) 0 = run f [3, 4, 5] (fun _ => 0) 0 ∧
    hrun f g (fun n => n % 2 == 0) 0 [3, 4, 5] (fun _ => 0) 1 ≠ run f [3, 4, 5] (fun _ => 0) 1 := by
  decide

/-! ## At dispatch granularity -/

/-- For every gate (any swap schedule at the granularity of single dispatch attempts, including
    never and back and forth) and every API-call sequence, the hybrid machine's state is `R` to
    the JIT-only machine's — provided the first settle does not fall into the gap. -/
theorem swap_invisible_dispatch {σ : Type} (R : σ → σ → Prop) (E : Eng σ) (c : Cfg)
    (H : Hyp R E (max c.passes 1)) (g : Nat → Bool) (hno : ¬ FirstSettleGap c g)
    (ops : List Op) (s t : σ) (h : R s t) :
    R (machRun g c E ops (({} : DSt), s)).2 (machRun never c E ops (({} : DSt), t)).2 :=
  (machRun_inv H g hno ops _ _ (inv_init h)).2.1

/-- With the hook, the excluded case is exactly `set_ready_at(1)` on a design with a whole-comb
    handle. -/
theorem first_settle_gap_hook (c : Cfg) (k : Option Nat) :
    FirstSettleGap c (hookGate k) ↔ c.comb = true ∧ k = some 1 := by
  unfold FirstSettleGap hookGate
  cases k with
  | none => simp
  | some k =>
    simp only [Option.some.injEq, decide_eq_false_iff_not, decide_eq_true_eq, Nat.le_zero_eq]
    constructor
    · intro ⟨hc, h0, h1⟩; exact ⟨hc, by omega⟩
    · intro ⟨hc, hk⟩; exact ⟨hc, by omega, by omega⟩

/-- Hence every hook setting except 1 (0 = C from the start, any later attempt, never). -/
theorem swap_invisible_hook {σ : Type} (R : σ → σ → Prop) (E : Eng σ) (c : Cfg)
    (H : Hyp R E (max c.passes 1)) (k : Option Nat) (hk : k ≠ some 1)
    (ops : List Op) (s : σ) :
    R (machRun (hookGate k) c E ops (({} : DSt), s)).2 (machRun never c E ops (({} : DSt), s)).2 :=
  swap_invisible_dispatch R E c H (hookGate k)
    (fun h => hk ((first_settle_gap_hook c k).1 h).2) ops s s (H.refl s)

/-- The hypotheses are satisfiable by a machine in which the C engine really differs from the JIT
    (a stale localised field, a run-once constant cone). -/
example : Hyp ToyR toyEng (max toyCfg.passes 1) := toyHyp

example : ToyR
    (machRun (hookGate (some 4)) toyCfg toyEng [.new, .stepReset, .set 5, .step, .get, .set 2, .step, .get] (({} : DSt), {})).2
    (machRun never toyCfg toyEng [.new, .stepReset, .set 5, .step, .get, .set 2, .step, .get] (({} : DSt), {})).2 :=
  swap_invisible_hook ToyR toyEng toyCfg toyHyp (some 4) (by decide) _ _

/-- …and in that run the localised field is in fact different (so `R` is not equality). -/
example :
    (machRun (hookGate (some 0)) toyCfg toyEng [.new, .set 5, .get] (({} : DSt), {})).2.t ≠
    (machRun never toyCfg toyEng [.new, .set 5, .get] (({} : DSt), {})).2.t := by decide

/-- The full-strength statement (no side condition on the gate) is FALSE: refuse attempt 0 (the
    constant cone), serve attempt 1 (the main function) in the first settle. -/
theorem first_settle_gap_false :
    ¬ (∀ (g : Nat → Bool) (ops : List Op),
        ToyR (machRun g toyCfg toyEng ops (({} : DSt), {})).2
             (machRun never toyCfg toyEng ops (({} : DSt), {})).2) := by
  intro h
  have := h (hookGate (some 1)) [.new, .set 5, .get]
  revert this
  decide

/-- The gap heals at the next settle (the constant cone is attempted again, `const_cone_done` was
    left unset), and it needs the gap to be the FIRST settle: after any JIT settle the constant
    outputs are in place (`swap_invisible_dispatch` covers every later occurrence). -/
example :
    ToyR (machRun (hookGate (some 1)) toyCfg toyEng [.new, .set 5, .get, .set 6, .get] (({} : DSt), {})).2
         (machRun never toyCfg toyEng [.new, .set 5, .get, .set 6, .get] (({} : DSt), {})).2 := by decide

/-! ## The constant cone -/

/-- Running the constant cone once, at the first C settle (`const_cone_done`), is `R` to evaluating
    the constant statements in every settle from cycle 0 — for every interleaving of settles with
    other transitions, given that the cone is idempotent and nobody else writes its outputs. -/
theorem const_cone_once {σ ι : Type} (R : σ → σ → Prop)
    (hsymm : ∀ s t, R s t → R t s) (htrans : ∀ a b c, R a b → R b c → R a c)
    (cC cM : σ → σ) (p : Nat) (x : ι → σ → σ)
    (cg_cC : ∀ s t, R s t → R (cC s) (cC t))
    (cg_cM : ∀ s t, R s t → R (cM s) (cM t))
    (cg_x : ∀ i s t, R s t → R (x i s) (x i t))
    (idem : ∀ s, R (cC (cC s)) (cC s))
    (keep_cM : ∀ s, R (cC s) s → R (cC (cM s)) (cM s))
    (keep_x : ∀ i s, R (cC s) s → R (cC (x i s)) (x i s))
    (ts : List (Tr ι)) (s t : σ) (h : R s t) :
    R (runOnce cC cM p x ts (s, false)).1 (runEvery cC cM p x ts t) :=
  runOnce_rel hsymm htrans cC cM p x cg_cC cg_cM cg_x idem keep_cM keep_x ts s t false h
    (fun hd => by cases hd)

example :
    (runOnce toyEng.cC toyEng.cM 1 toyEng.setIn [.settle, .other 3, .settle, .other 9, .settle] (({} : Toy), false)).1 =
    runEvery toyEng.cC toyEng.cM 1 toyEng.setIn [.settle, .other 3, .settle, .other 9, .settle] ({} : Toy) := by
  decide

/-! ## The dispatcher -/

/-- Once the hook serves an attempt it serves every later one: the schedule is J…J C…C. -/
theorem dispatch_gate_monotone (k : Option Nat) (n m : Nat) (h : hookGate k n = true) (hnm : n ≤ m) :
    hookGate k m = true := by
  unfold hookGate at *
  cases k with
  | none => simp at h
  | some k => simp only [decide_eq_true_eq] at *; omega

/-- A run that is never ready executes no C code: every settle is exactly one JIT settle. -/
theorem dispatch_never_settle {σ : Type} (E : Eng σ) (c : Cfg) (d : DSt) (t : σ) :
    E.runMicro (settle never c d).2 t = E.jS t :=
  (settle_never c d t).1

/-- Ready from the start, one pass: a settle is the constant cone (first time only) followed by
    the main function, two resp. one dispatch attempts, no fall-back. -/
theorem dispatch_ready_settle (c : Cfg) (d : DSt) (hc : c.comb = true) (hp : c.passes ≤ 1) :
    settle (hookGate (some 0)) c d =
      ({ d with att := d.att + (if d.constDone then 1 else 2), constDone := true,
                settles := d.settles + 1 },
       (if d.constDone then [] else [Micro.cConst]) ++ [Micro.cMain]) := by
  have hm : max c.passes 1 = 1 := by omega
  unfold settle
  cases hcd : d.constDone <;> simp [hc, hm, hookGate, mainLoop]

end VerylModel.Props.C33
