import VerylModel.Lemmas.LL
import VerylModel.Gen.Grammar
/-!
C10 — the parser terminates without crashing on every input (model part).

* `cert_ok`            (T1)  the generated table of /repo's parser carries a valid certificate
                             (nullable set closed, rank decreasing along nullable prefixes ⇒ no left
                             recursion); `decide +kernel` on the regenerated table.
* `ll_terminates`      (T2)  FULL strength: for every machine whose table has such a certificate, every
                             run (any production choices, any recovery edits, any input) is finite.
* `veryl_terminates`         T2 instantiated with the generated table.
* `det_halts`                the deterministic, lookahead-driven loop halts (it refines the relation).
* `depth_cap`          (T3)  the depth counter equals the number of open non-push productions and never
                             exceeds the cap in a configuration the loop continues from.
* `det_safe`                 the deterministic loop never reaches one of the modelled Rust panics
                             (index out of bounds, `usize` underflow of the depth counter) and reports
                             `MaxParsingDepthExceeded` with depth exactly `cap + 1`.
-/
namespace VerylModel.Props.C10
open VerylModel.LL VerylModel.Gen.Grammar

/-- The certificate computed by tools/gen_grammar.py. -/
def cert : Cert := ⟨nullable, rank⟩

/-- The machine over /repo's generated production table (`Gen.Grammar.machine`). -/
abbrev veryl (cap : Option Nat) (maxErrs : Nat) : Machine := machine cap maxErrs

/-- As configured by the generated `parse_into` (`set_max_parsing_depth`) and parol (`> 100`). -/
abbrev verylMachine : Machine := configured

/-- T1. -/
theorem cert_ok :
    certOk cert maxRhsLen prods = true ∧ prods.length = numProductions ∧
      maxParsingDepthBuildRs = maxParsingDepth := by
  decide +kernel

theorem veryl_certified (cap : Option Nat) (maxErrs : Nat) :
    Certified (veryl cap maxErrs) cert maxRhsLen := by
  intro p P hp
  have hall := cert_ok.1
  simp only [certOk, List.all_eq_true] at hall
  apply hall
  simp only [veryl, machine, prodsArr, List.getElem?_toArray] at hp
  exact List.mem_of_getElem? hp

/-- T2 (full strength): with a certificate, the converse of `Step` is well-founded below every
configuration — there is no infinite run, whatever the input, the production choices and the
recovery edits. -/
theorem ll_terminates (m : Machine) (c : Cert) (M : Nat) (hc : Certified m c M) (cfg : Config) :
    Acc (fun y x => Step m x y) cfg := by
  have wf := (Prod.lex Nat.lt_wfRel (Prod.lex Nat.lt_wfRel Nat.lt_wfRel)).wf
  have wf' := InvImage.wf (measureOf m c M) wf
  refine (Subrelation.wf ?_ wf').apply cfg
  intro y x h
  exact step_decreases m c M hc h

theorem veryl_terminates (cap : Option Nat) (maxErrs : Nat) (cfg : Config) :
    Acc (fun y x => Step (veryl cap maxErrs) x y) cfg :=
  ll_terminates _ cert maxRhsLen (veryl_certified cap maxErrs) cfg

/-- The hypothesis of T2 is not vacuous, and it is violated by a left-recursive table. -/
example : Certified verylMachine cert maxRhsLen := veryl_certified _ _
example (c : Cert) (M : Nat) : certOk c M [⟨0, [.n 0, .t 1], false⟩, ⟨0, [], false⟩] = false := by
  simp [certOk, prodOk, prefixOk]

/-- What the lookahead automata must guarantee: a predicted production belongs to the
non-terminal it was predicted for (checked on the real tables by `vmodel ll`, request `dfa`). -/
def PredictOk (m : Machine) (predict : Nat → List Nat → Option Nat) : Prop :=
  ∀ A inp p P, predict A inp = some p → m.prod? p = some P → P.lhs = A

/-- The deterministic loop is a refinement of the nondeterministic relation. -/
theorem stepDet_refines (m : Machine) (predict : Nat → List Nat → Option Nat)
    (hp : PredictOk m predict) {x y : Config} (h : stepDet m predict x = .next y) : Step m x y := by
  obtain ⟨stack, inp, d, e⟩ := x
  rcases stack with _ | ⟨top, s⟩
  · simp [stepDet] at h
  cases top with
  | t a =>
    simp only [stepDet] at h
    split at h
    · cases h
    · split at h
      · rename_i hla
        cases h
        exact Step.consume hla
      · cases h
  | n A =>
    simp only [stepDet] at h
    split at h
    · cases h
    · rename_i p hpr
      split at h
      · cases h
      · rename_i P hP
        split at h
        · rename_i hcap
          cases h
          exact Step.expand hP (hp A inp p P hpr hP) hcap
        · cases h
  | e p =>
    simp only [stepDet] at h
    split at h
    · cases h
    · rename_i P hP
      split at h
      · cases h
      · rename_i hnot
        cases h
        refine Step.endProd hP ?_
        intro hpush
        simp only [hpush, true_and] at hnot
        omega

/-- The deterministic loop halts: some amount of fuel suffices (for any lookahead function). -/
theorem det_halts (m : Machine) (c : Cert) (M : Nat) (hc : Certified m c M)
    (predict : Nat → List Nat → Option Nat) (hp : PredictOk m predict) (cfg : Config) :
    ∀ st, ∃ fuel r, runDet m predict fuel cfg st = some r := by
  induction ll_terminates m c M hc cfg with
  | intro x _ ih =>
    intro st
    cases hs : stepDet m predict x with
    | halt h => exact ⟨1, (h, x, st), by simp [runDet, hs]⟩
    | next y =>
      obtain ⟨fuel, r, hr⟩ := ih y (stepDet_refines m predict hp hs) (st.update x y)
      exact ⟨fuel + 1, r, by simp [runDet, hs, hr]⟩

/-- T3: in every configuration reachable from the initial one (under any choices / recovery), the
depth counter is the number of open non-push productions and passes the cap check. -/
theorem depth_cap (m : Machine) (start : Nat) (inp : List Nat) (cfg : Config)
    (h : Reach m (init start inp) cfg) :
    cfg.depth = openCount m cfg.stack ∧ withinCap m.cap cfg.depth = true :=
  let i := inv_reach m (inv_init m start inp) h
  ⟨i.depth_eq, i.within⟩

/-- T3 for the configured machine: never more than `maxParsingDepth` (1152) open productions. -/
theorem veryl_depth_cap (inp : List Nat) (cfg : Config)
    (h : Reach verylMachine (init startSymbol inp) cfg) : cfg.depth ≤ maxParsingDepth := by
  have := (depth_cap verylMachine startSymbol inp cfg h).2
  simpa [verylMachine, configured, machine, withinCap] using this

theorem runDet_reach (m : Machine) (predict : Nat → List Nat → Option Nat) (hp : PredictOk m predict) :
    ∀ fuel x st h y st', runDet m predict fuel x st = some (h, y, st') →
      Reach m x y ∧ stepDet m predict y = .halt h := by
  intro fuel
  induction fuel with
  | zero => intro x st h y st' hr; simp [runDet] at hr
  | succ n ih =>
    intro x st h y st' hr
    simp only [runDet] at hr
    cases hs : stepDet m predict x with
    | halt h' =>
      simp only [hs, Option.some.injEq, Prod.mk.injEq] at hr
      obtain ⟨rfl, rfl, _⟩ := hr
      exact ⟨Reach.refl, hs⟩
    | next z =>
      simp only [hs] at hr
      obtain ⟨hreach, hhalt⟩ := ih z _ h y st' hr
      refine ⟨?_, hhalt⟩
      have hstep := stepDet_refines m predict hp hs
      clear hr hhalt
      induction hreach with
      | refl => exact Reach.tail Reach.refl hstep
      | tail _ hs' ih' => exact Reach.tail ih' hs'

/-- Under the invariant, one iteration of the deterministic loop cannot hit a modelled panic, and a
depth error reports exactly `cap + 1`. -/
theorem stepDet_safe (m : Machine) (predict : Nat → List Nat → Option Nat)
    (hidx : ∀ A inp p, predict A inp = some p → (m.prod? p).isSome)
    (x : Config) (hx : Inv m x) :
    stepDet m predict x ≠ .halt .underflowPanic ∧ stepDet m predict x ≠ .halt .indexPanic ∧
      ∀ d cap, m.cap = some cap → stepDet m predict x = .halt (.depthExceeded d) → d = cap + 1 := by
  obtain ⟨stack, inp, dp, e⟩ := x
  obtain ⟨hd, hw, hm⟩ := hx
  simp only at hd hw hm
  rcases stack with _ | ⟨top, s⟩
  · simp [stepDet]
  cases top with
  | t a =>
    simp only [stepDet]
    split
    · simp
    · split <;> simp
  | n A =>
    simp only [stepDet]
    split
    · simp
    · rename_i p hpr
      have := hidx A inp p hpr
      split
      · rename_i hnone; simp [hnone] at this
      · rename_i P hP
        split
        · simp
        · rename_i hcap
          refine ⟨by simp, by simp, ?_⟩
          intro d cap hc hEq
          simp only [Outcome.halt.injEq, Halt.depthExceeded.injEq] at hEq
          subst hEq
          simp only [hc, withinCap, decide_eq_true_eq] at hcap hw
          simp only [pushDepth] at hcap ⊢
          split at hcap <;> simp_all <;> omega
  | e p =>
    simp only [markersOk] at hm
    simp only [stepDet]
    split
    · rename_i hnone; simp [hnone] at hm
    · rename_i P hP
      simp only [openCount, hP] at hd
      split
      · rename_i hbad
        obtain ⟨hpush, hz⟩ := hbad
        simp [hpush] at hd
        omega
      · simp

/-- A complete deterministic run from the initial configuration ends in a halt that is not a
modelled panic; the final depth passes the cap; a depth error carries `cap + 1`. -/
theorem det_safe (m : Machine) (predict : Nat → List Nat → Option Nat) (hp : PredictOk m predict)
    (hidx : ∀ A inp p, predict A inp = some p → (m.prod? p).isSome)
    (start : Nat) (inp : List Nat) (fuel : Nat) (h : Halt) (y : Config) (st st' : Stats)
    (hr : runDet m predict fuel (init start inp) st = some (h, y, st')) :
    h ≠ .underflowPanic ∧ h ≠ .indexPanic ∧ withinCap m.cap y.depth = true ∧
      ∀ d cap, m.cap = some cap → h = .depthExceeded d → d = cap + 1 := by
  obtain ⟨hreach, hhalt⟩ := runDet_reach m predict hp fuel _ st h y st' hr
  have hinv := inv_reach m (inv_init m start inp) hreach
  obtain ⟨h1, h2, h3⟩ := stepDet_safe m predict hidx y hinv
  rw [hhalt] at h1 h2 h3
  refine ⟨fun hh => h1 (by rw [hh]), fun hh => h2 (by rw [hh]), hinv.within, ?_⟩
  intro d cap hc hh
  exact h3 d cap hc (by rw [hh])

end VerylModel.Props.C10
