import VerylModel.Core.Register
import VerylModel.Lemmas.Register
import VerylModel.Lemmas.RegisterExact
import VerylModel.Props.C06
/-!
C24 — build results do not depend on file order.

T1 `register_perm`: for an error-free project (no two symbols conflict) the registered symbol
set — and, for key-disjoint files, the `(namespace, name) ↦ symbol` map — is invariant under every
permutation of the file list.  `register_perm_needs_disjoint` shows the hypothesis is necessary.
T2 `canon_order_independent`: the ids a processing order induces are an injective placement of
per-file windows, so (C06-T5) everything that is a function of `canon` is order independent.
-/
namespace VerylModel.Props.C24
open VerylModel.Register VerylModel.IdCodec VerylModel.Lemmas.Register

/-- In an error-free project nothing is refused: the table is the concatenation of the files. -/
theorem register_all_inserted (excl : Nat → Nat → Bool) (files : List (List Sym))
    (h : NoConflict excl files.flatten) : registerAll excl files = files.flatten := by
  have := registerAll_aux excl files [] (by simpa using h)
  simpa [registerAll] using this

/-- T1. Error-free project: the registered symbols are the same (as a multiset) for every order of
    the files; with distinct `(namespace, name)` keys the final map is the same function. -/
theorem register_perm (excl : Nat → Nat → Bool) (files files' : List (List Sym))
    (p : files'.Perm files) :
    (NoConflict excl files.flatten → (registerAll excl files').Perm (registerAll excl files)) ∧
    (KeyDisjoint files.flatten → ∀ ns name,
      find (registerAll excl files') ns name = find (registerAll excl files) ns name) := by
  have pf : files'.flatten.Perm files.flatten := p.flatten
  have key : NoConflict excl files.flatten → (registerAll excl files').Perm (registerAll excl files) := by
    intro h
    rw [register_all_inserted excl files h,
      register_all_inserted excl files' (noConflict_perm excl pf h)]
    exact pf
  refine ⟨key, ?_⟩
  intro h ns name
  have hn := keyDisjoint_noConflict excl h
  have hp := key hn
  rw [register_all_inserted excl files hn] at hp ⊢
  exact find_perm hp h ns name

/-- T1b. Whether a project is error-free does not depend on the file order either (so T1's hypothesis
    may be checked on any order), and in an error-free project no order refuses a symbol: every
    order registers exactly as many symbols as the files contain. -/
theorem error_free_perm (excl : Nat → Nat → Bool) (files files' : List (List Sym))
    (p : files'.Perm files) :
    (NoConflict excl files'.flatten ↔ NoConflict excl files.flatten) ∧
    (NoConflict excl files.flatten → (registerAll excl files').length = files.flatten.length) := by
  have pf : files'.flatten.Perm files.flatten := p.flatten
  refine ⟨⟨noConflict_perm excl pf.symm, noConflict_perm excl pf⟩, ?_⟩
  intro h
  rw [register_all_inserted excl files' (noConflict_perm excl pf h)]
  exact pf.length_eq

/-- T1c `register_exact`: an order registers every symbol (no duplicated identifier is reported) iff no
    symbol conflicts with one that precedes it in that order — exactly the test `SymbolTable::insert`
    makes; nothing is assumed about `excl`. -/
theorem register_exact (excl : Nat → Nat → Bool) (files : List (List Sym)) :
    registerAll excl files = files.flatten ↔ FwdOK excl files.flatten := by
  rw [registerAll_eq_file]
  have := registerFile_exact excl files.flatten []
  simpa using this

/-- `DefineContext::exclusive` (M-Register `exclusiveSets`, compared with the real method on generated
    pos/neg sets by the `excl` lines of `hx order`) is symmetric: the hypothesis `hsym` of T1d holds for
    the code's relation. -/
theorem exclusiveSets_symm (pos neg pos' neg' : List Nat) :
    exclusiveSets pos neg pos' neg' = exclusiveSets pos' neg' pos neg := by
  unfold exclusiveSets
  have sw : ∀ (a b : List Nat), a.any (fun x => b.contains x) = b.any (fun x => a.contains x) := by
    intro a b
    rw [Bool.eq_iff_iff]
    simp only [List.any_eq_true, List.contains_iff_mem]
    constructor <;> rintro ⟨x, h1, h2⟩ <;> exact ⟨x, h2, h1⟩
  rw [sw pos neg', sw neg pos', Bool.or_comm]

/-- T1d `duplicate_verdict_perm`: with a symmetric `exclusive`, WHETHER a duplicated identifier is
    reported does not depend on the file order — for every project, error-free or not (T1/T1b cover the
    error-free ones; which of two conflicting symbols wins does depend on the order,
    `register_perm_needs_disjoint`). -/
theorem duplicate_verdict_perm (excl : Nat → Nat → Bool) (hsym : ∀ a b, excl a b = excl b a)
    (files files' : List (List Sym)) (p : files'.Perm files) :
    registerAll excl files' = files'.flatten ↔ registerAll excl files = files.flatten := by
  rw [register_exact, register_exact, fwdOK_iff_noConflict excl hsym, fwdOK_iff_noConflict excl hsym]
  exact (error_free_perm excl files files' p).1

/-- Symmetry is necessary: with a one-sided `exclusive` (say only `self.pos ∩ value.neg` were tested) one
    order reports a duplicate and the other does not. -/
theorem duplicate_verdict_needs_symm :
    ∃ (excl : Nat → Nat → Bool) (files files' : List (List Sym)), files'.Perm files ∧
      registerAll excl files = files.flatten ∧ registerAll excl files' ≠ files'.flatten :=
  ⟨fun a b => a == 1 && b == 2, [[⟨[1], 7, 2, 100⟩], [⟨[1], 7, 1, 200⟩]], [[⟨[1], 7, 1, 200⟩], [⟨[1], 7, 2, 100⟩]],
    List.Perm.swap _ _ _, by decide, by decide⟩

/-- The hypothesis is necessary: with a duplicated key the winner depends on the order
    (that project is not error-free: the loser is reported as a duplicated identifier). -/
theorem register_perm_needs_disjoint :
    ∃ files files' : List (List Sym), files'.Perm files ∧
      find (registerAll (fun _ _ => false) files') [1] 7 ≠ find (registerAll (fun _ _ => false) files) [1] 7 :=
  ⟨[[⟨[1], 7, 0, 100⟩], [⟨[1], 7, 0, 200⟩]], [[⟨[1], 7, 0, 200⟩], [⟨[1], 7, 0, 100⟩]],
    List.Perm.swap _ _ _, by decide⟩

/-- T2 (link to C06-T5). The ids induced by a processing order place each file's local ids in a
    window starting at that file's offset; two orders give two such placements; both are injective
    on the ids that occur, hence the two dumps have the same `canon`. -/
theorem canon_order_independent {α : Type} (fileOf localOf : Nat → Nat) (off off' size : Nat → Nat)
    (t : List (Tok α))
    (hval : ∀ k v, (k, v) ∈ idsOf t → localOf v < size (fileOf v))
    (habs : ∀ k v v', (k, v) ∈ idsOf t → (k, v') ∈ idsOf t → fileOf v = fileOf v' →
      localOf v = localOf v' → v = v')
    (hd : ∀ f g, f ≠ g → off f + size f ≤ off g ∨ off g + size g ≤ off f)
    (hd' : ∀ f g, f ≠ g → off' f + size f ≤ off' g ∨ off' g + size g ≤ off' f) :
    canon (rename (fun _ v => off (fileOf v) + localOf v + 1) t) =
      canon (rename (fun _ v => off' (fileOf v) + localOf v + 1) t) := by
  have inj : ∀ (o : Nat → Nat), (∀ f g, f ≠ g → o f + size f ≤ o g ∨ o g + size g ≤ o f) →
      canon (rename (fun _ v => o (fileOf v) + localOf v + 1) t) = canon t := by
    intro o ho
    apply VerylModel.Props.C06.canon_invariant_on
    intro k v v' hv hv' h
    have b1 := hval k v hv
    have b2 := hval k v' hv'
    by_cases hf : fileOf v = fileOf v'
    · apply habs k v v' hv hv' hf
      rw [hf] at h
      omega
    · rcases ho _ _ hf with h' | h' <;> omega
  rw [inj off hd, inj off' hd']

/-- T2 (consequence): any output computed from the canonical dump is order independent. -/
theorem output_order_independent {α β : Type} (out : List (Tok α) → β) (g : List (Tok α) → β)
    (hout : ∀ t, out t = g (canon t)) (σ : Nat → Nat → Nat)
    (hinj : ∀ k v v', σ k v = σ k v' → v = v') (t : List (Tok α)) : out (rename σ t) = out t := by
  rw [hout, hout, VerylModel.Props.C06.canon_invariant σ hinj t]

/-! Non-vacuity. -/
example : KeyDisjoint ([[⟨[1], 7, 0, 100⟩, ⟨[1], 8, 0, 101⟩], [⟨[2], 7, 0, 200⟩]] : List (List Sym)).flatten := by
  decide
example : registerAll (fun _ _ => false) [[⟨[1], 7, 0, 100⟩, ⟨[1], 8, 0, 101⟩], [⟨[2], 7, 0, 200⟩]] =
    [⟨[1], 7, 0, 100⟩, ⟨[1], 8, 0, 101⟩, ⟨[2], 7, 0, 200⟩] := by decide
example : registerAll (fun _ _ => false) [[⟨[1], 7, 0, 100⟩], [⟨[1], 7, 0, 200⟩]] = [⟨[1], 7, 0, 100⟩] := by
  decide

end VerylModel.Props.C24
