import VerylModel.Lemmas.SimAcyclic
import VerylModel.Lemmas.SimNba
import VerylModel.Lemmas.SimRefineStmt
/-!
C02 — all simulator engines produce identical traces.

`Core/Sim.lean` is the single engine-independent reference (`Sim.run`), against which every
`Config::all()` engine is compared by `checks/c02.py`. The theorems below are the
engine-independent facts that justify the three degrees of freedom the engines use:

* T1 `settle_order_indep` — combinational statements may be evaluated in any order / any number
  of passes ≥ the number of units (sorted single pass vs. multi-pass settling);
* T2 `nba_commit`, `nba_simultaneous` — evaluating `always_ff` bodies on the pre-edge state and
  committing a write log afterwards is a simultaneous update, independent of the order of blocks
  with different targets (`disable_ff_opt` routes every target through the log);
* T3 `four_state_refines_two_state` — where no X/Z comes in and no operator manufactures X, the
  4-state semantics is the embedding of the 2-state one, for every expression and every trace.
-/
namespace VerylModel.Props.C02
open VerylModel.Sim VerylModel.ExprRef

/-! ### T1 -/

/-- T1, abstract form: for units with frame/dependency footprints, a single driver per variable
and a rank function (reads only from strictly lower-ranked units), `N` passes in ANY two orders
(lists with the same members) give the same store. -/
theorem settle_order_indep_units {V : Type} {us l l' : List (CombUnit V)} {rk : CombUnit V → Nat} {N : Nat}
    (A : Acyclic us rk N) (hl : ∀ v, v ∈ l ↔ v ∈ us) (hl' : ∀ v, v ∈ l' ↔ v ∈ us) (σ : Nat → V) :
    iterU l N σ = iterU l' N σ :=
  VerylModel.Sim.settle_order_indep_units A hl hl' σ

/-- … that store is a fix-point of every unit … -/
theorem settle_fixpoint_units {V : Type} {us l : List (CombUnit V)} {rk : CombUnit V → Nat} {N : Nat}
    (A : Acyclic us rk N) (hl : ∀ v, v ∈ l ↔ v ∈ us) (σ : Nat → V) : ∀ u ∈ us, u.run (iterU l N σ) = iterU l N σ :=
  fun u hu => settled_run_eq (all_settled A hl σ u hu)

/-- … and it is the only fix-point that agrees with the initial store outside the write sets. -/
theorem settle_unique_units {V : Type} {us l : List (CombUnit V)} {rk : CombUnit V → Nat} {N : Nat}
    (A : Acyclic us rk N) (hl : ∀ v, v ∈ l ↔ v ∈ us) (σ τ : Nat → V) (hfix : ∀ u ∈ us, u.run τ = τ)
    (hoff : ∀ x, (∀ u ∈ us, x ∉ u.W) → τ x = σ x) : τ = iterU l N σ := by
  funext x
  apply settled_unique A (fun u hu y => by rw [hfix u hu]) (all_settled A hl σ)
  intro y hy
  rw [hoff y hy, iter_frame A (fun v hv => (hl v).mp hv) N σ y hy]

theorem mem_map_units (D : Dom) {bs bs' : List Stmts} (h : ∀ b, b ∈ bs' ↔ b ∈ bs) :
    ∀ v, v ∈ bs'.map (unitOf D) ↔ v ∈ bs.map (unitOf D) := by
  intro v
  simp only [List.mem_map]
  constructor
  · rintro ⟨b, hb, rfl⟩
    exact ⟨b, (h b).mp hb, rfl⟩
  · rintro ⟨b, hb, rfl⟩
    exact ⟨b, (h b).mpr hb, rfl⟩

/-- T1 for designs, in either value domain: if the executable check `checkDesign` accepts the
combinational declarations of `ds` (data-flow check per unit, one driver per variable, variable
ranking `vr`), then settling any reordering `ds'` of the declarations for at least as many passes
as there are units gives the store that `ds` itself settles to. -/
theorem settle_order_indep (D : Dom) (L : DomLocal D) (ds ds' : List Decl) (vr : List Nat)
    (hchk : checkDesign (bodiesOf ds) vr = true) (hsame : ∀ b, b ∈ bodiesOf ds' ↔ b ∈ bodiesOf ds)
    (σ : Store D) (k : Nat) :
    settle D ds' ((bodiesOf ds).length + k) σ = settle D ds (bodiesOf ds).length σ := by
  have A := acyclic_of_check D L (bodiesOf ds) vr hchk
  have hl : ∀ v, v ∈ (bodiesOf ds).map (unitOf D) ↔ v ∈ (bodiesOf ds).map (unitOf D) := fun _ => Iff.rfl
  have hl' := mem_map_units D hsame
  apply Store.ext'
  intro x
  rw [settle_eq_iterU, settle_eq_iterU, iterU_more A hl' σ.get k]
  exact congrFun (VerylModel.Sim.settle_order_indep_units A hl' hl σ.get) x

/-- the settled store is a fix-point of a further pass (`required passes` are enough) -/
theorem settle_fixpoint (D : Dom) (L : DomLocal D) (ds : List Decl) (vr : List Nat)
    (hchk : checkDesign (bodiesOf ds) vr = true) (σ : Store D) :
    pass D ds (settle D ds (bodiesOf ds).length σ) = settle D ds (bodiesOf ds).length σ := by
  have A := acyclic_of_check D L (bodiesOf ds) vr hchk
  apply Store.ext'
  intro x
  rw [pass_eq_passU, settle_eq_iterU]
  exact congrFun (settle_stable A (fun _ => Iff.rfl) σ.get) x

theorem bodiesOf_length_le : ∀ (ds : List Decl), (bodiesOf ds).length ≤ ds.length
  | [] => Nat.le_refl _
  | .comb _ :: ds => by simpa [bodiesOf] using bodiesOf_length_le ds
  | .ff _ _ _ :: ds => by
    have := bodiesOf_length_le ds
    simp only [bodiesOf, List.length_cons]
    omega

/-- `Sim.step` settles for `decls.length` passes: that is enough -/
theorem step_passes_enough (D : Dom) (L : DomLocal D) (ds : List Decl) (vr : List Nat)
    (hchk : checkDesign (bodiesOf ds) vr = true) (σ : Store D) :
    settle D ds ds.length σ = settle D ds (bodiesOf ds).length σ := by
  have h := bodiesOf_length_le ds
  have : ds.length = (bodiesOf ds).length + (ds.length - (bodiesOf ds).length) := by omega
  rw [this]
  exact settle_order_indep D L ds ds vr hchk (fun _ => Iff.rfl) σ _

/-- both reference domains satisfy the locality hypothesis -/
theorem domains_local : DomLocal D2 ∧ DomLocal D4 := ⟨D2_local, D4_local⟩

/-! ### T2 -/

/-- T2 (two blocks): the write logs of two `always_ff` bodies with disjoint targets, both evaluated
on the pre-edge state `σ`, can be committed in either order. -/
theorem nba_commit (D : Dom) (b1 b2 : Stmts) (σ τ : Store D) (hd : ∀ x, x ∈ targetsSs b1 → x ∉ targetsSs b2) :
    commit D (nbSs D b1 σ ++ nbSs D b2 σ) τ = commit D (nbSs D b2 σ ++ nbSs D b1 σ) τ := by
  apply commit_comm
  intro x h1 h2
  exact hd x (nbSs_targets D x b1 σ h1) (nbSs_targets D x b2 σ h2)

/-- T2 (locality): the value a register receives at the edge depends only on its own old value and
on the log entries that target it — not on how the entries of other registers are interleaved. -/
theorem nba_commit_local (D : Dom) (evs : List (Ev D.Val)) (τ : Store D) (x : Nat) :
    commit D evs τ x = commit D (evs.filter (hits x)) τ x :=
  commit_local evs τ x

/-- a register that no log entry targets keeps its value -/
theorem nba_commit_frame (D : Dom) (b : Stmts) (σ τ : Store D) (x : Nat) (hx : x ∉ targetsSs b) :
    commit D (nbSs D b σ) τ x = τ x :=
  commit_frame _ τ x (fun h => hx (nbSs_targets D x b σ h))

def setsOf : List (Lhs × Rhs) → Stmts
  | [] => .nil
  | (l, r) :: rest => .cons (.set l r) (setsOf rest)

theorem targets_setsOf : ∀ (ps : List (Lhs × Rhs)), targetsSs (setsOf ps) = ps.map (·.1.var)
  | [] => rfl
  | (l, r) :: rest => by simp [setsOf, targetsSs, targetsS, targets_setsOf rest]

/-- T2 (simultaneous update): a block of assignments to pairwise different registers gives every
register the value of its right-hand side in the PRE-EDGE state, whatever the order of the
assignments and whichever registers the right-hand sides read. -/
theorem nba_simultaneous (D : Dom) : ∀ (ps : List (Lhs × Rhs)) (σ : Store D), (ps.map (·.1.var)).Nodup →
    ∀ p ∈ ps, commit D (nbSs D (setsOf ps) σ) σ p.1.var = D.write (σ p.1.var) p.1 (D.rhs σ p.2 p.1.width)
  | [], _, _, p, hp => by cases hp
  | (l, r) :: rest, σ, hnd, p, hp => by
    simp only [List.map_cons, List.nodup_cons] at hnd
    rw [commit_local]
    simp only [setsOf, nbSs, nbS, List.singleton_append]
    cases List.mem_cons.mp hp with
    | inl e =>
      subst e
      have hnil : (nbSs D (setsOf rest) σ).filter (hits l.var) = [] := by
        apply filter_hits_nil
        intro h
        have := nbSs_targets D l.var (setsOf rest) σ h
        rw [targets_setsOf] at this
        exact hnd.1 this
      rw [List.filter_cons_of_pos (by simp [hits]), hnil]
      simp only [commit_cons, commit_nil, applyEv, upd_same]
    | inr m =>
      have hne : p.1.var ≠ l.var := by
        intro e
        apply hnd.1
        rw [← e]
        exact List.mem_map.mpr ⟨p, m, rfl⟩
      rw [List.filter_cons_of_neg (by simp [hits]; exact fun e => hne e.symm), ← commit_local]
      exact nba_simultaneous D rest σ hnd.2 p m

/-! ### T3 -/

/-- T3 (expressions): known operands, no zero divisor ⇒ `eval4 = lift ∘ eval2`. -/
theorem four_state_refines_two_state_expr (env : Env) (e : Expr) (w : Nat) (s : Bool) (v : Nat)
    (h : eval env e w s = some v) : eval4 (liftEnv env) e w s = lift v :=
  eval4_lift env e w s v h

/-- T3 (traces): start the 2-state and the 4-state reference in related states (every value the
2-state state knows is known and equal in the 4-state state — e.g. after a reset of all registers)
and feed them the same known inputs; then in every cycle every observed value that the 2-state
reference defines (no division by zero upstream) is the 4-state value, X-free. -/
theorem four_state_refines_two_state (dsg : Design) (stim : List (Bool × List Nat)) (t2 : List (Option Nat))
    (t4 : List V4) (h : RelT t2 t4) :
    RelTrace (run D2 dsg t2 (stim.map fun c => (c.1, c.2.map some))) (run D4 dsg t4 (stim.map fun c => (c.1, c.2.map lift))) :=
  rel_run dsg stim t2 t4 h

/-- a 4-state start state that is completely known and equal to the 2-state one is related -/
theorem relT_of_known (vs : List Nat) : RelT (vs.map some) (vs.map lift) := by
  intro x v hv
  simp only [lookup, List.getD_eq_getElem?_getD, List.getElem?_map] at hv ⊢
  cases h : vs[x]? with
  | none => simp [h] at hv
  | some y =>
    simp only [h, Option.map_some, Option.getD_some, Option.some.injEq] at hv ⊢
    subst hv
    rfl

/-! ### non-vacuity -/

section Examples

def leafV (i w : Nat) : Leaf := { var := i, lo := 0, width := w, signed := false }
def rhsV (i w : Nat) : Rhs := { leaves := [leafV i w], body := .port 0 }
def lhsV (i w : Nat) : Lhs := { var := i, lo := 0, width := w, full := true }

/-- `w2 = x0 + 1; y3 = w2 & x1` written in the "wrong" order: `y3` first -/
def exDecls : List Decl :=
  [ .comb (.cons (.set (lhsV 3 8) { leaves := [leafV 2 8, leafV 1 8], body := .bin .band (.port 0) (.port 1) }) .nil),
    .comb (.cons (.set (lhsV 2 8) { leaves := [leafV 0 8], body := .bin .add (.port 0) (.lit 8 false 1) }) .nil) ]

/-- the acyclicity check accepts it with ranks `w2 ↦ 0`, `y3 ↦ 1` -/
example : checkDesign (bodiesOf exDecls) [0, 0, 0, 1] = true := by decide

/-- … and two passes in the wrong order compute what one pass in the right order computes -/
example : ((settle D2 exDecls 2 ⟨fun _ => some 5⟩).get 3, (settle D2 exDecls.reverse 1 ⟨fun _ => some 5⟩).get 3) = (some 4, some 4) := by
  decide

/-- nonblocking swap: `r0 = r1; r1 = r0` exchanges the registers, the blocking reading does not -/
def swapPs : List (Lhs × Rhs) := [(lhsV 0 8, rhsV 1 8), (lhsV 1 8, rhsV 0 8)]

def st01 : Store D2 := ⟨fun i => if i = 0 then some 1 else some 2⟩

example : ((commit D2 (nbSs D2 (setsOf swapPs) st01) st01).get 0, (commit D2 (nbSs D2 (setsOf swapPs) st01) st01).get 1) = (some 2, some 1) := by
  decide

example : ((execSs D2 (setsOf swapPs) st01).get 0, (execSs D2 (setsOf swapPs) st01).get 1) = (some 2, some 2) := by decide

example : (swapPs.map (·.1.var)).Nodup := by decide

/-- T3's hypothesis is needed: a division by zero makes the 2-state reference undefined (`none`),
and the 4-state reference X -/
example : eval [{ width := 8, signed := false, value := 0 }] (.bin .div (.lit 8 false 6) (.port 0)) 8 false = none := by decide

example : eval4 (liftEnv [{ width := 8, signed := false, value := 0 }]) (.bin .div (.lit 8 false 6) (.port 0)) 8 false = (0, 255) := by
  decide

example : eval [{ width := 8, signed := false, value := 3 }] (.bin .div (.lit 8 false 6) (.port 0)) 8 false = some 2 := by decide

end Examples

end VerylModel.Props.C02
