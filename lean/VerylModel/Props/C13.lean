import VerylModel.Props.C28
import VerylModel.Lemmas.PrettyPos
import VerylModel.Core.SourceMap
/-!
C13 — source maps point at matching text on both sides.

`Emitter::emit` renders its `Doc` with `render_with_anchors` (M-Pretty, strip = false) and feeds every
anchor to `SourceMap::add` (M-SourceMap). The emitter's walker is not modelled: every `Doc` it builds is
exported, rendered by M-Pretty (text AND anchors compared with the real ones), tested for the decidable
side conditions below, and the decoded `.sv.map` is compared with the anchors (`checks/c13.py`).
-/
namespace VerylModel.Props.C13
open VerylModel.Pretty VerylModel.Props

/-- Decidable side condition, evaluated on every real emitter document: every `Anchored` text carries a
    source position with line ≥ 1 and column ≥ 1 (`push_token`: `has_loc`). -/
def SrcOK (d : Doc) : Prop := d.all srcOkNode = true

/-- T2 `anchors_sorted` (= C28): for ALL documents and options the anchors — hence the map entries —
    are recorded in non-decreasing (line, column) order of the output. -/
theorem anchors_sorted (o : Opts) (d : Doc) :
    (render o d).anchors.Pairwise (fun a b => posLe a.dstLine a.dstCol b.dstLine b.dstCol) :=
  C28.anchors_sorted o d

/-- T1 `anchor_true_partial`, instance for the emitter (which does not strip trailing whitespace):
    every anchor whose text is non-empty and does not end in a space states exactly the 1-based line and
    column (in chars) at which that text stands in the emitted SystemVerilog. (The full statement is
    false: C28 `anchor_true_false`, an EMPTY anchor text after padding that a `DedentHardline` truncates.) -/
theorem anchor_true_partial (o : Opts) (d : Doc) (hs : o.strip = false) (hn : NlOK o) (hd : C28.AnchorFriendly d) :
    ∀ a ∈ (render o d).anchors, solid a.text = true → C28.AnchorTrue (render o d).text a := by
  rw [C28.render_text_unstripped o d hs]
  exact (C28.anchor_true_partial o d hn hd).2.2

/-- … and if no `DedentHardline` can truncate, every anchor is true, blank ones included. -/
theorem anchor_true_no_truncation (o : Opts) (d : Doc) (hs : o.strip = false) (hn : NlOK o)
    (hd : C28.AnchorFriendly d) (ht : d.all (noTruncNode o) = true) :
    ∀ a ∈ (render o d).anchors, C28.AnchorTrue (render o d).text a := by
  rw [C28.render_text_unstripped o d hs]
  exact C28.anchor_true_no_truncation o d hn hd ht

/-- Every anchor of a `SrcOK` document is 1-based on both sides. -/
theorem anchors_one_based (o : Opts) (d : Doc) (hd : SrcOK d) :
    ∀ a ∈ (render o d).anchors, 1 ≤ a.dstLine ∧ 1 ≤ a.dstCol ∧ 1 ≤ a.srcLine ∧ 1 ≤ a.srcCol := by
  have hfs : FramesAll srcOkNode [initFrame d] := by
    intro f hf; simp only [List.mem_singleton] at hf; subst hf; exact hd
  have h := (renderFrames_l1 o [initFrame d] {} hfs init_good init_l1).2
  intro a ha
  exact h a (by simpa [render, renderState, St.anchors] using ha)

/-- T3 `add_shift`: `SourceMap::add` never underflows on an anchor of a `SrcOK` document, and the entry
    it stores is the anchor shifted from 1-based to 0-based on all four coordinates (adding 1 gives the
    anchor back). -/
theorem add_shift (o : Opts) (d : Doc) (hd : SrcOK d) :
    ∀ a ∈ (render o d).anchors, ∃ e, SourceMap.add a.dstLine a.dstCol a.srcLine a.srcCol = some e
      ∧ e.dstLine + 1 = a.dstLine ∧ e.dstCol + 1 = a.dstCol ∧ e.srcLine + 1 = a.srcLine ∧ e.srcCol + 1 = a.srcCol := by
  intro a ha
  obtain ⟨h1, h2, h3, h4⟩ := anchors_one_based o d hd a ha
  refine ⟨⟨a.dstLine - 1, a.dstCol - 1, a.srcLine - 1, a.srcCol - 1⟩, ?_, by simp; omega, by simp; omega,
    by simp; omega, by simp; omega⟩
  unfold SourceMap.add
  rw [if_neg (by omega)]

/-- T3b `entries_complete`: no anchor of a `SrcOK` document is lost on the way into the map — the entry
    list has one entry per anchor, in the same order. -/
theorem entries_complete (o : Opts) (d : Doc) (hd : SrcOK d) :
    ((render o d).anchors.filterMap (fun a => SourceMap.add a.dstLine a.dstCol a.srcLine a.srcCol)).length
      = (render o d).anchors.length := by
  have h := add_shift o d hd
  generalize (render o d).anchors = l at h
  induction l with
  | nil => rfl
  | cons a l ih =>
    obtain ⟨e, he, _⟩ := h a (List.mem_cons_self)
    rw [List.filterMap_cons, he]
    simp only [List.length_cons]
    rw [ih (fun b hb => h b (List.mem_cons_of_mem a hb))]

/-- T3c `add_injective`: the shift never collapses two positions — anchors that are stored as the same
    entry agree on all four coordinates (wherever `add` does not underflow). -/
theorem add_injective (a b c d' a' b' c' d'' : Nat) (e : SourceMap.Entry)
    (h : SourceMap.add a b c d' = some e) (h' : SourceMap.add a' b' c' d'' = some e) :
    a = a' ∧ b = b' ∧ c = c' ∧ d' = d'' := by
  unfold SourceMap.add at h h'
  split at h
  · cases h
  · split at h'
    · cases h'
    · cases h; simp only [Option.some.injEq, SourceMap.Entry.mk.injEq] at h'; omega

/-- Without the side condition the shift underflows (a panic in the dev profile, a wrapped 2^32-1 in
    release): an `Anchored` node with source column 0. -/
theorem add_shift_needs_side_condition :
    ∃ a ∈ (render C28.witnessOpts (.anchored ['x'] 1 0)).anchors,
      SourceMap.add a.dstLine a.dstCol a.srcLine a.srcCol = none := by
  refine ⟨⟨1, 1, 1, 0, ['x']⟩, ?_, by decide⟩
  simp [render, renderState, C28.witnessOpts, initFrame, renderFrames_cons, renderFrames_nil, stepFrame,
    emitAnchored, flushPendingWith, writeText, countNl, St.anchors]

/-- The shift keeps the order of `anchors_sorted`: the map entries are ordered by output position. -/
theorem entries_sorted (o : Opts) (d : Doc) (hd : SrcOK d) :
    (render o d).anchors.Pairwise
      (fun a b => posLe (a.dstLine - 1) (a.dstCol - 1) (b.dstLine - 1) (b.dstCol - 1)) := by
  have h1 := anchors_one_based o d hd
  have hs := C28.anchors_sorted o d
  refine List.Pairwise.imp_of_mem ?_ hs
  intro a b ha hb h
  have := h1 a ha
  have := h1 b hb
  unfold posLe at *
  omega

example : SrcOK (.concat [.anchored ['m'] 1 1, .pad 2, .comments [⟨['/', '/'], 0, true, 0, 0⟩], .anchored [';'] 2 5]) := by
  unfold SrcOK; decide

end VerylModel.Props.C13
