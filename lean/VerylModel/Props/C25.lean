import VerylModel.Lemmas.Paths
/-!
C25 — "The generated filelist lists every emitted file exactly once. Every file comes after the
files defining the packages, interfaces and modules it references, whenever those references are
acyclic. No two source files are ever assigned the same output or source-map path."

Statements about M-Paths (`Core/Paths.lean`). Three parts of the full-strength text are FALSE of
the code as modelled and are kept as proved negations next to the `_partial` theorems:
`bundle_collision` / `multi_source_collision` (DESIGN §5 #5), `complete_false` (#6) and
`filelist_order_false` (a file with two components, found while modelling `sort_filelist`).
-/
namespace VerylModel.Props.C25
open VerylModel.Paths VerylModel.Graph

variable {α : Type}

/-! ### path assignment -/

/-- T1: with one source directory and a `source` or `directory` target, `dst` and `map` are
    injective in the relative path of the source file (for every `sourcemap_target`). -/
theorem directory_injective (tgt : α) (t : Target α) (m : MapTarget α) (s1 s2 : Src α)
    (ht : ∀ f, t ≠ .bundle f) (hb : s1.base = s2.base) :
    (dstOf tgt t s1 = dstOf tgt t s2 → s1 = s2) ∧ (mapOf tgt t m s1 = mapOf tgt t m s2 → s1 = s2) := by
  obtain ⟨b1, d1, st1⟩ := s1
  obtain ⟨b2, d2, st2⟩ := s2
  simp only at hb
  subst hb
  cases t with
  | bundle f => exact absurd rfl (ht f)
  | source =>
    constructor
    · intro h
      simp only [dstOf, Out.mk.injEq, List.append_cancel_left_eq, and_true] at h
      simp [h.1, h.2]
    · intro h
      cases m <;>
        simp only [mapOf, dstOf, Out.mk.injEq, List.append_cancel_left_eq, and_true] at h <;>
        simp [h.1, h.2]
  | directory p =>
    constructor
    · intro h
      simp only [dstOf, Out.mk.injEq, List.append_cancel_left_eq, and_true] at h
      simp [h.1, h.2]
    · intro h
      cases m <;>
        simp only [mapOf, dstOf, Out.mk.injEq, List.append_cancel_left_eq, and_true] at h <;>
        simp [h.1, h.2]

example : (∀ f, (Target.directory [7] : Target Nat) ≠ .bundle f) := by intro f h; cases h

/-- Dependencies and `$std`: `dependencies/<name>/rel` is injective in (name, rel); distinct lock
    names (C31 `names_distinct`) therefore give distinct outputs. -/
theorem deps_injective (deps n1 n2 : α) (d1 d2 : List α) (s1 s2 : α) :
    (depDst deps n1 d1 s1 = depDst deps n2 d2 s2 → n1 = n2 ∧ d1 = d2 ∧ s1 = s2) ∧
    (depMap deps n1 d1 s1 = depMap deps n2 d2 s2 → n1 = n2 ∧ d1 = d2 ∧ s1 = s2) := by
  constructor <;>
  · intro h
    simp only [depDst, depMap, Out.mk.injEq, List.cons.injEq, true_and, and_true] at h
    exact ⟨h.1.1, h.1.2, h.2⟩

/-- T2a (DESIGN §5 #5): with a `bundle` target two sources with the same file stem get the same
    `dst` (and `map`), whatever their directories. -/
theorem bundle_collision (tgt : α) (f : List α) (m : MapTarget α) (s1 s2 : Src α) (h : s1.stem = s2.stem) :
    dstOf tgt (.bundle f) s1 = dstOf tgt (.bundle f) s2 ∧ mapOf tgt (.bundle f) m s1 = mapOf tgt (.bundle f) m s2 := by
  cases m <;> simp [dstOf, mapOf, h]

/-- T2b: with a `directory` target the source directory does not enter `dst`: the same relative
    path below two source directories gets the same `dst`. -/
theorem multi_source_collision (tgt : α) (p : List α) (b1 b2 d : List α) (st : α) :
    dstOf tgt (.directory p) ⟨b1, d, st⟩ = dstOf tgt (.directory p) ⟨b2, d, st⟩ := rfl

/-- The full-strength "no two source files share an output path" is false (`a/foo.veryl`,
    `b/foo.veryl` under a bundle target: both `target/foo.sv`). -/
theorem paths_injective_false :
    ¬ (∀ (t : Target Nat) (s1 s2 : Src Nat), s1.base = s2.base → dstOf 0 t s1 = dstOf 0 t s2 → s1 = s2) := by
  intro h
  have := h (.bundle [9]) ⟨[], [1], 5⟩ ⟨[], [2], 5⟩ rfl rfl
  exact absurd this (by decide)

/-! ### the filelist -/

/-- T5 (`complete_partial`): a file is listed iff it is one of the build's sources and owns a
    candidate symbol (a symbol of the type dag reachable from a symbol of the project). -/
theorem mem_filelist_iff (paths : List Nat) (cands topo : List Sym) (f : Nat) :
    f ∈ sortFilelist paths cands topo ↔ f ∈ paths ∧ ∃ s ∈ cands, s.file = some f := by
  rw [← usedFiles_mem]
  unfold sortFilelist
  simp only [List.mem_append]
  constructor
  · rintro (h | h)
    · exact topoFiles_sub _ _ _ h
    · have := (sortNat_perm _).mem_iff.mp h
      exact (List.mem_filter.mp this).1
  · intro h
    by_cases hc : f ∈ topoFiles topo (usedFiles paths cands)
    · exact Or.inl hc
    · refine Or.inr ((sortNat_perm _).mem_iff.mpr ?_)
      simp [h, hc]

/-- T4: no file is listed twice. -/
theorem listed_once (paths : List Nat) (cands topo : List Sym) : (sortFilelist paths cands topo).Nodup := by
  unfold sortFilelist
  simp only
  rw [List.nodup_append]
  refine ⟨topoFiles_nodup _ _, ?_, ?_⟩
  · exact (sortNat_perm _).nodup_iff.mpr ((usedFiles_nodup paths cands).filter _)
  · intro x hx y hy hxy
    subst hxy
    have := (sortNat_perm _).mem_iff.mp hy
    simp only [List.contains_eq_mem, List.mem_filter, Bool.not_eq_eq_eq_not, Bool.not_true,
      decide_eq_false_iff_not] at this
    exact this.2 hx

/-- T5 full strength ("every emitted file is listed") is false: an emitted file without a type-dag
    symbol (comment-only, proto-only) is not listed (DESIGN §5 #6). -/
theorem complete_false : ¬ (∀ (paths : List Nat) (cands topo : List Sym), ∀ f ∈ paths, f ∈ sortFilelist paths cands topo) := by
  intro h
  have := h [0, 1] [⟨0, some 0, true⟩] [⟨0, some 0, true⟩] 1 (by decide)
  exact absurd this (by decide)

/-- T3 (`filelist_order_partial`): let `b` reference `a` (edge `a → b`, so `a` precedes `b` in the
    topological order `topo = t1 ++ a :: t2 ++ b :: t3`), both components of listed files
    `fa ≠ fb`. If `b` is the first component of its file in the topological order — in particular
    if every file defines a single module/interface/package — then `fa` is listed before `fb`. -/
theorem filelist_order_partial (paths : List Nat) (cands topo t1 t2 t3 : List Sym) (a b : Sym) (fa fb : Nat)
    (htopo : topo = t1 ++ a :: t2 ++ b :: t3)
    (ha : a.comp = true ∧ a.file = some fa) (hb : b.comp = true ∧ b.file = some fb) (hne : fa ≠ fb)
    (hua : fa ∈ usedFiles paths cands) (hub : fb ∈ usedFiles paths cands)
    (hfirst : ∀ s ∈ t1 ++ a :: t2, ¬ (s.comp = true ∧ s.file = some fb)) :
    Before (sortFilelist paths cands topo) fa fb := by
  unfold sortFilelist
  simp only
  apply before_append_right
  subst htopo
  have hno1 : ∀ s ∈ t1, ¬ (s.comp = true ∧ s.file = some fb) := fun s hs => hfirst s (List.mem_append_left _ hs)
  have hno2 : ∀ s ∈ t2, ¬ (s.comp = true ∧ s.file = some fb) :=
    fun s hs => hfirst s (List.mem_append_right _ (List.mem_cons_of_mem _ hs))
  have e : t1 ++ a :: t2 ++ b :: t3 = t1 ++ (a :: (t2 ++ b :: t3)) := by simp
  rw [e]
  obtain ⟨pre1, used1, h1, hb1, hall1⟩ := topoFiles_skip fb t1 (a :: (t2 ++ b :: t3)) _ hub hno1
  rw [h1]
  by_cases hm : fa ∈ used1
  · -- `fa` is emitted at `a`
    rw [topoFiles_emit _ ha.1 ha.2 hm]
    have hb1' : fb ∈ used1.filter (· ≠ fa) := by simp [hb1, Ne.symm hne]
    obtain ⟨pre2, used2, h2, hb2, _⟩ := topoFiles_skip fb t2 (b :: t3) _ hb1' hno2
    rw [h2, topoFiles_emit _ hb.1 hb.2 hb2]
    exact ⟨pre1, pre2, topoFiles t3 (used2.filter (· ≠ fb)), by simp⟩
  · -- `fa` was emitted before `a` (an earlier component of the same file)
    have hfa : fa ∈ pre1 := (hall1 fa hua).resolve_left hm
    obtain ⟨p, q, hpq⟩ := List.append_of_mem hfa
    rw [topoFiles_pass _ (fun g _ hf hg => by rw [ha.2] at hf; cases hf; exact hm hg)]
    obtain ⟨pre2, used2, h2, hb2, _⟩ := topoFiles_skip fb t2 (b :: t3) _ hb1 hno2
    rw [h2, topoFiles_emit _ hb.1 hb.2 hb2, hpq]
    exact ⟨p, q ++ pre2, topoFiles t3 (used2.filter (· ≠ fb)), by simp⟩

/-- Non-vacuity of T3: `P` (file 0) ← `M` (file 1), one component per file. -/
example : Before (sortFilelist [0, 1] [⟨1, some 0, true⟩, ⟨2, some 1, true⟩] [⟨1, some 0, true⟩, ⟨2, some 1, true⟩]) 0 1 :=
  filelist_order_partial [0, 1] _ _ [] [] [] ⟨1, some 0, true⟩ ⟨2, some 1, true⟩ 0 1 rfl ⟨rfl, rfl⟩ ⟨rfl, rfl⟩ (by decide)
    (by decide) (by decide) (by decide)

/-- A file with two components: `A1` (file 1) is independent, `A2` (file 1) references `B`
    (file 0). `[A1, B, A2]` is a topological order, the filelist is `[1, 0]`. -/
def orderWitnessTopo : List Sym := [⟨1, some 1, true⟩, ⟨2, some 0, true⟩, ⟨3, some 1, true⟩]

/-- T3 full strength ("every file comes after the files it references") is false of
    `sort_filelist`: a file is placed at its *first* component, so a later component of the same
    file can reference a file that is listed after it, although the file references are acyclic. -/
theorem filelist_order_false :
    ¬ (∀ (paths : List Nat) (cands topo t1 t2 t3 : List Sym) (a b : Sym) (fa fb : Nat),
        topo = t1 ++ a :: t2 ++ b :: t3 → (a.comp = true ∧ a.file = some fa) → (b.comp = true ∧ b.file = some fb) →
        fa ≠ fb → fa ∈ usedFiles paths cands → fb ∈ usedFiles paths cands →
        Before (sortFilelist paths cands topo) fa fb) := by
  intro h
  have key := h [0, 1] orderWitnessTopo orderWitnessTopo [⟨1, some 1, true⟩] [] [] ⟨2, some 0, true⟩ ⟨3, some 1, true⟩ 0 1
    rfl ⟨rfl, rfl⟩ ⟨rfl, rfl⟩ (by decide) (by decide) (by decide)
  have hv : sortFilelist [0, 1] orderWitnessTopo orderWitnessTopo = [1, 0] := by decide
  rw [hv] at key
  obtain ⟨l1, l2, l3, hl⟩ := key
  cases l1 with
  | nil => simp at hl
  | cons x l1 =>
    have := congrArg List.length hl
    simp at this
    omega

end VerylModel.Props.C25
