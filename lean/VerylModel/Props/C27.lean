import VerylModel.Lemmas.CheckModes
/-!
C27 — "`veryl fmt --check` passes exactly when `veryl fmt` would leave every file unchanged.
`veryl build --check` passes exactly when `veryl build` would leave every emitted file, including
bundles, unchanged."

Statements about M-CheckModes. The `fmt` half holds at full strength. The `build` half is FALSE of
the code as modelled (DESIGN §5 #7): `--check` never looks at source maps, at the filelist, at
`$std` outputs, and reads a missing output as the empty string; the negation is proved on four
closed witnesses next to `build_check_partial` / `build_unchanged_iff`, which say exactly what
each mode decides.
-/
namespace VerylModel.Props.C27
open VerylModel.CheckModes

/-! ### fmt -/

/-- T1 `fmt_check_iff`: `veryl fmt --check` passes iff `veryl fmt` finishes without error and
    writes no file — including the early exit of both modes at the first file that does not parse
    and repeated paths. -/
theorem fmt_check_iff (format : Content → Option Content) (paths : List Path) (fs : FS) :
    (fmtRun format true paths fs).outcome = .done true ↔
      ((fmtRun format false paths fs).outcome = .done true ∧ (fmtRun format false paths fs).writes = 0) := by
  have := fmtLoop_iff format paths fs true 0 0
  simpa [fmtRun] using this

/-- Check mode never modifies a file. -/
theorem fmt_check_pure (format : Content → Option Content) :
    ∀ (ps : List Path) (fs : FS) (b : Bool) (w : Nat),
      (fmtLoop format true ps fs b w).fs = fs ∧ (fmtLoop format true ps fs b w).writes = w
  | [], _, _, _ => ⟨rfl, rfl⟩
  | p :: ps, fs, b, w => by
    unfold fmtLoop
    split
    · exact ⟨rfl, rfl⟩
    · split
      · exact ⟨rfl, rfl⟩
      · split
        · exact fmt_check_pure format ps fs b w
        · simp only [if_true]
          exact fmt_check_pure format ps fs false w

example : (fmtRun (fun c => if c = [9] then none else some (c.filter (· ≠ 0))) true [1, 2] (fun p => if p = 1 then some [1, 2] else if p = 2 then some [3] else none)).outcome = .done true := by
  decide

/-! ### build -/

/-- What `veryl build` leaves unchanged (`build_unchanged_iff`): it writes nothing iff every
    `.sv`, every enabled `.sv.map` — `$std` outputs included — and the filelist are current; with
    a bundle target iff the bundle and the filelist are current. -/
theorem build_unchanged_iff (c : BCfg) (files : List BFile) (fs : FS) :
    (buildWrite c files fs).2 = 0 ↔
      match c.bundle with
      | none => (∀ f ∈ files, fs f.dst = some f.text ∧ (c.maps = true → fs f.map = some f.mapText)) ∧
          fs c.filelist = some c.listText
      | some b => fs b = some c.bundleText ∧ fs c.filelist = some c.listText := by
  unfold buildWrite
  cases hb : c.bundle with
  | none =>
    simp only
    have hge := writeFiles_ge c.maps files fs 0
    constructor
    · intro h
      have hz : (writeFiles c.maps files fs 0).2 = 0 := by
        have := count_ge (writeIfChanged (writeFiles c.maps files fs 0).1 c.filelist c.listText).2 (writeFiles c.maps files fs 0).2
        omega
      have hfs := writeFiles_zero_fs c.maps files fs 0 hz
      refine ⟨(writeFiles_zero_iff c.maps files fs 0).mp hz, ?_⟩
      rw [hz, hfs] at h
      by_cases hl : fs c.filelist = some c.listText
      · exact hl
      · rw [writeIfChanged_ne hl] at h
        simp [count] at h
    · intro ⟨h1, h2⟩
      have hz := (writeFiles_zero_iff c.maps files fs 0).mpr h1
      have hfs := writeFiles_zero_fs c.maps files fs 0 hz
      rw [hz, hfs, writeIfChanged_eq h2]
      simp [count]
  | some b =>
    simp only
    constructor
    · intro h
      by_cases h1 : fs b = some c.bundleText
      · rw [writeIfChanged_eq h1] at h
        by_cases h2 : fs c.filelist = some c.listText
        · exact ⟨h1, h2⟩
        · rw [writeIfChanged_ne h2] at h
          simp [count] at h
      · rw [writeIfChanged_ne h1] at h
        have := count_ge (writeIfChanged (fs.write b c.bundleText) c.filelist c.listText).2 (count true 0)
        simp only [count, if_true] at this h
        omega
    · intro ⟨h1, h2⟩
      rw [writeIfChanged_eq h1, writeIfChanged_eq h2]
      simp [count]

/-- What `veryl build --check` decides (`build_check_partial`): it passes iff every non-`$std`
    `.sv` output reads (absent = empty) as the emitted text; with a bundle target iff the bundle
    does. Source maps, the filelist and `$std` outputs do not enter. (`$std` outputs live under
    `dependencies/std`, apart from the project's outputs: `StdDisjoint`.) -/
theorem build_check_partial (c : BCfg) (files : List BFile) (fs : FS) (hd : StdDisjoint files) :
    buildCheck c files fs = true ↔
      match c.bundle with
      | none => ∀ f ∈ files, f.std = false → readOrEmpty fs f.dst = f.text
      | some b => readOrEmpty fs b = c.bundleText := by
  unfold buildCheck buildCheckRun
  cases c.bundle with
  | none =>
    simp only
    rw [checkFiles_verdict c.maps fs files fs true 0 hd (fun _ _ _ => rfl)]
    simp only [Bool.true_and, List.all_eq_true, Bool.or_eq_true, beq_iff_eq]
    constructor
    · intro h f hf hs
      rcases h f hf with h | h
      · rw [hs] at h; cases h
      · exact h
    · intro h f hf
      cases hs : f.std with
      | true => exact Or.inl rfl
      | false => exact Or.inr (h f hf hs)
  | some b => simp

/-- One direction holds: if `veryl build` would write nothing, `veryl build --check` passes (and
    writes nothing either). -/
theorem build_unchanged_imp_check (c : BCfg) (files : List BFile) (fs : FS)
    (h : (buildWrite c files fs).2 = 0) : buildCheckRun c files fs = (true, fs, 0) := by
  have := (build_unchanged_iff c files fs).mp h
  unfold buildCheckRun
  cases hb : c.bundle with
  | none =>
    rw [hb] at this
    simp only at this ⊢
    exact checkFiles_current c.maps files fs true 0 this.1
  | some b =>
    rw [hb] at this
    simp only at this ⊢
    simp [readOrEmpty, this.1]

/-- Check mode is read-only when the build has no `$std` file (`exclude_std = true`)… -/
theorem build_check_pure_nostd (c : BCfg) (files : List BFile) (fs : FS) (h : ∀ f ∈ files, f.std = false) :
    (buildCheckRun c files fs).2 = (fs, 0) := by
  unfold buildCheckRun
  cases c.bundle with
  | none => exact checkFiles_nostd c.maps files fs true 0 h
  | some b => rfl

/-! #### the full-strength statement is false -/

def BuildCheckIff : Prop :=
  ∀ (c : BCfg) (files : List BFile) (fs : FS), buildCheck c files fs = true ↔ (buildWrite c files fs).2 = 0

/-- One file `a`: `a.sv` = path 1, `a.sv.map` = path 2, filelist = path 3. -/
def cfg1 : BCfg := { bundle := none, maps := true, filelist := 3, listText := [1], bundleText := [] }
def fileA (std : Bool) (text : Content) : BFile := { dst := 1, map := 2, std := std, text := text, mapText := [8] }

/-- #7a: `a.sv.map` deleted — `--check` passes, `build` recreates the map. -/
theorem C27_missing_map_witness :
    let fs : FS := fun p => if p = 1 then some [7] else if p = 3 then some [1] else none
    buildCheck cfg1 [fileA false [7]] fs = true ∧ (buildWrite cfg1 [fileA false [7]] fs).2 = 1 := by decide

/-- #7b: filelist deleted or stale — `--check` passes, `build` rewrites it. -/
theorem C27_filelist_witness :
    let fs : FS := fun p => if p = 1 then some [7] else if p = 2 then some [8] else none
    buildCheck cfg1 [fileA false [7]] fs = true ∧ (buildWrite cfg1 [fileA false [7]] fs).2 = 1 := by decide

/-- #7c: a `$std` output deleted — `--check` passes although `build` would recreate it; …and
    `--check` itself recreates it (…but not read-only otherwise: one write in check mode). -/
theorem C27_std_witness :
    let fs : FS := fun p => if p = 2 then some [8] else if p = 3 then some [1] else none
    buildCheck cfg1 [fileA true [7]] fs = true ∧ (buildWrite cfg1 [fileA true [7]] fs).2 = 1 ∧
      (buildCheckRun cfg1 [fileA true [7]] fs).2.2 = 1 := by decide

/-- A missing output is read as the empty string: for a file whose emitted text is empty `--check`
    passes although `build` creates the (empty) file. (Not reproduced on the real emitter, which
    always ends its output with a newline.) -/
theorem C27_missing_empty_witness :
    let fs : FS := fun p => if p = 2 then some [8] else if p = 3 then some [1] else none
    buildCheck cfg1 [fileA false []] fs = true ∧ (buildWrite cfg1 [fileA false []] fs).2 = 1 := by decide

/-- T2 `build_check_iff` is FALSE of the code as modelled. -/
theorem build_check_iff_false : ¬ BuildCheckIff := by
  intro h
  have w := C27_missing_map_witness
  simp only at w
  have := (h cfg1 [fileA false [7]] _).mp w.1
  rw [w.2] at this
  cases this

example : (buildWrite cfg1 [fileA false [7]] (fun p => if p = 1 then some [7] else if p = 2 then some [8] else if p = 3 then some [1] else none)).2 = 0 := by
  decide

example : StdDisjoint [fileA false [7], { dst := 5, map := 6, std := true, text := [1], mapText := [2] }] := by
  intro f hf hs g hg hgs
  simp only [List.mem_cons, List.not_mem_nil, or_false] at hf hg
  rcases hf with rfl | rfl <;> rcases hg with rfl | rfl <;> simp_all [fileA]

end VerylModel.Props.C27
