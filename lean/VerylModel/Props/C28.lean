import VerylModel.Lemmas.Pretty
/-!
C28 — the pretty printer keeps content and records true anchors.
Theorems about M-Pretty (`Core/Pretty.lean`), for ALL documents and ALL render options.
-/
namespace VerylModel.Props.C28
open VerylModel.Pretty

/-! ## T0 — both work-list loops terminate -/

/-- T0. Every iteration of the loop of `render_inner` strictly decreases the number of `Doc`
    nodes on the stack, and every iteration of the loop of `fits_flat` strictly decreases the number
    of nodes on its work list. (`renderFrames` and `fitsWork` are total functions whose
    well-founded recursion is justified by exactly these two facts.) -/
theorem render_terminates :
    (∀ (o : Opts) (f : Frame) (fs : List Frame) (s : St),
        stackSize ((stepFrame o f fs s).1 ++ fs) < stackSize (f :: fs))
    ∧ (∀ (x : Doc) (i : Bool) (b b' : Int) (push rest : List (Doc × Bool)),
        fitsStep x i b = .cont push b' → workSize (push ++ rest) < workSize ((x, i) :: rest)) := by
  refine ⟨fun o f fs s => ?_, fun x i b b' push rest h => ?_⟩
  · have := stepFrame_size o f fs s
    simp only [stackSize_append, stackSize]; omega
  · have := fitsStep_size x i b b' push h
    simp only [workSize_append, workSize]; omega

/-! ## T1 — content in document order -/

/-- T1. Dropping whitespace, the rendered text is the concatenation, in document order, of every
    `Text`/`Anchored`/comment text, the separators of the `Line`s laid out flat and the `IfBreak`
    texts of the groups laid out broken (`Content`): nothing is lost, duplicated or reordered.
    Includes the `DedentHardline` truncation and `strip_trailing_whitespace`. -/
theorem content_in_order (o : Opts) (d : Doc) (hnl : NlWs o) :
    ∃ c, Content .brk d c ∧ nonws (render o d).text = nonws c := by
  obtain ⟨c, hc, he⟩ := renderFrames_content o hnl [initFrame d] {}
  obtain ⟨c₁, c₂, rfl, h₁, h₂⟩ := hc
  simp only [ContentFrames] at h₂
  subst h₂
  refine ⟨c₁, by simpa [initFrame] using h₁, ?_⟩
  have he' : nonws (renderState o d).out = nonws c₁ := by
    simpa [St.nw, St.out, renderState, nonws] using he
  simp only [render]
  split
  · rw [strip_nonws, he']
  · exact he'

example : NlWs { maxWidth := 80, indentWidth := 4, newline := ['\r', '\n'], strip := true } := by
  intro c hc; simp at hc; rcases hc with rfl | rfl <;> decide

/-- The truncation and the stripping remove only `' '` and `'\t'`: every other char of the raw
    output survives, in order. -/
theorem strip_removes_only_blanks (o : Opts) (d : Doc) :
    (render o d).text.filter (fun c => !isTrailWs c)
      = (renderState o d).out.filter (fun c => !isTrailWs c) := by
  simp only [render]
  split
  · exact strip_keeps _ _
  · rfl

/-! ## T2 — break-only material appears exactly in break mode -/

/-- T2. What one `render_frame` call does with break-only / flat-only nodes, and how modes are
    inherited: `IfBreak`/`IfBreakPad` write iff the frame's mode is `Break`, `IfFlatPad` iff `Flat`;
    a `Group` reached in `Flat` mode stays flat, otherwise its mode is the verdict of `fits_flat`;
    `ForceFlat` forces `Flat`; `Concat` and `Indent` hand their own mode to their children. -/
theorem break_only_iff_broken (o : Opts) (i : Int) (m : Mode) (fs : List Frame) (s : St) :
    (∀ t, stepFrame o ⟨i, m, .ifBreak t⟩ fs s
        = ([], if m = .brk then writeFlat (flushPendingWith s i o) t else s))
    ∧ (∀ w, stepFrame o ⟨i, m, .ifBreakPad w⟩ fs s
        = ([], if m = .brk ∧ w > 0 then writeSpaces (flushPendingWith s i o) w else s))
    ∧ (∀ w, stepFrame o ⟨i, m, .ifFlatPad w⟩ fs s
        = ([], if m = .flat ∧ w > 0 then writeSpaces (flushPendingWith s i o) w else s))
    ∧ (∀ d, stepFrame o ⟨i, .flat, .group d⟩ fs s = ([⟨i, .flat, d⟩], s))
    ∧ (∀ d, stepFrame o ⟨i, .brk, .group d⟩ fs s
        = ([⟨i, if fitsFlat d fs ((o.maxWidth - s.col : Nat) : Int) then .flat else .brk, d⟩], s))
    ∧ (∀ d, stepFrame o ⟨i, m, .forceFlat d⟩ fs s = ([⟨i, .flat, d⟩], s))
    ∧ (∀ ds, stepFrame o ⟨i, m, .concat ds⟩ fs s = (ds.map (fun d => ⟨i, m, d⟩), s))
    ∧ (∀ off d, stepFrame o ⟨i, m, .indent off d⟩ fs s = ([⟨i + off, m, d⟩], s)) := by
  refine ⟨fun t => ?_, fun w => ?_, fun w => ?_, fun d => ?_, fun d => ?_, fun d => ?_, fun ds => ?_,
    fun off d => ?_⟩ <;> simp only [stepFrame] <;> (try split) <;> simp_all

/-- T2 (consequence, on the output): an `IfBreak` text shows up in the non-whitespace stream
    exactly in break mode — the two possible contents of the node. -/
theorem ifBreak_content (t c : List Char) :
    (Content .brk (.ifBreak t) c ↔ c = t) ∧ (Content .flat (.ifBreak t) c ↔ c = []) := by
  simp [Content]

/-! ## T3 — anchors -/

/-- The statement of T3: every recorded anchor gives the 1-based line and column (in chars) at
    which its text stands in the rendered text. -/
def AnchorTrue (text : List Char) (a : Anchor) : Prop :=
  ∃ pre post, text = pre ++ a.text ++ post ∧ a.dstLine = 1 + countNl pre ∧ a.dstCol = 1 + lastLineLen pre

/-- Witness of the remaining anchor defect (found on real emitter output, e.g.
    testcases/veryl/42_sv_namespace.veryl): an anchor with an EMPTY text recorded after alignment
    padding which the following `DedentHardline` then truncates points past the end of its line. -/
def witnessOpts : Opts := { maxWidth := 80, indentWidth := 4, newline := ['\n'], strip := false }
def witnessDoc : Doc := .concat [.text ['x'], .pad 4, .anchored [] 1 1, .dedentHardline 1]

theorem blank_anchor_witness :
    render witnessOpts witnessDoc
      = { text := ['x', '\n'],
          anchors := [{ dstLine := 1, dstCol := 6, srcLine := 1, srcCol := 1, text := [] }] } := by
  simp [render, renderState, witnessOpts, witnessDoc, initFrame, renderFrames_cons, renderFrames_nil,
    stepFrame, emitAnchored, flushPendingWith, writeText, writeSpaces, dedentTruncate, emitBreak, countNl,
    St.out, St.anchors, spaces, padFor]

/-- T3 as stated in the property (`anchor_true`) is FALSE of the code: the anchor above reports
    column 6 of a line that is one char long (the padding before it was truncated after the anchor
    was recorded). -/
theorem anchor_true_false :
    ¬ (∀ (o : Opts) (d : Doc), NlOK o → ∀ a ∈ (render o d).anchors, AnchorTrue (render o d).text a) := by
  intro h
  have hn : NlOK witnessOpts := ⟨[], rfl, rfl⟩
  have := h witnessOpts witnessDoc hn
  rw [blank_anchor_witness] at this
  obtain ⟨pre, post, htext, _, hcol⟩ := this ⟨1, 6, 1, 1, []⟩ (by simp)
  simp only [List.append_nil] at htext hcol
  have hlen : pre.length ≤ 2 := by
    have := congrArg List.length htext
    simp at this; omega
  have : lastLineLen pre ≤ pre.length := by
    unfold lastLineLen
    have := (List.takeWhile_sublist (fun c : Char => c != '\n') (l := pre.reverse)).length_le
    simpa using this
  omega

/-- The defect that WAS in `render_comments` (repaired in /repo by the `fix:` commit that sets
    `col` to the length of the comment's last line): the old bookkeeping for a block comment whose
    text contains a newline. -/
def commentBodyOld (o : Opts) (padWidth : Nat) (s : St) (c : CommentDoc) : St :=
  let s := { s with rout := c.text.reverse ++ s.rout }
  let nls := countNl c.text
  if c.isLine then
    { s with rout := o.newline.reverse ++ s.rout, line := s.line + (nls + 1), col := 0,
             pending := some padWidth, swallow := true }
  else if nls > 0 then
    { s with line := s.line + nls, col := 0 }
  else
    { s with col := s.col + c.text.length }

def oldWitnessComment : CommentDoc :=
  { text := ['/', '*', '\n', 'a', 'b', '*', '/'], leadingNewlines := 0, isLine := false, srcLine := 0, srcCol := 0 }

/-- The old code broke the position invariant (`col` = chars since the last newline), which is why
    the next anchor on that line was reported `|last comment line|` columns too far left. -/
theorem old_multiline_comment_anchor_false :
    ¬ (∀ (o : Opts) (pw : Nat) (s : St) (c : CommentDoc), NlOK o → Pos s → Pos (commentBodyOld o pw s c)) := by
  intro h
  have := h witnessOpts 0 {} oldWitnessComment ⟨[], rfl, rfl⟩ (by simp [Pos, countNl, lastLen])
  simp [Pos, commentBodyOld, oldWitnessComment, countNl, lastLen] at this

/-- …and the repaired code keeps it (and the truth of the recorded anchors), for every comment. -/
theorem multiline_comment_pos_fixed (keep : List Char → Bool) (o : Opts) (hn : NlOK o) (pw : Nat) (s : St)
    (c : CommentDoc) (hp : Pos s) (ha : ATrue keep s) :
    Pos (commentBody o pw (commentAnchor s c) c) ∧ ATrue keep (commentBody o pw (commentAnchor s c) c) :=
  commentTail_pos o hn pw s c hp ha

/-- Decidable side condition of `anchor_true_partial` (see `anchorNodeOK` in Core/Pretty.lean):
    no `'\n'` inside `Line` separators and `IfBreak` texts (the renderer does not count them). -/
def AnchorFriendly (d : Doc) : Prop := d.all anchorNodeOK = true

/-- Core of T3: the invariant at the end of the loop, for the anchors selected by `keep`. -/
theorem anchor_true_core (keep : List Char → Bool) (o : Opts) (d : Doc) (hn : NlOK o) (hd : AnchorFriendly d)
    (hk : (∀ t, keep t = true → solid t = true) ∨ d.all (noTruncNode o) = true) :
    (renderState o d).line = 1 + countNl (renderState o d).out
    ∧ (renderState o d).col = lastLineLen (renderState o d).out
    ∧ ∀ a ∈ (render o d).anchors, keep a.text = true → AnchorTrue (renderState o d).out a := by
  have hfs : ∀ p : Doc → Bool, d.all p = true → FramesAll p [initFrame d] := by
    intro p hp f hf; simp only [List.mem_singleton] at hf; subst hf; exact hp
  obtain ⟨_, hp, ha⟩ := renderFrames_tinv (keep := keep) o hn [initFrame d] {} (hfs _ hd)
    (hk.imp id (hfs _)) init_tinv
  refine ⟨?_, ?_, ?_⟩
  · simpa [renderState, St.out, countNl_reverse] using hp.1
  · simpa [renderState, St.out, lastLineLen_eq] using hp.2
  · intro a hmem hs
    have hmem' : a ∈ (renderFrames o [initFrame d] {}).ranchors := by
      simpa [render, renderState, St.anchors] using hmem
    obtain ⟨post, pre, hr, hl, hc⟩ := ha a hmem' hs
    refine ⟨pre.reverse, post.reverse, ?_, by simpa [countNl_reverse] using hl,
      by simpa [lastLineLen_eq] using hc⟩
    simp [renderState, St.out, hr]

/-- T3 (what does hold, 1). For a well-formed newline string and an anchor-friendly document, at
    the end of the loop `current_line = 1 + #'\n'`, `col = chars since the last '\n'`, and every
    recorded anchor whose text is non-empty and does not end in a space gives exactly the line
    and column at which that text stands in the (unstripped) output. -/
theorem anchor_true_partial (o : Opts) (d : Doc) (hn : NlOK o) (hd : AnchorFriendly d) :
    (renderState o d).line = 1 + countNl (renderState o d).out
    ∧ (renderState o d).col = lastLineLen (renderState o d).out
    ∧ ∀ a ∈ (render o d).anchors, solid a.text = true → AnchorTrue (renderState o d).out a :=
  anchor_true_core solid o d hn hd (Or.inl fun _ h => h)

/-- T3 (what does hold, 2). If moreover no `DedentHardline` of the document can truncate
    (`level * indent_width = 0`), EVERY recorded anchor is true — blank ones included. Together
    with `anchor_true_false` this is exactly when T3 holds: the only way an anchor goes wrong
    is a truncation reaching the spaces right before (or at the end of) its text. -/
theorem anchor_true_no_truncation (o : Opts) (d : Doc) (hn : NlOK o) (hd : AnchorFriendly d)
    (ht : d.all (noTruncNode o) = true) :
    ∀ a ∈ (render o d).anchors, AnchorTrue (renderState o d).out a :=
  fun a ha => (anchor_true_core (fun _ => true) o d hn hd (Or.inr ht)).2.2 a ha rfl

/-- With `strip_trailing_whitespace` off (the emitter's setting) the rendered text IS that output. -/
theorem render_text_unstripped (o : Opts) (d : Doc) (h : o.strip = false) :
    (render o d).text = (renderState o d).out := by
  simp [render, h]

example : NlOK { maxWidth := 80, indentWidth := 4, newline := ['\r', '\n'], strip := false } :=
  ⟨['\r'], rfl, by decide⟩
def friendlyExample : Doc :=
  .concat [.text ['a'], .line [' '],
           .comments [{ text := ['/', '/'], leadingNewlines := 1, isLine := true, srcLine := 1, srcCol := 1 }],
           .anchored ['x'] 2 1]
example : AnchorFriendly friendlyExample := by unfold AnchorFriendly friendlyExample; decide
example : solid ['x'] = true := by decide
example : Doc.all (noTruncNode witnessOpts) friendlyExample = true := by decide

/-! ## Anchors are sorted -/

/-- `anchors_sorted`: for ALL documents and options (defects included) the anchors are emitted in
    non-decreasing (line, column) order. -/
theorem anchors_sorted (o : Opts) (d : Doc) :
    (render o d).anchors.Pairwise (fun a b => posLe a.dstLine a.dstCol b.dstLine b.dstCol) := by
  have h := (renderFrames_good o [initFrame d] {} init_good).2.1
  simpa [render, renderState, St.anchors, List.pairwise_reverse] using h

/-! ## Layout options do not change the content -/

/-- Decidable side condition: `Line` separators and `IfBreak` texts are pure whitespace. -/
def LayoutNeutral (d : Doc) : Prop := d.all layoutNeutralNode = true

/-- `nonws_opts_invariant`: for documents without non-blank `IfBreak` texts / `Line` separators,
    the non-whitespace stream of the rendered text does not depend on `max_width`,
    `indent_width`, `newline` or the strip flag. -/
theorem nonws_opts_invariant (d : Doc) (hd : LayoutNeutral d) (o o' : Opts) (h : NlWs o) (h' : NlWs o') :
    nonws (render o d).text = nonws (render o' d).text := by
  obtain ⟨c, hc, he⟩ := content_in_order o d h
  obtain ⟨c', hc', he'⟩ := content_in_order o' d h'
  rw [he, he', content_det d hd _ _ c c' hc hc']

example : LayoutNeutral (.group (.concat [.text ['a'], .line [' '], .ifBreak [], .text ['b']])) := by
  unfold LayoutNeutral; decide

/-! ## Changing `newline` -/

/-- `newline_only`: if no text of the document contains `'\n'`, rendering with another newline
    string `nl` (non-empty, not ending in a space — e.g. "\r\n") instead of "\n" replaces exactly
    the line terminators of the output and leaves every anchor unchanged. -/
theorem newline_only (o : Opts) (d : Doc) (nl : List Char) (ho : o.newline = ['\n'])
    (hnl : ∃ c tl, nl.reverse = c :: tl ∧ c ≠ ' ') (hd : d.all nlFreeNode = true) :
    (renderState { o with newline := nl } d).out = expandNl nl (renderState o d).out
    ∧ (render { o with newline := nl } d).anchors = (render o d).anchors := by
  have hsim : NlSim o { o with newline := nl } nl := ⟨ho, rfl, hnl⟩
  have hfs : FramesAll nlFreeNode [initFrame d] := by
    intro f hf; simp only [List.mem_singleton] at hf; subst hf; exact hd
  have h := X_renderFrames hsim [initFrame d] {} hfs
  have hx : X nl ({} : St) = {} := rfl
  rw [hx] at h
  refine ⟨?_, ?_⟩
  · simp only [renderState, St.out, h, X, expR_reverse]
  · simp only [render, renderState, St.anchors, h, X]

example : ∃ c tl, ['\r', '\n'].reverse = c :: tl ∧ c ≠ ' ' := ⟨'\n', ['\r'], rfl, by decide⟩
example : Doc.all nlFreeNode (.concat [.text ['a'], .line [' '], .anchored ['b'] 1 1, .hardline]) = true := by
  decide

/-- `newline_only` for the final text including `strip_trailing_whitespace`, LF → CRLF: if no
    text of the document contains `'\n'` and the raw output contains no `'\r'`, then rendering with
    "\r\n" gives exactly the "\n" rendering with every "\n" replaced by "\r\n". (Partial: stated for
    the two newline strings the tools use; the hypothesis on `'\r'` is on the output.) -/
theorem newline_only_stripped_partial (o : Opts) (d : Doc) (ho : o.newline = ['\n'])
    (hd : d.all nlFreeNode = true) (hcr : '\r' ∉ (renderState o d).out) :
    (render { o with newline := ['\r', '\n'] } d).text = expandNl ['\r', '\n'] (render o d).text := by
  have h := (newline_only o d ['\r', '\n'] ho ⟨'\n', ['\r'], rfl, by decide⟩ hd).1
  simp only [render, h, ho]
  cases o.strip
  · simp
  · simp only [if_true]
    exact strip_crlf _ hcr

/-! ## `strip_trailing_whitespace` -/

/-- `only_trailing_ws_trimmed`: for a non-empty newline string the result is the input with blanks
    removed only immediately before an occurrence of the newline string or at the very end — and
    there all of them (`Trimmed`); for any newline string, only `' '`/`'\t'` are removed and the
    order of the other chars is kept. -/
theorem only_trailing_ws_trimmed (s nl : List Char) :
    (nl ≠ [] → Trimmed nl s (stripTrailingWhitespace s nl))
    ∧ (stripTrailingWhitespace s nl).filter (fun c => !isTrailWs c) = s.filter (fun c => !isTrailWs c) :=
  ⟨strip_trimmed s nl, strip_keeps s nl⟩

/-! ## T4 — `fits_flat` -/

/-- T4 (what holds). A group met in break mode and laid out flat can be laid out flat (no hard
    line, no line comment inside) and its flat width fits into what is left of the line as the
    renderer measures it: `max_width - col`. -/
theorem fits_flat_sound_partial (o : Opts) (i : Int) (fs : List Frame) (s : St) (d : Doc)
    (h : (stepFrame o ⟨i, .brk, .group d⟩ fs s).1 = [⟨i, .flat, d⟩]) :
    ∃ w, flatWidth d = some w ∧ w ≤ o.maxWidth - s.col := by
  simp only [stepFrame] at h
  by_cases hf : fitsFlat d fs ((o.maxWidth - s.col : Nat) : Int) = true
  · unfold fitsFlat at hf
    split at hf
    · cases hf
    · obtain ⟨w, hw, hle, _⟩ := fitsWork_start_sound d _ _ hf
      exact ⟨w, hw, by omega⟩
  · simp [hf] at h

/-- T4 as stated in the design ("a group chosen Flat does not exceed `max_width`") is FALSE: `col`
    is still 0 while an indent is pending, so a group that starts a line is measured without its
    indentation. Here `max_width = 10`, the group is laid out flat and the line is 13 wide, although
    breaking it would have fitted. -/
theorem fits_flat_sound_false :
    (render { maxWidth := 10, indentWidth := 4, newline := ['\n'], strip := false }
      (.indent 1 (.concat [.hardline,
        .group (.concat [.text ['a', 'a', 'a', 'a'], .line [' '], .text ['b', 'b', 'b', 'b']])]))).text
      = ['\n', ' ', ' ', ' ', ' ', 'a', 'a', 'a', 'a', ' ', 'b', 'b', 'b', 'b'] := by
  simp [render, renderState, initFrame, renderFrames_cons, renderFrames_nil, stepFrame, fitsFlat,
    fitsWork_cons, fitsWork_nil, fitsStep, flushPendingWith, flushPending, writeText, writeFlat,
    emitBreak, countNl, St.out, spaces, padFor]

end VerylModel.Props.C28
